(* Proofs/BuiltinsKit.v — tools for the evaluator-level statements about the built-ins (C02, second half):
   (1) the exact convention on the [xsec] argument of eval_expr: it is true exactly at the text under fn::secret;
   (2) the "state predicate kept by the bodies" toolkit of RefSemMemo.v, with that exact convention handed to the
       callbacks (RefSemMemo's [secok] only says "false, or the expression is a string literal");
   (3) computations that return a fixed value and leave the memo table alone (the tails of the built-ins);
   (4) export needs no more fuel than the depth of what it returns. *)
From Verif Require Import Base.Bytes Model.Chain Model.GoText Model.Envelope Model.Eval
  Proofs.EvalTotalBase Proofs.EvalTotalInv Proofs.EvalTotalOrder Proofs.EvalTotalSyntax Proofs.EvalTotalFail
  Proofs.EvalTotalRecover Proofs.EvalTotalBound Proofs.ChainAlgebraExport Proofs.RefSemMemo.
From Coq Require Import Lia.

(* ------------------------------------------------------------------------------------------------ *)
(* 1. where eval_expr is called with xsec = true                                                      *)
(* ------------------------------------------------------------------------------------------------ *)
Definition issec (x : expr) : bool := match x with ESecretPlain _ => true | _ => false end.

(* the identity path q sits directly under an fn::secret *)
Definition psec (E : ectx) (q : list idstep) : bool :=
  match sub_at (root_of E) (removelast q) with Some x => issec x | None => false end.

Lemma psec_root E : psec E [] = false.
Proof. reflexivity. Qed.

Lemma psec_child E id x stp : at_id E id x -> psec E (snd id ++ [stp]) = issec x.
Proof. intros [_ Hs]. unfold psec. rewrite removelast_last, Hs. reflexivity. Qed.

Lemma psec_true_str E id x : at_id E id x -> psec E (snd id) = true -> exists s, x = EStr s.
Proof.
  intros [_ Hs]. destruct id as [n q]. cbn [snd] in *. induction q as [|stp q' _] using rev_ind; [discriminate|].
  unfold psec. rewrite removelast_last. rewrite sub_at_app in Hs.
  destruct (sub_at (root_of E) q') as [y|]; [|discriminate].
  destruct y; cbn [issec]; try discriminate. intros _. cbn [child] in Hs.
  destruct stp as [k|[|i]]; try discriminate. injection Hs as <-. eauto.
Qed.

(* ------------------------------------------------------------------------------------------------ *)
(* 2. the keeps toolkit with the exact convention                                                     *)
(* ------------------------------------------------------------------------------------------------ *)
Section KEEP2.
Variable W : world.
Variable I : st -> Prop.
Hypothesis I_add_err : forall n s, I s -> I (snd (add_err n s)).
Hypothesis I_emit : forall e s, I s -> I (snd (emit e s)).
Hypothesis I_call : forall s, I s -> I (snd (call W s)).
Hypothesis I_oof : forall s, I s -> I (snd (out_of_fuel s)).

Notation keeps := (keeps I).

Ltac k_step :=
  first
  [ assumption
  | apply keeps_ret | apply keeps_err; assumption | apply keeps_add_err; assumption | apply keeps_emit; assumption
  | apply keeps_call with (W := W); assumption | apply keeps_oof; assumption
  | apply keeps_bind; [ | intro ]
  | match goal with |- keeps (match ?x with _ => _ end) => destruct x eqn:? end
  | progress cbv beta zeta ].
Ltac k_tac := repeat k_step.

Lemma walk_body_keeps2 ee wk rx rsec rbase rid accs :
  keeps (ee rx rsec rbase rid) ->
  (forall stp y c accs', child rx stp = Some y -> c = xbstep stp rbase ->
     keeps (wk y (issec rx) c (fst rid, snd rid ++ [stp]) accs')) ->
  keeps (walk_body ee wk rx rsec rbase rid accs).
Proof.
  intros Hee Hwk. unfold walk_body. destruct accs as [|a rest]; [exact Hee|].
  destruct rx; try solve [k_tac].
  - destruct (array_index a (Z.of_nat (length l))) as [i|] eqn:Ei; [|k_tac].
    apply array_index_lt in Ei. apply (Hwk (IIdx i)); [|reflexivity].
    cbn [child]. rewrite (nth_error_nth' l EMissing Ei). reflexivity.
  - destruct (object_key a) as [k|]; [|k_tac].
    destruct (find_entry k l 0%nat) as [[j px]|] eqn:Ef; [|k_tac].
    apply (Hwk (IKey k)); [|reflexivity].
    cbn [child]. rewrite <- (find_entry_alookup k l 0%nat), Ef. reflexivity.
  - apply (Hwk (IIdx 0)); reflexivity.
Qed.

Lemma repr_body_keeps2 E ee et ea x xbase id :
  (forall stp e c, child x stp = Some e -> c = xbstep stp xbase ->
     keeps (ee e (issec x) c (fst id, snd id ++ [stp]))) ->
  (forall stp e a, child x stp = Some e -> xbstep stp xbase = [] -> issec x = false ->
     keeps (et e a (fst id, snd id ++ [stp]))) ->
  (forall p, keeps (ea p)) ->
  keeps (repr_body W ee et ea E x xbase id).
Proof.
  intros Hee Het Hea. destruct x; unfold repr_body.
  - apply keeps_ret. - apply keeps_ret. - apply keeps_ret. - apply keeps_ret.
  - apply interp_go_keeps, Hea.
  - apply Hea.
  - apply arr_go_keeps. intros j e Hj. apply (Hee (IIdx (0 + j))); [exact Hj|reflexivity].
  - destruct (declared l 0%nat []) as [decl dups] eqn:Ed. apply keeps_bind; [apply keeps_add_err, I_add_err|]. intros _.
    apply obj_go_keeps. intros j k e Hin. apply (Hee (IKey k)); [|reflexivity]. cbn [child].
    apply In_sort_entries in Hin. replace decl with (fst (declared l 0%nat [])) in Hin by (rewrite Ed; reflexivity).
    destruct (declared_first l _ _ _ _ _ Hin) as [Hf _].
    rewrite <- (find_entry_alookup k l 0%nat), Hf. reflexivity.
  - apply keeps_bind; [apply (Het (IIdx 0)); reflexivity|]. intro dr.
    apply keeps_bind; [apply (Het (IIdx 1)); reflexivity|]. intro vr. k_tac.
  - apply keeps_bind; [apply (Hee (IIdx 0)); reflexivity|]. intro v. k_tac.
  - apply keeps_bind; [apply (Het (IIdx 0)); reflexivity|]. intro r. k_tac.
  - apply keeps_bind; [apply (Hee (IIdx 0)); reflexivity|]. intro v. k_tac.
  - apply keeps_bind; [apply (Het (IIdx 0)); reflexivity|]. intro r. k_tac.
  - apply keeps_bind; [apply (Het (IIdx 0)); reflexivity|]. intro r. k_tac.
  - apply (Hee (IIdx 0)); reflexivity.
  - k_tac.
  - apply keeps_bind; [apply keeps_call with (W := W), I_call|]. intro failed.
    apply keeps_bind; [apply keeps_emit, I_emit|]. intros _.
    cbv zeta. apply keeps_bind; [k_tac|]. intros _.
    apply keeps_bind; [apply (Het (IIdx 0)); reflexivity|]. intros [iv ok]. k_tac.
  - apply keeps_ret.
Qed.

End KEEP2.

(* ------------------------------------------------------------------------------------------------ *)
(* 3. computations with a fixed result that leave the memo table alone                                *)
(* ------------------------------------------------------------------------------------------------ *)
Definition fixedv {A} (m : M A) (a : A) : Prop :=
  forall s, fst (m s) = a /\ memo (snd (m s)) = memo s /\ st_le s (snd (m s)).

Lemma fixedv_ret {A} (a : A) : fixedv (ret a) a.
Proof. intro s. split; [reflexivity|split; [reflexivity|apply st_le_refl]]. Qed.
Lemma fixedv_err_ret {A} (a : A) : fixedv (err ;;; ret a) a.
Proof. intro s. split; [reflexivity|split; [reflexivity|apply (mono_err s)]]. Qed.
Lemma fixedv_oof_ret {A} (a : A) : fixedv (out_of_fuel ;;; ret a) a.
Proof. intro s. split; [reflexivity|split; [reflexivity|apply (mono_oof s)]]. Qed.

(* a clean final state after an [err] is impossible *)
Lemma not_clean_after_err {A} (k : M A) s : mono k -> ~ clean (snd ((err ;;; k) s)).
Proof.
  intros Hk Hc. rewrite bind_eq in Hc. apply (not_clean_bump s). eapply clean_le; [apply Hk|exact Hc].
Qed.
Lemma not_clean_after_oof {A} (k : M A) s : mono k -> ~ clean (snd ((out_of_fuel ;;; k) s)).
Proof.
  intros Hk Hc. rewrite bind_eq in Hc.
  assert (H : clean (snd (out_of_fuel s))) by (eapply clean_le; [apply Hk|exact Hc]).
  destruct H as [_ H]. discriminate H.
Qed.

(* whether the typed check accepts: the only use of [validate] in the statements about built-ins *)
Definition vok (a : accept) (c : chain) : bool := fst (validate a c).

Section TYPED.
Variable W : world.
Variable E : ectx.

(* a typed evaluation of a clean run returns the memoised value of its identity and the verdict of validate on it *)
Lemma eval_typed_done f x a id s :
  clean (snd (eval_typed W f E x a id s)) ->
  done (memo (snd (eval_typed W f E x a id s))) id = Some (fst (fst (eval_typed W f E x a id s))) /\
  snd (fst (eval_typed W f E x a id s)) = vok a (fst (fst (eval_typed W f E x a id s))).
Proof.
  destruct f as [|f]; [intros [_ H]; discriminate H|].
  rewrite eval_typed_S. unfold typed_body. rewrite bind_eq.
  set (c1 := eval_expr W f E x false [] id s). unfold vok.
  destruct (validate a (fst c1)) as [ok n] eqn:Ev. rewrite bind_eq. cbn [ret fst snd add_err memo].
  intro Hc. split; [|rewrite Ev; reflexivity].
  apply (eval_expr_done W E f x false [] id s). fold c1.
  eapply clean_le; [apply (mono_add_err n)|exact Hc].
Qed.

End TYPED.

(* ------------------------------------------------------------------------------------------------ *)
(* 4. export: the fuel needed is the depth of the result                                              *)
(* ------------------------------------------------------------------------------------------------ *)
Lemma mapM_In_both {A B} (g : A -> option B) (l : list A) : forall out,
  mapM g l = Some out -> forall h : A -> option B,
  (forall x y, In x l -> In y out -> g x = Some y -> h x = Some y) -> mapM h l = Some out.
Proof.
  induction l as [|x r IH]; intros out H h Hh; cbn [mapM] in *; [exact H|].
  destruct (g x) as [y|] eqn:Eg; [|discriminate]. destruct (mapM g r) as [t|] eqn:Er; [|discriminate].
  injection H as <-. rewrite (Hh x y (or_introl eq_refl) (or_introl eq_refl) Eg).
  rewrite (IH t eq_refl h); [reflexivity|]. intros a b Ha Hb. apply Hh; right; assumption.
Qed.

Theorem export_fuel_depth : forall f' f c x, export f c = Some x -> (x_depth x <= f')%nat -> export f' c = Some x.
Proof.
  induction f' as [|g IH]; intros f c x H Hd.
  - destruct x; cbn [x_depth] in Hd; lia.
  - destruct f as [|f]; [discriminate|]. rewrite export_S in *.
    destruct c as [|[s u sc t|s u sc e|s u sc p] r]; try exact H.
    + destruct (mapM (export f) e) as [l|] eqn:El; [|discriminate]. injection H as <-.
      rewrite (mapM_In_both _ _ _ El (export g)); [reflexivity|].
      intros c y _ Hy Hc. apply (IH f c y Hc). pose proof (x_depth_arr s u l y Hy). lia.
    + match type of H with match ?mm with _ => _ end = _ => destruct mm as [m|] eqn:Em end; [|discriminate].
      injection H as <-.
      rewrite (mapM_In_both _ _ _ Em
                 (fun k => match export g (property k (LObj s u sc p :: r)) with Some v => Some (k, v) | None => None end));
        [reflexivity|].
      intros k kv _ Hkv Hk.
      destruct (export f (property k (LObj s u sc p :: r))) as [v|] eqn:Ev; [|discriminate]. injection Hk as <-.
      rewrite (IH f _ v Ev); [reflexivity|]. pose proof (x_depth_obj s u m (k, v) Hkv). cbn [snd] in *. lia.
Qed.
