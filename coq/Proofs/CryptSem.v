(* Proofs/CryptSem.v — the "$$" un-escaping of ast/interpolation.go, the alphabet of envelopes, and how the
   expression parser's recognition of fn::secret (ast/expr.go) relates to the syntactic one (eval/crypt.go);
   what a secret literal opens to in plaintext form and in stored form. *)
From Verif Require Import Base.Bytes Model.Envelope Model.YamlTree Model.Crypt
     Proofs.YamlTreeProofs Proofs.CryptWalk Proofs.CryptProofs Proofs.EnvelopeBase64 Proofs.EnvelopeProofs.
From Coq Require Import Lia ZifyN ZifyNat ZifyBool.
Ltac Zify.zify_post_hook ::= Z.div_mod_to_equations.

(* ---------------- un-escaping ---------------- *)
Definition no_dollar (s : string) : Prop := Forall (fun c => Ascii.eqb c dollar = false) (chars s).

Lemma unescape_no_dollar s : no_dollar s -> unescape s = Some s.
Proof.
  induction s as [|c r IH]; intros H; [reflexivity|].
  inversion_clear H as [|? ? Hc Hr]. cbn [unescape]. rewrite Hc, (IH Hr). reflexivity.
Qed.

(* strong induction on the length for the two-character step *)
Lemma string_len_ind (Q : string -> Prop) :
  (forall s, (forall t, (String.length t < String.length s)%nat -> Q t) -> Q s) -> forall s, Q s.
Proof.
  intros H s. assert (forall n t, (String.length t < n)%nat -> Q t) as Hn.
  { induction n as [|n IH]; intros t Ht; [lia|]. apply H. intros u Hu. apply IH. lia. }
  apply (Hn (S (String.length s))). lia.
Qed.

Lemma unescape_length s : forall t, unescape s = Some t -> (String.length t <= String.length s)%nat.
Proof.
  induction s as [s IH] using string_len_ind. intros t H.
  destruct s as [|c r]; cbn [unescape] in H; [injection H as <-; cbn; lia|].
  destruct (Ascii.eqb c dollar).
  - destruct r as [|d r'].
    + injection H as <-. cbn. lia.
    + destruct (Ascii.eqb d dollar).
      * destruct (unescape r') as [t'|] eqn:E; [|discriminate]. injection H as <-.
        assert (String.length t' <= String.length r')%nat by (apply IH; [cbn; lia|exact E]). cbn. lia.
      * destruct (Ascii.eqb d lbrace); [discriminate|].
        destruct (unescape (String d r')) as [t'|] eqn:E; [|discriminate]. injection H as <-.
        assert (String.length t' <= String.length (String d r'))%nat by (apply IH; [cbn; lia|exact E]).
        cbn in *. lia.
  - destruct (unescape r) as [t'|] eqn:E; [|discriminate]. injection H as <-.
    assert (String.length t' <= String.length r)%nat by (apply IH; [cbn; lia|exact E]). cbn. lia.
Qed.

Lemma scontains_cons p c r : scontains p (String c r) = sprefix p (String c r) || scontains p r.
Proof. reflexivity. Qed.

(* the literal is unchanged by the expression parser iff it has no "$$" *)
Theorem unescape_id_iff s : forall t, unescape s = Some t -> (t = s <-> has_dollar_escape s = false).
Proof.
  unfold has_dollar_escape.
  induction s as [s IH] using string_len_ind. intros t H.
  destruct s as [|c r]; cbn [unescape] in H.
  { injection H as <-. split; [reflexivity|auto]. }
  rewrite scontains_cons.
  destruct (Ascii.eqb c dollar) eqn:Ec.
  - apply Ascii.eqb_eq in Ec. subst c.
    destruct r as [|d r'].
    + injection H as <-. split; [reflexivity|auto].
    + destruct (Ascii.eqb d dollar) eqn:Ed.
      * apply Ascii.eqb_eq in Ed. subst d.
        destruct (unescape r') as [t'|] eqn:E; [|discriminate]. injection H as <-.
        pose proof (unescape_length _ _ E) as Hl.
        split; [|discriminate].
        intros Heq. exfalso. apply (f_equal String.length) in Heq. cbn in Heq. lia.
      * destruct (Ascii.eqb d lbrace); [discriminate|].
        destruct (unescape (String d r')) as [t'|] eqn:E; [|discriminate]. injection H as <-.
        assert (IH' : t' = String d r' <-> scontains "$$" (String d r') = false) by (apply IH; [cbn; lia|exact E]).
        cbn [sprefix]. unfold dollar in Ed. rewrite Ascii.eqb_refl. cbn [andb].
        replace (Ascii.eqb "$" d) with false by (rewrite Ascii.eqb_sym; now rewrite Ed).
        cbn [andb orb]. rewrite <- IH'. split; [intros Heq; now injection Heq|intros ->; reflexivity].
  - destruct (unescape r) as [t'|] eqn:E; [|discriminate]. injection H as <-.
    assert (IH' : t' = r <-> scontains "$$" r = false) by (apply IH; [cbn; lia|exact E]).
    cbn [sprefix]. replace (Ascii.eqb "$" c) with false by (rewrite Ascii.eqb_sym; now rewrite Ec).
    cbn [andb orb]. rewrite <- IH'. split; [intros Heq; now injection Heq|intros ->; reflexivity].
Qed.

(* a literal whose un-escaped text has no '$' was not changed *)
Lemma unescape_no_dollar_inv s : forall t, unescape s = Some t -> no_dollar t -> t = s.
Proof.
  induction s as [s IH] using string_len_ind. intros t H Ht.
  destruct s as [|c r]; cbn [unescape] in H; [now injection H|].
  destruct (Ascii.eqb c dollar) eqn:Ec.
  - exfalso. destruct r as [|d r'].
    + injection H as <-. inversion_clear Ht as [|? ? Hc _]. congruence.
    + destruct (Ascii.eqb d dollar).
      * destruct (unescape r'); [|discriminate]. injection H as <-.
        inversion_clear Ht as [|? ? Hc _]. unfold dollar in Hc. now rewrite Ascii.eqb_refl in Hc.
      * destruct (Ascii.eqb d lbrace); [discriminate|].
        destruct (unescape (String d r')); [|discriminate]. injection H as <-.
        inversion_clear Ht as [|? ? Hc _]. congruence.
  - destruct (unescape r) as [t'|] eqn:E; [|discriminate]. injection H as <-.
    inversion_clear Ht as [|? ? _ Hr]. f_equal. apply IH; [cbn; lia|exact E|exact Hr].
Qed.

(* ---------------- the alphabet of envelopes ---------------- *)
Lemma b64char_not_dollar (n : N) : n < 64 -> Ascii.eqb (b64char n) dollar = false.
Proof.
  intros H.
  pose proof (all64_check (fun n => negb (Ascii.eqb (b64char n) dollar)) eq_refl n H) as E.
  cbv beta in E. now destruct (Ascii.eqb (b64char n) dollar).
Qed.

Lemma b64_encode_bytes_no_dollar (l : list N) : Forall (fun b => b < 256) l ->
  Forall (fun c => Ascii.eqb c dollar = false) (b64_encode_bytes l).
Proof.
  induction l as [|a|a b|a b c r IH] using list_ind3; intros HF.
  - constructor.
  - inversion_clear HF as [|? ? Ha _]. cbn [b64_encode_bytes].
    repeat constructor; try reflexivity; apply b64char_not_dollar; lia.
  - inversion_clear HF as [|? ? Ha HF']. inversion_clear HF' as [|? ? Hb _]. cbn [b64_encode_bytes].
    repeat constructor; try reflexivity; apply b64char_not_dollar; lia.
  - inversion_clear HF as [|? ? Ha HF']. inversion_clear HF' as [|? ? Hb HF''].
    inversion_clear HF'' as [|? ? Hc Hr]. cbn [b64_encode_bytes].
    repeat (constructor; [apply b64char_not_dollar; lia|]). now apply IH.
Qed.

Theorem b64_encode_no_dollar s : no_dollar (b64_encode s).
Proof.
  unfold no_dollar, b64_encode. rewrite chars_of_chars. apply b64_encode_bytes_no_dollar, bytes_of_bounded.
Qed.

Corollary unescape_envelope P ct : unescape (encode_ct P ct) = Some (encode_ct P ct).
Proof. apply unescape_no_dollar. unfold encode_ct. apply b64_encode_no_dollar. Qed.

(* the first character of an envelope is determined by the first byte of the magic *)
Lemma b64_first a l : exists r, b64_encode_bytes (a :: l) = b64char (a / 4) :: r.
Proof. destruct l as [|b [|c l']]; eexists; reflexivity. Qed.

Theorem envelope_first_char P ct c0 r0 :
  ep_magic P = String c0 r0 ->
  exists r, encode_ct P ct = String (b64char (N_of_ascii c0 / 4)) r.
Proof.
  intros Hm. unfold encode_ct, b64_encode. rewrite Hm. cbn [String.append bytes_of].
  destruct (b64_first (N_of_ascii c0) (bytes_of ((r0 +++ be32 (ep_version P) +++ ct)
              +++ be32 (crc32 (String c0 (r0 +++ be32 (ep_version P) +++ ct)))))) as [r Hr].
  rewrite Hr. cbn [of_chars]. eauto.
Qed.

Corollary envelope_plain_is_string P ct c0 r0 :
  ep_magic P = String c0 r0 -> special_first (b64char (N_of_ascii c0 / 4)) = false ->
  plain_is_string (encode_ct P ct) = true.
Proof.
  intros Hm Hc. destruct (envelope_first_char P ct _ _ Hm) as [r ->]. cbn [plain_is_string]. now rewrite Hc.
Qed.

(* ---------------- the two recognitions ---------------- *)
Section Sem.
  Variable P : env_params.
  Variable fn_secret key_ciphertext new_key : string.
  Variable enc dec : string -> option string.
  Variable plain_literal nil_safe : bool.
  Hypothesis Hne : String.eqb fn_secret key_ciphertext = false.
  Hypothesis Hnew : new_key = key_ciphertext.
  Hypothesis Hkey_nd : no_dollar key_ciphertext.

  (* both parsers compare with the same names (side condition on the source, Properties/C04.v) *)
  Notation parse_secret := (parse_secret fn_secret key_ciphertext).
  Notation sem_parse := (sem_parse fn_secret key_ciphertext plain_literal nil_safe).
  Notation open_secret := (open_secret P dec).
  Notation cipher_node := (cipher_node P new_key).

  Definition sem_accepts (v : sem_view) : bool :=
    match v with SemPlain _ | SemCipher _ => true | _ => false end.

  Lemma unescape_key k2 :
    match unescape k2 with
    | Some k2' => String.eqb k2' key_ciphertext = String.eqb k2 key_ciphertext
    | None => String.eqb k2 key_ciphertext = false
    end.
  Proof.
    destruct (unescape k2) as [k2'|] eqn:E.
    - destruct (String.eqb k2' key_ciphertext) eqn:E1.
      + apply eqb_true_s in E1. subst k2'.
        rewrite (unescape_no_dollar_inv _ _ E Hkey_nd). now rewrite eqb_refl_s.
      + destruct (String.eqb k2 key_ciphertext) eqn:E2; [|reflexivity].
        apply eqb_true_s in E2. subst k2. rewrite (unescape_no_dollar _ Hkey_nd) in E.
        injection E as <-. now rewrite eqb_refl_s in E1.
    - destruct (String.eqb k2 key_ciphertext) eqn:E2; [|reflexivity].
      apply eqb_true_s in E2. subst k2. rewrite (unescape_no_dollar _ Hkey_nd) in E. discriminate.
  Qed.

  (* which shapes each parser accepts *)
  Theorem recognition_agreement n :
    match parse_secret n with
    | Plain _ _ _ p =>
        sem_parse n = match unescape p with
                      | Some t => SemPlain (if plain_literal then p else t)
                      | None => SemError
                      end
    | Cipher _ _ _ c =>
        sem_parse n = match unescape c with Some c' => SemCipher c' | None => SemError end
    | NotSecret => sem_accepts (sem_parse n) = false
    end.
  Proof.
    destruct n as [| | | | |s [|[k v] [|]]]; try reflexivity.
    cbn [Crypt.parse_secret Crypt.sem_parse].
    destruct (String.eqb (snd k) fn_secret); [|reflexivity].
    destruct v as [| | |ps p| |s2 [|[k2 x] [|]]]; try reflexivity.
    - unfold sem_literal. destruct (unescape p); reflexivity.
    - pose proof (unescape_key (snd k2)) as Hk.
      destruct x as [| | |cs c| |]; cbn [Crypt.sem_parse];
        destruct (unescape (snd k2)) as [k2'|];
        try (destruct nil_safe; reflexivity);
        try (destruct (String.eqb k2' key_ciphertext); reflexivity).
      + rewrite Hk. destruct (String.eqb (snd k2) key_ciphertext); [|reflexivity].
        destruct (unescape c); reflexivity.
      + rewrite Hk. destruct nil_safe; reflexivity.
    - destruct x; reflexivity.
  Qed.

  (* the expression parser accepts nothing the syntactic parser does not see *)
  Corollary sem_accepts_is_secret n : sem_accepts (sem_parse n) = true -> parse_secret n <> NotSecret.
  Proof. intros H E. pose proof (recognition_agreement n) as R. rewrite E in R. congruence. Qed.

  (* the checker panics on exactly one shape, unless the nil-safe accessor is used *)
  Theorem sem_parse_total : nil_safe = true -> forall n, sem_parse n <> SemPanic.
  Proof.
    intros -> n. unfold Crypt.sem_parse, sem_literal.
    repeat match goal with |- context [match ?x with _ => _ end] => destruct x end; discriminate.
  Qed.

  (* how the checker sees a call with a string argument (what DecryptSecrets writes) *)
  Lemma sem_parse_plain_node os k ps p :
    String.eqb (snd k) fn_secret = true ->
    sem_parse (SObj os [(k, SStr ps p)]) =
    match unescape p with Some t => SemPlain (if plain_literal then p else t) | None => SemError end.
  Proof. intros Ek. cbn [Crypt.sem_parse snd]. rewrite Ek. unfold sem_literal. destruct (unescape p); reflexivity. Qed.

  (* ---------------- plaintext form vs stored form of one secret literal ---------------- *)
  Hypothesis Hwf : wf_params P.
  Hypothesis Hinv : forall p ct, enc p = Some ct -> dec ct = Some p.

  Lemma sem_parse_cipher_node os k ps ct :
    String.eqb (snd k) fn_secret = true ->
    sem_parse (cipher_node os k ps ct) = SemCipher (encode_ct P ct).
  Proof.
    intros Ek. unfold Crypt.cipher_node. cbn [Crypt.sem_parse snd]. rewrite Ek.
    rewrite Hnew, (unescape_no_dollar _ Hkey_nd), eqb_refl_s, unescape_envelope. reflexivity.
  Qed.

  (* the stored form opens to the bytes that were written *)
  Theorem open_stored os k ps p ct :
    String.eqb (snd k) fn_secret = true -> enc p = Some ct ->
    open_secret (sem_parse (cipher_node os k ps ct)) = Some p.
  Proof.
    intros Ek Ep. rewrite (sem_parse_cipher_node _ _ _ _ Ek). cbn [Crypt.open_secret].
    rewrite (envelope_roundtrip P ct Hwf). now apply Hinv.
  Qed.

  (* the plaintext form opens to the un-escaped text (or the literal one after the repair) *)
  Theorem open_plain os k ps p t :
    String.eqb (snd k) fn_secret = true -> unescape p = Some t ->
    open_secret (sem_parse (SObj os [(k, SStr ps p)])) = Some (if plain_literal then p else t).
  Proof.
    intros Ek Eu. cbn [Crypt.sem_parse snd]. rewrite Ek. unfold sem_literal. rewrite Eu. reflexivity.
  Qed.

  (* both forms of a secret the checker accepts open to the same string, unless the text contains "$$"
     (and always once the plaintext is taken literally) *)
  Theorem open_encrypted_eq_open_plain os k ps p t ct :
    String.eqb (snd k) fn_secret = true -> unescape p = Some t -> enc p = Some ct ->
    plain_literal = true \/ has_dollar_escape p = false ->
    open_secret (sem_parse (cipher_node os k ps ct)) = open_secret (sem_parse (SObj os [(k, SStr ps p)])).
  Proof.
    intros Ek Eu Ep Hc. rewrite (open_stored _ _ _ _ _ Ek Ep), (open_plain _ _ _ _ _ Ek Eu).
    destruct Hc as [->|Hd]; [reflexivity|].
    destruct plain_literal; [reflexivity|]. f_equal. symmetry. now apply (unescape_id_iff p t Eu).
  Qed.

  Theorem open_differs_with_escape os k ps p t ct :
    String.eqb (snd k) fn_secret = true -> unescape p = Some t -> enc p = Some ct ->
    plain_literal = false -> has_dollar_escape p = true ->
    open_secret (sem_parse (cipher_node os k ps ct)) <> open_secret (sem_parse (SObj os [(k, SStr ps p)])).
  Proof.
    intros Ek Eu Ep Hl Hd. rewrite (open_stored _ _ _ _ _ Ek Ep), (open_plain _ _ _ _ _ Ek Eu), Hl.
    intros H. injection H as H. symmetry in H. apply (unescape_id_iff p t Eu) in H. congruence.
  Qed.
End Sem.
