(* Proofs/CryptExtras.v — small statements used by Properties/C12.v and Properties/C04.v: the comments of the
   replaced scalar, witnesses (outside the accepted subset; the checker's nil dereference; "$$"). *)
From Verif Require Import Base.Bytes Model.Envelope Model.YamlTree Model.Crypt
     Proofs.YamlTreeProofs Proofs.CryptWalk Proofs.CryptProofs Proofs.CryptSkeleton Proofs.CryptSem.

Section Extras.
  Variable P : env_params.
  Variable fn_secret key_ciphertext new_key : string.
  Variable null_words quote_words : list string.
  Variable pf : string -> bool.
  Notation marshal_str := (marshal_str quote_words pf).

  Definition comments (m : ymeta) : string * string * string := (y_head m, y_line m, y_foot m).

  (* EncryptSecrets: the envelope scalar carries the comments of the plaintext scalar it replaces *)
  Theorem encrypt_keeps_trivia ps p ct :
    comments (marshal_str (copy_trivia ps) (encode_ct P ct)) = comments (marshal_str ps p).
  Proof.
    unfold comments.
    destruct (marshal_str_comments quote_words pf (copy_trivia ps) (encode_ct P ct)) as (H1 & H2 & H3).
    destruct (marshal_str_comments quote_words pf ps p) as (G1 & G2 & G3).
    destruct (base_meta_copy_trivia ps) as (B1 & B2 & B3).
    now rewrite H1, H2, H3, G1, G2, G3, B1, B2, B3.
  Qed.

  (* DecryptSecrets: the plaintext is written on the very node of the ciphertext (tag, style, comments) *)
  Theorem decrypt_keeps_trivia cs c p :
    comments (marshal_str cs p) = comments (marshal_str cs c)
    /\ y_tag (marshal_str cs p) = y_tag (marshal_str cs c).
  Proof.
    unfold comments.
    destruct (marshal_str_comments quote_words pf cs p) as (H1 & H2 & H3).
    destruct (marshal_str_comments quote_words pf cs c) as (G1 & G2 & G3).
    split; [now rewrite H1, H2, H3, G1, G2, G3|].
    now rewrite !(marshal_str_tag_eq quote_words pf).
  Qed.
End Extras.

(* a scalar outside the accepted subset: a timestamp is a string for esc and is written back with the string tag *)
Definition ts_doc : ynode :=
  YMap (mkMeta "!!map" 0 "" "" "" "")
       [(YScalar (mkMeta "!!str" 0 "d" "" "" ""), YScalar (mkMeta "!!timestamp" 0 "2001-01-01" "" "" ""))].

Definition skeleton_changes P fn key nk enc nulls quotes pf (y : ynode) : bool :=
  match encrypt_doc P fn key nk enc nulls quotes pf y with
  | ROk y' => negb (ynode_eqb (skeleton fn key y') (skeleton fn key y))
  | RErr _ => false
  end.

Lemma skeleton_changes_witness P fn key nk enc nulls quotes pf y :
  skeleton_changes P fn key nk enc nulls quotes pf y = true ->
  exists y', encrypt_doc P fn key nk enc nulls quotes pf y = ROk y'
             /\ ynode_eqb (skeleton fn key y') (skeleton fn key y) = false.
Proof.
  unfold skeleton_changes. destruct (encrypt_doc _ _ _ _ _ _ _ _ y) as [y'|]; [|discriminate].
  intros H. exists y'. split; [reflexivity|]. now apply Bool.negb_true_iff.
Qed.

(* the shape on which ast.parseSecret dereferences a nil key *)
Definition panic_node (fn : string) : snode :=
  SObj SynNone [((SynNone, fn), SObj SynNone [((SynNone, "${x}"), SStr SynNone "y")])].

Lemma sem_parse_panics fn key lit : sem_parse fn key lit false (panic_node fn) = SemPanic.
Proof. unfold panic_node. cbn [sem_parse snd]. rewrite eqb_refl_s. reflexivity. Qed.
