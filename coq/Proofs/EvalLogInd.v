(* Proofs/EvalLogInd.v — ONE induction on fuel over the five mutually recursive evaluator functions
   (then one over [eval_env]) for an abstract family of relations between a start state and the current
   state.  The facts known at each emission site (provider found, inputs exported / known / valid, not
   checking, envelope decoded, ...) are packaged in [ev_ok]; instances only say how their relation
   reacts to the primitive state operations. *)
From Coq Require Import Lia ZifyN ZifyNat ZifyBool.
From Verif Require Import Base.Bytes Model.Chain Model.GoText Model.Envelope Model.Eval Proofs.EvalLogKit.

(* ------------------------------------------------------------------------------------------- *)
(** * 1. What an event emitted inside the environment context [E] satisfies *)

Definition x_is_obj (v : xval) : bool := match v with XObj _ _ _ => true | _ => false end.
Definition is_open (e : ev) : bool := match e with EvOpen _ _ _ _ _ => true | _ => false end.
Definition is_decrypt (e : ev) : bool := match e with EvDecrypt _ _ => true | _ => false end.
Definition is_load (e : ev) : bool := match e with EvLoad _ => true | _ => false end.

(* [IdOK E id]: a property of expression ids that holds of the root id [(ec_name E, [])] and is kept
   by extending the path; instances: [fun _ _ => True] and [fun E id => fst id = ec_name E] *)
Definition open_ok (W : world) (IdOK : ectx -> eid -> Prop) (E : ectx)
           (id : eid) (p : string) (xin : xval) (r c : string) : Prop :=
  IdOK E id /\ r = ec_root E /\ c = ec_name E /\ w_check W = false /\
  exists pv iv,
    alookup p (w_provs W) = Some pv
    /\ export_t iv = Some xin
    /\ contains_unknowns iv = false
    /\ x_has_unknown xin = false
    /\ fst (validate (AccIn (pv_in pv)) iv) = true
    /\ x_is_obj xin = true.

Definition decrypt_ok (W : world) (E : ectx) (env ct : string) : Prop :=
  env = ec_name E /\ (w_check W && negb (w_show W)) = false /\ exists repr, decode_ct std_params repr = DOk ct.

Definition ev_ok (W : world) (IdOK : ectx -> eid -> Prop) (E : ectx) (e : ev) : Prop :=
  match e with
  | EvLoad _ => False                         (* expressions never load environments *)
  | EvLoadProvider _ => True
  | EvOpen id p xin r c => open_ok W IdOK E id p xin r c
  | EvDecrypt env ct => decrypt_ok W E env ct
  end.

(* [eval_typed] returns ok = true only if the value validates *)
Definition typed_post (a : accept) (r : chain * bool) : Prop :=
  snd r = true -> fst (validate a (fst r)) = true.

Definition id_closed (IdOK : ectx -> eid -> Prop) : Prop :=
  (forall E, IdOK E (ec_name E, [])) /\ (forall E id stp, IdOK E id -> IdOK E (fst id, snd id ++ [stp])).

Definition Id_any : ectx -> eid -> Prop := fun _ _ => True.
Definition Id_env : ectx -> eid -> Prop := fun E id => fst id = ec_name E.

Lemma id_closed_any : id_closed Id_any.
Proof. split; intros; exact I. Qed.
Lemma id_closed_env : id_closed Id_env.
Proof. split; intros; unfold Id_env in *; cbn; auto. Qed.

Lemma snd_ret {A} (a : A) s : snd (ret a s) = s.
Proof. reflexivity. Qed.

(* ------------------------------------------------------------------------------------------- *)
(** * 2. The induction *)

Section EvalInd.
Variable W : world.
Variable IdOK : ectx -> eid -> Prop.
Hypothesis IdOK_closed : id_closed IdOK.

(* [R E g s]: the current state [s] is related to the "ghost" start state [g]; events emitted in context [E] *)
Variable R : ectx -> st -> st -> Prop.
Hypothesis R_refl : forall E s, R E s s.
Hypothesis R_add_err : forall E g n, preserves (R E g) (add_err n).
Hypothesis R_oof : forall E g, preserves (R E g) out_of_fuel.
Hypothesis R_event : forall E g e s,
  ev_ok W IdOK E e -> is_open e = false -> R E g s -> R E g (snd (emit e (snd (call W s)))).

(* [eval_repr] for the expression [id] runs under the precondition [Pre id] (established by
   [eval_expr]'s [memo_set id None]) and establishes [T E id] between its start and end states *)
Variable Pre : eid -> st -> Prop.
Variable T : ectx -> eid -> st -> st -> Prop.
Hypothesis T_of_R : forall E id s s', Pre id s -> R E s s' -> T E id s s'.
Hypothesis T_add_err : forall E id s n, preserves (T E id s) (add_err n).
Hypothesis T_open : forall E id s s1 p xin,
  Pre id s -> R E s s1 -> ev_ok W IdOK E (EvOpen id p xin (ec_root E) (ec_name E)) ->
  T E id s (snd (emit (EvOpen id p xin (ec_root E) (ec_name E)) (snd (call W s1)))).
Hypothesis R_memo : forall E id g s0,
  R E g s0 -> memo_get id (memo s0) = None ->
  Pre id (snd (memo_set id None s0))
  /\ forall s2 v, T E id (snd (memo_set id None s0)) s2 -> R E g (snd (memo_set id v s2)).

Let IdOK_ext : forall E id stp, IdOK E id -> IdOK E (fst id, snd id ++ [stp]) := proj2 IdOK_closed.

Ltac pleaf :=
  cbv zeta;
  lazymatch goal with
  | |- preserves _ (ret _) => apply pres_ret
  | |- preserves _ err => apply R_add_err
  | |- preserves _ (add_err _) => apply R_add_err
  | |- preserves _ out_of_fuel => apply R_oof
  end.

Ltac oof_case := apply pres_bind; [pleaf|intros ?; pleaf].

Lemma interp_loop_pres f E g :
  (forall p, preserves (R E g) (eval_access W f E p)) ->
  forall ps acc unk sec, preserves (R E g) (interp_loop W f E ps acc unk sec).
Proof.
  intros Ha. induction ps as [|[text [p|]] r IH]; intros acc unk sec.
  - apply pres_ret.
  - change (preserves (R E g)
      (pv <- eval_access W f E p ;;
       let '(s, u, sc) := to_string (ts_need pv) pv in
       interp_loop W f E r (if u then acc +++ text else acc +++ text +++ s) (unk || u) (sec || sc))).
    apply pres_bind; [apply Ha|]. intros pv. destruct (to_string (ts_need pv) pv) as [[s u] sc]. apply IH.
  - change (preserves (R E g) (interp_loop W f E r (acc +++ text) unk sec)). apply IH.
Qed.

Lemma arr_loop_pres f E g id :
  IdOK E id ->
  (forall e xsec xbase id', IdOK E id' -> preserves (R E g) (eval_expr W f E e xsec xbase id')) ->
  forall es i acc, preserves (R E g) (arr_loop W f E id es i acc).
Proof.
  intros Hid He. induction es as [|e r IH]; intros i acc.
  - apply pres_ret.
  - change (preserves (R E g)
      (v <- eval_expr W f E e false [] (fst id, snd id ++ [IIdx i]) ;; arr_loop W f E id r (S i) (v :: acc))).
    apply pres_bind; [apply He, IdOK_ext, Hid|]. intros v. apply IH.
Qed.

Lemma obj_loop_pres f E g xbase id :
  IdOK E id ->
  (forall e xsec xbase id', IdOK E id' -> preserves (R E g) (eval_expr W f E e xsec xbase id')) ->
  forall ds acc, preserves (R E g) (obj_loop W f E xbase id ds acc).
Proof.
  intros Hid He. induction ds as [|[[i k] e] r IH]; intros acc.
  - apply pres_ret.
  - change (preserves (R E g)
      (v <- eval_expr W f E e false (property k xbase) (fst id, snd id ++ [IKey k]) ;;
       obj_loop W f E xbase id r ((k, v) :: acc))).
    apply pres_bind; [apply He, IdOK_ext, Hid|]. intros v. apply IH.
Qed.

Lemma cipher_body_pres E g repr : preserves (R E g) (cipher_body W E repr).
Proof.
  unfold cipher_body. destruct (decode_ct std_params repr) as [ct| | | | | |] eqn:Hd; try oof_case.
  destruct (w_check W && negb (w_show W)) eqn:Hg; [pleaf|].
  apply pres_call_emit; [|].
  - intros s Hs. apply R_event; [|reflexivity|exact Hs]. unfold ev_ok, decrypt_ok.
    repeat split; [exact Hg|]. exists repr. exact Hd.
  - intros failed. destruct (if failed then None else w_decrypt W (ec_name E) ct); [pleaf|oof_case].
Qed.

Lemma open_site_ok E id pname p iv (failed : bool) sx ux m :
  IdOK E id ->
  Some p = (if failed then None else alookup pname (w_provs W)) ->
  typed_post (AccIn (pv_in p)) (iv, true) ->
  contains_unknowns iv = false ->
  w_check W = false ->
  export_t iv = Some (XObj sx ux m) ->
  ev_ok W IdOK E (EvOpen id pname (XObj sx ux m) (ec_root E) (ec_name E)).
Proof.
  intros Hid Hprov Hpost Hunk Hchk Hx. unfold ev_ok, open_ok.
  split; [exact Hid|]. split; [reflexivity|]. split; [reflexivity|]. split; [exact Hchk|].
  exists p, iv.
  assert (alookup pname (w_provs W) = Some p) as Hp by (destruct failed; [discriminate|now symmetry]).
  split; [exact Hp|]. split; [exact Hx|]. split; [exact Hunk|].
  split; [exact (no_unknown_export _ _ Hunk Hx)|].
  split; [|reflexivity]. unfold typed_post in Hpost. cbn [fst snd] in Hpost. apply Hpost. reflexivity.
Qed.

Lemma hoare_call_emit (e : ev) {A} (P P' : st -> Prop) (k : bool -> M A) (Q : A -> st -> Prop) :
  (forall s, P s -> P' (snd (emit e (snd (call W s))))) ->
  (forall b, hoare P' (k b) Q) ->
  hoare P (bind (call W) (fun failed => bind (emit e) (fun _ => k failed))) Q.
Proof. intros He Hk s Hs. rewrite bind_run, bind_run. apply Hk. apply He. exact Hs. Qed.

(* the [fn::open] case: everything before the [EvOpen] emission keeps [R E s]; the emission gives [T];
   after it only diagnostics are added *)
Lemma open_body_T f E pname inputs id s :
  IdOK E id -> Pre id s ->
  (forall g x a id', IdOK E id' ->
     hoare (R E g) (eval_typed W f E x a id') (fun r s => R E g s /\ typed_post a r)) ->
  T E id s (snd (open_body W f E pname inputs id s)).
Proof.
  intros Hid Hpre Ht.
  enough (hoare (R E s) (open_body W f E pname inputs id) (fun _ => T E id s)) as H by (apply H, R_refl).
  assert (forall (c : chain), hoare (R E s) (ret c) (fun _ => T E id s)) as Lret
    by (intros c; apply hoare_ret; intros s' Hs'; apply T_of_R; assumption).
  assert (forall (c : chain) n, hoare (R E s) (add_err n ;;; ret c) (fun _ => T E id s)) as Lerr
    by (intros c n; eapply hoare_bind; [apply R_add_err|intros ?; apply Lret]).
  assert (forall (c : chain), hoare (R E s) (out_of_fuel ;;; ret c) (fun _ => T E id s)) as Loof
    by (intros c; eapply hoare_bind; [apply R_oof|intros ?; apply Lret]).
  unfold open_body.
  apply hoare_call_emit with (P' := R E s).
  { intros s' Hs'. apply R_event; [exact I|reflexivity|exact Hs']. }
  intros failed.
  remember (if failed then None else alookup pname (w_provs W)) as prov eqn:Hprov.
  cbv zeta.
  eapply hoare_bind with (Q := fun _ => R E s); [destruct prov; [apply pres_ret|apply R_add_err]|]. intros u0; cbv beta.
  eapply hoare_bind; [apply Ht, IdOK_ext, Hid|].
  intros [iv ok]. apply hoare_pre_pure. intros Hpost. destruct prov as [p|]; [|apply Lret]. cbv beta iota in Hpost |- *.
  destruct (negb ok || contains_unknowns iv || w_check W) eqn:Hgate; [apply Lret|].
  apply orb_false_iff in Hgate. destruct Hgate as [Hgate Hchk].
  apply orb_false_iff in Hgate. destruct Hgate as [Hok Hunk].
  apply negb_false_iff in Hok. subst ok.
  destruct (export_t iv) as [[sx ux sc|sx ux l|sx ux m]|] eqn:Hx;
    [apply Lerr|apply Lerr| |apply Loof].
  apply hoare_call_emit with (P' := T E id s).
  - intros s1 Hs1. apply T_open; [exact Hpre|exact Hs1|]. eapply open_site_ok; eassumption.
  - intros failed2.
    destruct (if failed2 then None else match pv_beh p with PEcho => Some (XObj sx ux m) | PConst v => Some v | PFail => None end).
    + apply hoare_ret. intros s' Hs'. exact Hs'.
    + eapply hoare_bind; [apply T_add_err|]. intros u1; cbv beta. apply hoare_ret. intros s' Hs'. exact Hs'.
Qed.

Definition spec_expr (fuel : nat) : Prop :=
  forall E x xsec xbase id g, IdOK E id -> preserves (R E g) (eval_expr W fuel E x xsec xbase id).
Definition spec_repr (fuel : nat) : Prop :=
  forall E x xbase id s, IdOK E id -> Pre id s -> T E id s (snd (eval_repr W fuel E x xbase id s)).
Definition spec_typed (fuel : nat) : Prop :=
  forall E x a id g, IdOK E id ->
    hoare (R E g) (eval_typed W fuel E x a id) (fun r s => R E g s /\ typed_post a r).
Definition spec_access (fuel : nat) : Prop :=
  forall E p g, preserves (R E g) (eval_access W fuel E p).
Definition spec_walk (fuel : nat) : Prop :=
  forall E rx rsec rbase rid accs g, IdOK E rid -> preserves (R E g) (walk W fuel E rx rsec rbase rid accs).

Lemma pres_to_T {A} E id s (m : M A) :
  Pre id s -> (forall g, preserves (R E g) m) -> T E id s (snd (m s)).
Proof. intros Hpre H. apply T_of_R; [exact Hpre|]. apply H. apply R_refl. Qed.

Theorem eval_ind_pres : forall fuel,
  spec_expr fuel /\ spec_repr fuel /\ spec_typed fuel /\ spec_access fuel /\ spec_walk fuel.
Proof.
  induction fuel as [|f (IHe & IHr & IHt & IHa & IHw)].
  { split; [|split; [|split; [|split]]]; red; intros.
    - rewrite eval_expr_O. oof_case.
    - rewrite eval_repr_O. apply pres_to_T; [assumption|]. intros g. oof_case.
    - rewrite eval_typed_O. eapply hoare_bind; [apply R_oof|].
      intros u. cbv beta. apply hoare_ret. intros s Hs. split; [exact Hs|]. unfold typed_post. cbn [snd]. discriminate.
    - rewrite eval_access_O. oof_case.
    - rewrite walk_O. oof_case. }
  assert (forall E g e xsec xbase id', IdOK E id' -> preserves (R E g) (eval_expr W f E e xsec xbase id')) as IHe'
    by (intros; apply IHe; assumption).
  assert (forall E g x a id', IdOK E id' ->
            hoare (R E g) (eval_typed W f E x a id') (fun r s => R E g s /\ typed_post a r)) as IHt'
    by (intros; apply IHt; assumption).
  split; [|split; [|split; [|split]]]; red.
  - (* eval_expr: the memo discipline *)
    intros E x xsec xbase id g Hid s Hs. rewrite eval_expr_S, bind_run.
    change (fst (get_memo id s)) with (memo_get id (memo s)). change (snd (get_memo id s)) with s.
    destruct (memo_get id (memo s)) as [[v|]|] eqn:Hm.
    + exact Hs.
    + rewrite bind_run. rewrite snd_ret. apply R_add_err. exact Hs.
    + destruct (R_memo E id g s Hs Hm) as [Hpre Hpost].
      rewrite bind_run, bind_run. cbv zeta. rewrite bind_run, snd_ret.
      apply Hpost. apply IHr; [exact Hid|exact Hpre].
  - (* eval_repr *)
    intros E x xbase id s Hid Hpre. rewrite eval_repr_S.
    destruct x;
      lazymatch goal with
      | |- T _ _ _ (snd (open_body _ _ _ _ _ _ _)) => idtac
      | _ => apply pres_to_T; [exact Hpre|]; intros g
      end; try pleaf.
    + (* EInterp *) apply interp_loop_pres. intros p. apply IHa.
    + (* ESym *) apply IHa.
    + (* EArr *) apply arr_loop_pres; [exact Hid|apply IHe'].
    + (* EObj *) destruct (declared l 0 []) as [decl dups].
      apply pres_bind; [pleaf|]. intros _. apply obj_loop_pres; [exact Hid|apply IHe'].
    + (* EJoin *)
      apply pres_bind_post with (phi := typed_post AccString); [apply IHt', IdOK_ext, Hid|]. intros [dv dok] _.
      apply pres_bind_post with (phi := typed_post AccArrString); [apply IHt', IdOK_ext, Hid|]. intros [vv vok] _.
      destruct (negb dok || negb vok); [pleaf|]. destruct (combine2 dv vv) as [unk sec].
      destruct unk; pleaf.
    + (* EToJSON *)
      apply pres_bind; [apply IHe', IdOK_ext, Hid|]. intros v. cbv zeta.
      destruct (contains_unknowns v); [pleaf|].
      destruct (export big_fuel v) as [xv|]; [|oof_case].
      destruct (json_all_ascii _ _); [pleaf|oof_case].
    + (* EFromJSON *)
      apply pres_bind_post with (phi := typed_post AccString); [apply IHt', IdOK_ext, Hid|]. intros [v ok] _.
      destruct (negb ok); [pleaf|]. cbv zeta. destruct (contains_unknowns v); [pleaf|].
      destruct v as [|[sc uk c [| | |s0]| |] v']; try pleaf.
      destruct (json_parse s0); [pleaf|oof_case|oof_case].
    + (* EToString *)
      apply pres_bind; [apply IHe', IdOK_ext, Hid|]. intros v.
      destruct (to_string (ts_need v) v) as [[s0 unk] sec]. destruct unk; pleaf.
    + (* EToB64 *)
      apply pres_bind_post with (phi := typed_post AccString); [apply IHt', IdOK_ext, Hid|]. intros [v ok] _.
      destruct (negb ok); [pleaf|]. cbv zeta. destruct (contains_unknowns v); [pleaf|].
      destruct v as [|[sc uk c [| | |s0]| |] v']; pleaf.
    + (* EFromB64 *)
      apply pres_bind_post with (phi := typed_post AccString); [apply IHt', IdOK_ext, Hid|]. intros [v ok] _.
      destruct (negb ok); [pleaf|]. cbv zeta. destruct (contains_unknowns v); [pleaf|].
      destruct v as [|[sc uk c [| | |s0]| |] v']; try pleaf.
      destruct (b64_decode s0); [pleaf|oof_case].
    + (* ESecretPlain *) apply IHe', IdOK_ext, Hid.
    + (* ESecretCipher *) apply cipher_body_pres.
    + (* EOpen *) apply open_body_T; [exact Hid|exact Hpre|]. intros. apply IHt'. assumption.
  - (* eval_typed *)
    intros E x a id g Hid. rewrite eval_typed_S.
    eapply hoare_bind; [apply IHe', Hid|]. intros v. cbv beta.
    destruct (validate a v) as [ok n] eqn:Hv.
    eapply hoare_bind; [apply R_add_err|]. intros u. cbv beta. apply hoare_ret.
    intros s Hs. split; [exact Hs|]. unfold typed_post. cbn [fst snd]. intros ->. rewrite Hv. reflexivity.
  - (* eval_access *)
    intros E p g. rewrite eval_access_S. destruct p as [|a0 rest]; [pleaf|]. cbv zeta.
    assert (preserves (R E g) (walk W f E (EObj (ec_values E)) false (ec_base E) (ec_name E, []) (a0 :: rest))) as Hw
      by (apply IHw; apply (proj1 IdOK_closed)).
    assert (forall c0, preserves (R E g) (let '(c, n) := value_access (va_need c0 rest) c0 rest in add_err n ;;; ret c)) as Hva
      by (intros c0; destruct (value_access (va_need c0 rest) c0 rest) as [c n]; oof_case).
    destruct (object_key a0) as [k|]; [|exact Hw].
    repeat (lazymatch goal with
            | |- preserves _ (match ?x with _ => _ end) => destruct x
            end; try exact Hw; try apply Hva).
  - (* walk *)
    intros E rx rsec rbase rid accs g Hid. rewrite walk_S.
    destruct accs as [|a rest]; [apply IHe', Hid|].
    assert (forall v, preserves (R E g) (let '(c, n) := value_access (va_need v (a :: rest)) v (a :: rest) in add_err n ;;; ret c)) as Hva
      by (intros c0; destruct (value_access (va_need c0 (a :: rest)) c0 (a :: rest)) as [c n]; oof_case).
    destruct rx; try (apply pres_bind; [apply IHe', Hid|apply Hva]); try oof_case.
    + (* EArr *) destruct (array_index a _); [apply IHw, IdOK_ext, Hid|oof_case].
    + (* EObj *) destruct (object_key a) as [k|]; [|oof_case].
      destruct (find_entry k l 0) as [[i px]|]; [apply IHw, IdOK_ext, Hid|].
      destruct (is_object rbase); [apply Hva|oof_case].
    + (* ESecretPlain *) apply IHw, IdOK_ext, Hid.
Qed.

(* ---- environments ---- *)
Variable Renv : string -> string -> st -> st -> Prop.       (* root, name, ghost, current *)
Hypothesis Renv_refl : forall root name s, Renv root name s s.
Hypothesis Renv_add_err : forall root name g n, preserves (Renv root name g) (add_err n).
Hypothesis Renv_oof : forall root name g, preserves (Renv root name g) out_of_fuel.
Hypothesis Renv_imps_set : forall root name g n v, preserves (Renv root name g) (imps_set n v).
Hypothesis Renv_load : forall root name g n s,
  Renv root name g s -> Renv root name g (snd (emit (EvLoad n) (snd (call W s)))).
Hypothesis Renv_expr : forall root name E g s s',
  ec_name E = name -> ec_root E = eff_root root name -> Renv root name g s -> R E s s' -> Renv root name g s'.
(* an imported environment [n] is evaluated right after its [EvLoad n] *)
Hypothesis Renv_nest : forall root name n g s s',
  Renv root name g s ->
  Renv (eff_root root name) n (snd (emit (EvLoad n) (snd (call W s)))) s' ->
  Renv root name g s'.

Theorem eval_env_pres : forall fuel root name d g,
  preserves (Renv root name g) (eval_env W fuel root name d).
Proof.
  induction fuel as [|f IH]; intros root name d g.
  { rewrite eval_env_O. apply pres_bind; [apply Renv_oof|intros ?; apply pres_ret]. }
  rewrite eval_env_S.
  apply pres_bind; [apply Renv_imps_set|]. intros _.
  assert (forall is base my, preserves (Renv root name g) (import_loop W f (eff_root root name) is base my)) as Hloop.
  { induction is as [|[n merge] rest IHl]; intros base my; [apply pres_ret|].
    rewrite import_loop_cons.
    apply pres_bind; [apply pres_imps_get|]. intros [i|].
    - destruct (is_evaluating i); [|destruct (is_value i); apply IHl].
      apply pres_bind; [apply Renv_add_err|]. intros _. apply IHl.
    - intros s Hs. rewrite bind_run, bind_run.
      assert (preserves (Renv root name g)
                (err ;;; imps_set n {| is_evaluating := false; is_value := None |} ;;;
                 import_loop W f (eff_root root name) rest base my)) as Lfail.
      { apply pres_bind; [apply Renv_add_err|intros _]. apply pres_bind; [apply Renv_imps_set|intros _; apply IHl]. }
      destruct (if fst (call W s) then LoadFail else match alookup n (w_envs W) with Some l => l | None => LoadFail end) as [| |d'].
      + apply Lfail. apply Renv_load, Hs.
      + apply Lfail. apply Renv_load, Hs.
      + rewrite bind_run.
        apply (pres_bind (Renv root name g)); [apply Renv_imps_set|intros _; apply IHl|].
        apply Renv_nest with (n := n) (s := s); [exact Hs|]. apply IH. apply Renv_refl. }
  apply pres_bind; [apply Hloop|]. intros [base my].
  apply pres_bind; [apply Renv_imps_set|]. intros _.
  apply pres_bind; [apply Renv_add_err|]. intros _. cbv zeta.
  intros s Hs.
  apply Renv_expr with (E := env_ctx W (eff_root root name) name d base my) (s := s); try reflexivity; [exact Hs|].
  apply (proj1 (eval_ind_pres f)); [apply (proj1 IdOK_closed)|apply R_refl].
Qed.

End EvalInd.
