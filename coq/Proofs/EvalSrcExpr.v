(* Proofs/EvalSrcExpr.v -- decides [eval_src_expr_ok] (defined in Proofs/EvalSrc.v) on today's coq/Src/SrcEval.v.
   The [same_*] lemmas come first so that a failing build names the table and prints the entries that differ. *)
From Verif Require Import Base.Bytes Model.Chain Model.GoText Model.Eval Src.SrcEval Proofs.EvalSrc.

Lemma same_evaluate_expr : table_diff ev_evaluate_expr exp_evaluate_expr = [].
Proof. vm_compute. reflexivity. Qed.

Lemma eval_src_expr_ok_true : eval_src_expr_ok = true.
Proof. vm_compute. reflexivity. Qed.

Lemma dispatch_ok_true : dispatch_ok = true. Proof. vm_compute. reflexivity. Qed.

(* for every expression of the model (not only the samples): evaluateExpr has a case for its repr, and that case runs
   the function the model's case restates *)
Theorem dispatch_covers_model (e : expr) : existsb (pair_eqb (row_of e)) ev_dispatch = true.
Proof. destruct e; vm_compute; reflexivity. Qed.

Theorem dispatch_within_model (row : string * string) :
  In row ev_dispatch -> fst row = "default" \/ exists e, row = row_of e.
Proof.
  intros Hin. pose proof dispatch_ok_true as H. unfold dispatch_ok in H. apply andb_prop in H. destruct H as [H _].
  rewrite forallb_forall in H. specialize (H _ Hin). apply orb_prop in H. destruct H as [H|H].
  - left. now apply String.eqb_eq in H.
  - right. apply existsb_exists in H. destruct H as (e & _ & He). exists e. unfold pair_eqb in He.
    apply andb_prop in He. destruct He as [H1 H2]. apply String.eqb_eq in H1, H2. destruct row as [r1 r2]. destruct (row_of e) as [q1 q2]. cbn [fst snd] in H1, H2. congruence.
Qed.

