(* Proofs/ApiJsonTidy.v — the harmless part of the "omitted empty collection" finding (C18).
     [nilify] replaces every non-nil empty slice/map held by an omitempty field by nil.  json.Marshal writes the
     same document for v and nilify v, nilify v is clean whenever v is tidy, and nilify is the identity on clean
     values; hence a tidy value comes back from the API as nilify v. *)
From Coq Require Import Lia.
From Verif Require Import Base.Bytes Model.ApiJson Proofs.ApiJsonBase Proofs.ApiJsonProofs.

(* ---- list helpers ------------------------------------------------------------------------------------------ *)
Lemma mapM_map_ext {A B} (f : A -> res B) (g : A -> A) : forall l,
  (forall x, In x l -> f (g x) = f x) -> mapM f (map g l) = mapM f l.
Proof.
  induction l as [|x r IH]; intro H; [reflexivity|].
  simpl. rewrite (H x (or_introl eq_refl)). rewrite (IH (fun y Hy => H y (or_intror Hy))). reflexivity.
Qed.

Lemma forallb_map_imp {A} (f g : A -> bool) (h : A -> A) : forall l,
  (forall x, In x l -> f x = true -> g (h x) = true) -> forallb f l = true -> forallb g (map h l) = true.
Proof.
  induction l as [|x r IH]; intros H Hf; [reflexivity|].
  simpl in Hf. apply andb_true_iff in Hf. destruct Hf as [Hx Hr].
  simpl. rewrite (H x (or_introl eq_refl) Hx). simpl. exact (IH (fun y Hy => H y (or_intror Hy)) Hr).
Qed.

Lemma map_id_in {A} (h : A -> A) : forall l, (forall x, In x l -> h x = x) -> map h l = l.
Proof.
  induction l as [|x r IH]; intro H; [reflexivity|].
  simpl. rewrite (H x (or_introl eq_refl)). rewrite (IH (fun y Hy => H y (or_intror Hy))). reflexivity.
Qed.

Lemma sorted_keys_map {A} (g : A -> A) : forall l : list (string * A),
  sorted_keys (map (fun kv => (fst kv, g (snd kv))) l) = sorted_keys l.
Proof.
  induction l as [|[k x] r IH]; [reflexivity|].
  simpl. rewrite IH. f_equal.
  clear IH. induction r as [|[k' x'] r IH]; [reflexivity|]. simpl. rewrite IH. reflexivity.
Qed.

(* ---- shapes ------------------------------------------------------------------------------------------------- *)
Definition as_bool (v : gval) : option bool := match v with GBool b => Some b | _ => None end.

(* values without parts *)
Definition leaf (v : gval) : bool :=
  match v with GNil | GBool _ | GInt _ | GStr _ | GNum _ | GFloat _ => true | _ => false end.

Lemma is_zero_leaf : forall t v, is_zero t v = true -> leaf v = true.
Proof. intros t v H. destruct t; destruct v; simpl in H; try discriminate H; reflexivity. Qed.

Lemma empty_leaf : forall t v, is_empty t v = Some true -> nonnil_empty v = false -> leaf v = true.
Proof.
  intros t v He Hn. destruct t; destruct v; simpl in He; try discriminate He; try reflexivity.
  - destruct l; [discriminate Hn | discriminate He].
  - destruct l; [discriminate Hn | discriminate He].
Qed.

Lemma leaf_not_empty : forall v, leaf v = true -> nonnil_empty v = false.
Proof. intros v H. destruct v; try discriminate H; reflexivity. Qed.

(* a non-nil empty collection that has the type of its field is "empty", and so is the nil of that type *)
Lemma nonnil_empty_is_empty : forall t v e,
  is_empty t v = Some e -> nonnil_empty v = true -> e = true /\ is_empty t GNil = Some true.
Proof.
  intros t v e He Hn. destruct v; try discriminate Hn; destruct l; try discriminate Hn;
    destruct t; simpl in He; try discriminate He; inversion He; split; reflexivity.
Qed.

Section Nilify.
Variable tb : tables.

Lemma nilify_as_bool : forall n t v, as_bool (nilify tb n t v) = as_bool v.
Proof.
  intros [|n] t v; [reflexivity|].
  destruct t as [ | | | | | |t'|t'|t'|nm]; destruct v; cbn [nilify]; try reflexivity.
  destruct (lookup_sd tb nm); reflexivity.
Qed.

Lemma nilify_is_empty : forall n t v, is_empty t (nilify tb n t v) = is_empty t v.
Proof.
  intros [|n] t v; [reflexivity|].
  destruct t as [ | | | | | |t'|t'|t'|nm]; destruct v; cbn [nilify]; try reflexivity.
  - destruct l; reflexivity.
  - destruct l; reflexivity.
  - destruct (lookup_sd tb nm); reflexivity.
Qed.

Lemma nilify_nonnil_empty : forall n t v, nonnil_empty (nilify tb n t v) = nonnil_empty v.
Proof.
  intros [|n] t v; [reflexivity|].
  destruct t as [ | | | | | |t'|t'|t'|nm]; destruct v; cbn [nilify]; try reflexivity.
  - destruct l; reflexivity.
  - destruct l; reflexivity.
  - destruct (lookup_sd tb nm); reflexivity.
Qed.

Lemma nilify_leaf : forall n t v, leaf v = true -> nilify tb n t v = v.
Proof. intros [|n] t v H; [reflexivity|]. destruct t; destruct v; try discriminate H; reflexivity. Qed.

Lemma nilify_slice_shape : forall n t l, exists l', nilify tb n (TSlice t) (GSlice l) = GSlice l'.
Proof. intros [|n] t l; cbn [nilify]; eauto. Qed.

Lemma nilify_map_shape : forall n t l, exists l', nilify tb n (TMap t) (GMap l) = GMap l'.
Proof. intros [|n] t l; cbn [nilify]; eauto. Qed.

(* ---- struct fields --------------------------------------------------------------------------------------- *)
Section FieldsN.
Variable p : policy.
Variable nm : string.
Variable n : nat.
Variable ok : field -> gval -> bool.

(* the value [nilify_fields] puts in place of [v] *)
Definition new_field (f : field) (v : gval) : gval :=
  if f_skip f then v else if f_omit f && nonnil_empty v then GNil else nilify tb n (f_ty f) v.

Lemma nilify_fields_cons : forall f fs v vs,
  nilify_fields (nilify tb n) (f :: fs) (v :: vs) = new_field f v :: nilify_fields (nilify tb n) fs vs.
Proof. reflexivity. Qed.

Lemma new_field_leaf : forall f v, leaf v = true -> new_field f v = v.
Proof.
  intros f v H. unfold new_field. destruct (f_skip f); [reflexivity|].
  rewrite (leaf_not_empty v H), andb_false_r. exact (nilify_leaf n (f_ty f) v H).
Qed.

Lemma new_field_as_bool : forall f v, as_bool (new_field f v) = as_bool v.
Proof.
  intros f v. unfold new_field. destruct (f_skip f); [reflexivity|].
  destruct (f_omit f && nonnil_empty v) eqn:E; [|apply nilify_as_bool].
  apply andb_true_iff in E. destruct E as [_ E]. destruct v; try discriminate E; reflexivity.
Qed.

Lemma bool_field_nilify : forall go fs vs,
  bool_field fs (nilify_fields (nilify tb n) fs vs) go = bool_field fs vs go.
Proof.
  intros go. induction fs as [|f fs IH]; intros vs; [destruct vs; reflexivity|].
  destruct vs as [|v vs]; [reflexivity|].
  rewrite nilify_fields_cons. cbn [bool_field].
  destruct (String.eqb (f_go f) go); [|apply IH].
  exact (new_field_as_bool f v).
Qed.

Lemma flag_only_nilify : forall go fs vs,
  flag_only fs vs go = true -> nilify_fields (nilify tb n) fs vs = vs.
Proof.
  intros go. induction fs as [|f fs IH]; intros vs H; [destruct vs; reflexivity|].
  destruct vs as [|v vs]; [reflexivity|].
  cbn [flag_only] in H. apply andb_true_iff in H. destruct H as [Hv Hr].
  rewrite nilify_fields_cons, (IH vs Hr). f_equal.
  apply new_field_leaf. destruct (String.eqb (f_go f) go).
  - destruct v; try discriminate Hv. reflexivity.
  - exact (is_zero_leaf _ _ Hv).
Qed.

(* what [fields_ok] says about one field, and what [nilify_fields] makes of it *)
Lemma field_cases : forall f v,
  (if f_skip f then is_zero (f_ty f) v
   else match is_empty (f_ty f) v with
        | None => false
        | Some e => if f_omit f && e
                    then negb (nonnil_empty v) || (if lossy_field nm (f_go f) then p_empty_lossy p else p_empty p)
                    else ok f v
        end) = true ->
  (* skipped *)
  (f_skip f = true /\ is_zero (f_ty f) v = true /\ new_field f v = v)
  (* omitted, a non-nil empty collection: replaced by nil *)
  \/ (f_skip f = false /\ f_omit f = true /\ nonnil_empty v = true /\ is_empty (f_ty f) v = Some true
      /\ is_empty (f_ty f) GNil = Some true /\ new_field f v = GNil
      /\ (if lossy_field nm (f_go f) then p_empty_lossy p else p_empty p) = true)
  (* omitted, a zero value: unchanged *)
  \/ (f_skip f = false /\ f_omit f = true /\ nonnil_empty v = false /\ is_empty (f_ty f) v = Some true
      /\ new_field f v = v)
  (* written *)
  \/ (f_skip f = false /\ (exists e, is_empty (f_ty f) v = Some e /\ f_omit f && e = false) /\ ok f v = true
      /\ new_field f v = nilify tb n (f_ty f) v).
Proof.
  intros f v H. unfold new_field.
  destruct (f_skip f) eqn:Hs; [left; auto|]. right.
  destruct (is_empty (f_ty f) v) as [e|] eqn:He; [|discriminate H].
  destruct (nonnil_empty v) eqn:Hn.
  - destruct (nonnil_empty_is_empty _ _ _ He Hn) as [-> HeN].
    destruct (f_omit f) eqn:Ho; simpl in H |- *.
    + left. repeat split; auto.
    + right. right. repeat split; eauto.
  - rewrite andb_false_r. destruct (f_omit f && e) eqn:Hoe.
    + apply andb_true_iff in Hoe. destruct Hoe as [Ho ->].
      right. left. repeat split; auto.
      apply nilify_leaf. exact (empty_leaf _ _ He Hn).
    + right. right. repeat split; eauto.
Qed.

Lemma fields_m_nilify : forall (m : gty -> gval -> res json) fs vs,
  (forall f v, In f fs -> ok f v = true -> m (f_ty f) (nilify tb n (f_ty f) v) = m (f_ty f) v) ->
  fields_ok p nm ok fs vs = true ->
  fields_m m fs (nilify_fields (nilify tb n) fs vs) = fields_m m fs vs.
Proof.
  intros m. induction fs as [|f fs IH]; intros vs Hm Hok; [destruct vs; reflexivity|].
  destruct vs as [|v vs]; [reflexivity|].
  cbn [fields_ok] in Hok. apply andb_true_iff in Hok. destruct Hok as [Hf Hr].
  rewrite nilify_fields_cons. cbn [fields_m].
  rewrite (IH vs (fun f' v' Hin => Hm f' v' (or_intror Hin)) Hr).
  destruct (field_cases f v Hf) as [[Hs [_ Hn]] | [[Hs [Ho [_ [He [HeN [Hn _]]]]]] | [[Hs [Ho [_ [He Hn]]]] | [Hs [[e [He Hoe]] [Hv Hn]]]]]];
    rewrite Hn, Hs.
  - reflexivity.
  - rewrite He, HeN, Ho. reflexivity.
  - reflexivity.
  - rewrite nilify_is_empty, He, Hoe. rewrite (Hm f v (or_introl eq_refl) Hv). reflexivity.
Qed.

Lemma fields_ok_nilify : forall p' (ok' : field -> gval -> bool) fs vs,
  (forall f v, In f fs -> ok f v = true -> ok' f (nilify tb n (f_ty f) v) = true) ->
  fields_ok p nm ok fs vs = true ->
  fields_ok p' nm ok' fs (nilify_fields (nilify tb n) fs vs) = true.
Proof.
  intros p' ok'. induction fs as [|f fs IH]; intros vs Hk Hok; [destruct vs; [reflexivity | discriminate Hok]|].
  destruct vs as [|v vs]; [discriminate Hok|].
  cbn [fields_ok] in Hok. apply andb_true_iff in Hok. destruct Hok as [Hf Hr].
  rewrite nilify_fields_cons. cbn [fields_ok].
  rewrite (IH vs (fun f' v' Hin => Hk f' v' (or_intror Hin)) Hr), andb_true_r.
  destruct (field_cases f v Hf) as [[Hs [Hz Hn]] | [[Hs [Ho [_ [He [HeN [Hn _]]]]]] | [[Hs [Ho [Hne [He Hn]]]] | [Hs [[e [He Hoe]] [Hv Hn]]]]]];
    rewrite Hn, Hs.
  - exact Hz.
  - rewrite HeN, Ho. reflexivity.
  - rewrite He, Ho, Hne. reflexivity.
  - rewrite nilify_is_empty, He, Hoe. exact (Hk f v (or_introl eq_refl) Hv).
Qed.

Lemma fields_nilify_id : forall fs vs,
  p_empty p = false -> p_empty_lossy p = false ->
  (forall f v, In f fs -> ok f v = true -> nilify tb n (f_ty f) v = v) ->
  fields_ok p nm ok fs vs = true -> nilify_fields (nilify tb n) fs vs = vs.
Proof.
  intros fs vs Hp1 Hp2. revert vs. induction fs as [|f fs IH]; intros vs Hk Hok; [destruct vs; reflexivity|].
  destruct vs as [|v vs]; [reflexivity|].
  cbn [fields_ok] in Hok. apply andb_true_iff in Hok. destruct Hok as [Hf Hr].
  rewrite nilify_fields_cons.
  rewrite (IH vs (fun f' v' Hin => Hk f' v' (or_intror Hin)) Hr). f_equal.
  destruct (field_cases f v Hf) as [[Hs [Hz Hn]] | [[Hs [Ho [_ [He [HeN [Hn Hp]]]]]] | [[Hs [Ho [Hne [He Hn]]]] | [Hs [[e [He Hoe]] [Hv Hn]]]]]].
  - exact Hn.
  - rewrite Hp1, Hp2 in Hp. destruct (lossy_field nm (f_go f)); discriminate Hp.
  - exact Hn.
  - rewrite Hn. exact (Hk f v (or_introl eq_refl) Hv).
Qed.
End FieldsN.

(* an interface value accepted by [okp] holds a value accepted by [okp] in some context *)
Lemma okp_iface_inner : forall p n c t v,
  okp tb p (S n) c TAny (GIface t v) = true -> exists c', okp tb p n c' t v = true.
Proof.
  intros p n c t v Hc. cbn [okp] in Hc. destruct c as [un|nm].
  - destruct t; try discriminate Hc.
    + eauto.
    + eauto.
    + apply andb_true_iff in Hc. destruct Hc as [_ Hc]. eauto.
    + destruct t; try discriminate Hc. destruct v; try discriminate Hc. eauto.
    + destruct t; try discriminate Hc. destruct v; try discriminate Hc. eauto.
  - destruct t; try discriminate Hc.
    + eauto.
    + eauto.
    + eauto.
    + destruct t; try discriminate Hc. destruct v; try discriminate Hc.
      apply andb_true_iff in Hc. destruct Hc as [_ Hc]. eauto.
    + destruct t; try discriminate Hc. destruct v; try discriminate Hc.
      apply andb_true_iff in Hc. destruct Hc as [_ Hc]. eauto.
Qed.

(* ---- (a) json.Marshal writes the same document for v and nilify v ----------------------------------------- *)
Section SameJson.
Variable p : policy.

Definition nm_at (n : nat) : Prop :=
  forall c t v, okp tb p n c t v = true -> marshal tb n t (nilify tb n t v) = marshal tb n t v.

Lemma nm_step : forall n, nm_at n -> nm_at (S n).
Proof.
  intros n IH c t v Hc.
  destruct t as [ | | | | | |t'|t'|t'|nm]; destruct v; try reflexivity.
  - (* any *)
    destruct (okp_iface_inner _ _ _ _ _ Hc) as [c' Hc']. cbn [nilify marshal]. exact (IH _ _ _ Hc').
  - (* pointer *)
    cbn [okp] in Hc. apply andb_true_iff in Hc. destruct Hc as [_ Hc]. cbn [nilify marshal]. exact (IH _ _ _ Hc).
  - (* slice *)
    cbn [okp] in Hc. cbn [nilify marshal].
    rewrite (mapM_map_ext (marshal tb n t') (nilify tb n t') l); [reflexivity|].
    intros x Hin. rewrite forallb_forall in Hc. exact (IH _ _ _ (Hc x Hin)).
  - (* map *)
    cbn [okp] in Hc. apply andb_true_iff in Hc. destruct Hc as [_ Hc]. cbn [nilify marshal].
    rewrite (sorted_keys_map (nilify tb n t') l).
    rewrite (mapM_map_ext (fun kv => bind (marshal tb n t' (snd kv)) (fun j => Ok (sanitize (fst kv), j)))
               (fun kv => (fst kv, nilify tb n t' (snd kv))) l); [reflexivity|].
    intros [k x] Hin. rewrite forallb_forall in Hc. pose proof (Hc _ Hin) as Hx. simpl in Hx.
    apply andb_true_iff in Hx. destruct Hx as [_ Hx]. simpl. rewrite (IH _ _ _ Hx). reflexivity.
  - (* struct *)
    cbn [okp] in Hc. cbn [nilify].
    destruct (lookup_sd tb nm) as [sd|] eqn:Hl; [|reflexivity].
    cbn [marshal]. rewrite Hl. rewrite !bool_field_nilify.
    assert (Hplain : forall cf : field -> dctx,
              fields_ok p nm (fun f v => okp tb p n (cf f) (f_ty f) v) (sd_fields sd) l = true ->
              fields_m (marshal tb n) (sd_fields sd) (nilify_fields (nilify tb n) (sd_fields sd) l)
              = fields_m (marshal tb n) (sd_fields sd) l).
    { intros cf Hok.
      apply (fields_m_nilify p nm n (fun f v => okp tb p n (cf f) (f_ty f) v) (marshal tb n)); [|exact Hok].
      intros f v _ Hv. exact (IH _ _ _ Hv). }
    destruct (sd_marshal sd); try discriminate Hc; destruct (sd_unmarshal sd); try discriminate Hc.
    + rewrite (Hplain _ Hc). reflexivity.
    + rewrite (Hplain _ Hc). reflexivity.
    + rewrite (Hplain _ Hc). reflexivity.
    + destruct (bool_field (sd_fields sd) l "Never") as [[|]|]; try discriminate Hc;
        destruct (bool_field (sd_fields sd) l "Always") as [[|]|]; try discriminate Hc; try reflexivity.
      rewrite (Hplain _ Hc). reflexivity.
Qed.

Lemma nilify_marshal_p : forall n c t v,
  okp tb p n c t v = true -> marshal tb n t (nilify tb n t v) = marshal tb n t v.
Proof.
  induction n as [|n IH].
  - intros c t v H. discriminate H.
  - exact (nm_step n IH).
Qed.
End SameJson.

(* ---- (b) nilify v has no omitted non-nil empty collection left ------------------------------------------- *)
(* the policy that tolerates what [p] tolerates except omitted empties *)
Definition strip (p : policy) : policy := mkPolicy (p_number p) (p_anynum p) false false (p_utf8 p).

Section Stripped.
Variable p : policy.

Definition nk_at (n : nat) : Prop :=
  forall c t v, okp tb p n c t v = true -> okp tb (strip p) n c t (nilify tb n t v) = true.

Lemma nk_step : forall n, nk_at n -> nk_at (S n).
Proof.
  intros n IH c t v Hc.
  destruct t as [ | | | | | |t'|t'|t'|nm]; destruct v; cbn [okp] in Hc; try discriminate Hc;
    cbn [nilify]; try exact Hc.
  - (* any *)
    cbn [okp]. destruct c as [un|nm].
    + destruct t; try discriminate Hc.
      * exact (IH _ _ _ Hc).
      * exact (IH _ _ _ Hc).
      * apply andb_true_iff in Hc. destruct Hc as [A Hc].
        apply andb_true_iff. split; [exact A | exact (IH _ _ _ Hc)].
      * destruct t; try discriminate Hc. destruct v; try discriminate Hc.
        pose proof (IH _ _ _ Hc) as H'. destruct (nilify_slice_shape n TAny l) as [l' El]. rewrite El in *. exact H'.
      * destruct t; try discriminate Hc. destruct v; try discriminate Hc.
        pose proof (IH _ _ _ Hc) as H'. destruct (nilify_map_shape n TAny l) as [l' El]. rewrite El in *. exact H'.
    + destruct t; try discriminate Hc.
      * exact (IH _ _ _ Hc).
      * exact (IH _ _ _ Hc).
      * exact (IH _ _ _ Hc).
      * destruct t; try discriminate Hc. destruct v; try discriminate Hc.
        apply andb_true_iff in Hc. destruct Hc as [A Hc].
        pose proof (IH _ _ _ Hc) as H'. destruct (nilify_slice_shape n (TNamed n0) l) as [l' El]. rewrite El in *.
        apply andb_true_iff. split; [exact A | exact H'].
      * destruct t; try discriminate Hc. destruct v; try discriminate Hc.
        apply andb_true_iff in Hc. destruct Hc as [A Hc].
        pose proof (IH _ _ _ Hc) as H'. destruct (nilify_map_shape n (TNamed n0) l) as [l' El]. rewrite El in *.
        apply andb_true_iff. split; [exact A | exact H'].
  - (* pointer *)
    cbn [okp]. apply andb_true_iff in Hc. destruct Hc as [A Hc].
    apply andb_true_iff. split; [exact A | exact (IH _ _ _ Hc)].
  - (* slice *)
    cbn [okp]. apply (forallb_map_imp (okp tb p n c t')); [|exact Hc].
    intros x _ Hx. exact (IH _ _ _ Hx).
  - (* map *)
    cbn [okp]. apply andb_true_iff in Hc. destruct Hc as [A Hc].
    rewrite (sorted_keys_map (nilify tb n t') l), A. simpl.
    apply (forallb_map_imp (fun kv => str_ok p (fst kv) && okp tb p n c t' (snd kv))); [|exact Hc].
    intros [k x] _ Hx. simpl in Hx |- *. apply andb_true_iff in Hx. destruct Hx as [Hk Hx].
    apply andb_true_iff. split; [exact Hk | exact (IH _ _ _ Hx)].
  - (* struct *)
    destruct (lookup_sd tb nm) as [sd|] eqn:Hl; [|discriminate Hc].
    cbn [okp]. rewrite Hl. rewrite !bool_field_nilify.
    assert (Hplain : forall cf : field -> dctx,
              fields_ok p nm (fun f v => okp tb p n (cf f) (f_ty f) v) (sd_fields sd) l = true ->
              fields_ok (strip p) nm (fun f v => okp tb (strip p) n (cf f) (f_ty f) v) (sd_fields sd)
                        (nilify_fields (nilify tb n) (sd_fields sd) l) = true).
    { intros cf Hok.
      apply (fields_ok_nilify p nm n (fun f v => okp tb p n (cf f) (f_ty f) v)); [|exact Hok].
      intros f v _ Hv. exact (IH _ _ _ Hv). }
    destruct (sd_marshal sd); try discriminate Hc; destruct (sd_unmarshal sd); try discriminate Hc.
    + exact (Hplain _ Hc).
    + exact (Hplain _ Hc).
    + exact (Hplain _ Hc).
    + destruct (bool_field (sd_fields sd) l "Never") as [[|]|]; try discriminate Hc;
        destruct (bool_field (sd_fields sd) l "Always") as [[|]|]; try discriminate Hc;
        try (rewrite (flag_only_nilify n _ _ _ Hc); exact Hc).
      exact (Hplain _ Hc).
Qed.

Lemma nilify_okp : forall n c t v,
  okp tb p n c t v = true -> okp tb (strip p) n c t (nilify tb n t v) = true.
Proof.
  induction n as [|n IH].
  - intros c t v H. discriminate H.
  - exact (nk_step n IH).
Qed.
End Stripped.

(* ---- (c) nilify changes nothing where there is nothing to replace ------------------------------------------ *)
Section Fixed.
Variable p : policy.
Hypothesis Hp1 : p_empty p = false.
Hypothesis Hp2 : p_empty_lossy p = false.

Definition ni_at (n : nat) : Prop := forall c t v, okp tb p n c t v = true -> nilify tb n t v = v.

Lemma ni_step : forall n, ni_at n -> ni_at (S n).
Proof.
  intros n IH c t v Hc.
  destruct t as [ | | | | | |t'|t'|t'|nm]; destruct v; try reflexivity.
  - (* any *)
    destruct (okp_iface_inner _ _ _ _ _ Hc) as [c' Hc']. cbn [nilify]. rewrite (IH _ _ _ Hc'). reflexivity.
  - (* pointer *)
    cbn [okp] in Hc. apply andb_true_iff in Hc. destruct Hc as [_ Hc]. cbn [nilify]. rewrite (IH _ _ _ Hc). reflexivity.
  - (* slice *)
    cbn [okp] in Hc. cbn [nilify]. rewrite (map_id_in (nilify tb n t') l); [reflexivity|].
    intros x Hin. rewrite forallb_forall in Hc. exact (IH _ _ _ (Hc x Hin)).
  - (* map *)
    cbn [okp] in Hc. apply andb_true_iff in Hc. destruct Hc as [_ Hc]. cbn [nilify].
    rewrite (map_id_in (fun kv => (fst kv, nilify tb n t' (snd kv))) l); [reflexivity|].
    intros [k x] Hin. rewrite forallb_forall in Hc. pose proof (Hc _ Hin) as Hx. simpl in Hx.
    apply andb_true_iff in Hx. destruct Hx as [_ Hx]. simpl. rewrite (IH _ _ _ Hx). reflexivity.
  - (* struct *)
    cbn [okp] in Hc. cbn [nilify].
    destruct (lookup_sd tb nm) as [sd|] eqn:Hl; [|reflexivity].
    assert (Hplain : forall cf : field -> dctx,
              fields_ok p nm (fun f v => okp tb p n (cf f) (f_ty f) v) (sd_fields sd) l = true ->
              nilify_fields (nilify tb n) (sd_fields sd) l = l).
    { intros cf Hok.
      apply (fields_nilify_id p nm n (fun f v => okp tb p n (cf f) (f_ty f) v) (sd_fields sd) l Hp1 Hp2); [|exact Hok].
      intros f v _ Hv. exact (IH _ _ _ Hv). }
    destruct (sd_marshal sd); try discriminate Hc; destruct (sd_unmarshal sd); try discriminate Hc.
    + rewrite (Hplain _ Hc). reflexivity.
    + rewrite (Hplain _ Hc). reflexivity.
    + rewrite (Hplain _ Hc). reflexivity.
    + destruct (bool_field (sd_fields sd) l "Never") as [[|]|]; try discriminate Hc;
        destruct (bool_field (sd_fields sd) l "Always") as [[|]|]; try discriminate Hc;
        try (rewrite (flag_only_nilify n _ _ _ Hc); reflexivity).
      rewrite (Hplain _ Hc). reflexivity.
Qed.

Lemma nilify_fixed : forall n c t v, okp tb p n c t v = true -> nilify tb n t v = v.
Proof.
  induction n as [|n IH].
  - intros c t v H. discriminate H.
  - exact (ni_step n IH).
Qed.
End Fixed.
End Nilify.

(* ---- the statements ------------------------------------------------------------------------------------------ *)
(* json.Marshal drops an omitted empty collection whether it is nil or not: same document *)
Theorem nilify_marshal : forall tb p n c t v,
  okp tb p n c t v = true -> marshal tb n t (nilify tb n t v) = marshal tb n t v.
Proof. exact nilify_marshal_p. Qed.

Theorem nilify_clean : forall tb n c t v,
  tidy tb n c t v = true -> clean tb n c t (nilify tb n t v) = true.
Proof. intros tb n c t v H. exact (nilify_okp tb pol_tidy n c t v H). Qed.

Theorem nilify_id : forall tb n c t v, clean tb n c t v = true -> nilify tb n t v = v.
Proof. intros tb. exact (nilify_fixed tb pol_none eq_refl eq_refl). Qed.

(* ---- a more tolerant policy accepts more: in particular clean values are tidy ------------------------------- *)
Lemma fields_ok_weaken (p1 p2 : policy) (nm : string) (ok1 ok2 : field -> gval -> bool) : forall fs vs,
  (p_empty p1 = true -> p_empty p2 = true) -> (p_empty_lossy p1 = true -> p_empty_lossy p2 = true) ->
  (forall f v, ok1 f v = true -> ok2 f v = true) ->
  fields_ok p1 nm ok1 fs vs = true -> fields_ok p2 nm ok2 fs vs = true.
Proof.
  induction fs as [|f fs IH]; intros vs E1 E2 H H1.
  - destruct vs; [reflexivity | discriminate].
  - destruct vs as [|v vs]; [discriminate|].
    simpl in *. apply andb_true_iff in H1. destruct H1 as [A1 B1].
    apply andb_true_iff. split; [|exact (IH vs E1 E2 H B1)].
    destruct (f_skip f); [exact A1|].
    destruct (is_empty (f_ty f) v) as [e|]; [|discriminate].
    destruct (f_omit f && e); [|exact (H f v A1)].
    destruct (nonnil_empty v); simpl in *; [|reflexivity].
    destruct (lossy_field nm (f_go f)); auto.
Qed.

Section Mono.
Variable tb : tables.
Variables p1 p2 : policy.
Hypothesis L1 : p_number p1 = true -> p_number p2 = true.
Hypothesis L2 : p_anynum p1 = true -> p_anynum p2 = true.
Hypothesis L3 : p_empty p1 = true -> p_empty p2 = true.
Hypothesis L4 : p_empty_lossy p1 = true -> p_empty_lossy p2 = true.
Hypothesis L5 : p_utf8 p1 = true -> p_utf8 p2 = true.

Lemma str_ok_mono : forall s, str_ok p1 s = true -> str_ok p2 s = true.
Proof.
  intros s H. unfold str_ok in *. destruct (valid_utf8 s); [reflexivity|]. simpl in *. exact (L5 H).
Qed.

Definition mono_at (n : nat) : Prop := forall c t v, okp tb p1 n c t v = true -> okp tb p2 n c t v = true.

Lemma mono_step : forall n, mono_at n -> mono_at (S n).
Proof.
  intros n IH c t v H1.
  destruct t; destruct v; cbn [okp] in H1 |- *; try discriminate H1; try reflexivity; try exact H1.
  - exact (str_ok_mono _ H1).
  - apply andb_true_iff in H1. destruct H1 as [A1 B1]. rewrite A1. simpl.
    destruct (valid_number text); [reflexivity|]. simpl in *. exact (L1 B1).
  - destruct c as [un|nm].
    + destruct t; try discriminate H1; try exact (IH _ _ _ H1).
      * apply andb_true_iff in H1. destruct H1 as [A1 B1]. rewrite (IH _ _ _ B1), andb_true_r.
        destruct un; [reflexivity|]. simpl in *. exact (L2 A1).
      * destruct t; try discriminate H1. destruct v; try discriminate H1. exact (IH _ _ _ H1).
      * destruct t; try discriminate H1. destruct v; try discriminate H1. exact (IH _ _ _ H1).
    + destruct t; try discriminate H1; try exact (IH _ _ _ H1).
      * destruct t; try discriminate H1. destruct v; try discriminate H1.
        apply andb_true_iff in H1. destruct H1 as [A1 B1]. rewrite A1, (IH _ _ _ B1). reflexivity.
      * destruct t; try discriminate H1. destruct v; try discriminate H1.
        apply andb_true_iff in H1. destruct H1 as [A1 B1]. rewrite A1, (IH _ _ _ B1). reflexivity.
  - apply andb_true_iff in H1. destruct H1 as [A1 B1]. rewrite A1, (IH _ _ _ B1). reflexivity.
  - rewrite forallb_forall in *. intros x Hin. exact (IH _ _ _ (H1 x Hin)).
  - apply andb_true_iff in H1. destruct H1 as [A1 B1]. rewrite A1. simpl.
    rewrite forallb_forall in *. intros x Hin. pose proof (B1 x Hin) as Hx.
    apply andb_true_iff in Hx. destruct Hx as [Hk Hx].
    apply andb_true_iff. split; [exact (str_ok_mono _ Hk) | exact (IH _ _ _ Hx)].
  - destruct (lookup_sd tb n0) as [sd|]; [|discriminate].
    destruct (sd_marshal sd); try discriminate H1; destruct (sd_unmarshal sd); try discriminate H1.
    + apply (fields_ok_weaken p1 p2 _ _ _ _ _ L3 L4 (fun f v => IH _ _ _) H1).
    + apply (fields_ok_weaken p1 p2 _ _ _ _ _ L3 L4 (fun f v => IH _ _ _) H1).
    + apply (fields_ok_weaken p1 p2 _ _ _ _ _ L3 L4 (fun f v => IH _ _ _) H1).
    + destruct (bool_field (sd_fields sd) l "Never") as [[|]|]; try discriminate H1;
        destruct (bool_field (sd_fields sd) l "Always") as [[|]|]; try discriminate H1; try exact H1.
      apply (fields_ok_weaken p1 p2 _ _ _ _ _ L3 L4 (fun f v => IH _ _ _) H1).
Qed.

Lemma okp_mono : forall n c t v, okp tb p1 n c t v = true -> okp tb p2 n c t v = true.
Proof.
  induction n as [|n IH].
  - intros c t v H. discriminate H.
  - exact (mono_step n IH).
Qed.
End Mono.

Theorem clean_tidy : forall tb n c t v, clean tb n c t v = true -> tidy tb n c t v = true.
Proof.
  intros tb. apply (okp_mono tb pol_none pol_tidy); simpl; intro H; discriminate H.
Qed.

Theorem tidy_wellformed : forall tb n c t v, tidy tb n c t v = true -> wellformed tb n c t v = true.
Proof.
  intros tb. apply (okp_mono tb pol_tidy pol_all); reflexivity.
Qed.

(* a tidy value comes back as its nilified form *)
Theorem roundtrip_tidy : forall tb, tables_ok tb = true -> forall n c t v,
  tidy tb n c t v = true ->
  exists j, marshal tb n t v = Ok j /\ unmarshal tb n c t j = Ok (nilify tb n t v).
Proof.
  intros tb Htb n c t v Ht.
  destruct (roundtrip_clean tb Htb n c t (nilify tb n t v) (nilify_clean tb n c t v Ht)) as [j [Hj Hu]].
  exists j. split; [|exact Hu].
  rewrite <- (nilify_marshal tb pol_tidy n c t v Ht). exact Hj.
Qed.

(* ---- outside the four classes that lose information, a well-formed value is tidy --------------------------- *)
Theorem lossy_classes_cover : forall tb n c t v,
  wellformed tb n c t v = true ->
  kf_nonfinite tb n c t v = false -> kf_any_number tb n c t v = false ->
  kf_empty_lossy tb n c t v = false -> kf_non_utf8 tb n c t v = false ->
  tidy tb n c t v = true.
Proof.
  intros tb n c t v Hw K1 K2 K3 K4.
  unfold kf_nonfinite, kf_any_number, kf_empty_lossy, kf_non_utf8 in *.
  rewrite Hw in K1, K2, K3, K4. simpl in K1, K2, K3, K4.
  apply negb_false_iff in K1. apply negb_false_iff in K2. apply negb_false_iff in K3. apply negb_false_iff in K4.
  pose proof (okp_meet tb _ _ n c t v K1 K2) as M12.
  pose proof (okp_meet tb _ _ n c t v K3 K4) as M34.
  exact (okp_meet tb _ _ n c t v M12 M34).
Qed.

Corollary in_lossy_class_false : forall tb n c t v,
  wellformed tb n c t v = true -> in_lossy_class tb n c t v = false -> tidy tb n c t v = true.
Proof.
  intros tb n c t v Hw H. unfold in_lossy_class in H.
  apply orb_false_iff in H. destruct H as [H K4]. apply orb_false_iff in H. destruct H as [H K3].
  apply orb_false_iff in H. destruct H as [K1 K2].
  exact (lossy_classes_cover tb n c t v Hw K1 K2 K3 K4).
Qed.

(* well-formed and outside the classes that lose information: the API returns the nilified value *)
Corollary roundtrip_lossless : forall tb, tables_ok tb = true -> forall n c t v,
  wellformed tb n c t v = true -> in_lossy_class tb n c t v = false ->
  exists j, marshal tb n t v = Ok j /\ unmarshal tb n c t j = Ok (nilify tb n t v).
Proof.
  intros tb Htb n c t v Hw K. exact (roundtrip_tidy tb Htb n c t v (in_lossy_class_false tb n c t v Hw K)).
Qed.
