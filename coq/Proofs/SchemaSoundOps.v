(* Proofs/SchemaSoundOps.v — C06, schema clause: the accessors of eval/eval.go preserve the invariant [sa].
   evaluateUnknownAccess on the declared schema against evaluateValueAccess on the value the provider returned:
   the schema reached by the path accepts the value reached by the path. *)
From Verif Require Import Base.Bytes Base.Wire Model.Chain Model.GoText Model.Envelope Model.Eval Corr.EvalWire.
From Verif Require Corr.C06.
From Verif Require Import Proofs.NonInterferenceRel Proofs.NonInterferenceOps Proofs.NonInterferenceBuiltins
     Proofs.CheckApproxRel Proofs.CheckApproxEval Proofs.CheckApproxExamples
     Proofs.SchemaSoundAccept Proofs.SchemaSoundUnion Proofs.SchemaSoundProperty Proofs.SchemaSoundItem Proofs.SchemaSoundRel.
From Coq Require Import Lia ZifyN ZifyNat ZifyBool.

Lemma invalid_access_eq : invalid_access = [unknown_layer false ScAlways].
Proof. reflexivity. Qed.

Lemma h1_invalid : h1 invalid_access.
Proof. now apply h1_unk. Qed.

Lemma accC_invalid s : accC s invalid_access.
Proof. now apply ac_unk. Qed.

Lemma sa_invalid b : sa b invalid_access invalid_access.
Proof. apply sa_unk; [apply good_always|apply h1_invalid|apply ac_always]. Qed.

Lemma accC_union1 p ch : accC p ch -> accC (sch_union [p]) ch.
Proof. rewrite sch_union_single. destruct p; simpl; auto. Qed.

(* ---------------- evaluateUnknownAccess ---------------- *)
Lemma unknown_access_cons s a rest :
  unknown_access s (a :: rest) =
  match s with
  | ScAlways => unknown_access ScAlways rest
  | ScArray prefix items =>
      let n := match items with Some ScNever => Z.of_nat (length prefix) | _ => (-1)%Z end in
      match array_index a n with
      | Some i => unknown_access (sch_item (sch_depth s) i s) rest
      | None => (invalid_access, 1%N)
      end
  | ScObject _ _ =>
      match object_key a with
      | Some k => unknown_access (sch_property (sch_depth s) k s) rest
      | None => (invalid_access, 1%N)
      end
  | _ => (invalid_access, 1%N)
  end.
Proof. reflexivity. Qed.

Lemma ua_always accs : fst (unknown_access ScAlways accs) = [unknown_layer false ScAlways].
Proof. induction accs as [|a rest IH]; [reflexivity|]. rewrite unknown_access_cons. exact IH. Qed.

(* the result is one unknown scalar layer *)
Lemma ua_unk_shape : forall accs s, exists s', fst (unknown_access s accs) = [unknown_layer false s'].
Proof.
  induction accs as [|a rest IH]; intros s; [eexists; reflexivity|]. rewrite unknown_access_cons.
  destruct s; try (eexists; reflexivity); try apply IH.
  - cbv zeta. destruct (array_index a _); [apply IH|eexists; reflexivity].
  - destruct (object_key a); [apply IH|eexists; reflexivity].
Qed.

Lemma good_array_items b prefix items : good b (ScArray prefix items) = true -> exists it, items = Some it.
Proof. unfold good. cbn [sch_ok]. destruct items; [eauto|discriminate]. Qed.

Lemma good_object_addl b props addl : good b (ScObject props addl) = true -> exists ad, addl = Some ad.
Proof. unfold good. cbn [sch_ok]. destruct addl; [eauto|discriminate]. Qed.

Lemma good_sch_item b i prefix items : good b (ScArray prefix items) = true -> good b (sch_item (sch_depth (ScArray prefix items)) i (ScArray prefix items)) = true.
Proof.
  intros H. rewrite sch_item_array. destruct (item_sch prefix items i) eqn:E; [|apply good_never].
  apply good_union1. eapply good_item; eauto.
Qed.

Lemma good_sch_property b k props addl : good b (ScObject props addl) = true -> good b (sch_property (sch_depth (ScObject props addl)) k (ScObject props addl)) = true.
Proof.
  intros H. rewrite sch_property_object. destruct (prop_sch props addl k) eqn:E; [|apply good_never].
  apply good_union1. eapply good_prop; eauto.
Qed.

(* ... whose schema stays in the class *)
Lemma ua_shape b : forall accs s, good b s = true ->
  exists s', fst (unknown_access s accs) = [unknown_layer false s'] /\ good b s' = true.
Proof.
  induction accs as [|a rest IH]; intros s Hg; [eexists; split; [reflexivity|exact Hg]|]. rewrite unknown_access_cons.
  destruct s; try (exists ScAlways; split; [reflexivity|apply good_always]).
  - now apply IH.
  - cbv zeta. destruct (array_index a _); [|exists ScAlways; split; [reflexivity|apply good_always]].
    apply IH. now apply good_sch_item.
  - destruct (object_key a); [|exists ScAlways; split; [reflexivity|apply good_always]].
    apply IH. now apply good_sch_property.
Qed.

Lemma array_index_same a n m i j : array_index a n = Some i -> array_index a m = Some j -> i = j.
Proof.
  destruct a; simpl; try discriminate. destruct (i0 <? 0)%Z; [discriminate|].
  destruct ((0 <=? n)%Z && (n <=? i0)%Z); [discriminate|]. destruct ((0 <=? m)%Z && (m <=? i0)%Z); [discriminate|]. congruence.
Qed.

Lemma array_index_lt a n i : array_index a (Z.of_nat n) = Some i -> (i < n)%nat.
Proof.
  destruct a; simpl; try discriminate. destruct (i0 <? 0)%Z eqn:E1; [discriminate|].
  destruct ((0 <=? Z.of_nat n)%Z && (Z.of_nat n <=? i0)%Z) eqn:E2; [discriminate|]. intros H; injection H as <-. lia.
Qed.

Lemma value_access_S f c accs :
  value_access (S f) c accs =
  match accs with
  | [] => (c, 0%N)
  | a :: rest =>
      match c with
      | [] => (invalid_access, 1%N)
      | l :: base =>
          if l_unk l then unknown_access (top_sch c) accs
          else match l with
               | LArr _ _ _ elems =>
                   match array_index a (Z.of_nat (length elems)) with
                   | Some i => value_access f (nth i elems []) rest
                   | None => (invalid_access, 1%N)
                   end
               | LObj _ _ _ props =>
                   match object_key a with
                   | None => (invalid_access, 1%N)
                   | Some k =>
                       match alookup k props with
                       | Some child => value_access f (child ++ property k base) rest
                       | None => if is_object base then value_access f base accs else (invalid_access, 1%N)
                       end
                   end
               | LScalar _ _ _ _ => (invalid_access, 1%N)
               end
      end
  end.
Proof. reflexivity. Qed.

Lemma value_access_O c accs : value_access O c accs = (invalid_access, 1%N).
Proof. reflexivity. Qed.

(* the schema reached by the path accepts the value reached by the path *)
Theorem ua_acc b : forall accs f s o s',
  good b s = true -> accC s o -> fst (unknown_access s accs) = [unknown_layer false s'] ->
  accC s' (fst (value_access f o accs)).
Proof.
  induction accs as [|a rest IH]; intros f s o s' Hg Ha E.
  - destruct f; [rewrite value_access_O; apply accC_invalid|]. rewrite value_access_S. simpl in E. injection E as <-. exact Ha.
  - destruct f as [|f]; [rewrite value_access_O; apply accC_invalid|]. rewrite value_access_S.
    rewrite unknown_access_cons in E.
    destruct Ha as [s|s l r Hu|o|sec c x0|sec c e prefix items H|sec c p props addl H|alts a0 o Ha0 H].
    + apply accC_invalid.
    + rewrite Hu. destruct (ua_unk_shape (a :: rest) (top_sch (l :: r))) as [s'' ->]. now apply ac_unk.
    + rewrite ua_always in E. injection E as <-. apply ac_always.
    + cbn [l_unk]. apply accC_invalid.
    + cbn [l_unk]. cbv zeta in E.
      destruct (array_index a (Z.of_nat (length e))) as [i|] eqn:AI; [|apply accC_invalid].
      destruct (array_index a _) as [j|] eqn:AJ in E; [|simpl in E; injection E as <-; apply ac_always].
      assert (j = i) by (eapply array_index_same; eauto). subst j.
      eapply IH; [apply good_sch_item; exact Hg| |exact E].
      rewrite sch_item_array. destruct (good_array_items _ _ _ Hg) as [it ->].
      pose proof (array_index_lt _ _ _ AI) as Hlt.
      assert (N : nth_error e i = Some (nth i e [])) by now apply nth_error_nth'.
      specialize (H _ _ N). unfold item_sch in *. destruct (nth_error prefix i); cbn [osch] in H; now apply accC_union1.
    + cbn [l_unk].
      destruct (object_key a) as [k|]; [|apply accC_invalid].
      destruct (alookup k p) as [ch|] eqn:L; [|cbn [is_object]; apply accC_invalid].
      cbn [property]. rewrite app_nil_r.
      eapply IH; [apply good_sch_property; exact Hg| |exact E].
      rewrite sch_property_object. destruct (good_object_addl _ _ _ Hg) as [ad ->].
      specialize (H _ _ (alookup_In' _ _ _ L)). unfold prop_sch in *. destruct (alookup k props); cbn [osch] in H; now apply accC_union1.
    + simpl in E. injection E as <-. apply ac_always.
Qed.

Theorem h1_value_access : forall f o accs, h1 o -> h1 (fst (value_access f o accs)).
Proof.
  induction f as [|f IH]; intros o accs H; [apply h1_invalid|]. rewrite value_access_S.
  destruct accs as [|a rest]; [exact H|].
  destruct H as [|l Hu|s c x|s c e He|s c p Hp].
  - apply h1_invalid.
  - rewrite Hu. destruct (ua_unk_shape (a :: rest) (top_sch [l])) as [s' ->]. now apply h1_unk.
  - apply h1_invalid.
  - cbn [l_unk]. destruct (array_index a _) as [i|] eqn:AI; [|apply h1_invalid]. apply IH.
    apply array_index_lt in AI. apply He. now apply nth_In.
  - cbn [l_unk]. destruct (object_key a) as [k|]; [|apply h1_invalid].
    destruct (alookup k p) as [ch|] eqn:L; [|cbn [is_object]; apply h1_invalid].
    cbn [property]. rewrite app_nil_r. apply IH. eapply Hp. apply alookup_In'. exact L.
Qed.

(* ---------------- evaluateValueAccess preserves the invariant ---------------- *)
Theorem value_access_sa b : forall f c o accs, sa b c o ->
  sa b (fst (value_access f c accs)) (fst (value_access f o accs)).
Proof.
  induction f as [|f IH]; intros c o accs H; [apply sa_invalid|].
  destruct accs as [|a rest]; [exact H|].
  destruct H as [|s sc x o Hg Hh Ha|s x c'|s c' e e' He|s c' p p' Hp].
  - apply sa_invalid.
  - rewrite (value_access_S f [_]). cbn [l_unk]. rewrite top_sch_single. cbn [l_sch].
    destruct (ua_shape b (a :: rest) sc Hg) as (s' & E & Hg'). rewrite E.
    apply sa_unk; [exact Hg'|now apply h1_value_access|]. exact (ua_acc b (a :: rest) (S f) sc o s' Hg Ha E).
  - rewrite !value_access_S. cbn [l_unk]. apply sa_invalid.
  - rewrite !value_access_S. cbn [l_unk]. rewrite (Forall2_length _ _ _ He).
    destruct (array_index a _) as [i|]; [|apply sa_invalid]. apply IH. apply Forall2_nth; [exact He|constructor].
  - rewrite !value_access_S. cbn [l_unk]. destruct (object_key a) as [k|]; [|apply sa_invalid].
    pose proof (alookup_rel _ k _ _ Hp) as HL.
    destruct (alookup k p), (alookup k p'); simpl in HL; try contradiction.
    + cbn [property]. rewrite !app_nil_r. now apply IH.
    + cbn [is_object]. apply sa_invalid.
Qed.

Lemma opt_top_sec_sa b v v' : sa b v v' -> sa b (opt_top_sec v) (opt_top_sec v').
Proof.
  intros H. destruct H as [|s sc x o Hg Hh Ha|s x c'|s c' e e' He|s c' p p' Hp]; cbn [opt_top_sec set_sec].
  - constructor.
  - (* an unknown check layer: the open side only changes its secret flag *)
    apply sa_unk; [exact Hg| |].
    + destruct Hh as [|l Hu|s0 c x0|s0 c e He|s0 c p Hp]; cbn [opt_top_sec set_sec].
      * constructor.
      * apply h1_unk. destruct l; exact Hu.
      * apply h1_scalar.
      * now apply h1_arr.
      * now apply h1_obj.
    + clear Hh Hg. induction Ha as [s0|s0 l r Hu|o|sec c x0|sec c e prefix items H _|sec c p props addl H _|alts a0 o Ha0 H IH];
        cbn [opt_top_sec set_sec].
      * constructor.
      * apply ac_unk. destruct l; exact Hu.
      * apply ac_always.
      * apply ac_type.
      * now apply ac_arr.
      * now apply ac_obj.
      * eapply ac_oneof; eauto.
  - constructor.
  - now constructor.
  - now constructor.
Qed.

(* ---------------- strings ---------------- *)
Definition strish (o : chain) : Prop :=
  exists s u x, o = [LScalar s u (ScType "string") x] /\ (u = true \/ exists t, x = SStr t).

Lemma strish_h1 o : strish o -> h1 o.
Proof. intros (s & u & x & -> & _). destruct u; [now apply h1_unk|apply h1_scalar]. Qed.

Lemma strish_acc o : strish o -> accC (ScType "string") o.
Proof. intros (s & u & x & -> & [->|[t ->]]); [now apply ac_unk|]. destruct u; [now apply ac_unk|]. apply (ac_type s _ (SStr t)). Qed.

Lemma strish_unk s x : strish [LScalar s true (ScType "string") x].
Proof. repeat eexists. now left. Qed.

Lemma strish_str s u t : strish [str_layer s u t].
Proof. repeat eexists. right. eauto. Qed.

Lemma sa_unk_str b s x o : strish o -> sa b [LScalar s true (ScType "string") x] o.
Proof. intros H. apply sa_unk; [apply good_type|now apply strish_h1|now apply strish_acc]. Qed.

Lemma sa_str b s t : sa b [str_layer s false t] [str_layer s false t].
Proof. apply (sa_scalar b s (SStr t)). Qed.

Lemma sa_unk_always b s x o : h1 o -> sa b [LScalar s true ScAlways x] o.
Proof. intros H. apply sa_unk; [apply good_always|exact H|apply ac_always]. Qed.
