(* Proofs/PositionsBase.v — strings, UTF-8 segmentation, the line table. *)
From Coq Require Import Lia ZifyNat ZifyBool.
From Verif Require Import Base.Bytes Model.Positions.
Local Open Scope Z_scope.

(* ---------------- strings ---------------- *)
Lemma app_assoc_s : forall a b c : string, (a +++ b) +++ c = a +++ b +++ c.
Proof. induction a as [|x a IH]; intros b c; cbn [String.append]; [reflexivity | now rewrite IH]. Qed.

Lemma app_nil_r_s : forall a : string, a +++ EmptyString = a.
Proof. induction a as [|x a IH]; cbn [String.append]; [reflexivity | now rewrite IH]. Qed.

Lemma length_app_s : forall a b : string, String.length (a +++ b) = (String.length a + String.length b)%nat.
Proof. induction a as [|x a IH]; intros b; cbn [String.append String.length]; [reflexivity | now rewrite IH]. Qed.

Lemma slenZ_app : forall a b, slenZ (a +++ b) = slenZ a + slenZ b.
Proof. intros a b. unfold slenZ. rewrite length_app_s. lia. Qed.

Lemma slenZ_nonneg : forall a, 0 <= slenZ a.
Proof. intros a. unfold slenZ. lia. Qed.

Lemma slenZ_cons : forall c a, slenZ (String c a) = 1 + slenZ a.
Proof. intros c a. unfold slenZ. cbn [String.length]. lia. Qed.

Lemma sdrop_app : forall a b : string, sdrop (String.length a) (a +++ b) = b.
Proof. induction a as [|x a IH]; intros b; cbn [String.append String.length sdrop]; [now destruct b | apply IH]. Qed.

Lemma stake_app : forall a b : string, stake (String.length a) (a +++ b) = a.
Proof. induction a as [|x a IH]; intros b; cbn [String.append String.length stake]; [now destruct b | now rewrite IH]. Qed.

Lemma substr_app : forall a v z : string,
  substr (slenZ a) (slenZ a + slenZ v) (a +++ v +++ z) = v.
Proof.
  intros a v z. unfold substr, slenZ.
  replace (Z.to_nat (Z.of_nat (String.length a) + Z.of_nat (String.length v) - Z.of_nat (String.length a)))
    with (String.length v) by lia.
  rewrite Nat2Z.id, sdrop_app. apply stake_app.
Qed.

Lemma substr_mid : forall x v y bz ez, bz = slenZ x -> ez = slenZ x + slenZ v ->
  substr bz ez (x +++ v +++ y) = v.
Proof. intros x v y bz ez -> ->. apply substr_app. Qed.

(* ---------------- concat_str ---------------- *)
Lemma concat_str_app : forall l1 l2, concat_str (l1 ++ l2) = concat_str l1 +++ concat_str l2.
Proof.
  induction l1 as [|x l1 IH]; intros l2; cbn [concat_str app String.append]; [reflexivity|].
  now rewrite IH, app_assoc_s.
Qed.

(* ---------------- UTF-8 segmentation ---------------- *)
Lemma cps_aux_concat : forall s k, fst (cps_aux s k) +++ concat_str (snd (cps_aux s k)) = s.
Proof.
  induction s as [|c r IH]; intros k; [reflexivity|].
  cbn [cps_aux]. destruct k as [|k'].
  - specialize (IH (rune_size c - 1)%nat). destruct (cps_aux r (rune_size c - 1)) as [p l].
    cbn [fst snd concat_str String.append] in *. now rewrite IH.
  - specialize (IH k'). destruct (cps_aux r k') as [p l]. cbn [fst snd String.append] in *. now rewrite IH.
Qed.

Lemma cps_aux_fst0 : forall s, fst (cps_aux s 0) = EmptyString.
Proof. destruct s as [|c r]; [reflexivity|]. cbn [cps_aux]. now destruct (cps_aux r (rune_size c - 1)). Qed.

Lemma chars_concat : forall s, concat_str (chars_of s) = s.
Proof.
  intros s. unfold chars_of. pose proof (cps_aux_concat s 0) as H. rewrite cps_aux_fst0 in H. exact H.
Qed.

(* appending after whole code points *)
Lemma cps_aux_app : forall a x k, pending a k = 0%nat ->
  cps_aux (a +++ x) k = (fst (cps_aux a k), snd (cps_aux a k) ++ chars_of x).
Proof.
  induction a as [|c r IH]; intros x k Hp.
  - cbn [pending] in Hp. subst k. cbn [String.append cps_aux fst snd app]. unfold chars_of.
    pose proof (cps_aux_fst0 x) as H0. destruct (cps_aux x 0) as [p l]. cbn [fst snd] in *. now subst p.
  - cbn [String.append cps_aux pending] in *. destruct k as [|k'].
    + rewrite (IH x _ Hp). destruct (cps_aux r (rune_size c - 1)) as [p l]. reflexivity.
    + rewrite (IH x _ Hp). destruct (cps_aux r k') as [p l]. reflexivity.
Qed.

Lemma chars_app : forall a x, complete a = true -> chars_of (a +++ x) = chars_of a ++ chars_of x.
Proof.
  intros a x H. unfold complete in H. apply Nat.eqb_eq in H. unfold chars_of at 1.
  now rewrite (cps_aux_app a x 0 H).
Qed.

Lemma pending_app : forall a x k, pending (a +++ x) k = pending x (pending a k).
Proof.
  induction a as [|c r IH]; intros x k; [reflexivity|].
  cbn [String.append pending]. destruct k; apply IH.
Qed.

Lemma complete_app : forall a x, complete a = true -> complete x = true -> complete (a +++ x) = true.
Proof.
  unfold complete. intros a x Ha Hx. apply Nat.eqb_eq in Ha. rewrite pending_app, Ha. exact Hx.
Qed.

Lemma nchars_app : forall a x, complete a = true -> nchars (a +++ x) = nchars a + nchars x.
Proof. intros a x H. unfold nchars. rewrite (chars_app a x H), app_length. lia. Qed.

(* ASCII text: every code point is one byte *)
Lemma rune_size_spec : forall c, rune_size c = rune_size_N c.
Proof. intros [[|] [|] [|] [|] [|] [|] [|] [|]]; reflexivity. Qed.

Lemma is_nl_spec : forall c, is_nl c = is_nl_N c.
Proof. intros [[|] [|] [|] [|] [|] [|] [|] [|]]; reflexivity. Qed.

Lemma rune_size_ascii : forall c, (N_of_ascii c <? 128)%N = true -> rune_size c = 1%nat.
Proof.
  intros c H. rewrite rune_size_spec. unfold rune_size_N. replace (N_of_ascii c <? 194)%N with true by lia. reflexivity.
Qed.

Lemma ascii_chars_len1 : forall s, is_ascii_str s = true ->
  Forall (fun cp => String.length cp = 1%nat) (chars_of s).
Proof.
  induction s as [|c r IH]; intros H; [constructor|].
  cbn [is_ascii_str] in H. apply andb_prop in H. destruct H as [Hc Hr].
  unfold chars_of. cbn [cps_aux]. rewrite (rune_size_ascii c Hc). cbn [Nat.sub].
  pose proof (cps_aux_fst0 r) as H0. specialize (IH Hr). unfold chars_of in IH.
  destruct (cps_aux r 0) as [p l]. cbn [fst snd] in *. subst p. constructor; [reflexivity | exact IH].
Qed.

Lemma len1_concat : forall l, Forall (fun cp => String.length cp = 1%nat) l ->
  slenZ (concat_str l) = Z.of_nat (length l).
Proof.
  induction 1 as [|x l Hx _ IH]; [reflexivity|].
  cbn [concat_str length]. rewrite slenZ_app, IH. unfold slenZ. rewrite Hx. lia.
Qed.

Lemma ascii_complete : forall s, is_ascii_str s = true -> complete s = true.
Proof.
  unfold complete. induction s as [|c r IH]; intros H; [reflexivity|].
  cbn [is_ascii_str] in H. apply andb_prop in H. destruct H as [Hc Hr].
  cbn [pending]. rewrite (rune_size_ascii c Hc). cbn [Nat.sub]. now apply IH.
Qed.

Lemma ascii_nchars : forall s, is_ascii_str s = true -> nchars s = slenZ s.
Proof.
  intros s H. unfold nchars. rewrite <- (len1_concat _ (ascii_chars_len1 s H)). now rewrite chars_concat.
Qed.

(* ---------------- the domain of the width-sensitive theorems ---------------- *)
Lemma w1_prefix_split : forall cs cls, w1_prefix cls cs = true -> exists rest, cls = one_each cs ++ rest.
Proof.
  induction cs as [|c cs IH]; intros cls H.
  - now exists cls.
  - cbn [w1_prefix] in H. destruct cls as [|[cl w] cr]; [discriminate H|].
    apply andb_prop in H. destruct H as [H Hr]. apply andb_prop in H. destruct H as [Hc Hw].
    apply String.eqb_eq in Hc. apply Z.eqb_eq in Hw. subst cl w.
    destruct (IH cr Hr) as [rest ->]. now exists rest.
Qed.

Lemma w1_prefix_one_each : forall cs1 rest, w1_prefix (one_each cs1 ++ rest) cs1 = true.
Proof.
  induction cs1 as [|c cs1 IH]; intros rest; [reflexivity|].
  cbn [one_each map app w1_prefix]. fold (one_each cs1). now rewrite String.eqb_refl, Z.eqb_refl, (IH rest).
Qed.

Lemma one_each_app : forall a b, one_each (a ++ b) = one_each a ++ one_each b.
Proof. intros. unfold one_each. apply map_app. Qed.

Lemma w1_prefix_app_l : forall cs1 cs2 cls, w1_prefix cls (cs1 ++ cs2) = true -> w1_prefix cls cs1 = true.
Proof.
  intros cs1 cs2 cls H. apply w1_prefix_split in H. destruct H as [rest ->].
  rewrite one_each_app, <- app_assoc. apply w1_prefix_one_each.
Qed.

Lemma sum_w_one_each : forall cs, sum_w (one_each cs) = Z.of_nat (length cs).
Proof. induction cs as [|c cs IH]; [reflexivity|]. cbn [one_each map sum_w length]. fold (one_each cs). lia. Qed.

(* ---------------- lines ---------------- *)
(* the text is its lines separated by newlines *)
Fixpoint join_nl (ls : list string) : string :=
  match ls with
  | [] => EmptyString
  | l :: r => match r with [] => l | _ :: _ => l +++ String (ascii_of_N 10) (join_nl r) end
  end.

Lemma is_nl_true : forall c, is_nl c = true -> c = ascii_of_N 10.
Proof.
  intros c H. rewrite is_nl_spec in H. unfold is_nl_N in H. apply N.eqb_eq in H.
  rewrite <- (ascii_N_embedding c). now rewrite H.
Qed.

Lemma lines_join : forall s, join_nl (lines_of s) = s.
Proof.
  unfold lines_of. induction s as [|c r IH]; [reflexivity|].
  cbn [cut_lines]. destruct (cut_lines r) as [l ls]. destruct (is_nl c) eqn:E.
  - apply is_nl_true in E. subst c. cbn [join_nl String.append]. cbn [join_nl] in IH. now rewrite IH.
  - cbn [join_nl] in *. destruct ls as [|l2 ls].
    + now rewrite IH.
    + cbn [String.append]. now rewrite IH.
Qed.

Lemma lines_nonempty : forall s, lines_of s <> [].
Proof. intros s. unfold lines_of. now destruct (cut_lines s). Qed.

(* all the lines before [post], each with its newline *)
Definition nl : string := String (ascii_of_N 10) EmptyString.

Fixpoint concat_nl (ls : list string) : string :=
  match ls with [] => EmptyString | l :: r => l +++ nl +++ concat_nl r end.

Lemma slenZ_nl : slenZ nl = 1.
Proof. reflexivity. Qed.

Lemma lines_len_concat_nl : forall ls, slenZ (concat_nl ls) = lines_len ls.
Proof.
  induction ls as [|l r IH]; [reflexivity|].
  cbn [concat_nl lines_len]. rewrite !slenZ_app, IH, slenZ_nl. lia.
Qed.

Lemma join_nl_split : forall pre l post,
  join_nl (pre ++ l :: post) =
  concat_nl pre +++ l +++ match post with [] => EmptyString | _ :: _ => nl +++ join_nl post end.
Proof.
  induction pre as [|x pre IH]; intros l post.
  - cbn [app concat_nl String.append join_nl]. destruct post; [now rewrite app_nil_r_s | reflexivity].
  - cbn [app concat_nl]. cbn [join_nl]. destruct (pre ++ l :: post) eqn:E; [now destruct pre|].
    rewrite <- E, IH. unfold nl. cbn [String.append]. now rewrite !app_assoc_s.
Qed.

Lemma lines_len_app : forall a b, lines_len (a ++ b) = lines_len a + lines_len b.
Proof. induction a as [|x a IH]; intros b; cbn [app lines_len]; [lia | rewrite IH; lia]. Qed.

Lemma lines_len_nonneg : forall a, 0 <= lines_len a.
Proof. induction a as [|x a IH]; cbn [lines_len]; [lia | pose proof (slenZ_nonneg x); lia]. Qed.

(* text length in terms of a split of its lines *)
Lemma text_len_split : forall text pre l post, lines_of text = pre ++ l :: post ->
  slenZ text = lines_len pre + slenZ l + match post with [] => 0 | _ :: _ => 1 + slenZ (join_nl post) end.
Proof.
  intros text pre l post H. rewrite <- (lines_join text) at 1. rewrite H, join_nl_split.
  rewrite !slenZ_app, lines_len_concat_nl. destruct post; [change (slenZ EmptyString) with 0; lia|].
  rewrite slenZ_app, slenZ_nl. lia.
Qed.

Lemma text_split : forall text pre l post, lines_of text = pre ++ l :: post ->
  text = concat_nl pre +++ l +++ match post with [] => EmptyString | _ :: _ => nl +++ join_nl post end.
Proof. intros text pre l post H. rewrite <- (lines_join text) at 1. now rewrite H, join_nl_split. Qed.

(* ---------------- the index ---------------- *)
Lemma index_from_length : forall ls off, length (index_from off ls) = length ls.
Proof. induction ls as [|l r IH]; intros off; cbn [index_from length]; [reflexivity | now rewrite IH]. Qed.

Lemma index_from_nth : forall pre off l post,
  nth_error (index_from off (pre ++ l :: post)) (length pre)
  = Some {| l_off := off + lines_len pre; l_ascii := is_ascii_str l; l_line := l |}.
Proof.
  induction pre as [|x pre IH]; intros off l post.
  - cbn [app index_from length nth_error lines_len]. now rewrite Z.add_0_r.
  - cbn [app index_from length nth_error lines_len]. rewrite IH. do 2 f_equal. lia.
Qed.
