(* Proofs/TempFilesTop.v — corollaries in the form used by Properties/C16.v: the projection, the naming scheme of
   the harness' file system, and the command-level statements for a command started on [init_fs m0 n0]. *)
From Verif Require Import Base.Bytes Model.TempFiles Proofs.TempFilesMaps Proofs.TempFilesOps Proofs.TempFilesProofs.
From Coq Require Import Lia DecimalString DecimalNat.

(* ---- projection: exactly the scalar entries, rendered ---- *)
Lemma insert_sorted_In x y l : In y (insert_sorted x l) <-> y = x \/ In y l.
Proof.
  induction l as [|z r IH]; cbn [insert_sorted In]; [intuition|].
  destruct (String.leb (pe_key x) (pe_key z)); cbn [In]; [intuition|]. rewrite IH. intuition.
Qed.

Lemma sort_entries_In y l : In y (sort_entries l) <-> In y l.
Proof.
  induction l as [|x r IH]; cbn [sort_entries In]; [tauto|]. rewrite insert_sorted_In, IH. intuition.
Qed.

Lemma insert_sorted_length x l : length (insert_sorted x l) = S (length l).
Proof.
  induction l as [|z r IH]; cbn [insert_sorted length]; [reflexivity|].
  destruct (String.leb (pe_key x) (pe_key z)); cbn [length]; [reflexivity|]. rewrite IH. reflexivity.
Qed.

Lemma sort_entries_length l : length (sort_entries l) = length l.
Proof.
  induction l as [|x r IH]; cbn [sort_entries length]; [reflexivity|]. rewrite insert_sorted_length, IH. reflexivity.
Qed.

Lemma project_entries_In pe l :
  In pe (project_entries l) <->
  exists e, In e l /\ project (e_val e) = Some (pe_val pe) /\ pe_key pe = e_key e /\ pe_secret pe = e_secret e.
Proof.
  induction l as [|e r IH]; cbn [project_entries In].
  - split; [tauto|]. intros (e & [] & _).
  - destruct (project (e_val e)) as [s|] eqn:Ep; cbn [In]; rewrite ?IH; split.
    + intros [<-|(e' & Hin & H)]; [exists e; cbn; auto|exists e'; auto].
    + intros (e' & [<-|Hin] & Hp & Hk & Hs).
      * left. destruct pe as [k v b]. cbn in *. rewrite Ep in Hp. congruence.
      * right. exists e'. auto.
    + intros (e' & Hin & H). exists e'. auto.
    + intros (e' & [<-|Hin] & Hp & Hk & Hs); [congruence|]. exists e'. auto.
Qed.

Lemma projection_In pe l :
  In pe (projection l) <->
  exists e, In e l /\ project (e_val e) = Some (pe_val pe) /\ pe_key pe = e_key e /\ pe_secret pe = e_secret e.
Proof. unfold projection. rewrite sort_entries_In. apply project_entries_In. Qed.

(* ---- lists ---- *)
Lemma Forall2_In_combine {A B} (R : A -> B -> Prop) : forall l1 l2 a,
  Forall2 R l1 l2 -> In a l1 -> exists b, In (a, b) (combine l1 l2) /\ R a b.
Proof.
  induction 1 as [|x y r1 r2 Hxy _ IH]; intros Hin; [destruct Hin|].
  destruct Hin as [<-|Hin].
  - exists y. split; [left; reflexivity|exact Hxy].
  - destruct (IH Hin) as (b & Hb & Hr). exists b. split; [right; exact Hb|exact Hr].
Qed.

(* ---- the naming scheme temp/esc-temp-N never repeats a name ---- *)
Lemma append_inj_l s : forall a b, s +++ a = s +++ b -> a = b.
Proof. induction s as [|c r IH]; intros a b H; cbn in H; [exact H|]. inversion H. apply IH. assumption. Qed.

Lemma dec_nat_inj a b : dec_nat a = dec_nat b -> a = b.
Proof.
  unfold dec_nat. intro H.
  assert (E : Some (Nat.to_uint a) = Some (Nat.to_uint b)).
  { rewrite <- !NilEmpty.usu. rewrite H. reflexivity. }
  inversion E as [E']. rewrite <- (Unsigned.of_to a), <- (Unsigned.of_to b), E'. reflexivity.
Qed.

Lemma append_nil_r s : s +++ "" = s.
Proof. induction s as [|c r IH]; cbn; [reflexivity|]. rewrite IH. reflexivity. Qed.

Lemma prefixed_dec_inj pre a b : pre +++ dec_nat a = pre +++ dec_nat b -> a = b.
Proof. intro H. apply dec_nat_inj. eapply append_inj_l. exact H. Qed.

(* ---- statements for a command started on [init_fs m0 n0] ---- *)
Section Top.
  Variable plan : kind -> nat -> bool.
  Variable name_of : nat -> string.
  Variable P : tf_params.
  Hypothesis name_inj : forall a b, name_of a = name_of b -> a = b.
  Hypothesis Hshape : tp_remove_on_write_fail P = true /\ tp_rollback P = true /\ tp_defer_cleanup P = true.
  Variable m0 : fmap.
  Variable n0 : nat.
  Hypothesis Hfresh : forall n, (n0 <= n)%nat -> lookup (name_of n) m0 = None.

  Notation run := (run_command plan name_of P (init_fs m0 n0)).

  Lemma start_ok_init : start_ok name_of m0 (init_fs m0 n0).
  Proof. split; [exact Hfresh|]. split; reflexivity. Qed.

  Let Hrm := proj1 Hshape.
  Let Hrb := proj1 (proj2 Hshape).
  Let Hdc := proj2 (proj2 Hshape).

  Theorem all_removed_on_return cfg q c :
    lookup q (fs_files (o_fs (run cfg))) = Some c ->
    lookup q m0 = Some c \/ In (EvRemove q RmFault) (fs_trace (o_fs (run cfg))).
  Proof.
    intro H. destruct (run_leak plan name_of P name_inj Hrm Hrb m0 Hdc _ cfg start_ok_init q c H) as [H1|[[]|H1]]; auto.
  Qed.

  Theorem nothing_else_is_touched cfg :
    rc_unlink cfg = false \/ o_child (run cfg) = None ->
    (forall q, ~ In (EvRemove q RmFault) (fs_trace (o_fs (run cfg))) ->
               lookup q (fs_files (o_fs (run cfg))) = lookup q m0) /\
    (forall q c, lookup q m0 = Some c -> lookup q (fs_files (o_fs (run cfg))) = Some c) /\
    ((forall i, plan KRemove i = false) -> forall q, lookup q (fs_files (o_fs (run cfg))) = lookup q m0).
  Proof.
    intro Hu. pose proof (run_inv plan name_of P name_inj Hrm Hrb m0 Hdc _ cfg start_ok_init Hu) as [F A B C].
    assert (A' : forall q, ~ In (EvRemove q RmFault) (fs_trace (o_fs (run cfg))) ->
                 lookup q (fs_files (o_fs (run cfg))) = lookup q m0) by (intros q Hq; apply A; tauto).
    split; [exact A'|]. split.
    - intros q c Hq. rewrite A'; [exact Hq|]. intro Hin. rewrite (B q (or_intror Hin)) in Hq. discriminate.
    - intros Hnf q. apply A'. intro Hin. destruct (C q Hin) as [i Hi]. rewrite Hnf in Hi. discriminate.
  Qed.

  Theorem child_view_exact cfg cv :
    o_child (run cfg) = Some cv ->
    let fes := projection (rc_files cfg) in
    exists ps, length ps = length fes /\ NoDup ps /\
      cv_env cv = rc_base cfg ++ map (fun e => kv (pe_key e) (pe_val e)) (projection (rc_vars cfg))
                  ++ map (fun ep => kv (pe_key (fst ep)) (snd ep)) (combine fes ps) /\
      Forall2 (fun e p => exists c, lookup p (cv_files cv) = Some c /\ okc plan P (pe_val e) c) fes ps /\
      (forall p, In p ps -> lookup p m0 = None) /\
      (forall q, ~ In q ps -> lookup q (cv_files cv) = lookup q m0).
  Proof. exact (run_child_view plan name_of P name_inj m0 _ cfg cv start_ok_init). Qed.

  Theorem exported_under_keys cfg cv e :
    o_child (run cfg) = Some cv -> In e (projection (rc_files cfg)) ->
    exists p c, In (kv (pe_key e) p) (cv_env cv) /\ lookup p (cv_files cv) = Some c /\ lookup p m0 = None
                /\ okc plan P (pe_val e) c.
  Proof.
    intros Hc He. destruct (child_view_exact cfg cv Hc) as (ps & Hlen & _ & Henv & Hall & Hnew & _).
    destruct (Forall2_In_combine _ _ _ e Hall He) as (p & Hin & c & Hl & Hok).
    exists p, c. split; [|split; [exact Hl|split; [|exact Hok]]].
    - rewrite Henv. apply in_or_app. right. apply in_or_app. right.
      apply (in_map (fun ep => kv (pe_key (fst ep)) (snd ep)) _ _ Hin).
    - apply Hnew. apply in_combine_r in Hin. exact Hin.
  Qed.

  Theorem files_hold_projected_values cfg cv e :
    tp_close_checked P = true \/ (forall i, plan KClose i = false) ->
    o_child (run cfg) = Some cv -> In e (projection (rc_files cfg)) ->
    exists p, In (kv (pe_key e) p) (cv_env cv) /\ lookup p (cv_files cv) = Some (pe_val e) /\ lookup p m0 = None.
  Proof.
    intros Hcl Hc He. destruct (exported_under_keys cfg cv e Hc He) as (p & c & H1 & H2 & H3 & Hok).
    exists p. split; [exact H1|]. split; [|exact H3].
    destruct Hok as [->|(Hcc & (i & Hi) & _)]; [exact H2|].
    destruct Hcl as [Hcl|Hcl]; [congruence|]. rewrite Hcl in Hi. discriminate.
  Qed.

  Theorem kth_failure_rolls_back_and_runs_nothing cfg k :
    rc_found cfg = true -> rc_open cfg = OpenOk ->
    (k < length (projection (rc_files cfg)))%nat ->
    (forall i, (i < k)%nat -> file_ok plan P i = true) -> file_ok plan P k = false ->
    o_err (run cfg) = EPrepare /\ o_child (run cfg) = None /\
    (forall e, In e (fs_trace (o_fs (run cfg))) -> ~ is_run e) /\
    (forall i, (i < k)%nat -> exists r, In (EvRemove (name_of (n0 + i)) r) (fs_trace (o_fs (run cfg)))) /\
    (forall q c, lookup q (fs_files (o_fs (run cfg))) = Some c ->
                 lookup q m0 = Some c \/ In (EvRemove q RmFault) (fs_trace (o_fs (run cfg)))) /\
    ((forall i, plan KRemove i = false) -> forall q, lookup q (fs_files (o_fs (run cfg))) = lookup q m0).
  Proof.
    intros Hf Ho Hk Hpre Hbad.
    destruct (run_kth_failure plan name_of P name_inj Hrb m0 _ cfg k start_ok_init Hf Ho Hk Hpre Hbad)
      as (H1 & H2 & H3 & H4).
    split; [exact H1|]. split; [exact H2|]. split; [exact H3|]. split; [exact H4|]. split.
    - intros q c. apply all_removed_on_return.
    - apply (nothing_else_is_touched cfg). right. exact H2.
  Qed.

  Theorem child_started_iff_all_files_ok cfg :
    rc_found cfg = true -> rc_open cfg = OpenOk ->
    (forall i, (i < length (projection (rc_files cfg)))%nat -> file_ok plan P i = true) ->
    let ps := map name_of (seq n0 (length (projection (rc_files cfg)))) in
    if plan KRun 0 then o_err (run cfg) = EStart /\ o_child (run cfg) = None
    else o_err (run cfg) = (if rc_exit_ok cfg then EOk else EExit) /\
         exists cv, o_child (run cfg) = Some cv /\
           cv_env cv = rc_base cfg ++ map (fun e => kv (pe_key e) (pe_val e)) (projection (rc_vars cfg))
                       ++ map (fun ep => kv (pe_key (fst ep)) (snd ep)) (combine (projection (rc_files cfg)) ps).
  Proof.
    intros Hf Ho Hall.
    exact (run_all_ok plan name_of P name_inj Hrb m0 _ cfg start_ok_init Hf Ho Hall).
  Qed.

  (* the other ways the command ends before anything is created *)
  Theorem nothing_created_without_command_or_environment cfg :
    rc_found cfg = false \/ rc_open cfg <> OpenOk ->
    o_fs (run cfg) = init_fs m0 n0 /\ o_child (run cfg) = None.
  Proof.
    unfold run_command. intros [H|H].
    - rewrite H. cbn. auto.
    - destruct (rc_found cfg); cbn [negb]; [|cbn; auto]. destruct (rc_open cfg); [congruence| |]; cbn; auto.
  Qed.
End Top.
