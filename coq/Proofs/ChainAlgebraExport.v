(* Proofs/ChainAlgebraExport.v — value.go's lazy export: termination measure, fuel irrelevance, and the closed form of
   [export] on chains whose layers are plain JSON trees ([export_flat_layers]). *)
From Verif Require Import Base.Bytes Model.Chain Proofs.ChainAlgebraSorted.
From Coq Require Import Lia.
Local Open Scope nat_scope.

(* ================= 1. a size measure on chains ================= *)
Fixpoint lsize (l : layer) : nat :=
  match l with
  | LScalar _ _ _ _ => 1
  | LArr _ _ _ elems =>
      S ((fix go (es : list (list layer)) : nat :=
            match es with
            | [] => 0
            | c :: r => (fix g2 (c : list layer) : nat := match c with [] => 0 | l :: r' => lsize l + g2 r' end) c + go r
            end) elems)
  | LObj _ _ _ props =>
      S ((fix go (ps : list (string * list layer)) : nat :=
            match ps with
            | [] => 0
            | (_, c) :: r => (fix g2 (c : list layer) : nat := match c with [] => 0 | l :: r' => lsize l + g2 r' end) c + go r
            end) props)
  end.

Fixpoint csize (c : chain) : nat := match c with [] => 0 | l :: r => lsize l + csize r end.
Fixpoint cssize (cs : list chain) : nat := match cs with [] => 0 | c :: r => csize c + cssize r end.
Fixpoint psize (ps : list (string * chain)) : nat := match ps with [] => 0 | kc :: r => csize (snd kc) + psize r end.

Lemma csize_cons l r : csize (l :: r) = lsize l + csize r. Proof. reflexivity. Qed.
Lemma cssize_cons c r : cssize (c :: r) = csize c + cssize r. Proof. reflexivity. Qed.
Lemma psize_cons kc r : psize (kc :: r) = csize (snd kc) + psize r. Proof. reflexivity. Qed.

Lemma lsize_scalar s u c x : lsize (LScalar s u c x) = 1. Proof. reflexivity. Qed.

Lemma lsize_arr s u c elems : lsize (LArr s u c elems) = S (cssize elems).
Proof.
  reflexivity.
Qed.

Lemma lsize_obj s u c props : lsize (LObj s u c props) = S (psize props).
Proof.
  cbn [lsize]. f_equal. induction props as [|[k e] r IH]; [reflexivity|].
  rewrite psize_cons, <- IH. reflexivity.
Qed.

Lemma lsize_pos l : 1 <= lsize l.
Proof. destruct l; [rewrite lsize_scalar|rewrite lsize_arr|rewrite lsize_obj]; lia. Qed.

Lemma csize_app a b : csize (a ++ b) = csize a + csize b.
Proof. induction a as [|l a IH]; [reflexivity|]. rewrite <- app_comm_cons, !csize_cons, IH. lia. Qed.

Lemma cssize_In c cs : In c cs -> csize c <= cssize cs.
Proof. induction cs as [|d r IH]; [intros []|]. rewrite cssize_cons. intros [->|H]; [lia|]. specialize (IH H). lia. Qed.

Lemma psize_alookup k ps c : alookup k ps = Some c -> csize c <= psize ps.
Proof.
  induction ps as [|[k' c'] r IH]; [discriminate|]. rewrite psize_cons. cbn [alookup snd].
  destruct (String.eqb k k'); [intros [= ->]; lia|]. intros H. specialize (IH H). lia.
Qed.

(* [property] never grows a chain, and strictly shrinks one whose top is an object layer *)
Lemma csize_property_le k c : csize (property k c) <= csize c.
Proof.
  induction c as [|l r IH]; [reflexivity|]. rewrite csize_cons.
  destruct l as [s u sc x|s u sc e|s u sc p]; cbn [property l_unk].
  - destruct u; [|simpl; lia]. rewrite csize_cons. unfold unknown_layer. rewrite !lsize_scalar. lia.
  - destruct u; [|simpl; lia]. rewrite csize_cons. unfold unknown_layer. rewrite lsize_scalar, lsize_arr. lia.
  - rewrite lsize_obj. destruct (alookup k p) as [ch|] eqn:E; [|lia].
    rewrite csize_app. apply psize_alookup in E. lia.
Qed.

Lemma csize_property_lt k s u sc p r : csize (property k (LObj s u sc p :: r)) < csize (LObj s u sc p :: r).
Proof.
  rewrite csize_cons, lsize_obj. cbn [property]. pose proof (csize_property_le k r) as H.
  destruct (alookup k p) as [ch|] eqn:E; [|lia]. rewrite csize_app. apply psize_alookup in E. lia.
Qed.

(* ---------------- mapM ---------------- *)
Lemma mapM_total {A B} (f : A -> option B) (l : list A) :
  (forall x, In x l -> f x <> None) -> mapM f l <> None.
Proof.
  induction l as [|x r IH]; simpl; intros H; [discriminate|].
  destruct (f x) eqn:E; [|exfalso; exact (H x (or_introl eq_refl) E)].
  destruct (mapM f r) eqn:E2; [discriminate|]. exfalso. apply IH; [|reflexivity]. intros y Hy. apply H. now right.
Qed.

Lemma mapM_ext_in {A B} (f g : A -> option B) (l : list A) :
  (forall x, In x l -> f x = g x) -> mapM f l = mapM g l.
Proof.
  induction l as [|x r IH]; simpl; intros H; [reflexivity|].
  rewrite (H x (or_introl eq_refl)), IH; [reflexivity|]. intros y Hy. apply H. now right.
Qed.

Lemma mapM_mono {A B} (f g : A -> option B) (l : list A) (o : list B) :
  (forall x y, In x l -> f x = Some y -> g x = Some y) -> mapM f l = Some o -> mapM g l = Some o.
Proof.
  revert o. induction l as [|x r IH]; simpl; intros o H E; [exact E|].
  destruct (f x) as [y|] eqn:Ef; [|discriminate]. destruct (mapM f r) as [t|] eqn:Er; [|discriminate].
  rewrite (H x y (or_introl eq_refl) Ef), (IH t); [exact E| |reflexivity]. intros a b Ha. apply H. now right.
Qed.

Lemma mapM_Some_map {A B} (f : A -> option B) (g : A -> B) (l : list A) :
  (forall x, In x l -> f x = Some (g x)) -> mapM f l = Some (map g l).
Proof.
  induction l as [|x r IH]; simpl; intros H; [reflexivity|].
  rewrite (H x (or_introl eq_refl)), IH; [reflexivity|]. intros y Hy. apply H. now right.
Qed.

(* ================= export is total given fuel above the size, and fuel-irrelevant ================= *)
Lemma export_S (f : nat) (c : chain) :
  export (S f) c =
    match c with
    | [] => Some (XScalar false true SNull)
    | LScalar sec unk _ s :: _ => Some (XScalar sec unk s)
    | LArr sec unk _ elems :: _ => match mapM (export f) elems with Some l => Some (XArr sec unk l) | None => None end
    | LObj sec unk _ _ :: _ =>
        match mapM (fun k => match export f (property k c) with Some v => Some (k, v) | None => None end) (keys c) with
        | Some m => Some (XObj sec unk m)
        | None => None
        end
    end.
Proof. reflexivity. Qed.

Theorem export_total (fuel : nat) (c : chain) : csize c < fuel -> export fuel c <> None.
Proof.
  revert c. induction fuel as [|f IH]; intros c H; [lia|]. rewrite export_S.
  destruct c as [|[s u sc x|s u sc e|s u sc p] r]; try discriminate.
  - rewrite csize_cons, lsize_arr in H.
    destruct (mapM (export f) e) eqn:E; [discriminate|]. exfalso. revert E. apply mapM_total.
    intros x Hx. apply IH. apply cssize_In in Hx. lia.
  - match goal with |- match ?m with _ => _ end <> None => destruct m eqn:E end; [discriminate|].
    exfalso. revert E. apply mapM_total. intros k _.
    pose proof (csize_property_lt k s u sc p r) as Hlt.
    destruct (export f (property k (LObj s u sc p :: r))) eqn:E2; [discriminate|].
    exfalso. revert E2. apply IH. lia.
Qed.

Theorem export_fuel_mono (f f' : nat) (c : chain) (v : xval) : export f c = Some v -> f <= f' -> export f' c = Some v.
Proof.
  revert f' c v. induction f as [|f IH]; intros f' c v E Hle; [discriminate|].
  destruct f' as [|f']; [lia|]. rewrite export_S in *.
  destruct c as [|[s u sc x|s u sc e|s u sc p] r]; try exact E.
  - destruct (mapM (export f) e) as [l|] eqn:El; [|discriminate].
    rewrite (mapM_mono (export f) (export f') e l); [exact E| |exact El]. intros x y _ Hx. apply IH; [exact Hx|lia].
  - match type of E with match ?m with _ => _ end = _ => destruct m as [l|] eqn:El end; [|discriminate].
    erewrite mapM_mono; [exact E| |exact El]. cbv beta. intros k y _.
    destruct (export f (property k (LObj s u sc p :: r))) as [w|] eqn:Ew; [|discriminate].
    rewrite (IH f' _ w Ew); [tauto|lia].
Qed.

Corollary export_fuel_irrelevant (f f' : nat) (c : chain) : csize c < f -> csize c < f' -> export f c = export f' c.
Proof.
  intros H H'. destruct (export f c) as [v|] eqn:E; [|now apply export_total in E].
  destruct (export f' c) as [v'|] eqn:E'; [|now apply export_total in E'].
  destruct (Nat.le_ge_cases f f') as [L|L].
  - rewrite (export_fuel_mono _ _ _ _ E L) in E'. exact E'.
  - rewrite (export_fuel_mono _ _ _ _ E' L) in E. now symmetry.
Qed.

(* ================= 2. a fuel-free twin of [x_to_json] ================= *)
Fixpoint xjson (v : xval) : json :=
  match v with
  | XScalar _ u s => if u then JStr "[unknown]" else scalar_json s
  | XArr _ u l => if u then JStr "[unknown]" else JArr (map xjson l)
  | XObj _ u m => if u then JStr "[unknown]" else JObj (map (fun kv => (fst kv, xjson (snd kv))) m)
  end.

Lemma fold_max_le {A} (g : A -> nat) (l : list A) (a : nat) :
  a <= fold_left (fun a x => Nat.max a (g x)) l a /\
  forall x, In x l -> g x <= fold_left (fun a x => Nat.max a (g x)) l a.
Proof.
  revert a. induction l as [|y r IH]; simpl; intros a; [split; [lia|intros x []]|].
  destruct (IH (Nat.max a (g y))) as [H1 H2]. split; [lia|].
  intros x [->|Hx]; [lia|now apply H2].
Qed.

Lemma x_depth_arr s u l x : In x l -> x_depth x < x_depth (XArr s u l).
Proof. intros H. cbn [x_depth]. pose proof (proj2 (fold_max_le x_depth l 0) x H). lia. Qed.

Lemma x_depth_obj s u m kv : In kv m -> x_depth (snd kv) < x_depth (XObj s u m).
Proof. intros H. cbn [x_depth]. pose proof (proj2 (fold_max_le (fun kv => x_depth (snd kv)) m 0) kv H). lia. Qed.

Lemma x_to_json_xjson (fuel : nat) (v : xval) : x_depth v <= fuel -> x_to_json fuel v = xjson v.
Proof.
  revert v. induction fuel as [|f IH]; intros v H.
  - destruct v; cbn [x_depth] in H; lia.
  - destruct v as [s u x|s u l|s u m]; cbn [x_to_json xjson]; [reflexivity| |].
    + destruct u; [reflexivity|]. f_equal. apply map_ext_in. intros x Hx. apply IH.
      pose proof (x_depth_arr s false l x Hx). lia.
    + destruct u; [reflexivity|]. f_equal. apply map_ext_in. intros kv Hkv. f_equal. apply IH.
      pose proof (x_depth_obj s false m kv Hkv). lia.
Qed.

(* ================= a JSON tree as a single-layer chain ================= *)
Fixpoint esch (j : json) : sch :=
  match j with
  | JNull => ScType "null" | JBool _ => ScType "boolean" | JNum _ => ScType "number" | JStr _ => ScType "string"
  | JArr l => ScArray (map esch l) (Some ScNever)
  | JObj m => ScObject (map (fun kv => (fst kv, esch (snd kv))) m) None
  end.

Fixpoint elayer (j : json) : layer :=
  match j with
  | JNull => LScalar false false (esch j) SNull
  | JBool b => LScalar false false (esch j) (SBool b)
  | JNum t => LScalar false false (esch j) (SNum t)
  | JStr s => LScalar false false (esch j) (SStr s)
  | JArr l => LArr false false (esch j) (map (fun x => [elayer x]) l)
  | JObj m => LObj false false (esch j) (map (fun kv => (fst kv, [elayer (snd kv)])) m)
  end.

Definition embed (j : json) : chain := [elayer j].

Lemma concat_embed (js : list json) : concat (map embed js) = map elayer js.
Proof. induction js as [|j r IH]; [reflexivity|]. simpl. now rewrite IH. Qed.

(* ---------------- JSON sizes ---------------- *)
Fixpoint jsize (j : json) : nat :=
  match j with
  | JArr l => S ((fix go (l : list json) : nat := match l with [] => 0 | x :: r => jsize x + go r end) l)
  | JObj m => S ((fix go (m : list (string * json)) : nat := match m with [] => 0 | (_, x) :: r => jsize x + go r end) m)
  | _ => 1
  end.
Fixpoint jlsize (js : list json) : nat := match js with [] => 0 | j :: r => jsize j + jlsize r end.
Fixpoint jmsize (m : list (string * json)) : nat := match m with [] => 0 | kv :: r => jsize (snd kv) + jmsize r end.
Fixpoint jmssize (ms : list (list (string * json))) : nat := match ms with [] => 0 | m :: r => S (jmsize m) + jmssize r end.

Lemma jlsize_cons j r : jlsize (j :: r) = jsize j + jlsize r. Proof. reflexivity. Qed.
Lemma jmsize_cons kv r : jmsize (kv :: r) = jsize (snd kv) + jmsize r. Proof. reflexivity. Qed.
Lemma jmssize_cons m r : jmssize (m :: r) = S (jmsize m) + jmssize r. Proof. reflexivity. Qed.

Lemma jsize_arr l : jsize (JArr l) = S (jlsize l).
Proof. reflexivity. Qed.

Lemma jsize_obj m : jsize (JObj m) = S (jmsize m).
Proof. cbn [jsize]. f_equal. induction m as [|[k x] r IH]; [reflexivity|]. now rewrite jmsize_cons, <- IH. Qed.

Lemma jsize_pos j : 1 <= jsize j.
Proof. destruct j; try (rewrite jsize_arr; lia); try (rewrite jsize_obj; lia); cbn; lia. Qed.

Lemma jlsize_app a b : jlsize (a ++ b) = jlsize a + jlsize b.
Proof. induction a as [|j a IH]; [reflexivity|]. rewrite <- app_comm_cons, !jlsize_cons, IH. lia. Qed.

Lemma jlsize_In j l : In j l -> jsize j <= jlsize l.
Proof. induction l as [|x r IH]; [intros []|]. rewrite jlsize_cons. intros [->|H]; [lia|]. specialize (IH H). lia. Qed.

Lemma jmsize_alookup k m v : alookup k m = Some v -> jsize v <= jmsize m.
Proof.
  induction m as [|[k' v'] r IH]; [discriminate|]. rewrite jmsize_cons. cbn [alookup snd].
  destruct (String.eqb k k'); [intros [= ->]; lia|]. intros H. specialize (IH H). lia.
Qed.

(* ================= the reference semantics on JSON: object prefix / cut ================= *)

(* the maps of the maximal run of object layers at the top *)
Fixpoint oprefix (js : list json) : list (list (string * json)) :=
  match js with JObj m :: r => m :: oprefix r | _ => [] end.

(* value.go keys(): the keys of the base are inserted into the own (sorted) key list *)
Fixpoint jkeys (ms : list (list (string * json))) : list string :=
  match ms with [] => [] | m :: r => sunion (jkeys r) (map fst m) end.

(* value.go property(k) over the object prefix: the k-children, top first *)
Fixpoint jprop (k : string) (ms : list (list (string * json))) : list json :=
  match ms with
  | [] => []
  | m :: r => match alookup k m with Some v => v :: jprop k r | None => jprop k r end
  end.

Definition junknown : json := JStr "[unknown]".

Fixpoint fm (fuel : nat) (js : list json) : json :=
  match fuel with
  | O => JNull
  | S f =>
    match js with
    | [] => junknown                                         (* the nil value *)
    | JObj _ :: _ => let ms := oprefix js in JObj (map (fun k => (k, fm f (jprop k ms))) (jkeys ms))
    | JArr l :: _ => JArr (map (fun j => fm f [j]) l)        (* arrays replace; their elements are values of their own *)
    | j :: _ => j                                            (* a non-object cuts: everything below is invisible *)
    end
  end.

Definition flat_merge (js : list json) : json := fm (S (jlsize js)) js.

Lemma jlsize_jprop k ms : jlsize (jprop k ms) + length ms <= jmssize ms.
Proof.
  induction ms as [|m r IH]; [reflexivity|]. rewrite jmssize_cons. cbn [jprop length].
  destruct (alookup k m) as [v|] eqn:E; [rewrite jlsize_cons; apply jmsize_alookup in E|]; lia.
Qed.

Lemma jmssize_oprefix js : jmssize (oprefix js) <= jlsize js.
Proof.
  induction js as [|j r IH]; [reflexivity|]. rewrite jlsize_cons.
  destruct j; cbn [oprefix jmssize]; try lia. rewrite jsize_obj. change (S (jmsize m) + jmssize (oprefix r) <= S (jmsize m) + jlsize r). lia.
Qed.

Lemma jlsize_jprop_lt k m r : jlsize (jprop k (oprefix (JObj m :: r))) < jlsize (JObj m :: r).
Proof.
  pose proof (jlsize_jprop k (oprefix (JObj m :: r))) as H. pose proof (jmssize_oprefix (JObj m :: r)) as H2.
  cbn [oprefix length] in *. lia.
Qed.

Lemma fm_fuel (f f' : nat) (js : list json) : jlsize js < f -> jlsize js < f' -> fm f js = fm f' js.
Proof.
  revert f' js. induction f as [|f IH]; intros f' js H H'; [lia|]. destruct f' as [|f']; [lia|].
  cbn [fm]. destruct js as [|j r]; [reflexivity|]. destruct j; try reflexivity.
  - rewrite jlsize_cons, jsize_arr in *. f_equal. apply map_ext_in. intros x Hx. apply jlsize_In in Hx.
    apply IH; cbn [jlsize]; lia.
  - f_equal. apply map_ext. intros k. f_equal.
    pose proof (jlsize_jprop_lt k m r). apply IH; lia.
Qed.

(* the unfolding lemmas of [flat_merge], fuel-free *)
Lemma fm_S_arr f l r : fm (S f) (JArr l :: r) = JArr (map (fun j => fm f [j]) l).
Proof. reflexivity. Qed.
Lemma fm_S_obj f m r :
  fm (S f) (JObj m :: r) = JObj (map (fun k => (k, fm f (jprop k (oprefix (JObj m :: r))))) (jkeys (oprefix (JObj m :: r)))).
Proof. reflexivity. Qed.

Lemma flat_merge_nil : flat_merge [] = junknown.
Proof. reflexivity. Qed.

Definition fm_obj (ms : list (list (string * json))) : json := JObj (tab (fun k => flat_merge (jprop k ms)) (jkeys ms)).

Lemma flat_merge_obj m r : flat_merge (JObj m :: r) = fm_obj (oprefix (JObj m :: r)).
Proof.
  unfold flat_merge at 1. rewrite fm_S_obj. unfold fm_obj, tab, flat_merge. f_equal. apply map_ext. intros k. f_equal.
  pose proof (jlsize_jprop_lt k m r). apply fm_fuel; lia.
Qed.

Lemma flat_merge_arr l r : flat_merge (JArr l :: r) = JArr (map (fun j => flat_merge [j]) l).
Proof.
  unfold flat_merge at 1. rewrite fm_S_arr. unfold flat_merge. f_equal. apply map_ext_in. intros x Hx. apply jlsize_In in Hx.
  rewrite jlsize_cons, jsize_arr. apply fm_fuel; cbn [jlsize]; lia.
Qed.

Lemma flat_merge_scalar j r : (match j with JArr _ | JObj _ => False | _ => True end) -> flat_merge (j :: r) = j.
Proof. destruct j; intros H; try reflexivity; destruct H. Qed.

(* ================= value.go on embedded layers ================= *)
Lemma keys_emb (js : list json) : keys (map elayer js) = jkeys (oprefix js).
Proof.
  induction js as [|j r IH]; [reflexivity|]. destruct j; try reflexivity.
  cbn [map elayer keys oprefix jkeys]. rewrite IH. f_equal. apply (map_fst_map (fun v => [elayer v])).
Qed.

Lemma property_emb (k : string) (js : list json) : property k (map elayer js) = map elayer (jprop k (oprefix js)).
Proof.
  induction js as [|j r IH]; [reflexivity|]. destruct j; try reflexivity.
  cbn [map elayer property oprefix jprop].
  rewrite (alookup_map (fun v => [elayer v]) k m). destruct (alookup k m) as [v|]; cbn [option_map]; rewrite IH; reflexivity.
Qed.

Lemma csize_emb (js : list json) : csize (map elayer js) = jlsize js.
Proof.
  assert (H : forall n js, jlsize js < n -> csize (map elayer js) = jlsize js).
  { induction n as [|n IH]; intros l Hl; [lia|]. destruct l as [|j r]; [reflexivity|].
    rewrite jlsize_cons in Hl. cbn [map]. rewrite csize_cons, jlsize_cons.
    pose proof (jsize_pos j). rewrite (IH r) by lia. f_equal.
    destruct j; try reflexivity.
    - cbn [elayer]. rewrite lsize_arr, jsize_arr. f_equal. rewrite jsize_arr in Hl.
      assert (G : jlsize l < n) by lia. clear Hl H. induction l as [|x l' IHl]; [reflexivity|].
      rewrite jlsize_cons in *. cbn [map]. rewrite cssize_cons, IHl by lia. f_equal.
      change (csize (map elayer [x]) = jsize x). rewrite IH; cbn [jlsize]; lia.
    - cbn [elayer]. rewrite lsize_obj, jsize_obj. f_equal. rewrite jsize_obj in Hl.
      assert (G : jmsize m < n) by lia. clear Hl H. induction m as [|[k x] m' IHm]; [reflexivity|].
      rewrite jmsize_cons in *. cbn [snd] in *. cbn [map]. rewrite psize_cons, IHm by lia. f_equal. cbn [snd].
      change (csize (map elayer [x]) = jsize x). rewrite IH; cbn [jlsize]; lia. }
  apply (H (S (jlsize js))). lia.
Qed.

(* the exported value of a chain of embedded layers, in closed form *)
Lemma export_emb (fuel : nat) (js : list json) (v : xval) :
  export fuel (map elayer js) = Some v -> xjson v = flat_merge js.
Proof.
  revert js v. induction fuel as [|f IH]; intros js v E; [discriminate|]. rewrite export_S in E.
  destruct js as [|j r]; [injection E as <-; reflexivity|].
  destruct j; cbn [map elayer] in E; try (injection E as <-; reflexivity).
  - (* array *)
    destruct (mapM (export f) (map (fun x => [elayer x]) l)) as [vs|] eqn:Em; [|discriminate].
    injection E as <-. cbn [xjson]. rewrite flat_merge_arr. f_equal.
    revert vs Em. induction l as [|x l' IHl]; intros vs Em.
    + injection Em as <-. reflexivity.
    + cbn [map mapM] in Em. destruct (export f [elayer x]) as [y|] eqn:Ey; [|discriminate].
      destruct (mapM (export f) (map (fun x => [elayer x]) l')) as [t|] eqn:Et; [|discriminate].
      injection Em as <-. cbn [map]. f_equal; [|now apply IHl]. apply (IH [x]). exact Ey.
  - (* object *)
    change (LObj false false (esch (JObj m)) (map (fun kv => (fst kv, [elayer (snd kv)])) m) :: map elayer r)
      with (map elayer (JObj m :: r)) in E.
    rewrite keys_emb in E. rewrite flat_merge_obj. unfold fm_obj, tab.
    revert v E. generalize (jkeys (oprefix (JObj m :: r))) as ks. intros ks v E.
    match type of E with match ?mm with _ => _ end = _ => destruct mm as [xs|] eqn:Em end; [|discriminate].
    injection E as <-. cbn [xjson]. f_equal.
    revert xs Em. induction ks as [|k ks IHk]; intros xs Em.
    + injection Em as <-. reflexivity.
    + cbn [mapM] in Em. rewrite property_emb in Em.
      destruct (export f (map elayer (jprop k (oprefix (JObj m :: r))))) as [y|] eqn:Ey; [|discriminate].
      match type of Em with match ?mm with _ => _ end = _ => destruct mm as [t|] eqn:Et end; [|discriminate].
      injection Em as <-. cbn [map fst snd]. f_equal; [|now apply IHk]. f_equal. apply IH. exact Ey.
Qed.

Theorem export_flat_layers (js : list json) (fuel : nat) :
  jlsize js < fuel ->
  exists v, export fuel (concat (map embed js)) = Some v
            /\ forall fx, x_depth v <= fx -> x_to_json fx v = flat_merge js.
Proof.
  intros H. rewrite concat_embed.
  destruct (export fuel (map elayer js)) as [v|] eqn:E.
  - exists v. split; [reflexivity|]. intros fx Hfx. rewrite x_to_json_xjson by exact Hfx. eapply export_emb, E.
  - exfalso. revert E. apply export_total. now rewrite csize_emb.
Qed.
