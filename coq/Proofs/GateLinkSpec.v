(* Proofs/GateLinkSpec.v — what C08's specification [vspec] and implementation mirror [vimpl] compute on the
   schemas [schema_of_in insch] and values [json_of_x xin]: the verdict is the oracle's [Corr.C05.x_valid]. *)
From Coq Require Import Lia.
From Verif Require Import Base.Bytes Model.Chain Model.GoText Model.Envelope Model.Eval.
From Verif Require Model.Schema Model.Validate.
From Verif Require Corr.C05.
From Verif Require Import Proofs.GateLinkDefs.

(* ---- names and types ---- *)
Lemma jtype_of_name_sound ty t : jtype_of_name ty = Some t -> ty = name_of_jtype t.
Proof.
  unfold jtype_of_name.
  repeat match goal with |- context [String.eqb ty ?c] => destruct (String.eqb_spec ty c) as [->|_] end;
    intros H; inversion H; reflexivity.
Qed.

Definition x_jtype (v : xval) : Schema.jtype :=
  match v with
  | XScalar _ _ SNull => Schema.TNull | XScalar _ _ (SBool _) => Schema.TBool | XScalar _ _ (SNum _) => Schema.TNum
  | XScalar _ _ (SStr _) => Schema.TStr | XArr _ _ _ => Schema.TArr | XObj _ _ _ => Schema.TObj
  end.

Lemma type_of_json_of_x v : Schema.type_of (json_of_x v) = x_jtype v.
Proof. destruct v as [s u [| | t |]| |]; cbn; try reflexivity. destruct (canon_int t); reflexivity. Qed.

Lemma x_type_name v : C05.x_type v = name_of_jtype (x_jtype v).
Proof. destruct v as [s u [| | |]| |]; reflexivity. Qed.

Lemma jtype_eqb_name a b : Schema.jtype_eqb a b = String.eqb (name_of_jtype b) (name_of_jtype a).
Proof. destruct a, b; reflexivity. Qed.

Lemma jtype_eqb_sym a b : Schema.jtype_eqb a b = Schema.jtype_eqb b a.
Proof. destruct a, b; reflexivity. Qed.

(* whether a value has the type named [ty] *)
Definition type_ok (ty : string) (v : xval) : bool := String.eqb (C05.x_type v) ty.

Lemma type_ok_known ty t v : jtype_of_name ty = Some t -> type_ok ty v = Schema.jtype_eqb t (x_jtype v).
Proof.
  intros H. apply jtype_of_name_sound in H. subst ty. unfold type_ok. rewrite x_type_name, jtype_eqb_name. reflexivity.
Qed.

Lemma type_ok_unknown ty v : jtype_of_name ty = None -> type_ok ty v = false.
Proof.
  intros H. unfold type_ok. destruct (String.eqb_spec (C05.x_type v) ty) as [<-|_]; [|reflexivity].
  rewrite x_type_name in H. destruct (x_jtype v); discriminate.
Qed.

(* ---- lists ---- *)
Lemma lookup_props k (props : list (string * string)) :
  Schema.lookup k (map (fun p => (fst p, ty_schema (snd p))) props) = option_map ty_schema (alookup k props).
Proof.
  induction props as [|[k' ty] r IH]; [reflexivity|]. cbn. destruct (String.eqb k k'); [reflexivity|exact IH].
Qed.

Lemma mem_props k (props : list (string * string)) :
  Schema.mem k (Schema.keys (map (fun p => (fst p, ty_schema (snd p))) props))
  = match alookup k props with Some _ => true | None => false end.
Proof.
  induction props as [|[k' ty] r IH]; [reflexivity|]. cbn. destruct (String.eqb k k'); [reflexivity|exact IH].
Qed.

Lemma mapM_pointwise {A C} (g : A -> option C) (c : A -> C) l :
  (forall a, In a l -> g a = Some (c a)) -> Validate.mapM g l = Some (map c l).
Proof.
  induction l as [|a r IH]; intros H; [reflexivity|]. cbn. rewrite (H a (or_introl eq_refl)).
  rewrite IH by (intros; apply H; now right). reflexivity.
Qed.

Lemma forallb_ext' {A} (f g : A -> bool) l : (forall a, f a = g a) -> forallb f l = forallb g l.
Proof. intros H. induction l; cbn; congruence. Qed.

Lemma forallb_and {A} (f g : A -> bool) l : forallb f l && forallb g l = forallb (fun a => f a && g a) l.
Proof.
  induction l as [|a l IH]; [reflexivity|]. cbn. rewrite <- IH.
  destruct (f a), (g a), (forallb f l), (forallb g l); reflexivity.
Qed.

Lemma forallb_id_map {A} (c : A -> bool) l : forallb (fun b => b) (map c l) = forallb c l.
Proof. induction l; cbn; congruence. Qed.

Lemma mem_keys_json r (m : list (string * xval)) :
  Schema.mem r (Schema.keys (map (fun kv => (fst kv, json_of_x (snd kv))) m))
  = existsb (fun kv => String.eqb (fst kv) r) m.
Proof.
  induction m as [|[k v] m IH]; [reflexivity|]. cbn. rewrite String.eqb_sym. f_equal. exact IH.
Qed.

(* ---- the specification on `{type: t}` ---- *)
Section Spec.
Variable re : string -> string -> bool.
Variable D : list (string * Schema.schema).

Lemma allM_members_true {X} (m : list (string * X)) :
  Validate.allM (Validate.mapM (fun kv : string * X => let (_, _) := kv in Some true) m) = Some true.
Proof.
  induction m as [|[k x] m IH]; [reflexivity|]. cbn in *. destruct (Validate.mapM _ m); [|discriminate].
  cbn in *. exact IH.
Qed.

Lemma vspec_tnode f t jv : Validate.vspec re D (S f) (tnode t) jv = Some (Schema.jtype_eqb t (Schema.type_of jv)).
Proof.
  destruct jv as [| b | z fm | s | l | m]; cbn; try (destruct t; reflexivity).
  - rewrite allM_members_true. destruct t; reflexivity.
Qed.

(* a node with only properties / additionalProperties / assertions *)
Lemma vspec_node_simple f addl props k v :
  Validate.vspec re D (S f) (Schema.SNode None [] [] [] None addl props k) v =
  match Validate.spec_app_properties (Validate.vspec re D f) props v with
  | Some b_props =>
      match Validate.spec_app_additionalProperties (Validate.vspec re D f) props addl v with
      | Some b_addl => Some (b_props && b_addl && Validate.spec_assertions re k v)
      | None => None
      end
  | None => None
  end.
Proof. destruct v; reflexivity. Qed.

(* what the specification says about one member [kv] of the inputs object *)
Definition member_ok (props : list (string * string)) (closed : bool) (kv : string * xval) : bool :=
  match alookup (fst kv) props with Some ty => type_ok ty (snd kv) | None => negb closed end.

Theorem vspec_family f insch xin :
  Validate.vspec re D (S (S f)) (schema_of_in insch) (json_of_x xin) = Some (C05.x_valid insch xin).
Proof.
  destruct insch as [|props required closed]; [reflexivity|].
  unfold schema_of_in. rewrite vspec_node_simple.
  destruct xin as [s u sc|s u l|s u m].
  - destruct sc as [| b | t |]; cbn; try reflexivity. destruct (canon_int t); reflexivity.
  - reflexivity.
  - cbn [json_of_x]. set (m' := map (fun kv => (fst kv, json_of_x (snd kv))) m).
    set (props' := map (fun p => (fst p, ty_schema (snd p))) props).
    (* properties *)
    assert (Validate.spec_app_properties (Validate.vspec re D (S f)) props' (Schema.JObj m')
            = Some (forallb (fun kv => match alookup (fst kv) props with Some ty => type_ok ty (snd kv) | None => true end) m)) as Hp.
    { unfold Validate.spec_app_properties, m'.
      assert (Validate.mapM (fun kv : string * Schema.json => let (key, x) := kv in
                 match Schema.lookup key props' with Some p => Validate.vspec re D (S f) p x | None => Some true end)
                (map (fun kv => (fst kv, json_of_x (snd kv))) m)
              = Some (map (fun kv => match alookup (fst kv) props with Some ty => type_ok ty (snd kv) | None => true end) m)) as Hm.
      { clear. induction m as [|[k v] m IH]; [reflexivity|]. cbn [map Validate.mapM fst snd]. rewrite IH.
        unfold props'. rewrite lookup_props. destruct (alookup k props) as [ty|]; cbn [option_map]; [|reflexivity].
        unfold ty_schema. destruct (jtype_of_name ty) as [t|] eqn:Ht.
        - rewrite vspec_tnode, type_of_json_of_x, (type_ok_known ty t v Ht). reflexivity.
        - rewrite (type_ok_unknown ty v Ht). reflexivity. }
      rewrite Hm. cbn [Validate.allM]. rewrite forallb_id_map. reflexivity. }
    rewrite Hp.
    (* additionalProperties *)
    assert (Validate.spec_app_additionalProperties (Validate.vspec re D (S f)) props'
              (if closed then Some Schema.SNever else None) (Schema.JObj m')
            = Some (forallb (fun kv => match alookup (fst kv) props with Some _ => true | None => negb closed end) m)) as Ha.
    { destruct closed; cbn [Validate.spec_app_additionalProperties negb].
      - assert (Validate.mapM (fun kv : string * Schema.json => let (key, x) := kv in
                   if Schema.mem key (Schema.keys props') then Some true else Validate.vspec re D (S f) Schema.SNever x) m'
                = Some (map (fun kv => match alookup (fst kv) props with Some _ => true | None => false end) m)) as Hm.
        { unfold m'. clear. induction m as [|[k v] m IH]; [reflexivity|]. cbn [map Validate.mapM fst snd]. rewrite IH.
          unfold props'. rewrite mem_props. destruct (alookup k props); reflexivity. }
        rewrite Hm. cbn [Validate.allM]. rewrite forallb_id_map. reflexivity.
      - f_equal. symmetry. apply forallb_forall. intros kv _. destruct (alookup (fst kv) props); reflexivity. }
    rewrite Ha.
    (* assertions *)
    assert (Validate.spec_assertions re (kw_type_req (Some Schema.TObj) required) (Schema.JObj m')
            = forallb (fun r => existsb (fun kv => String.eqb (fst kv) r) m) required) as Hs.
    { unfold Validate.spec_assertions. cbn. rewrite andb_true_r.
      apply forallb_ext'. intros r. unfold m'. apply mem_keys_json. }
    rewrite Hs. f_equal. unfold C05.x_valid. rewrite forallb_and, andb_comm. f_equal.
    apply forallb_ext'. intros kv. unfold type_ok. destruct (alookup (fst kv) props); [apply andb_true_r|reflexivity].
Qed.
End Spec.

(* ---- the implementation mirror on the same family ---- *)
Section Impl.
Variable P : Validate.vparams.
Variable re : string -> string -> bool.
Variable D : list (string * Schema.schema).

Lemma r_and_ok_l (x : bool * bool) : Validate.r_and Validate.r_ok x = x.
Proof. destruct x; reflexivity. Qed.
Lemma r_and_ok_r (x : bool * bool) : Validate.r_and x Validate.r_ok = x.
Proof. destruct x as [a b]. unfold Validate.r_and, Validate.r_ok. cbn. now rewrite andb_true_r, orb_false_r. Qed.

Lemma arr_loop_none g (vs : list Schema.json) : Validate.impl_arr_loop g [] None vs = Some Validate.r_ok.
Proof. induction vs as [|v vs IH]; [reflexivity|]. cbn. rewrite IH. reflexivity. Qed.

Lemma obj_loop_none g (m : list (string * Schema.json)) : Validate.impl_obj_loop g [] None m = Some Validate.r_ok.
Proof. induction m as [|[k v] m IH]; [reflexivity|]. cbn. rewrite IH. reflexivity. Qed.

Lemma vimpl_tnode f t jv :
  Validate.vimpl P re D (S f) (tnode t) jv = Some (Validate.r_check (Schema.jtype_eqb (Schema.type_of jv) t)).
Proof.
  destruct jv as [| b | z fm | s | l | m]; cbn [Validate.vimpl tnode];
    unfold Validate.impl_validateType, Validate.impl_anyOf, Validate.impl_oneOf, Validate.impl_validateConst,
           Validate.impl_validateEnum; cbn -[Validate.bf64 Validate.impl_arr_loop Validate.impl_obj_loop];
    rewrite ?arr_loop_none, ?obj_loop_none; destruct t; reflexivity.
Qed.

Lemma vimpl_node_simple f addl props k v :
  Validate.vimpl P re D (S f) (Schema.SNode None [] [] [] None addl props k) v =
  match Validate.impl_validateType P re (Validate.vimpl P re D f) [] None addl props k v with
  | Some tok => Some (Validate.r_and (Validate.impl_validateConst k v) (Validate.r_and (Validate.impl_validateEnum k v) tok))
  | None => None
  end.
Proof.
  cbn [Validate.vimpl]. unfold Validate.impl_anyOf, Validate.impl_oneOf.
  destruct (Validate.impl_validateType P re (Validate.vimpl P re D f) [] None addl props k v) as [tok|]; [|reflexivity].
  rewrite !r_and_ok_l. reflexivity.
Qed.

(* the verdict and diagnostic flag of one member of the inputs object *)
Definition member_r (props : list (string * string)) (closed : bool) (kv : string * xval) : bool * bool :=
  match alookup (fst kv) props with
  | Some ty => match jtype_of_name ty with
               | Some _ => Validate.r_check (type_ok ty (snd kv))
               | None => (false, Validate.p_never_reports P)
               end
  | None => if closed then (false, Validate.p_never_reports P) else Validate.r_ok
  end.

Definition loop_r (props : list (string * string)) (closed : bool) (m : list (string * xval)) : bool * bool :=
  fold_right (fun kv acc => Validate.r_and (member_r props closed kv) acc) Validate.r_ok m.

(* what validateElement returns on (schema_of_in insch, json_of_x xin) *)
Definition gate_r (insch : in_schema) (xin : xval) : bool * bool :=
  match insch with
  | InAlways => Validate.r_ok
  | InRecord props required closed =>
      match xin with
      | XObj _ _ m =>
          Validate.r_and (loop_r props closed m)
                         (Validate.r_check (forallb (fun r => existsb (fun kv => String.eqb (fst kv) r) m) required))
      | _ => Validate.r_err
      end
  end.

Lemma missing_check (required ks : list string) :
  match Validate.impl_missing (kw_type_req (Some Schema.TObj) required) ks with [] => true | _ => false end
  = forallb (fun r => Schema.mem r ks) required.
Proof.
  unfold Validate.impl_missing. cbn [Schema.k_required Schema.k_dependentRequired kw_type_req flat_map]. rewrite app_nil_r.
  induction required as [|r rs IH]; [reflexivity|]. cbn. destruct (Schema.mem r ks); cbn; [exact IH|reflexivity].
Qed.

Lemma obj_loop_family f (props : list (string * string)) (closed : bool) (m : list (string * xval)) :
  Validate.impl_obj_loop (Validate.vimpl P re D (S f)) (map (fun p => (fst p, ty_schema (snd p))) props)
     (if closed then Some Schema.SNever else None) (map (fun kv => (fst kv, json_of_x (snd kv))) m)
  = Some (loop_r props closed m).
Proof.
  induction m as [|[k v] m IH]; [reflexivity|]. cbn [map Validate.impl_obj_loop fst snd]. rewrite IH, lookup_props.
  unfold loop_r at 2. cbn [fold_right]. fold (loop_r props closed m). unfold member_r. cbn [fst snd].
  destruct (alookup k props) as [ty|]; cbn [option_map].
  - unfold ty_schema. destruct (jtype_of_name ty) as [t|] eqn:Ht.
    + rewrite vimpl_tnode, type_of_json_of_x, jtype_eqb_sym, <- (type_ok_known ty t v Ht). reflexivity.
    + reflexivity.
  - destruct closed; reflexivity.
Qed.

Theorem vimpl_family f insch xin :
  Validate.vimpl P re D (S (S f)) (schema_of_in insch) (json_of_x xin) = Some (gate_r insch xin).
Proof.
  destruct insch as [|props required closed]; [reflexivity|].
  unfold schema_of_in. rewrite vimpl_node_simple.
  destruct xin as [s u sc|s u l|s u m].
  - destruct sc as [| b | t |]; try reflexivity. cbn [json_of_x]. destruct (canon_int t); reflexivity.
  - reflexivity.
  - cbn [json_of_x gate_r]. unfold Validate.impl_validateType.
    cbn [Schema.k_type kw_type_req Schema.type_of Schema.jtype_eqb].
    rewrite obj_loop_family, missing_check.
    cbn [Schema.k_minProperties Schema.k_maxProperties kw_type_req].
    unfold Validate.impl_validateConst, Validate.impl_validateEnum, Validate.impl_const.
    cbn [Schema.k_const Schema.k_enum kw_type_req]. rewrite !r_and_ok_l.
    do 2 f_equal. f_equal. apply forallb_ext'. intros r. apply mem_keys_json.
Qed.

Lemma fst_r_and a b : fst (Validate.r_and a b) = fst a && fst b.
Proof. reflexivity. Qed.

Lemma fst_loop_r props closed m : fst (loop_r props closed m) = forallb (member_ok props closed) m.
Proof.
  induction m as [|kv m IH]; [reflexivity|]. unfold loop_r. cbn [fold_right]. fold (loop_r props closed m).
  rewrite fst_r_and, IH. cbn [forallb]. f_equal. unfold member_r, member_ok.
  destruct (alookup (fst kv) props) as [ty|]; [|destruct closed; reflexivity].
  destruct (jtype_of_name ty) eqn:Ht; [destruct (type_ok ty (snd kv)); reflexivity|].
  rewrite (type_ok_unknown _ _ Ht). reflexivity.
Qed.

Theorem gate_r_verdict insch xin : fst (gate_r insch xin) = C05.x_valid insch xin.
Proof.
  destruct insch as [|props required closed]; [reflexivity|]. destruct xin as [s u sc|s u l|s u m]; try reflexivity.
  cbn [gate_r]. rewrite fst_r_and, fst_loop_r. unfold C05.x_valid. rewrite andb_comm. f_equal.
  - destruct (forallb _ required); reflexivity.
Qed.
End Impl.
