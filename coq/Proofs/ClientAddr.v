(* Proofs/ClientAddr.v — per operation: the request target is the instantiated template (cleanPath and the URL
   round trip change nothing), and it determines the names that were substituted. *)
From Verif Require Import Base.Bytes Model.Client Proofs.ClientPath.
From Coq Require Import Lia.

Lemma app_eq_len : forall {A} (l1 l2 t1 t2 : list A), length l1 = length l2 ->
  l1 ++ t1 = l2 ++ t2 -> l1 = l2 /\ t1 = t2.
Proof.
  induction l1 as [|x l1 IH]; intros [|y l2] t1 t2 HL E; try discriminate HL; [auto|].
  injection HL as HL. injection E as -> E. destruct (IH _ _ _ HL E) as [-> ->]. auto.
Qed.

Lemma suffix_segs_len : forall s, (length (suffix_segs s) <= 1)%nat.
Proof.
  intro s. unfold suffix_segs. destruct (parse_template s) as [[|[l|v] [|x r]]|]; simpl; lia.
Qed.

Lemma suffix_segs_nonempty : forall s, suffix_ok s = true -> s <> "" -> suffix_segs s <> [].
Proof.
  intros s H Hne E. destruct (suffix_ok_spec _ H) as (Es & _). rewrite E in Es. simpl in Es. congruence.
Qed.

Section Op.
Variable f : op_fact.
Hypothesis HR : resolve_ok = true.
Hypothesis HS : op_shape_ok f = true.

Lemma base_segs_props : forall vals, length vals = length (of_holes f) -> vals_ok f vals = true ->
  forallb valid_name (base_segs f vals) = true /\ base_segs f vals <> [].
Proof.
  intros vals HL HV. destruct (op_shape_parts f HS) as (_ & _ & H3).
  destruct (resolve_ok_parts HR) as (R1 & R2 & _).
  unfold base_segs, vals_ok in *. destruct (of_resolve f).
  - destruct vals as [|o [|p [|e [|v [|x r]]]]]; try discriminate HV.
    apply andb_true_iff in HV as [HV Hv]. apply andb_true_iff in HV as [HV He]. apply andb_true_iff in HV as [Ho Hp].
    destruct (String.eqb v "") eqn:Ev.
    + destruct (tpl_ok_spec _ _ R1) as (_ & Hok & Hn & Hne). split.
      * apply fill_valid; [exact Hok| simpl; rewrite Ho, Hp, He; reflexivity | exact Hn].
      * intro E. apply (f_equal (@length _)) in E. rewrite length_fill in E.
        destruct (tpl_segs resolve_template_noversion); [congruence|discriminate].
    + simpl in Hv. destruct (tpl_ok_spec _ _ R2) as (_ & Hok & Hn & Hne). split.
      * apply fill_valid; [exact Hok| simpl; rewrite Ho, Hp, He, Hv; reflexivity | exact Hn].
      * intro E. apply (f_equal (@length _)) in E. rewrite length_fill in E.
        destruct (tpl_segs resolve_template_version); [congruence|discriminate].
  - rewrite <- HL in H3. destruct (tpl_ok_spec _ _ H3) as (_ & Hok & Hn & Hne). split.
    + apply fill_valid; assumption.
    + intro E. apply (f_equal (@length _)) in E. rewrite length_fill in E.
      destruct (tpl_segs (of_template f)); [congruence|discriminate].
Qed.

Lemma op_segs_props : forall vals flag, length vals = length (of_holes f) -> vals_ok f vals = true ->
  forallb valid_name (op_segs f vals flag) = true /\ op_segs f vals flag <> [].
Proof.
  intros vals flag HL HV. destruct (base_segs_props vals HL HV) as [B1 B2].
  destruct (op_shape_parts f HS) as (S1 & S2 & _).
  destruct (suffix_ok_spec _ S1) as (_ & V1). destruct (suffix_ok_spec _ S2) as (_ & V2).
  unfold op_segs. split.
  - rewrite !forallb_app, B1, V1. destruct flag; [rewrite V2|]; reflexivity.
  - destruct (base_segs f vals); [congruence|discriminate].
Qed.

(* cleanPath and url.Parse/RequestURI are the identity on the target of an operation with valid names *)
Lemma target_identity_op : forall a n, names_ok f a = true ->
  request_target f a n = op_path f (effective_args f a) (flag_of f n) +++ query_string (of_query f) (query_values f a n)
  /\ wire_target (request_target f a n) = Some (request_target f a n).
Proof.
  intros a n HN. unfold names_ok in HN.
  assert (HL : length (hole_values f (effective_args f a)) = length (of_holes f)) by (apply map_length).
  destruct (op_segs_props _ (flag_of f n) HL HN) as [V NE].
  unfold request_target, raw_target. rewrite (op_path_render f _ _ HR HS).
  destruct (target_identity _ _ NE V (query_string_ok (of_query f) (query_values f a n))) as [C W].
  rewrite C. split; [reflexivity|exact W].
Qed.

Lemma base_segs_len : forall vals, length vals = length (of_holes f) ->
  length (base_segs f vals) =
  if of_resolve f then
    if String.eqb (nth 3 vals "") "" then length (tpl_segs resolve_template_noversion)
    else length (tpl_segs resolve_template_version)
  else length (tpl_segs (of_template f)).
Proof.
  intros vals HL. destruct (op_shape_parts f HS) as (_ & _ & H3). unfold base_segs.
  destruct (of_resolve f); [|apply length_fill].
  rewrite H3 in HL. destruct vals as [|o [|p [|e [|v [|x r]]]]]; try discriminate HL.
  simpl nth. destruct (String.eqb v ""); apply length_fill.
Qed.

Lemma op_segs_inj : forall vals vals' flag flag',
  length vals = length (of_holes f) -> length vals' = length (of_holes f) ->
  vals_ok f vals = true -> vals_ok f vals' = true ->
  op_segs f vals flag = op_segs f vals' flag' ->
  vals = vals' /\ (suffix_segs (of_flag_suffix f) <> [] -> flag = flag').
Proof.
  intros vals vals' flag flag' HL HL' HV HV' E.
  destruct (op_shape_parts f HS) as (_ & _ & H3).
  destruct (resolve_ok_parts HR) as (R1 & R2 & R3).
  assert (LE := f_equal (@length _) E). unfold op_segs in LE. rewrite !app_length in LE.
  rewrite (base_segs_len vals HL), (base_segs_len vals' HL') in LE.
  pose proof (suffix_segs_len (of_flag_suffix f)) as LF.
  set (F := suffix_segs (of_flag_suffix f)) in *.
  assert (Hfl : forall b : bool, (length (if b then F else []) <= 1)%nat) by (intros []; simpl; lia).
  pose proof (Hfl flag) as L1. pose proof (Hfl flag') as L2.
  assert (Hbase : length (base_segs f vals) = length (base_segs f vals')
                  -> base_segs f vals = base_segs f vals'
                     /\ (if flag then F else []) = (if flag' then F else [])).
  { intro HB. unfold op_segs in E. destruct (app_eq_len _ _ _ _ HB E) as [E1 E2].
    apply app_inv_head in E2. auto. }
  assert (Hflag : (if flag then F else []) = (if flag' then F else []) -> F <> [] -> flag = flag').
  { intros EF NE. destruct flag, flag'; try reflexivity; simpl in EF; congruence. }
  unfold base_segs, vals_ok in *. destruct (of_resolve f).
  - rewrite H3 in HL, HL'.
    destruct vals as [|o [|p [|e [|v [|x r]]]]]; try discriminate HL.
    destruct vals' as [|o' [|p' [|e' [|v' [|x' r']]]]]; try discriminate HL'.
    simpl nth in LE.
    destruct (tpl_ok_spec _ _ R1) as (_ & _ & N1 & _). destruct (tpl_ok_spec _ _ R2) as (_ & _ & N2 & _).
    destruct (String.eqb v "") eqn:Ev, (String.eqb v' "") eqn:Ev'; try lia.
    + apply String.eqb_eq in Ev, Ev'. subst v v'.
      destruct (Hbase ltac:(rewrite !length_fill; reflexivity)) as [EB EF].
      apply fill_inj in EB; [|exact N1|exact N1]. injection EB as -> -> ->. split; [reflexivity|auto].
    + destruct (Hbase ltac:(rewrite !length_fill; reflexivity)) as [EB EF].
      apply fill_inj in EB; [|exact N2|exact N2]. injection EB as -> -> -> ->. split; [reflexivity|auto].
  - destruct (Hbase ltac:(rewrite !length_fill; reflexivity)) as [EB EF].
    pose proof H3 as H3'. rewrite <- HL in H3. rewrite <- HL' in H3'.
    destruct (tpl_ok_spec _ _ H3) as (_ & _ & N1 & _). destruct (tpl_ok_spec _ _ H3') as (_ & _ & N2 & _).
    apply fill_inj in EB; [|exact N1|exact N2]. split; [exact EB|auto].
Qed.

(* the path of an operation determines the values substituted into it and the flag *)
Lemma op_path_injective : forall a a' flag flag',
  names_ok f a = true -> names_ok f a' = true ->
  op_path f (effective_args f a) flag = op_path f (effective_args f a') flag' ->
  hole_values f (effective_args f a) = hole_values f (effective_args f a')
  /\ (of_flag_suffix f <> "" -> flag = flag').
Proof.
  intros a a' flag flag' HN HN' E. unfold names_ok in *.
  rewrite !(op_path_render f _ _ HR HS) in E.
  assert (HL : forall x, length (hole_values f x) = length (of_holes f)) by (intro; apply map_length).
  destruct (op_segs_props _ flag (HL _) HN) as [V _]. destruct (op_segs_props _ flag' (HL _) HN') as [V' _].
  apply render_inj in E; try (apply forallb_valid_noslash; assumption).
  destruct (op_segs_inj _ _ _ _ (HL _) (HL _) HN HN' E) as [EV EF]. split; [exact EV|].
  intro Hne. apply EF. destruct (op_shape_parts f HS) as (_ & S2 & _).
  apply suffix_segs_nonempty; assumption.
Qed.

(* ... and so does the whole request target (path, then the encoded query) *)
Lemma target_injective : forall a a' n n',
  names_ok f a = true -> names_ok f a' = true ->
  request_target f a n = request_target f a' n' ->
  hole_values f (effective_args f a) = hole_values f (effective_args f a')
  /\ (of_flag_suffix f <> "" -> flag_of f n = flag_of f n')
  /\ query_string (of_query f) (query_values f a n) = query_string (of_query f) (query_values f a' n').
Proof.
  intros a a' n n' HN HN' E.
  destruct (target_identity_op a n HN) as [T _]. destruct (target_identity_op a' n' HN') as [T' _].
  rewrite T, T' in E.
  assert (HQ : forall q, qsuffix_ok q = true -> q = "" \/ exists t, q = String c_qm t).
  { intros [|c q] H; [auto|]. simpl in H. apply andb_true_iff in H as [H _]. apply Ascii.eqb_eq in H. subst. eauto. }
  assert (HP : forall x fl, vals_ok f (hole_values f (effective_args f x)) = true ->
               mem_char c_qm (op_path f (effective_args f x) fl) = false).
  { intros x fl Hx. rewrite (op_path_render f _ _ HR HS).
    destruct (op_segs_props _ fl (map_length _ _) Hx) as [V _].
    destruct (pchar_no _ (render_pchar _ V)) as (_ & Q & _). exact Q. }
  destruct (append_sep_inj c_qm _ _ _ _ (HP a _ HN) (HP a' _ HN')
              (HQ _ (query_string_ok _ _)) (HQ _ (query_string_ok _ _)) E) as [EP EQ].
  destruct (op_path_injective _ _ _ _ HN HN' EP) as [A B]. auto.
Qed.
End Op.

(* the parameters a path mentions are determined by it *)
Lemma hole_values_params : forall hs a a', map (hole_value a) hs = map (hole_value a') hs ->
  forall i, In (HParam i) hs -> nth i a "" = nth i a' "".
Proof.
  induction hs as [|h hs IH]; intros a a' E i Hin; [destruct Hin|].
  simpl in E. injection E as E1 E2. destruct Hin as [->|Hin]; [exact E1|eauto].
Qed.

(* lifted to the extracted table *)
Lemma in_table_ok : forall (p : op_fact -> bool) f, forallb p client_ops = true -> In f client_ops -> p f = true.
Proof. intros p f H Hin. exact (proj1 (forallb_forall p client_ops) H f Hin). Qed.
