(* Proofs/CryptSkeleton.v — the bridge between parseSecret on syntax trees and the recognition of secrets on
   yaml trees, and preservation of the skeleton by EncryptSecrets / DecryptSecrets on node trees. *)
From Verif Require Import Base.Bytes Model.Envelope Model.YamlTree Model.Crypt
     Proofs.YamlTreeProofs Proofs.CryptWalk Proofs.CryptProofs.
From Coq Require Import Lia.

(* literal nodes as the decoder builds them: YAMLSyntax with the matching core tag *)
Definition syn_tag (s : syn) : string := y_tag (base_meta s).

Fixpoint std_s (n : snode) : bool :=
  match n with
  | SNull s => String.eqb (syn_tag s) tag_null
  | SBool s => String.eqb (syn_tag s) tag_bool
  | SNum s => String.eqb (syn_tag s) tag_int || String.eqb (syn_tag s) tag_float
  | SStr _ _ => true
  | SArr _ items => forallb std_s items
  | SObj _ es => forallb (fun kv : skey * snode => std_s (snd kv)) es
  end.

Lemma is_lit_tag_cases t :
  is_lit_tag t = true -> t = tag_null \/ t = tag_bool \/ t = tag_int \/ t = tag_float.
Proof.
  unfold is_lit_tag. intros H.
  destruct (String.eqb t tag_null) eqn:E1; [left; now apply eqb_true_s|].
  destruct (String.eqb t tag_bool) eqn:E2; [right; left; now apply eqb_true_s|].
  destruct (String.eqb t tag_int) eqn:E3; [right; right; left; now apply eqb_true_s|].
  destruct (String.eqb t tag_float) eqn:E4; [right; right; right; now apply eqb_true_s|discriminate].
Qed.

Lemma resolved_scalar_tagged m : String.eqb (y_tag m) "" = false -> resolved_scalar m = m.
Proof. intros H. unfold resolved_scalar. now rewrite H. Qed.

Lemma resolved_scalar_comments m :
  y_head (resolved_scalar m) = y_head m /\ y_line (resolved_scalar m) = y_line m
  /\ y_foot (resolved_scalar m) = y_foot m /\ y_value (resolved_scalar m) = y_value m.
Proof. unfold resolved_scalar. destruct (String.eqb (y_tag m) ""); cbn; auto. Qed.

Lemma resolved_scalar_untagged_not_lit m :
  String.eqb (y_tag m) "" = true -> is_lit_tag (y_tag (resolved_scalar m)) = false.
Proof.
  intros H. unfold resolved_scalar. rewrite H. cbn [y_tag set_tag].
  destruct (plain_is_string (y_value m) || negb (y_style m =? 0)); reflexivity.
Qed.

Section Skel.
  Variable P : env_params.
  Variable fn_secret key_ciphertext new_key : string.
  Variable enc dec : string -> option string.
  Variable null_words quote_words : list string.
  Variable pf : string -> bool.
  Hypothesis Hne : String.eqb fn_secret key_ciphertext = false.
  Hypothesis Hnew : new_key = key_ciphertext.

  Notation parse_secret := (parse_secret fn_secret key_ciphertext).
  Notation encrypt_visit := (encrypt_visit P fn_secret key_ciphertext new_key enc).
  Notation decrypt_visit := (decrypt_visit P fn_secret key_ciphertext dec).
  Notation cipher_node := (cipher_node P new_key).
  Notation marshal := (marshal null_words quote_words pf).
  Notation marshal_str := (marshal_str quote_words pf).
  Notation marshal_null := (marshal_null null_words).
  Notation ysecret := (ysecret fn_secret key_ciphertext).
  Notation yarg := (yarg key_ciphertext).
  Notation skeleton_in := (skeleton_in fn_secret key_ciphertext).
  Notation skeleton := (skeleton fn_secret key_ciphertext).
  Notation ysecrets := (ysecrets fn_secret key_ciphertext).
  Notation rw_tree := (rw_tree fn_secret key_ciphertext).
  Notation secrets := (secrets fn_secret key_ciphertext).
  Notation nm := (nm null_words quote_words pf).
  Notation ynorm := (ynorm null_words quote_words pf).

  (* ---------------- classes of marshalled scalars ---------------- *)
  Lemma is_str_marshal_str s v : is_str_meta (marshal_str s v) = true.
  Proof.
    unfold is_str_meta.
    destruct (marshal_str_tag quote_words pf s v) as [H|H].
    - rewrite resolved_scalar_untagged_not_lit; [reflexivity|]. rewrite H. reflexivity.
    - rewrite resolved_scalar_tagged; rewrite H; reflexivity.
  Qed.

  Lemma marshal_null_tag s : String.eqb (syn_tag s) tag_null = true -> y_tag (marshal_null s) = tag_null.
  Proof.
    intros H. apply eqb_true_s in H. unfold YamlTree.marshal_null.
    rewrite (norm_tag_same tag_null (base_meta s) H).
    destruct (mem_str _ _); cbn; exact H.
  Qed.

  Lemma not_str_lit m : is_lit_tag (y_tag m) = true -> is_str_meta m = false.
  Proof.
    intros H. unfold is_str_meta. rewrite resolved_scalar_tagged; [now rewrite H|].
    destruct (is_lit_tag_cases _ H) as [E|[E|[E|E]]]; rewrite E; reflexivity.
  Qed.

  Lemma lit_marshal_not_str v :
    std_s v = true -> is_sstr v = false ->
    match marshal v with YScalar m => is_str_meta m = false | _ => True end.
  Proof.
    destruct v as [s|s|s|s v0|s items|s es]; cbn [std_s is_sstr marshal]; intros Hs Hv; try exact I; try discriminate.
    - apply not_str_lit. rewrite (marshal_null_tag _ Hs). reflexivity.
    - apply not_str_lit. apply eqb_true_s in Hs. unfold marshal_bool.
      rewrite (norm_tag_same tag_bool (base_meta s) Hs). unfold syn_tag in Hs. rewrite Hs. reflexivity.
    - apply not_str_lit. unfold marshal_num. unfold syn_tag in Hs.
      apply Bool.orb_true_iff in Hs. destruct Hs as [Hs|Hs]; apply eqb_true_s in Hs; rewrite Hs; reflexivity.
  Qed.

  (* ---------------- the bridge: parseSecret on a syntax tree = recognition on its marshalled tree ---------- *)
  Definition sarg (v : snode) : option (syn * string) :=
    match v with
    | SStr ps p => Some (ps, p)
    | SObj _ [(k2, SStr cs c)] => if String.eqb (snd k2) key_ciphertext then Some (cs, c) else None
    | _ => None
    end.

  Lemma yarg_marshal v :
    std_s v = true ->
    yarg (marshal v) = match sarg v with Some (s, t) => Some (marshal_str s t) | None => None end.
  Proof.
    intros Hs.
    destruct v as [s|s|s|s v0|s items|s [|[k2 x] [|]]].
    1-3: (pose proof (lit_marshal_not_str _ Hs eq_refl) as H; cbn [marshal] in *; cbn [Crypt.yarg sarg]; now rewrite H).
    - cbn [marshal Crypt.yarg sarg]. now rewrite is_str_marshal_str.
    - reflexivity.
    - reflexivity.
    - cbn [std_s forallb snd] in Hs. rewrite Bool.andb_true_r in Hs.
      cbn [marshal map fst snd].
      destruct x as [s'|s'|s'|s' v0|s' items|s' es'].
      1-3: (pose proof (lit_marshal_not_str _ Hs eq_refl) as H; cbn [marshal] in *; cbn [Crypt.yarg sarg];
            rewrite H; now rewrite !Bool.andb_false_r).
      + cbn [marshal Crypt.yarg sarg]. rewrite !is_str_marshal_str, marshal_str_value. cbn.
        rewrite Bool.andb_true_r. destruct (String.eqb (snd k2) key_ciphertext); reflexivity.
      + reflexivity.
      + reflexivity.
    - cbn [marshal map Crypt.yarg sarg]. destruct x; reflexivity.
  Qed.

  Definition yview (v : secret_view) : option (ymeta * ymeta * ymeta) :=
    match v with
    | NotSecret => None
    | Plain os k ps p => Some (base_meta os, marshal_str (fst k) (snd k), marshal_str ps p)
    | Cipher os k cs c => Some (base_meta os, marshal_str (fst k) (snd k), marshal_str cs c)
    end.

  Lemma parse_secret_sarg s k v :
    parse_secret (SObj s [(k, v)]) =
    if String.eqb (snd k) fn_secret then
      match v with
      | SStr ps p => Plain s k ps p
      | _ => match sarg v with Some (cs, c) => Cipher s k cs c | None => NotSecret end
      end
    else NotSecret.
  Proof.
    cbn. destruct (String.eqb (snd k) fn_secret); [|reflexivity].
    destruct v as [| | |ps0 p0| |s2 [|[k2 [| | |cs0 c0| |]] [|]]]; try reflexivity.
    cbn. destruct (String.eqb (snd k2) key_ciphertext); reflexivity.
  Qed.

  Theorem ysecret_marshal n : std_s n = true -> ysecret (marshal n) = yview (parse_secret n).
  Proof.
    intros Hs.
    destruct n as [s|s|s|s v0|s items|s [|[k v] [|]]]; try reflexivity.
    - cbn [std_s forallb snd] in Hs. rewrite Bool.andb_true_r in Hs.
      rewrite parse_secret_sarg.
      cbn [marshal map fst snd Crypt.ysecret].
      rewrite is_str_marshal_str, marshal_str_value. cbn [andb].
      destruct (String.eqb (snd k) fn_secret); [|reflexivity].
      rewrite (yarg_marshal _ Hs).
      destruct v as [| | |ps0 p0| |s2 es2]; try reflexivity.
      destruct (sarg (SObj s2 es2)) as [[cs c]|]; reflexivity.
  Qed.

  (* ---------------- unfolding the skeleton at a mapping ---------------- *)
  Definition skel_pair (fl : bool) (kv : ynode * ynode) : ynode * ynode :=
    let (k, v) := kv in (skeleton_in fl k, skeleton_in fl v).

  Lemma skeleton_map fl m es :
    skeleton_in fl (YMap m es) =
    match ysecret (YMap m es) with
    | Some (_, km, t) => YMap (content_coll tag_map (fl || is_flow m) m) [(YScalar (content_scalar km), hole t)]
    | None => YMap (content_coll tag_map (fl || is_flow m) m) (map (skel_pair (fl || is_flow m)) es)
    end.
  Proof. reflexivity. Qed.

  Lemma hole_comments a b :
    y_head a = y_head b -> y_line a = y_line b -> y_foot a = y_foot b -> hole a = hole b.
  Proof. unfold hole. now intros -> -> ->. Qed.

  Lemma hole_marshal_str s v : hole (marshal_str s v) = hole (base_meta s).
  Proof. destruct (marshal_str_comments quote_words pf s v) as (H1 & H2 & H3). now apply hole_comments. Qed.

  Definition mstep (kv : skey * snode) : ynode * ynode :=
    let (k, v) := kv in (YScalar (marshal_str (fst k) (snd k)), marshal v).

  Lemma marshal_obj s es : marshal (SObj s es) = YMap (base_meta s) (map mstep es).
  Proof. reflexivity. Qed.

  Lemma skeleton_secret_node fl n os k ts t :
    std_s n = true ->
    (parse_secret n = Plain os k ts t \/ parse_secret n = Cipher os k ts t) ->
    skeleton_in fl (marshal n) =
    YMap (content_coll tag_map (fl || is_flow (base_meta os)) (base_meta os))
         [(YScalar (content_scalar (marshal_str (fst k) (snd k))), hole (base_meta ts))].
  Proof.
    intros Hs Hp.
    assert (Hn : exists es, n = SObj os es).
    { destruct Hp as [Hp|Hp].
      - destruct (parse_plain_inv _ _ _ _ _ _ _ Hp) as [-> _]. eauto.
      - destruct (parse_cipher_inv _ _ _ _ _ _ _ Hp) as (s2 & k2 & -> & _). eauto. }
    destruct Hn as [es ->].
    pose proof (ysecret_marshal _ Hs) as Hy.
    rewrite marshal_obj in *. rewrite skeleton_map, Hy.
    destruct Hp as [-> | ->]; cbn [yview]; now rewrite hole_marshal_str.
  Qed.

  (* ---------------- generic preservation ---------------- *)
  Section Generic.
    Variable visit : snode -> result snode.
    Hypothesis Hvis : forall n r, visit n = ROk r ->
      match parse_secret n with
      | NotSecret => r = n
      | Plain os k _ _ | Cipher os k _ _ => exists X, r = SObj os [(k, X)]
      end.
    Hypothesis Hstd : forall n r, std_s n = true -> visit n = ROk r -> std_s r = true.
    Hypothesis Hsk : forall n r fl, std_s n = true -> parse_secret n <> NotSecret -> visit n = ROk r ->
      skeleton_in fl (marshal r) = skeleton_in fl (marshal n).

    Lemma forallb_Forall2 {A} (f : A -> bool) (R : A -> A -> Prop) l l' :
      (forall x y, R x y -> f x = true -> f y = true) -> Forall2 R l l' -> forallb f l = true -> forallb f l' = true.
    Proof.
      intros HR H2. induction H2 as [|x y r t Hxy _ IH]; cbn [forallb]; [auto|].
      intros H. apply Bool.andb_true_iff in H. destruct H as [Hx Hr].
      apply Bool.andb_true_iff. split; eauto.
    Qed.

    Theorem rw_skeleton n n' :
      std_s n = true -> rw_tree visit n = ROk n' ->
      std_s n' = true /\ forall fl, skeleton_in fl (marshal n') = skeleton_in fl (marshal n).
    Proof.
      revert n'. induction n as [s|s|s|s v|s items IH|s es IH] using snode_ind'; intros n' Hs H.
      1-4: cbn in H; injection H as <-; auto.
      - rewrite rw_tree_arr in H. destruct (mapR (rw_tree visit) items) as [l|] eqn:El; [|discriminate].
        injection H as <-. apply mapR_ok_Forall2 in El. cbn [std_s] in Hs.
        assert (HF : Forall2 (fun x y => std_s y = true
                                /\ forall fl, skeleton_in fl (marshal y) = skeleton_in fl (marshal x)) items l).
        { rewrite forallb_forall in Hs. rewrite Forall_forall in IH.
          clear -IH Hs El.
          induction El as [|x y r t Hx _ IHl]; [constructor|].
          constructor.
          - apply IH; [now left|apply Hs; now left|exact Hx].
          - apply IHl; intros; [apply IH|apply Hs]; auto; now right. }
        split.
        + cbn [std_s]. clear -HF. induction HF as [|x y r t [Hy _] _ IHl]; [reflexivity|].
          cbn [forallb]. now rewrite Hy.
        + intros fl. cbn [marshal Crypt.skeleton_in]. f_equal.
          clear -HF. induction HF as [|x y r t [_ Hy] _ IHl]; [reflexivity|].
          cbn [map]. now rewrite Hy, IHl.
      - rewrite rw_tree_obj in H.
        destruct (parse_secret (SObj s es)) as [|os k ps p|os k cs c] eqn:E.
        + destruct (mapR (rw_step (rw_tree visit)) es) as [l|] eqn:El; [|discriminate]. injection H as <-.
          pose proof (not_secret_stable _ _ Hne visit Hvis _ _ _ E El) as E'.
          apply rw_step_Forall2 in El. cbn [std_s] in Hs.
          assert (HF : Forall2 (fun kv kv' : skey * snode =>
                                  fst kv' = fst kv /\ std_s (snd kv') = true
                                  /\ forall fl, skeleton_in fl (marshal (snd kv')) = skeleton_in fl (marshal (snd kv))) es l).
          { rewrite forallb_forall in Hs. rewrite Forall_forall in IH.
            clear -IH Hs El.
            induction El as [|x y r t [Hk Hx] _ IHl]; [constructor|].
            constructor.
            - split; [exact Hk|]. apply IH; [now left|apply Hs; now left|exact Hx].
            - apply IHl; intros; [apply IH|apply Hs]; auto; now right. }
          assert (Hs' : std_s (SObj s l) = true).
          { cbn [std_s]. clear -HF. induction HF as [|x y r t (_ & Hy & _) _ IHl]; [reflexivity|].
            cbn [forallb]. now rewrite Hy. }
          split; [exact Hs'|]. intros fl.
          rewrite !marshal_obj, !skeleton_map.
          rewrite <- !marshal_obj.
          rewrite (ysecret_marshal _ Hs'), E'.
          assert (Hs0 : std_s (SObj s es) = true) by exact Hs.
          rewrite (ysecret_marshal _ Hs0), E. cbn [yview]. f_equal.
          clear -HF. induction HF as [|[k v] [k' v'] r t (Hk & _ & Hy) _ IHl]; [reflexivity|].
          cbn [fst snd] in *. subst k'. cbn [map mstep skel_pair]. now rewrite Hy, IHl.
        + split; [eapply Hstd; eauto|]. intros fl. apply Hsk; [exact Hs|congruence|exact H].
        + split; [eapply Hstd; eauto|]. intros fl. apply Hsk; [exact Hs|congruence|exact H].
    Qed.
  End Generic.

  (* ---------------- the two visitors ---------------- *)
  Lemma base_meta_copy_trivia ps :
    y_head (base_meta (copy_trivia ps)) = y_head (base_meta ps)
    /\ y_line (base_meta (copy_trivia ps)) = y_line (base_meta ps)
    /\ y_foot (base_meta (copy_trivia ps)) = y_foot (base_meta ps).
  Proof. destruct ps; cbn; auto. Qed.

  Lemma enc_std n r : std_s n = true -> encrypt_visit n = ROk r -> std_s r = true.
  Proof.
    unfold Crypt.encrypt_visit. intros Hs H.
    destruct (parse_secret n) as [|os k ps p|os k cs c]; try (injection H as <-; exact Hs).
    destruct (enc p); [|discriminate]. injection H as <-. reflexivity.
  Qed.

  Lemma dec_std n r : std_s n = true -> decrypt_visit n = ROk r -> std_s r = true.
  Proof.
    unfold Crypt.decrypt_visit. intros Hs H.
    destruct (parse_secret n) as [|os k ps p|os k cs c]; try (injection H as <-; exact Hs).
    destruct (decode_ct P c); try discriminate. destruct (dec ct); [|discriminate]. injection H as <-. reflexivity.
  Qed.

  Lemma enc_sk n r fl : std_s n = true -> parse_secret n <> NotSecret -> encrypt_visit n = ROk r ->
    skeleton_in fl (marshal r) = skeleton_in fl (marshal n).
  Proof.
    intros Hs Hn H. pose proof (enc_std _ _ Hs H) as Hr. unfold Crypt.encrypt_visit in H.
    destruct (parse_secret n) as [|os k ps p|os k cs c] eqn:E; [congruence| |].
    - destruct (parse_plain_inv _ _ _ _ _ _ _ E) as [-> Ek].
      destruct (enc p) as [ct|]; [|discriminate]. injection H as <-.
      rewrite (skeleton_secret_node fl _ os k ps p Hs (or_introl E)).
      rewrite (skeleton_secret_node fl _ os k (copy_trivia ps) (encode_ct P ct) Hr
                 (or_intror (parse_cipher_node P _ _ _ Hnew _ _ _ _ Ek))).
      f_equal. f_equal. f_equal.
      destruct (base_meta_copy_trivia ps) as (H1 & H2 & H3). now apply hole_comments.
    - now injection H as <-.
  Qed.

  Lemma dec_sk n r fl : std_s n = true -> parse_secret n <> NotSecret -> decrypt_visit n = ROk r ->
    skeleton_in fl (marshal r) = skeleton_in fl (marshal n).
  Proof.
    intros Hs Hn H. pose proof (dec_std _ _ Hs H) as Hr. unfold Crypt.decrypt_visit in H.
    destruct (parse_secret n) as [|os k ps p|os k cs c] eqn:E; [congruence| |].
    - now injection H as <-.
    - destruct (parse_cipher_inv _ _ _ _ _ _ _ E) as (s2 & k2 & -> & Ek & _).
      destruct (decode_ct P c) as [ct| | | | | |]; try discriminate.
      destruct (dec ct) as [p|]; [|discriminate]. injection H as <-.
      rewrite (skeleton_secret_node fl _ os k cs c Hs (or_intror E)).
      rewrite (skeleton_secret_node fl _ os k cs p Hr (or_introl (parse_plain_node _ _ _ _ _ _ Ek))).
      reflexivity.
  Qed.

  Theorem enc_tree_skeleton n n' :
    std_s n = true -> enc_tree P fn_secret key_ciphertext new_key enc n = ROk n' ->
    std_s n' = true /\ forall fl, skeleton_in fl (marshal n') = skeleton_in fl (marshal n).
  Proof.
    apply rw_skeleton; [apply enc_vis; assumption|exact enc_std|exact enc_sk].
  Qed.

  Theorem dec_tree_skeleton n n' :
    std_s n = true -> dec_tree P fn_secret key_ciphertext dec n = ROk n' ->
    std_s n' = true /\ forall fl, skeleton_in fl (marshal n') = skeleton_in fl (marshal n).
  Proof.
    apply rw_skeleton; [apply dec_vis|exact dec_std|exact dec_sk].
  Qed.
End Skel.
