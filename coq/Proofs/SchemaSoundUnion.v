(* Proofs/SchemaSoundUnion.v — C06, schema clause: schema.go [union] (Model/Chain.v [sch_union]) and acceptance.
   For ALL inputs: a value accepted by a member is accepted by the union (one more unit of fuel: the union may
   wrap the members in a oneOf), and a known value accepted by the union is accepted by a member. *)
From Verif Require Import Base.Bytes Base.Wire Model.Chain Model.GoText Model.Envelope Model.Eval Corr.EvalWire.
From Verif Require Corr.C06.
From Verif Require Import Proofs.NonInterferenceRel Proofs.NonInterferenceOps Proofs.CheckApproxExamples
     Proofs.SchemaSoundAccept.
From Coq Require Import Lia ZifyN ZifyNat ZifyBool.

Definition not_never (s : sch) : bool := negb (sch_is_never s).

Lemma sch_union_eq l :
  sch_union l = match filter not_never l with [] => ScNever | [s] => s | l' => ScOneOf l' end.
Proof. reflexivity. Qed.

Lemma sch_union_single s : sch_union [s] = if sch_is_never s then ScNever else s.
Proof. destruct s; reflexivity. Qed.

Lemma sch_union_single_acc n s v : sch_accepts n (sch_union [s]) v = sch_accepts n s v.
Proof. rewrite sch_union_single. destruct s; reflexivity. Qed.

Lemma never_rejects n v : sch_accepts n ScNever v = true -> C06.x_unk v = true.
Proof. destruct n; [discriminate|]. rewrite sch_accepts_S. destruct (C06.x_unk v); [reflexivity|discriminate]. Qed.

Theorem sch_union_intro n l s v :
  In s l -> sch_accepts n s v = true -> sch_accepts (S n) (sch_union l) v = true.
Proof.
  intros Hin H. destruct (C06.x_unk v) eqn:EU; [now apply sch_accepts_unk|].
  assert (Hs : In s (filter not_never l)).
  { apply filter_In. split; [exact Hin|]. destruct s; try reflexivity. apply never_rejects in H. congruence. }
  rewrite sch_union_eq. destruct (filter not_never l) as [|a [|b r]] eqn:F.
  - destruct Hs.
  - destruct Hs as [<-|[]]. now apply sch_accepts_mono.
  - rewrite sch_accepts_S, EU. apply existsb_exists. exists s. split; auto.
Qed.

Theorem sch_union_elim n l v :
  sch_accepts n (sch_union l) v = true -> C06.x_unk v = true \/ exists s, In s l /\ sch_accepts n s v = true.
Proof.
  rewrite sch_union_eq. destruct (filter not_never l) as [|a [|b r]] eqn:F; intros H.
  - left. eapply never_rejects; eauto.
  - right. exists a. split; [|exact H]. assert (In a (filter not_never l)) by (rewrite F; now left).
    apply filter_In in H0. tauto.
  - destruct n; [discriminate|]. rewrite sch_accepts_S in H. destruct (C06.x_unk v); [now left|right].
    apply existsb_exists in H. destruct H as (s & Hs & Hv). exists s. split.
    + rewrite <- F in Hs. apply filter_In in Hs. tauto.
    + now apply sch_accepts_mono.
Qed.

Corollary sch_union_accepts l v : (exists s, In s l /\ accepts s v) -> accepts (sch_union l) v.
Proof. intros (s & Hin & n & H). exists (S n). eapply sch_union_intro; eauto. Qed.

(* the two classes are closed under union *)
Lemma good_union b l : (forall s, In s l -> good b s = true) -> b = false -> good b (sch_union l) = true.
Proof.
  intros H ->. rewrite sch_union_eq. destruct (filter not_never l) as [|a [|c r]] eqn:F.
  - reflexivity.
  - apply H. assert (In a (filter not_never l)) by (rewrite F; now left). apply filter_In in H0. tauto.
  - unfold good. simpl negb. rewrite Bool.orb_true_l, Bool.andb_true_r. cbn [sch_ok]. apply forallb_forall.
    intros s Hs. rewrite <- F in Hs. apply filter_In in Hs. destruct Hs as [Hs _]. specialize (H s Hs).
    unfold good in H. apply andb_prop in H. tauto.
Qed.

Lemma good_union1 b s : good b s = true -> good b (sch_union [s]) = true.
Proof. rewrite sch_union_single. destruct (sch_is_never s); [intros _; apply good_never|auto]. Qed.

Lemma sch_ok_union l : (forall s, In s l -> sch_ok s = true) -> sch_ok (sch_union l) = true.
Proof.
  intros H. rewrite sch_union_eq. destruct (filter not_never l) as [|a [|c r]] eqn:F.
  - reflexivity.
  - apply H. assert (In a (filter not_never l)) by (rewrite F; now left). apply filter_In in H0. tauto.
  - cbn [sch_ok]. apply forallb_forall. intros s Hs. rewrite <- F in Hs. apply filter_In in Hs. apply H. tauto.
Qed.
