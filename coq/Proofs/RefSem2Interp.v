(* Proofs/RefSem2Interp.v — interpolation tied to the reference semantics: the string stored for "...${p1}...${p2}..."
   is the concatenation of the texts and of the string forms of the values the paths denote in the final root value. *)
From Verif Require Import Base.Bytes Model.Chain Model.GoText Model.Envelope Model.Eval
  Proofs.EvalTotalBase Proofs.EvalTotalInv Proofs.EvalTotalOrder Proofs.EvalTotalSyntax Proofs.EvalTotalFail
  Proofs.EvalTotalRecover Proofs.EvalTotalBound
  Proofs.ChainAlgebraSorted Proofs.ChainAlgebraExport Proofs.RefSemAccess Proofs.RefSemWf Proofs.RefSemMemo
  Proofs.RefSem Proofs.RefSemSorted Proofs.RefSemMain.
From Coq Require Import Lia.

Lemma big_fuel_pos : big_fuel <> 0%nat.
Proof. discriminate. Qed.

Section INTERP.
Variable W : world.
Variable E : ectx.

(* the interpolation loop, read off a memo table *)
Fixpoint interp_sem (m : memo_t) (ps : list (string * option path)) (acc : string) (unk sec : bool)
  : option (string * bool * bool) :=
  match ps with
  | [] => Some (acc, unk, sec)
  | (text, None) :: r => interp_sem m r (acc +++ text) unk sec
  | (text, Some p) :: r =>
      match aresolve E m p with
      | Some pv => let '(s, u, sc) := to_string (ts_need pv) pv in
                   interp_sem m r (if u then acc +++ text else acc +++ text +++ s) (unk || u) (sec || sc)
      | None => None
      end
  end.

Lemma interp_sem_mono m m' : donele m m' -> forall ps acc unk sec r,
  interp_sem m ps acc unk sec = Some r -> interp_sem m' ps acc unk sec = Some r.
Proof.
  intro Hle. induction ps as [|[text [p|]] rest IH]; intros acc unk sec r H; cbn [interp_sem] in *; [exact H| |apply IH, H].
  destruct (aresolve E m p) as [pv|] eqn:Ea; [|discriminate]. rewrite (aresolve_mono E m m' p pv Hle Ea).
  destruct (to_string (ts_need pv) pv) as [[s u] sc]. apply IH, H.
Qed.

Lemma interp_go_mono f ps acc unk sec : mono (interp_go (eval_access W f E) ps acc unk sec).
Proof. apply (interp_go_R (eval_access W f E) (eval_access W f E)). intros. apply R_refl, eval_access_mono. Qed.
Lemma interp_go_frozen f ps acc unk sec : pres frozen (interp_go (eval_access W f E) ps acc unk sec).
Proof. apply (interp_go_pres frozen frozen_refl frozen_trans). intros p s. apply (F5_all W f). Qed.

Lemma interp_go_post f : forall ps acc unk sec s,
  clean (snd (interp_go (eval_access W f E) ps acc unk sec s)) ->
  exists a u c,
    interp_sem (memo (snd (interp_go (eval_access W f E) ps acc unk sec s))) ps acc unk sec = Some (a, u, c) /\
    fst (interp_go (eval_access W f E) ps acc unk sec s) = [str_layer c u (if u then "[unknown]" else a)].
Proof.
  induction ps as [|[text [p|]] rest IH]; intros acc unk sec s Hc.
  - rewrite interp_go_nil in *. exists acc, unk, sec. split; reflexivity.
  - rewrite interp_go_ref, bind_eq in *. cbn [interp_sem].
    set (c1 := eval_access W f E p s) in *.
    destruct (to_string (ts_need (fst c1)) (fst c1)) as [[s0 u0] sc0] eqn:Ets.
    assert (Hc1 : clean (snd c1)) by (eapply clean_le; [apply interp_go_mono|exact Hc]).
    pose proof (eval_access_resolves W E f p s Hc1) as Hr. fold c1 in Hr.
    destruct (IH _ _ _ (snd c1) Hc) as (a & u & c & H1 & H2).
    exists a, u, c. split; [|exact H2].
    rewrite (aresolve_mono E _ _ p _ (frozen_donele _ _ (interp_go_frozen f rest _ _ _ (snd c1))) Hr), Ets. exact H1.
  - rewrite interp_go_text in *. cbn [interp_sem]. apply IH, Hc.
Qed.

(* the invariant: the memoised value of an interpolation is the string the loop computes from the memo table *)
Definition QI (m : memo_t) : Prop :=
  forall id parts v, at_id E id (EInterp parts) -> done m id = Some v ->
  exists a u c rest, interp_sem m parts EmptyString false false = Some (a, u, c) /\
                     v = str_layer c u (if u then "[unknown]" else a) :: rest.
Definition JI (s : st) : Prop := clean s -> QI (memo s).

Lemma QI_mono_entry m m' parts (v : chain) : donele m m' ->
  (exists a u c rest, interp_sem m parts EmptyString false false = Some (a, u, c) /\
                      v = str_layer c u (if u then "[unknown]" else a) :: rest) ->
  (exists a u c rest, interp_sem m' parts EmptyString false false = Some (a, u, c) /\
                      v = str_layer c u (if u then "[unknown]" else a) :: rest).
Proof. intros Hle (a & u & c & rest & H1 & H2). exists a, u, c, rest. split; [eapply interp_sem_mono; eassumption|exact H2]. Qed.

Lemma JI_same s s' : memo s' = memo s -> (clean s' -> clean s) -> JI s -> JI s'.
Proof. intros Hm Hc HJ Hc'. rewrite Hm. apply HJ, Hc, Hc'. Qed.
Lemma JI_add_err n s : JI s -> JI (snd (add_err n s)).
Proof. apply JI_same; [reflexivity|]. intros [Hn Ho]. cbn [add_err snd nerr oof] in *. split; [lia|exact Ho]. Qed.
Lemma JI_emit e s : JI s -> JI (snd (emit e s)).
Proof. apply JI_same; [reflexivity|]. intro H. exact H. Qed.
Lemma JI_call s : JI s -> JI (snd (call W s)).
Proof. apply JI_same; [reflexivity|]. intro H. exact H. Qed.
Lemma JI_oof s : JI s -> JI (snd (out_of_fuel s)).
Proof. intros _ [_ H]. discriminate H. Qed.

Notation ki := (keeps JI).

Lemma expr_body_JI er x xsec xbase id :
  at_id E id x -> secok xsec x ->
  ki (er x xbase id) -> mono (er x xbase id) -> pres frozen (er x xbase id) ->
  (forall parts s1, x = EInterp parts -> clean (snd (er x xbase id s1)) ->
     exists a u c, interp_sem (memo (snd (er x xbase id s1))) parts EmptyString false false = Some (a, u, c) /\
                   fst (er x xbase id s1) = [str_layer c u (if u then "[unknown]" else a)]) ->
  ki (expr_body er x xsec xbase id).
Proof.
  intros Hid Hsec Hk Hmono Hfro Hpost s HJ. unfold expr_body. rewrite bind_eq.
  change (get_memo id s) with (memo_get id (memo s), s). cbn [fst snd].
  destruct (memo_get id (memo s)) as [[v|]|] eqn:Em.
  - exact HJ.
  - intro H. exfalso. exact (not_clean_bump s H).
  - rewrite bind_eq. cbv beta. rewrite bind_eq. cbv beta zeta. rewrite bind_eq.
    set (s1 := snd (memo_set id None s)).
    assert (Hd0 : done (memo s) id = None) by (unfold done; rewrite Em; reflexivity).
    assert (HJ1 : JI s1).
    { intro Hc1. assert (Hc : clean s) by exact Hc1. specialize (HJ Hc).
      intros id' parts v' Hat Hd. cbn [s1 memo_set snd memo] in Hd |- *.
      destruct (eid_eqb id' id) eqn:Eq.
      - apply eid_eqb_eq in Eq. subst id'. rewrite done_cons_self in Hd. discriminate Hd.
      - rewrite done_cons_other in Hd by exact Eq.
        eapply QI_mono_entry; [apply donele_cons, Hd0|apply (HJ id' parts v' Hat Hd)]. }
    pose proof (Hk s1 HJ1) as HJ2. pose proof (Hfro s1) as Hf12.
    set (r := er x xbase id s1) in *. set (s2 := snd r) in *. set (v := fst r) in *.
    intro Hc3. assert (Hc2 : clean s2) by exact Hc3. specialize (HJ2 Hc2).
    assert (Hd2 : done (memo s2) id = None).
    { unfold done. rewrite (Hf12 id); cbn [s1 memo_set snd memo]; rewrite memo_get_cons, eid_eqb_refl;
        [reflexivity|discriminate]. }
    set (v2 := (if xsec then opt_top_sec v else v) ++ xbase).
    cbn [ret snd memo_set memo].
    assert (Hle : donele (memo s2) ((id, Some v2) :: memo s2)) by (apply donele_cons, Hd2).
    intros id' parts v' Hat Hd. destruct (eid_eqb id' id) eqn:Eq.
    + apply eid_eqb_eq in Eq. subst id'. rewrite done_cons_self in Hd. injection Hd as <-.
      pose proof (at_id_fun E _ _ _ Hat Hid) as Hx. subst x.
      assert (Hxs : xsec = false) by (destruct Hsec as [->|[t Ht]]; [reflexivity|discriminate Ht]). subst xsec.
      destruct (Hpost parts s1 eq_refl Hc2) as (a & u & c & H1 & H2). fold r s2 in H1. fold r v in H2.
      exists a, u, c, xbase. split; [eapply interp_sem_mono; eassumption|]. unfold v2. rewrite H2. reflexivity.
    + rewrite done_cons_other in Hd by exact Eq. eapply QI_mono_entry; [exact Hle|apply (HJ2 id' parts v' Hat Hd)].
Qed.

Definition JI5 (f : nat) : Prop :=
  (forall x xsec xbase id, at_id E id x -> secok xsec x -> ki (eval_expr W f E x xsec xbase id)) /\
  (forall x xbase id, at_id E id x -> ki (eval_repr W f E x xbase id)) /\
  (forall x a id, at_id E id x -> ki (eval_typed W f E x a id)) /\
  (forall p, ki (eval_access W f E p)) /\
  (forall rx rsec rbase rid accs, at_id E rid rx -> secok rsec rx -> ki (walk W f E rx rsec rbase rid accs)).

Lemma eval_repr_interp_post f parts xbase id s1 :
  clean (snd (eval_repr W f E (EInterp parts) xbase id s1)) ->
  exists a u c, interp_sem (memo (snd (eval_repr W f E (EInterp parts) xbase id s1))) parts EmptyString false false = Some (a, u, c) /\
                fst (eval_repr W f E (EInterp parts) xbase id s1) = [str_layer c u (if u then "[unknown]" else a)].
Proof.
  destruct f as [|f]; [intros [_ H]; discriminate H|]. rewrite eval_repr_S. unfold repr_body. apply interp_go_post.
Qed.

Lemma JI5_all : forall f, JI5 f.
Proof.
  induction f as [|f IH].
  - unfold JI5; split5; intros; intros s0 _ [_ Hoof]; discriminate Hoof.
  - destruct IH as (He & Hr & Ht & Ha & Hw). unfold JI5; split5.
    + intros x xsec xbase id Hid Hsec. rewrite eval_expr_S. apply expr_body_JI; auto.
      * intros s. apply eval_repr_mono.
      * intros s. apply (F5_all W f).
      * intros parts s1 -> Hc. apply eval_repr_interp_post, Hc.
    + intros x xbase id Hid. rewrite eval_repr_S.
      apply (repr_body_keeps W JI JI_add_err JI_emit JI_call JI_oof).
      * intros stp e b c Hc _ Hsec. apply He; [eapply at_id_child; eassumption|exact Hsec].
      * intros stp e a Hc _. apply Ht. eapply at_id_child; eassumption.
      * exact Ha.
    + intros x a id Hid. rewrite eval_typed_S. apply (typed_body_keeps JI JI_add_err).
      apply He; [exact Hid|left; reflexivity].
    + intros p. rewrite eval_access_S. apply (access_body_keeps JI JI_add_err).
      apply Hw; [split; reflexivity|left; reflexivity].
    + intros rx rsec rbase rid accs Hid Hsec. rewrite walk_S. apply (walk_body_keeps JI JI_add_err).
      * apply He; assumption.
      * intros stp y b c accs' Hc _ Hsy. apply Hw; [eapply at_id_child; eassumption|exact Hsy].
Qed.

End INTERP.

(* ---------------- the final statement ---------------- *)
(* the text of an interpolation, computed on the EXPORTED root value *)
Fixpoint interp_text (ps : list (string * option path)) (xv : xval) (acc : string) : string :=
  match ps with
  | [] => acc
  | (text, None) :: r => interp_text r xv (acc +++ text)
  | (text, Some p) :: r =>
      interp_text r xv (acc +++ text +++ match x_access p xv with Some (XScalar _ _ s) => scalar_text s | _ => EmptyString end)
  end.

Lemma export_scalar_inv f c s x : export f c = Some (XScalar s false x) -> exists sch r, c = LScalar s false sch x :: r.
Proof.
  destruct f as [|f]; [discriminate|]. rewrite export_S.
  destruct c as [|[s0 u0 sc0 x0|s0 u0 sc0 e|s0 u0 sc0 p] r]; try discriminate.
  - intros [= <- <- <-]. eauto.
  - destruct (mapM _ e); discriminate.
  - match goal with |- match ?mm with _ => _ end = _ -> _ => destruct mm end; discriminate.
Qed.

Lemma to_string_scalar f s sch x r : f <> 0%nat -> to_string f (LScalar s false sch x :: r) = (scalar_text x, false, s).
Proof. destruct f; [contradiction|reflexivity]. Qed.

Lemma export_scalar f s u sch x r : f <> 0%nat -> export f (LScalar s u sch x :: r) = Some (XScalar s u x).
Proof. destruct f; [contradiction|reflexivity]. Qed.

Section INTERP_FINAL.
Variable W : world.

Lemma final_interp f root name d s :
  untouched name s -> clean (snd (eval_env W (S f) root name d s)) ->
  QI (env_E W f root name d s) (memo (snd (eval_env W (S f) root name d s))).
Proof.
  intros Hu Hc. rewrite eval_env_unfold in *. set (E := env_E W f root name d s) in *.
  set (s3 := env_s3 W f root name d s) in *.
  assert (HJ3 : JI E s3).
  { intros _ id parts v [Hn _] Hd. exfalso. unfold done in Hd.
    pose proof (env_s3_untouched W f root name d s Hu (snd id)) as Hun. fold s3 in Hun.
    destruct id as [n q]. cbn [fst snd] in *. change (ec_name E) with name in Hn. subst n.
    rewrite Hun in Hd. discriminate Hd. }
  destruct (JI5_all W E f) as (He & _).
  apply (He (root_of E) false (env_base W f root name d s) (name, []) (conj eq_refl eq_refl) (or_introl eq_refl) s3 HJ3 Hc).
Qed.

Section TEXT.
Variable E : ectx.
Variable m : memo_t.
Hypothesis HQ : Q E m.
Variable c : chain.
Variable xv : xval.
Hypothesis Hd : done m (ec_name E, []) = Some c.
Hypothesis Hg : cgood c = true.
Hypothesis Hx : export big_fuel c = Some xv.

Lemma interp_sem_text : forall ps acc unk sec a u sc,
  (forall text p, In (text, Some p) ps -> local_path p = true /\ exists s0 x0, x_access p xv = Some (XScalar s0 false x0)) ->
  interp_sem E m ps acc unk sec = Some (a, u, sc) -> u = unk /\ a = interp_text ps xv acc.
Proof.
  induction ps as [|[text [p|]] rest IH]; intros acc unk sec a u sc Hall H; cbn [interp_sem interp_text] in *.
  - injection H as <- <- <-. split; reflexivity.
  - destruct (aresolve E m p) as [pv|] eqn:Ea; [|discriminate].
    destruct (Hall text p (or_introl eq_refl)) as (Hloc & s0 & x0 & Hacc).
    assert (Hr : resolve m (root_of E) (ec_base E) (ec_name E, []) p = Some pv).
    { unfold aresolve in Ea. destruct p as [|a0 r0]; [discriminate Hloc|]. cbn [local_path] in Hloc.
      destruct (object_key a0) as [k0|]; [|exact Ea]. unfold reserved in Hloc.
      apply negb_true_iff, orb_false_iff in Hloc. destruct Hloc as [H1 H2]. rewrite H1, H2 in Ea. exact Ea. }
    destruct (resolve_denotes E m HQ p (root_of E) (ec_base E) (ec_name E, []) c pv (conj eq_refl eq_refl) eq_refl Hd Hg Hr
                big_fuel xv Hx) as (xk & Hxa & Hxe).
    rewrite Hacc in Hxa. injection Hxa as <-. rewrite Hacc.
    destruct (export_scalar_inv _ _ _ _ Hxe) as (sch & r & ->).
    change (to_string (ts_need (LScalar s0 false sch x0 :: r)) (LScalar s0 false sch x0 :: r)) with (scalar_text x0, false, s0) in H.
    cbv beta iota in H. rewrite orb_false_r in H.
    apply (IH _ _ _ _ _ _ (fun t q Hin => Hall t q (or_intror Hin)) H).
  - apply (IH _ _ _ _ _ _ (fun t q Hin => Hall t q (or_intror Hin)) H).
Qed.

End TEXT.

(* THEOREM: a top-level interpolation whose references denote known scalars *)
Theorem interp_denotes fuel root name d k parts :
  let r := eval_env W fuel root name d st0 in
  nerr (snd r) = 0 -> oof (snd r) = false ->
  alookup k (ed_values d) = Some (EInterp parts) -> reserved k = false ->
  cknown (fst r) = true ->
  forall xv, export big_fuel (fst r) = Some xv ->
  (forall text p, In (text, Some p) parts ->
     local_path p = true /\ exists s0 x0, x_access p xv = Some (XScalar s0 false x0)) ->
  exists sec, export big_fuel (property k (fst r)) = Some (XScalar sec false (SStr (interp_text parts xv EmptyString))).
Proof.
  intros r Hn Ho Hk Hres Hkn xv Hx Hall. unfold r in *. destruct fuel as [|f]; [discriminate Ho|].
  assert (Hc : clean (snd (eval_env W (S f) root name d st0))) by (split; assumption).
  destruct (final_state W f root name d st0 (untouched_st0 name) Hc) as (HQ & Hd & props & Hv & Hkeys & Hprops).
  pose proof (final_interp f root name d st0 (untouched_st0 name) Hc) as HQI.
  set (E := env_E W f root name d st0) in *. set (c := fst (eval_env W (S f) root name d st0)) in *.
  set (m := memo (snd (eval_env W (S f) root name d st0))) in *.
  assert (Hg : cgood c = true) by (apply cgood_of_known_sorted; [exact Hkn|apply eval_env_sorted]).
  assert (Hal : alookup k (ec_values E) = Some (EInterp parts)).
  { change (ec_values E) with (filter (fun kv => negb (reserved (fst kv))) (ed_values d)).
    rewrite (alookup_filter_key (fun k => negb (reserved k))); [exact Hk|rewrite Hres; reflexivity]. }
  assert (Hin : In k (map fst props)).
  { rewrite Hkeys. apply (proj2 (proj2 (declared_keys_of_spec (ec_values E)))).
    apply alookup_in in Hal. apply (in_map fst) in Hal. exact Hal. }
  apply alookup_Some_In in Hin. destruct Hin as [Vk HVk]. pose proof (Hprops _ _ HVk) as Hdk.
  assert (Hatk : at_id E (name, [IKey k]) (EInterp parts)).
  { apply (at_id_child E (name, []) (root_of E) (IKey k)); [split; reflexivity|exact Hal]. }
  destruct (HQI _ _ _ Hatk Hdk) as (a & u & sc & rest & Hsem & HVk').
  destruct (interp_sem_text E m HQ c xv Hd Hg Hx parts EmptyString false false a u sc Hall Hsem) as [-> ->].
  exists sc. fold c. rewrite Hv. unfold obj_layer. cbn [property]. rewrite HVk, HVk'. cbn [app].
  unfold str_layer. apply export_scalar, big_fuel_pos.
Qed.

End INTERP_FINAL.
