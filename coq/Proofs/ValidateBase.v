(* Proofs/ValidateBase.v — induction principles for the nested types, reflection lemmas for the boolean list
   predicates, bf64, and: Go's equalsConst decides JSON-Schema instance equality on well-formed integral values. *)
From Coq Require Import Lia ZifyN ZifyNat ZifyBool.
From Verif Require Import Base.Bytes Model.Schema Model.Validate.

(* ---------------- induction principles ---------------- *)
Section JsonInd.
  Variable Pj : json -> Prop.
  Hypothesis Hnull : Pj JNull.
  Hypothesis Hbool : forall b, Pj (JBool b).
  Hypothesis Hnum : forall z f, Pj (JNum z f).
  Hypothesis Hstr : forall s, Pj (JStr s).
  Hypothesis Harr : forall l, Forall Pj l -> Pj (JArr l).
  Hypothesis Hobj : forall m, Forall (fun kv => Pj (snd kv)) m -> Pj (JObj m).

  Fixpoint json_ind' (v : json) : Pj v :=
    match v with
    | JNull => Hnull
    | JBool b => Hbool b
    | JNum z f => Hnum z f
    | JStr s => Hstr s
    | JArr l => Harr l ((fix go (l : list json) : Forall Pj l :=
                           match l with [] => Forall_nil _ | x :: r => Forall_cons _ (json_ind' x) (go r) end) l)
    | JObj m => Hobj m ((fix go (m : list (string * json)) : Forall (fun kv => Pj (snd kv)) m :=
                           match m with
                           | [] => Forall_nil _
                           | (k, x) :: r => Forall_cons (k, x) (json_ind' x) (go r)
                           end) m)
    end.
End JsonInd.

Definition optP {A} (Q : A -> Prop) (o : option A) : Prop := match o with Some t => Q t | None => True end.

Section SchemaInd.
  Variable Ps : schema -> Prop.
  Hypothesis Halways : Ps SAlways.
  Hypothesis Hnever : Ps SNever.
  Hypothesis Hnode : forall ref a o pre it ad props k,
      Forall Ps a -> Forall Ps o -> Forall Ps pre ->
      optP Ps it -> optP Ps ad ->
      Forall (fun kp => Ps (snd kp)) props -> Ps (SNode ref a o pre it ad props k).

  Fixpoint schema_ind' (s : schema) : Ps s :=
    match s with
    | SAlways => Halways
    | SNever => Hnever
    | SNode ref a o pre it ad props k =>
        let golist := fix go (l : list schema) : Forall Ps l :=
                        match l with [] => Forall_nil _ | x :: r => Forall_cons _ (schema_ind' x) (go r) end in
        Hnode ref a o pre it ad props k (golist a) (golist o) (golist pre)
              (match it as o0 return (optP Ps o0) with
               | Some t0 => schema_ind' t0 | None => I end)
              (match ad as o0 return (optP Ps o0) with
               | Some t0 => schema_ind' t0 | None => I end)
              ((fix go (m : list (string * schema)) : Forall (fun kp => Ps (snd kp)) m :=
                  match m with
                  | [] => Forall_nil _
                  | (k0, x) :: r => Forall_cons (k0, x) (schema_ind' x) (go r)
                  end) props)
    end.
End SchemaInd.

(* ---------------- association lists, membership ---------------- *)
Lemma mem_In : forall k l, mem k l = true <-> In k l.
Proof.
  intros k l. unfold mem. rewrite existsb_exists. split.
  - intros [x [Hin He]]. apply String.eqb_eq in He. subst. exact Hin.
  - intros H. exists k. split; [exact H | apply String.eqb_refl].
Qed.

Lemma mem_false_In : forall k l, mem k l = false <-> ~ In k l.
Proof.
  intros k l. rewrite <- mem_In. destruct (mem k l); split; intros; congruence.
Qed.

Lemma nodupb_NoDup : forall l, nodupb l = true <-> NoDup l.
Proof.
  induction l as [|k r IH]; simpl.
  - split; [constructor | reflexivity].
  - rewrite andb_true_iff, negb_true_iff, mem_false_In, IH. split.
    + intros [H1 H2]. constructor; assumption.
    + intros H. inversion H; subst. split; assumption.
Qed.

Lemma lookup_In : forall A k (m : list (string * A)) a, lookup k m = Some a -> In (k, a) m.
Proof.
  induction m as [|[k' a'] r IH]; simpl; intros a H; [discriminate|].
  destruct (String.eqb k k') eqn:E.
  - apply String.eqb_eq in E. inversion H; subst. left; reflexivity.
  - right. apply IH. exact H.
Qed.

Lemma lookup_None : forall A k (m : list (string * A)), lookup k m = None <-> ~ In k (keys m).
Proof.
  induction m as [|[k' a'] r IH]; simpl.
  - split; [intros _ [] | reflexivity].
  - destruct (String.eqb k k') eqn:E.
    + apply String.eqb_eq in E. subst. split; [discriminate | intros H; exfalso; apply H; left; reflexivity].
    + apply String.eqb_neq in E. rewrite IH. split.
      * intros H [H1|H1]; [congruence | contradiction].
      * intros H H1. apply H. right. exact H1.
Qed.

Lemma lookup_mem : forall A k (m : list (string * A)), mem k (keys m) = match lookup k m with Some _ => true | None => false end.
Proof.
  intros A k m. destruct (lookup k m) eqn:E.
  - apply mem_In. apply lookup_In in E. unfold keys. change k with (fst (k, a)). apply in_map. exact E.
  - apply mem_false_In. apply lookup_None. exact E.
Qed.

Lemma In_keys : forall A k (a : A) m, In (k, a) m -> In k (keys m).
Proof. intros A k a m H. unfold keys. change k with (fst (k, a)). apply in_map. exact H. Qed.

Lemma NoDup_lookup : forall A (m : list (string * A)) k a, NoDup (keys m) -> In (k, a) m -> lookup k m = Some a.
Proof.
  induction m as [|[k' a'] r IH]; simpl; intros k a Hnd Hin; [contradiction|].
  inversion Hnd as [|x l Hni Hnd']; subst.
  destruct Hin as [Heq|Hin].
  - inversion Heq; subst. rewrite String.eqb_refl. reflexivity.
  - destruct (String.eqb k k') eqn:E.
    + apply String.eqb_eq in E. subst. exfalso. apply Hni. eapply In_keys. exact Hin.
    + apply IH; assumption.
Qed.

(* ---------------- hereditary predicates ---------------- *)
Lemma forallb_and : forall A (f g : A -> bool) l, forallb (fun x => f x && g x) l = forallb f l && forallb g l.
Proof.
  induction l as [|x r IH]; simpl; [reflexivity|]. rewrite IH.
  destruct (f x), (g x), (forallb f r), (forallb g r); reflexivity.
Qed.

Lemma forallb_ext_in : forall A (f g : A -> bool) l, (forall x, In x l -> f x = g x) -> forallb f l = forallb g l.
Proof.
  induction l as [|x r IH]; simpl; intros H; [reflexivity|].
  rewrite (H x (or_introl eq_refl)), IH; [reflexivity|]. intros y Hy. apply H. right. exact Hy.
Qed.

Lemma jall_and : forall p q v, jall (fun x => p x && q x) v = jall p v && jall q v.
Proof.
  intros p q. induction v as [ |b|z f|s|l IH|m IH] using json_ind'; simpl; try (destruct (p _), (q _); reflexivity).
  - assert (E : forallb (jall (fun x => p x && q x)) l = forallb (jall p) l && forallb (jall q) l).
    { rewrite <- forallb_and. apply forallb_ext_in. intros x Hx. rewrite Forall_forall in IH. apply IH. exact Hx. }
    rewrite E. destruct (p (JArr l)), (q (JArr l)), (forallb (jall p) l), (forallb (jall q) l); reflexivity.
  - set (F := fun (pp : json -> bool) (kv : string * json) => match kv with (_, x) => jall pp x end).
    assert (E : forallb (F (fun x => p x && q x)) m = forallb (F p) m && forallb (F q) m).
    { rewrite <- forallb_and. apply forallb_ext_in. intros [k x] Hx. rewrite Forall_forall in IH.
      apply (IH (k, x)). exact Hx. }
    fold (F (fun x => p x && q x)) (F p) (F q). rewrite E.
    destruct (p (JObj m)), (q (JObj m)), (forallb (F p) m), (forallb (F q) m); reflexivity.
Qed.

Lemma jall_arr : forall p l x, jall p (JArr l) = true -> In x l -> jall p x = true.
Proof.
  intros p l x H Hin. simpl in H. apply andb_true_iff in H. destruct H as [_ H].
  rewrite forallb_forall in H. apply H. exact Hin.
Qed.

Lemma jall_obj : forall p m k x, jall p (JObj m) = true -> In (k, x) m -> jall p x = true.
Proof.
  intros p m k x H Hin. simpl in H. apply andb_true_iff in H. destruct H as [_ H].
  rewrite forallb_forall in H. apply (H (k, x)). exact Hin.
Qed.

Lemma jall_here : forall p v, jall p v = true -> p v = true.
Proof. intros p v H. destruct v; simpl in H; apply andb_true_iff in H; tauto. Qed.

Lemma sall_and : forall p q s, sall (fun x => p x && q x) s = sall p s && sall q s.
Proof.
  intros p q. induction s as [| |ref a o pre it ad props k Ha Ho Hpre Hit Had Hprops] using schema_ind'.
  - simpl. destruct (p SAlways), (q SAlways); reflexivity.
  - simpl. destruct (p SNever), (q SNever); reflexivity.
  - assert (L : forall l, Forall (fun s => sall (fun x => p x && q x) s = sall p s && sall q s) l ->
                forallb (sall (fun x => p x && q x)) l = forallb (sall p) l && forallb (sall q) l).
    { intros l Hl. rewrite <- forallb_and. apply forallb_ext_in. intros x Hx.
      rewrite Forall_forall in Hl. apply Hl. exact Hx. }
    set (F := fun (pp : schema -> bool) (kp : string * schema) => match kp with (_, t) => sall pp t end).
    assert (Lp : forallb (F (fun x => p x && q x)) props = forallb (F p) props && forallb (F q) props).
    { rewrite <- forallb_and. apply forallb_ext_in. intros [k0 x] Hx.
      rewrite Forall_forall in Hprops. apply (Hprops (k0, x)). exact Hx. }
    simpl. rewrite (L a Ha), (L o Ho), (L pre Hpre). fold (F (fun x => p x && q x)) (F p) (F q). rewrite Lp.
    assert (Eit : match it with Some t => sall (fun x => p x && q x) t | None => true end
                  = match it with Some t => sall p t | None => true end && match it with Some t => sall q t | None => true end).
    { destruct it; simpl in *; [exact Hit | reflexivity]. }
    assert (Ead : match ad with Some t => sall (fun x => p x && q x) t | None => true end
                  = match ad with Some t => sall p t | None => true end && match ad with Some t => sall q t | None => true end).
    { destruct ad; simpl in *; [exact Had | reflexivity]. }
    rewrite Eit, Ead.
    generalize (p (SNode ref a o pre it ad props k)) (q (SNode ref a o pre it ad props k))
      (forallb (sall p) a) (forallb (sall q) a) (forallb (sall p) o) (forallb (sall q) o)
      (forallb (sall p) pre) (forallb (sall q) pre)
      (match it with Some t => sall p t | None => true end) (match it with Some t => sall q t | None => true end)
      (match ad with Some t => sall p t | None => true end) (match ad with Some t => sall q t | None => true end)
      (forallb (F p) props) (forallb (F q) props).
    intros b1 b2 b3 b4 b5 b6 b7 b8 b9 b10 b11 b12 b13 b14.
    destruct b1, b2; simpl; try reflexivity; try (destruct b3, b5, b7, b9, b11, b13; reflexivity).
    destruct b3, b4; simpl; try reflexivity; try (destruct b5, b7, b9, b11, b13; reflexivity).
    destruct b5, b6; simpl; try reflexivity; try (destruct b7, b9, b11, b13; reflexivity).
    destruct b7, b8; simpl; try reflexivity; try (destruct b9, b11, b13; reflexivity).
    destruct b9, b10; simpl; try reflexivity; try (destruct b11, b13; reflexivity).
    destruct b11, b12; simpl; try reflexivity; try (destruct b13; reflexivity).
Qed.

Lemma sall_here : forall p s, sall p s = true -> p s = true.
Proof. intros p s H. destruct s; simpl in H; apply andb_true_iff in H; tauto. Qed.

(* one-step inversion for a node *)
Lemma sall_node : forall p ref a o pre it ad props k,
  sall p (SNode ref a o pre it ad props k) = true ->
  (forall t, In t a -> sall p t = true) /\ (forall t, In t o -> sall p t = true)
  /\ (forall t, In t pre -> sall p t = true)
  /\ (forall t, it = Some t -> sall p t = true) /\ (forall t, ad = Some t -> sall p t = true)
  /\ (forall key t, In (key, t) props -> sall p t = true).
Proof.
  intros p ref a o pre it ad props k H. simpl in H.
  apply andb_true_iff in H. destruct H as [_ H].
  apply andb_true_iff in H. destruct H as [H Hprops].
  apply andb_true_iff in H. destruct H as [H Had].
  apply andb_true_iff in H. destruct H as [H Hit].
  apply andb_true_iff in H. destruct H as [H Hpre].
  apply andb_true_iff in H. destruct H as [Ha Ho].
  repeat split.
  - intros t Hin. rewrite forallb_forall in Ha. apply Ha. exact Hin.
  - intros t Hin. rewrite forallb_forall in Ho. apply Ho. exact Hin.
  - intros t Hin. rewrite forallb_forall in Hpre. apply Hpre. exact Hin.
  - intros t E. subst. exact Hit.
  - intros t E. subst. exact Had.
  - intros key t Hin. rewrite forallb_forall in Hprops. apply (Hprops (key, t)). exact Hin.
Qed.

(* ---------------- bf64 ---------------- *)
Lemma pow2_64 : (2 ^ 64)%Z = two64.
Proof. reflexivity. Qed.

Lemma bf64_id : forall z, int_ok z = true -> bf64 z = z.
Proof.
  intros z H. unfold int_ok in H. apply Z.ltb_lt in H.
  assert (Hb : (Z.log2 (Z.abs z) + 1 <=? 64)%Z = true).
  { apply Z.leb_le. destruct (Z.eq_dec (Z.abs z) 0) as [E0|E0].
    - rewrite E0. rewrite Z.log2_nonpos; lia.
    - assert (Hlog : (Z.log2 (Z.abs z) < 64)%Z).
      { apply Z.log2_lt_pow2; [lia|]. rewrite pow2_64. exact H. }
      lia. }
  unfold bf64. cbv zeta. rewrite Hb. reflexivity.
Qed.
(* ---------------- equalsConst decides instance equality ---------------- *)
Definition vgood (v : json) : Prop := value_wf v = true /\ value_integral v = true.

Lemma vgood_arr : forall l x, vgood (JArr l) -> In x l -> vgood x.
Proof. intros l x [H1 H2] Hin. split; eapply jall_arr; eauto. Qed.

Lemma vgood_obj : forall m k x, vgood (JObj m) -> In (k, x) m -> vgood x.
Proof. intros m k x [H1 H2] Hin. split; eapply jall_obj; eauto. Qed.

Lemma vgood_num : forall z f, vgood (JNum z f) -> f = 0 /\ int_ok z = true.
Proof.
  intros z f [_ H]. apply jall_here in H. simpl in H. apply andb_true_iff in H. destruct H as [H1 H2].
  apply N.eqb_eq in H1. split; assumption.
Qed.

Lemma vgood_keys : forall m, vgood (JObj m) -> NoDup (keys m).
Proof. intros m [H _]. apply jall_here in H. simpl in H. apply nodupb_NoDup. exact H. Qed.

Lemma equals_const_spec : forall c v, vgood c -> vgood v -> equals_const v c = json_eqb v c.
Proof.
  induction c as [ |b|z f|s|cs IH|cm IH] using json_ind'; intros v Hc Hv.
  - destruct v; reflexivity.
  - destruct v; reflexivity.
  - destruct v as [ | |z' f'| | | ]; try reflexivity. simpl.
    destruct (vgood_num _ _ Hc) as [Hf _]. destruct (vgood_num _ _ Hv) as [Hf' _]. subst.
    simpl. apply andb_true_r.
  - destruct v; reflexivity.
  - destruct v as [ | | | |vs| ]; try reflexivity. simpl.
    assert (Hcs : forall x, In x cs -> vgood x) by (intros x Hx; exact (vgood_arr cs x Hc Hx)).
    assert (Hvs : forall x, In x vs -> vgood x) by (intros x Hx; exact (vgood_arr vs x Hv Hx)).
    clear Hc Hv. revert vs Hvs.
    induction IH as [|c' cs' Hc' _ IHcs]; intros vs Hvs; destruct vs as [|v' vs']; try reflexivity.
    rewrite Hc'; [| apply Hcs; left; reflexivity | apply Hvs; left; reflexivity].
    rewrite IHcs; [reflexivity | |].
    + intros x Hx. apply Hcs. right. exact Hx.
    + intros x Hx. apply Hvs. right. exact Hx.
  - destruct v as [ | | | | |vm]; try reflexivity. simpl.
    pose proof (vgood_keys _ Hc) as NDc. pose proof (vgood_keys _ Hv) as NDv.
    rewrite Forall_forall in IH.
    (* both sides as propositions *)
    match goal with |- ?L = ?Rr => destruct L eqn:EL; destruct Rr eqn:ER; try reflexivity; exfalso end.
    + (* Go true, spec false *)
      apply andb_true_iff in EL. destruct EL as [Elen Eall]. apply Nat.eqb_eq in Elen.
      rewrite forallb_forall in Eall.
      assert (Hincl : incl (keys cm) (keys vm)).
      { intros k Hk. unfold keys in Hk. apply in_map_iff in Hk. destruct Hk as [[k0 c0] [E Hin]]. simpl in E. subst.
        specialize (Eall _ Hin). simpl in Eall. destruct (lookup k vm) eqn:El; [|discriminate].
        eapply In_keys. eapply lookup_In. exact El. }
      assert (Hincl' : incl (keys vm) (keys cm)).
      { apply NoDup_length_incl; [exact NDc | unfold keys; rewrite !map_length; lia | exact Hincl]. }
      assert (ER' : forallb (fun kx => match kx with (k, x) => match lookup k cm with Some y => json_eqb x y | None => false end end) vm
                    && forallb (fun k => mem k (keys vm)) (keys cm) = true).
      { apply andb_true_iff. split.
        - apply forallb_forall. intros [k x] Hin.
          assert (Hk : In k (keys cm)) by (apply Hincl'; eapply In_keys; exact Hin).
          destruct (lookup k cm) as [y|] eqn:El; [| apply lookup_None in El; contradiction].
          pose proof (lookup_In _ _ _ _ El) as Hy. specialize (Eall _ Hy). simpl in Eall.
          rewrite (NoDup_lookup _ _ _ _ NDv Hin) in Eall.
          pose proof (IH (k, y) Hy x (vgood_obj cm k y Hc Hy) (vgood_obj vm k x Hv Hin)) as IHy. simpl in IHy.
          rewrite <- IHy. exact Eall.
        - apply forallb_forall. intros k Hk. apply mem_In. apply Hincl. exact Hk. }
      rewrite ER' in ER. discriminate.
    + (* spec true, Go false *)
      apply andb_true_iff in ER. destruct ER as [E1 E2].
      rewrite forallb_forall in E1. rewrite forallb_forall in E2.
      assert (Hincl : incl (keys cm) (keys vm)) by (intros k Hk; apply mem_In; apply E2; exact Hk).
      assert (Hincl' : incl (keys vm) (keys cm)).
      { intros k Hk. unfold keys in Hk. apply in_map_iff in Hk. destruct Hk as [[k0 x0] [E Hin]]. simpl in E. subst.
        specialize (E1 _ Hin). simpl in E1. destruct (lookup k cm) eqn:El; [|discriminate].
        eapply In_keys. eapply lookup_In. exact El. }
      assert (EL' : (length vm =? length cm)%nat
                    && forallb (fun kc => match kc with (k, c') => match lookup k vm with Some v' => equals_const v' c' | None => false end end) cm = true).
      { apply andb_true_iff. split.
        - apply Nat.eqb_eq.
          pose proof (NoDup_incl_length NDc Hincl) as L1. pose proof (NoDup_incl_length NDv Hincl') as L2.
          unfold keys in L1, L2. rewrite !map_length in L1, L2. lia.
        - apply forallb_forall. intros [k c'] Hin.
          assert (Hk : In k (keys vm)) by (apply Hincl; eapply In_keys; exact Hin).
          destruct (lookup k vm) as [x|] eqn:El; [| apply lookup_None in El; contradiction].
          pose proof (lookup_In _ _ _ _ El) as Hx. specialize (E1 _ Hx). simpl in E1.
          rewrite (NoDup_lookup _ _ _ _ NDc Hin) in E1.
          pose proof (IH (k, c') Hin x (vgood_obj cm k c' Hc Hin) (vgood_obj vm k x Hv Hx)) as IHy. simpl in IHy.
          rewrite IHy. exact E1. }
      rewrite EL' in EL. discriminate.
Qed.
