(* Proofs/RefSem2Clean.v — C07 at the observation level: with the fuel of [fuel_bound] and a world whose depth bound is
   below [big_fuel] (= 4096, the fuel of the inner export / toString / containsUnknowns calls and of [run]'s final
   export), the run ends with the fuel flag clear: ob_oof = false. *)
From Verif Require Import Base.Bytes Model.Chain Model.GoText Model.Envelope Model.Eval
  Proofs.EvalTotalBase Proofs.EvalTotalInv Proofs.EvalTotalOrder Proofs.EvalTotalSyntax Proofs.EvalTotalFail
  Proofs.EvalTotalRecover Proofs.EvalTotalBound
  Proofs.ChainAlgebraSorted Proofs.ChainAlgebraExport
  Proofs.RefSem2Depth Proofs.RefSem2DepthEval Proofs.RefSem2DepthEnv.
From Coq Require Import Lia.
Local Open Scope nat_scope.

Lemma export_big_fuel_some c : cdepth c < big_fuel -> exists v, export big_fuel c = Some v.
Proof.
  intro H. destruct (export big_fuel c) as [v|] eqn:E; [eauto|]. exfalso. revert E. apply export_total_depth, H.
Qed.

(* the only fuel that can still run out above [fuel_bound] is the one of the final export: depth decides *)
Theorem run_clean_of_depth W name d f :
  world_no_json W d = true -> fuel_bound W d <= f ->
  cdepth (fst (eval_env W f "" name d st0)) < big_fuel ->
  ob_oof (run f W name d) = false.
Proof.
  intros Hj Hf Hd. rewrite (run_oof_only_export W name d f Hj Hf). unfold run.
  destruct (eval_env W f "" name d st0) as [c s]. cbn [fst ob_value] in *.
  destruct (export_big_fuel_some c Hd) as [v ->]. reflexivity.
Qed.

(* THEOREM C07_run_terminates_cleanly: a purely textual condition *)
Theorem run_terminates_cleanly W name d f :
  world_no_json W d = true -> depth_bound W d < big_fuel -> fuel_bound W d <= f ->
  ob_oof (run f W name d) = false.
Proof.
  intros Hj Hd Hf. apply run_clean_of_depth; [exact Hj|exact Hf|].
  pose proof (eval_env_depth W f "" name d Hj). lia.
Qed.

Corollary run_value_present W name d f :
  world_no_json W d = true -> depth_bound W d < big_fuel -> fuel_bound W d <= f ->
  exists v, ob_value (run f W name d) = Some v.
Proof.
  intros Hj Hd Hf. unfold run. pose proof (eval_env_depth W f "" name d Hj) as H.
  destruct (eval_env W f "" name d st0) as [c s]. cbn [fst ob_value] in *. apply export_big_fuel_some. lia.
Qed.

(* the inner consumers of big_fuel: above the depth they do not depend on the fuel either *)
Lemma to_string_fuel : forall f f' c, cdepth c < f -> cdepth c < f' -> to_string f c = to_string f' c.
Proof.
  induction f as [|f IH]; intros f' c H H'; [lia|]. destruct f' as [|f']; [lia|]. cbn [to_string].
  destruct c as [|l r]; [reflexivity|]. destruct (l_unk l); [reflexivity|]. rewrite cdepth_cons in H, H'.
  destruct l as [s u sc x|s u sc e|s u sc p]; [reflexivity| |].
  - rewrite ldepth_arr in H, H'.
    assert (Hm : map (to_string f) e = map (to_string f') e).
    { apply map_ext_in. intros c Hc. apply csdepth_In in Hc. apply IH; lia. }
    rewrite Hm. reflexivity.
  - rewrite ldepth_obj in H, H'.
    assert (Hm : map (fun kv => (fst kv, to_string f (snd kv))) p = map (fun kv => (fst kv, to_string f' (snd kv))) p).
    { apply map_ext_in. intros [k c] Hc. cbn [fst snd]. f_equal. apply pdepth_In in Hc. apply IH; lia. }
    rewrite Hm. reflexivity.
Qed.

Lemma contains_unknowns_exact c : cdepth c < big_fuel ->
  exists v, export big_fuel c = Some v /\ contains_unknowns c = x_has_unknown v /\ contains_secrets c = x_has_secret v.
Proof.
  intro H. destruct (export_big_fuel_some c H) as [v Hv]. exists v. unfold contains_unknowns, contains_secrets.
  rewrite (export_t_big _ _ Hv). auto.
Qed.
