(* Proofs/ChainAlgebraEval.v — the import loop of eval.go:evaluateImports as a top-level twin of the model's local fix,
   the imports table as a memo (C10), and immutability of stored values under later merges. *)
From Verif Require Import Base.Bytes Model.Chain Model.GoText Model.Envelope Model.Eval
  Proofs.ChainAlgebraSorted Proofs.ChainAlgebraExport.
From Coq Require Import Lia.
Local Open Scope nat_scope.

(* ================= the import loop, named ================= *)
Definition imp_loop (W : world) (rec : string -> string -> envdef -> M chain) (root' : string) :
  list (string * bool) -> chain -> list (string * chain) -> M (chain * list (string * chain)) :=
  fix go (is : list (string * bool)) (base : chain) (my : list (string * chain)) : M (chain * list (string * chain)) :=
    match is with
    | [] => ret (base, my)
    | (n, merge) :: rest =>
        let proceed (val : chain) := go rest (if merge then val ++ base else base) (ainsert n val my) in
        s <- imps_get n ;;
        match s with
        | Some i =>
            if is_evaluating i then err ;;; go rest base my
            else match is_value i with
                 | Some v => proceed v
                 | None => go rest base my
                 end
        | None =>
            failed <- call W ;;
            emit (EvLoad n) ;;;
            let remember_failure := imps_set n {| is_evaluating := false; is_value := None |} in
            match (if failed then LoadFail
                   else match alookup n (w_envs W) with Some l => l | None => LoadFail end) with
            | LoadFail => err ;;; remember_failure ;;; go rest base my
            | LoadNoParse => err ;;; remember_failure ;;; go rest base my
            | LoadOk d' =>
                v <- rec root' n d' ;;
                imps_set n {| is_evaluating := false; is_value := Some v |} ;;;
                proceed v
            end
        end
    end.

Definition env_ctx (W : world) (root' name : string) (d : envdef) (base : chain) (my : list (string * chain)) : ectx :=
  {| ec_name := name; ec_root := root';
     ec_values := filter (fun kv => negb (reserved (fst kv))) (ed_values d);
     ec_base := base; ec_imports := imports_value my;
     ec_context := context_chain W root' name |}.

Lemma eval_env_S (W : world) (f : nat) (root name : string) (d : envdef) :
  eval_env W (S f) root name d =
    (let root' := if String.eqb root "" || String.eqb root "<yaml>" then name else root in
     imps_set name {| is_evaluating := true; is_value := None |} ;;;
     r <- imp_loop W (eval_env W f) root' (ed_imports d) [] [] ;;
     let '(base, my) := r in
     imps_set name {| is_evaluating := false; is_value := None |} ;;;
     add_err (N.of_nat (length (filter (fun kv => reserved (fst kv)) (ed_values d)))) ;;;
     let E := env_ctx W root' name d base my in
     eval_expr W f E (EObj (ec_values E)) false base (name, [])).
Proof. reflexivity. Qed.

Lemma imp_loop_nil W rec r base my s : imp_loop W rec r [] base my s = ((base, my), s).
Proof. reflexivity. Qed.

Definition set_imps (n : string) (i : imp_state) (s : st) : st := snd (imps_set n i s).

Definition load_of (W : world) (n : string) (s : st) : env_load :=
  if fst (call W s) then LoadFail else match alookup n (w_envs W) with Some l => l | None => LoadFail end.

(* one step of the loop, by cases on the table *)
Lemma imp_loop_cons (W : world) rec r n merge rest base my s :
  imp_loop W rec r ((n, merge) :: rest) base my s =
    match alookup n (imps s) with
    | Some i =>
        if is_evaluating i then imp_loop W rec r rest base my (snd (err s))
        else match is_value i with
             | Some v => imp_loop W rec r rest (if merge then v ++ base else base) (ainsert n v my) s
             | None => imp_loop W rec r rest base my s
             end
    | None =>
        let s1 := snd (emit (EvLoad n) (snd (call W s))) in
        match load_of W n s with
        | LoadFail | LoadNoParse =>
            imp_loop W rec r rest base my (set_imps n {| is_evaluating := false; is_value := None |} (snd (err s1)))
        | LoadOk d' =>
            let '(v, s2) := rec r n d' s1 in
            imp_loop W rec r rest (if merge then v ++ base else base) (ainsert n v my)
              (set_imps n {| is_evaluating := false; is_value := Some v |} s2)
        end
    end.
Proof.
  change (imp_loop W rec r ((n, merge) :: rest) base my s)
    with (bind (imps_get n) (fun s0 =>
            match s0 with
            | Some i => if is_evaluating i then err ;;; imp_loop W rec r rest base my
                        else match is_value i with
                             | Some v => imp_loop W rec r rest (if merge then v ++ base else base) (ainsert n v my)
                             | None => imp_loop W rec r rest base my
                             end
            | None => failed <- call W ;; emit (EvLoad n) ;;;
                match (if failed then LoadFail else match alookup n (w_envs W) with Some l => l | None => LoadFail end) with
                | LoadFail => err ;;; imps_set n {| is_evaluating := false; is_value := None |} ;;; imp_loop W rec r rest base my
                | LoadNoParse => err ;;; imps_set n {| is_evaluating := false; is_value := None |} ;;; imp_loop W rec r rest base my
                | LoadOk d' => v <- rec r n d' ;; imps_set n {| is_evaluating := false; is_value := Some v |} ;;;
                               imp_loop W rec r rest (if merge then v ++ base else base) (ainsert n v my)
                end
            end) s).
  unfold bind at 1, imps_get. destruct (alookup n (imps s)) as [i|].
  - destruct (is_evaluating i); [reflexivity|]. destruct (is_value i); reflexivity.
  - unfold load_of. unfold bind at 1. destruct (call W s) as [failed s1] eqn:Ec. cbn [fst snd].
    unfold bind at 1. cbn [emit fst snd].
    destruct (if failed then LoadFail else match alookup n (w_envs W) with Some l => l | None => LoadFail end) as [| |d'];
      reflexivity.
Qed.

Lemma call_nofault (W : world) (s : st) : w_fault W = None -> fst (call W s) = false.
Proof. intros H. unfold call. now rewrite H. Qed.

(* ================= 6. the imports table is a memo ================= *)
(* an import found in the table and not in progress is NOT evaluated again: no load, no call, no event, the state is
   untouched, and exactly the stored value goes to imports.<n> and (when merged) on top of the base *)
Theorem imports_table_is_memo (W : world) rec r n merge rest base my s i :
  alookup n (imps s) = Some i -> is_evaluating i = false ->
  imp_loop W rec r ((n, merge) :: rest) base my s =
    match is_value i with
    | Some v => imp_loop W rec r rest (if merge then v ++ base else base) (ainsert n v my) s
    | None => imp_loop W rec r rest base my s      (* a remembered failure: not loaded again, nothing merged or stored *)
    end.
Proof. intros H1 H2. rewrite imp_loop_cons, H1, H2. reflexivity. Qed.

(* an import in progress is a cycle: one diagnostic, nothing merged, nothing stored *)
Theorem imports_cycle_skipped (W : world) rec r n merge rest base my s i :
  alookup n (imps s) = Some i -> is_evaluating i = true ->
  imp_loop W rec r ((n, merge) :: rest) base my s = imp_loop W rec r rest base my (snd (err s)).
Proof. intros H1 H2. rewrite imp_loop_cons, H1, H2. reflexivity. Qed.

(* a first encounter: one load; on success the environment is evaluated once and the result enters the table, so that
   every later occurrence (any order, any repetition, any importer) hits [imports_table_is_memo] *)
Theorem imports_first_load (W : world) rec r n merge rest base my s d' :
  alookup n (imps s) = None -> w_fault W = None -> alookup n (w_envs W) = Some (LoadOk d') ->
  imp_loop W rec r ((n, merge) :: rest) base my s =
    let s1 := snd (emit (EvLoad n) (snd (call W s))) in
    let '(v, s2) := rec r n d' s1 in
    let s3 := set_imps n {| is_evaluating := false; is_value := Some v |} s2 in
    imp_loop W rec r rest (if merge then v ++ base else base) (ainsert n v my) s3.
Proof.
  intros H1 H2 H3. rewrite imp_loop_cons, H1. unfold load_of. rewrite (call_nofault _ _ H2), H3. reflexivity.
Qed.

Lemma set_imps_lookup n i s : alookup n (imps (set_imps n i s)) = Some i.
Proof. unfold set_imps, imps_set. cbn [snd imps alookup]. now rewrite String.eqb_refl. Qed.

(* ================= 7. stored values are immutable ================= *)
Lemma imports_value_access (f : nat) (my : list (string * chain)) (x : string) (rest : path) (c : chain) (a : accessor) :
  object_key a = Some x -> alookup x my = Some c ->
  value_access (S f) (imports_value my) (a :: rest) = value_access f c rest.
Proof.
  intros Ha H. unfold imports_value. cbn [value_access l_unk]. rewrite Ha, H. cbn [property]. now rewrite app_nil_r.
Qed.

(* ${imports.X} is exactly the stored chain, with no diagnostics — whatever else was merged, before or after *)
Theorem imports_access_stored (f : nat) (my : list (string * chain)) (x : string) (c : chain) :
  alookup x my = Some c ->
  value_access (S (S f)) (imports_value my) [AName x] = (c ++ [], 0%N)
  /\ value_access (S (S f)) (imports_value my) [AKey x] = (c ++ [], 0%N).
Proof.
  intros H. split; (erewrite imports_value_access; [|reflexivity|exact H]); now rewrite app_nil_r.
Qed.

Theorem imports_access_absent (f : nat) (my : list (string * chain)) (x : string) :
  alookup x my = None -> value_access (S f) (imports_value my) [AName x] = (invalid_access, 1%N).
Proof. intros H. unfold imports_value. cbn [value_access l_unk object_key]. rewrite H. reflexivity. Qed.

(* what the loop stores under imports.<x> never depends on the base it is merged onto, nor does the final state *)
Theorem imp_loop_base_irrelevant (W : world) rec r is base base' my s :
  snd (fst (imp_loop W rec r is base my s)) = snd (fst (imp_loop W rec r is base' my s))
  /\ snd (imp_loop W rec r is base my s) = snd (imp_loop W rec r is base' my s).
Proof.
  revert base base' my s. induction is as [|[n merge] rest IH]; intros base base' my s; [split; reflexivity|].
  rewrite !imp_loop_cons. destruct (alookup n (imps s)) as [i|].
  - destruct (is_evaluating i); [apply IH|]. destruct (is_value i); apply IH.
  - cbv zeta. destruct (load_of W n s) as [| |d']; [apply IH|apply IH|].
    destruct (rec r n d' _) as [v s2]. apply IH.
Qed.
