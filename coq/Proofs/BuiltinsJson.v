(* Proofs/BuiltinsJson.v — (1) what a single-layer value (fn::fromJSON result, provider output) exports to:
   export (unexport v) = v with secrecy pushed down into composites, for key-sorted v;
   (2) the specification-level round trip  spec_fromjson (spec_tojson v) = v  on the class of the text-level theorem
   C02_fromjson_tojson (7-bit, JSON number literals, sorted keys) for values without secrets. *)
From Verif Require Import Base.Bytes Model.Chain Model.GoText Model.Envelope Model.Eval
  Proofs.EvalTotalOrder Proofs.ChainAlgebraExport Proofs.GoTextProofs Proofs.BuiltinsSpec.
From Coq Require Import Lia.

(* ---------------- sorted keys, structurally ---------------- *)
Fixpoint xsorted (v : xval) : bool :=
  match v with
  | XScalar _ _ _ => true
  | XArr _ _ l => forallb xsorted l
  | XObj _ _ m => keys_sorted (map fst m) && forallb (fun kv => xsorted (snd kv)) m
  end.

(* a secret composite makes everything inside it secret (unexportValue) *)
Fixpoint x_inherit (xs : bool) (v : xval) : xval :=
  match v with
  | XScalar s u sc => XScalar (s || xs) u sc
  | XArr s u l => XArr (s || xs) u (map (x_inherit (s || xs)) l)
  | XObj s u m => XObj (s || xs) u (map (fun kv => (fst kv, x_inherit (s || xs) (snd kv))) m)
  end.

Lemma keys_sorted_head_lt k ks : keys_sorted (k :: ks) = true -> forall k', In k' ks -> String.ltb k k' = true.
Proof.
  revert k. induction ks as [|k2 r IH]; intros k H k' Hin; [destruct Hin|].
  cbn [keys_sorted] in H. apply andb_prop in H. destruct H as [H1 H2].
  destruct Hin as [<-|Hin]; [exact H1|]. eapply sltb_trans; [exact H1|apply IH; assumption].
Qed.

Lemma keys_sorted_nodup ks : keys_sorted ks = true -> NoDup ks.
Proof.
  induction ks as [|k r IH]; intro H; [constructor|]. constructor.
  - intro Hin. pose proof (keys_sorted_head_lt k r H k Hin) as Hlt.
    destruct (sltb_not_eqb _ _ Hlt) as [Hne _]. rewrite String.eqb_refl in Hne. discriminate.
  - apply IH. eapply keys_sorted_tail, H.
Qed.

Lemma alookup_sorted_in {A} (m : list (string * A)) kv :
  keys_sorted (map fst m) = true -> In kv m -> alookup (fst kv) m = Some (snd kv).
Proof.
  intros Hs Hin. apply alookup_nodup; [apply keys_sorted_nodup, Hs|]. destruct kv. exact Hin.
Qed.

Lemma mapM_map {A B C} (g : B -> option C) (h : A -> B) (l : list A) : mapM g (map h l) = mapM (fun x => g (h x)) l.
Proof. induction l as [|x r IH]; [reflexivity|]. cbn [map mapM]. rewrite IH. reflexivity. Qed.

(* ---------------- export after unexport ---------------- *)
Theorem export_unexport : forall fu fe xs v,
  xsorted v = true -> (x_depth v <= fu)%nat -> (x_depth v <= fe)%nat ->
  export fe (unexport fu xs v) = Some (x_inherit xs v).
Proof.
  induction fu as [|fu IH]; intros fe xs v Hs Hfu Hfe; [destruct v; cbn [x_depth] in Hfu; lia|].
  destruct fe as [|fe]; [destruct v; cbn [x_depth] in Hfe; lia|].
  destruct v as [s u sc|s u l|s u m]; cbn [unexport x_inherit xsorted] in *.
  - reflexivity.
  - rewrite export_S. rewrite mapM_map.
    rewrite (mapM_Some_map _ (x_inherit (s || xs)) l); [reflexivity|].
    intros x Hx. rewrite forallb_forall in Hs. pose proof (x_depth_arr s u l x Hx).
    apply IH; [apply Hs, Hx|lia|lia].
  - apply andb_prop in Hs. destruct Hs as [Hk Hs]. rewrite forallb_forall in Hs.
    rewrite (fold_ainsert_sorted (unexport fu (s || xs)) m []) by exact Hk. cbn [app].
    set (cm := map (fun kv => (fst kv, unexport fu (s || xs) (snd kv))) m).
    assert (Hcmk : map fst cm = map fst m) by (unfold cm; rewrite map_map; reflexivity).
    rewrite export_S.
    change (keys [LObj (s || xs) u (ScObject (map (fun kc => (fst kc, top_sch (snd kc))) cm) None) cm]) with (map fst cm).
    rewrite Hcmk, mapM_map.
    rewrite (mapM_Some_map _ (fun kv => (fst kv, x_inherit (s || xs) (snd kv))) m); [reflexivity|].
    intros kv Hkv. cbn [property].
    assert (Hl : alookup (fst kv) cm = Some (unexport fu (s || xs) (snd kv))).
    { apply (alookup_sorted_in cm (fst kv, unexport fu (s || xs) (snd kv))); [rewrite Hcmk; exact Hk|].
      unfold cm. apply (in_map (fun kv => (fst kv, unexport fu (s || xs) (snd kv)))), Hkv. }
    rewrite Hl, app_nil_r. pose proof (x_depth_obj s u m kv Hkv).
    rewrite (IH fe (s || xs) (snd kv)); [reflexivity|apply Hs, Hkv|lia|lia].
Qed.

(* without secrets nothing changes *)
Lemma x_inherit_plain : forall v, xany (fun s _ => s) v = false -> x_inherit false v = v.
Proof.
  fix IH 1. intros [s u sc|s u l|s u m] H; cbn [xany x_inherit] in *.
  - rewrite H. reflexivity.
  - apply orb_false_iff in H. destruct H as [-> H]. cbn [orb]. f_equal.
    induction l as [|x r IHl]; [reflexivity|]. cbn [existsb map] in *. apply orb_false_iff in H. destruct H as [H1 H2].
    rewrite (IH x H1), (IHl H2). reflexivity.
  - apply orb_false_iff in H. destruct H as [-> H]. cbn [orb]. f_equal.
    induction m as [|[k x] r IHm]; [reflexivity|]. cbn [existsb map fst snd] in *. apply orb_false_iff in H. destruct H as [H1 H2].
    rewrite (IH x H1), (IHm H2). reflexivity.
Qed.

Corollary single_plain v :
  xsorted v = true -> x_has_secret v = false -> (x_depth v <= big_fuel)%nat -> x_of_single v = Some v.
Proof.
  intros Hs Hsec Hd. rewrite (export_unexport (S (x_depth v)) big_fuel false v Hs ltac:(lia) Hd).
  rewrite x_inherit_plain; [reflexivity|]. rewrite <- xhs_xany. exact Hsec.
Qed.

(* ---------------- re-flagging with "not secret" is the identity on values without flags ---------------- *)
Lemma x_reflag_plain : forall f v, (x_depth v <= f)%nat ->
  xany (fun s _ => s) v = false -> xany (fun _ u => u) v = false -> x_reflag f false v = v.
Proof.
  induction f as [|f IH]; intros v Hd Hs Hu; [destruct v; cbn [x_depth] in Hd; lia|].
  destruct v as [s u sc|s u l|s u m]; cbn [xany x_reflag] in *.
  - subst s u. destruct sc; reflexivity.
  - apply orb_false_iff in Hs, Hu. destruct Hs as [-> Hs], Hu as [-> Hu]. f_equal.
    rewrite <- (map_id l) at 2. apply map_ext_in. intros x Hx. pose proof (x_depth_arr false false l x Hx).
    apply IH; [lia| |].
    + destruct (xany (fun s _ => s) x) eqn:E; [|reflexivity]. rewrite <- Hs. symmetry. apply existsb_exists. eauto.
    + destruct (xany (fun _ u => u) x) eqn:E; [|reflexivity]. rewrite <- Hu. symmetry. apply existsb_exists. eauto.
  - apply orb_false_iff in Hs, Hu. destruct Hs as [-> Hs], Hu as [-> Hu]. f_equal.
    rewrite <- (map_id m) at 2. apply map_ext_in. intros kv Hkv. pose proof (x_depth_obj false false m kv Hkv).
    destruct kv as [k x]. cbn [fst snd] in *. f_equal. apply IH; [lia| |].
    + destruct (xany (fun s _ => s) x) eqn:E; [|reflexivity]. rewrite <- Hs. symmetry. apply existsb_exists.
      exists (k, x). split; [exact Hkv|exact E].
    + destruct (xany (fun _ u => u) x) eqn:E; [|reflexivity]. rewrite <- Hu. symmetry. apply existsb_exists.
      exists (k, x). split; [exact Hkv|exact E].
Qed.

(* ---------------- the JSON rendering of a known value has sorted keys iff the value has ---------------- *)
Lemma json_sorted_xsorted : forall g f v, (x_depth v <= f)%nat -> xany (fun _ u => u) v = false ->
  json_sorted g (x_to_json f v) = true -> xsorted v = true.
Proof.
  induction g as [|g IH]; intros f v Hd Hu Hj; [discriminate Hj|].
  destruct f as [|f]; [destruct v; cbn [x_depth] in Hd; lia|].
  destruct v as [s u sc|s u l|s u m]; cbn [xany x_to_json xsorted] in *; [reflexivity| |].
  - apply orb_false_iff in Hu. destruct Hu as [-> Hu]. cbn [json_sorted] in Hj.
    rewrite forallb_forall in *. intros x Hx. pose proof (x_depth_arr s false l x Hx).
    apply (IH f x); [lia| |apply Hj, in_map, Hx].
    destruct (xany (fun _ u => u) x) eqn:E; [|reflexivity]. rewrite <- Hu. symmetry. apply existsb_exists. eauto.
  - apply orb_false_iff in Hu. destruct Hu as [-> Hu]. cbn [json_sorted] in Hj.
    apply andb_prop in Hj. destruct Hj as [Hk Hj]. rewrite map_map in Hk. cbn [fst] in Hk.
    change (keys_sorted (map fst m) = true) in Hk. rewrite Hk. cbn [andb]. rewrite forallb_forall in *. intros kv Hkv. pose proof (x_depth_obj s false m kv Hkv).
    apply (IH f (snd kv)); [lia| |].
    + destruct (xany (fun _ u => u) (snd kv)) eqn:E; [|reflexivity]. rewrite <- Hu. symmetry. apply existsb_exists. eauto.
    + apply (Hj (fst kv, x_to_json f (snd kv))). apply (in_map (fun kv => (fst kv, x_to_json f (snd kv)))), Hkv.
Qed.

(* ---------------- THE ROUND TRIP at the level of the specifications ---------------- *)
Theorem spec_fromjson_tojson (v : xval) :
  x_has_unknown v = false -> x_has_secret v = false -> (x_depth v <= big_fuel)%nat ->
  let j := x_to_json (S (x_depth v)) v in
  json_all_ascii (S (json_depth j)) j = true -> json_numbers_ok (S (json_depth j)) j = true ->
  json_sorted (S (json_depth j)) j = true ->
  exists t, spec_tojson v = Some t /\ spec_fromjson t = Some v.
Proof.
  intros Hu Hs Hd j Ha Hn Hso.
  destruct (fromjson_tojson_depth false v Hu Ha Hn Hso) as [Hparse Hx]. fold j in Hparse, Hx.
  exists (XScalar false false (SStr (json_print (S (json_depth j)) j))). split.
  - unfold spec_tojson. rewrite Hu, Hs. apply Nat.leb_le in Hd. rewrite Hd. cbv zeta. fold j. rewrite Ha. reflexivity.
  - cbn [spec_fromjson]. rewrite Hparse, Hx.
    rewrite x_reflag_plain; [|lia|rewrite <- xhs_xany; exact Hs|rewrite <- xhu_xany; exact Hu].
    apply single_plain; [|exact Hs|exact Hd].
    apply (json_sorted_xsorted (S (json_depth j)) (S (x_depth v)) v); [lia|rewrite <- xhu_xany; exact Hu|exact Hso].
Qed.
