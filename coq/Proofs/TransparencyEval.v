(* Proofs/TransparencyEval.v — C04, evaluator level: the simulation between the evaluation of a plaintext program
   and of its encrypted form, through the five mutually recursive functions and [eval_env]. *)
From Verif Require Import Base.Bytes Model.Chain Model.GoText Model.Envelope Model.Eval.
From Verif Require Import Proofs.NonInterferenceRel Proofs.NonInterferenceOps Proofs.NonInterferenceTwins
     Proofs.NonInterferenceBuiltins Proofs.NonInterferenceEval
     Proofs.CheckApproxMono Proofs.CheckApproxKit Proofs.TransparencySyntax Proofs.TransparencyKit.
From Coq Require Import Lia ZifyN ZifyNat ZifyBool.

(* ------------------------------------------------------------------------------------------------ *)
(* declared / sorted entries of two objects with the same keys                                       *)
(* ------------------------------------------------------------------------------------------------ *)
Section ENTRIES.
Variable R : string -> expr -> expr -> Prop.

Definition entk (a b : nat * string * expr) : Prop := fst a = fst b /\ R (snd (fst a)) (snd a) (snd b).

Lemma declared_t : forall lp le i seen, map fst lp = map fst le ->
  (forall k j px, existsb (String.eqb k) seen = false -> find_entry k lp i = Some (j, px) ->
     exists px', find_entry k le i = Some (j, px') /\ R k px px') ->
  Forall2 entk (fst (declared lp i seen)) (fst (declared le i seen)) /\
  snd (declared lp i seen) = snd (declared le i seen).
Proof.
  induction lp as [|[k xp] lp IH]; intros [|[k' xe] le] i seen HK HF; simpl in HK; try discriminate.
  - split; [constructor|reflexivity].
  - injection HK as <- HK. cbn [declared].
    (* the tail, for keys different from k *)
    assert (HT : forall seen1, (forall k0, existsb (String.eqb k0) seen1 = false ->
                                           String.eqb k0 k = false /\ existsb (String.eqb k0) seen = false) ->
              forall k0 j px, existsb (String.eqb k0) seen1 = false -> find_entry k0 lp (S i) = Some (j, px) ->
              exists px', find_entry k0 le (S i) = Some (j, px') /\ R k0 px px').
    { intros seen1 Hs k0 j px Hk0 F. destruct (Hs k0 Hk0) as [Ne Hn].
      specialize (HF k0 j px Hn). cbn [find_entry] in HF. rewrite Ne in HF. exact (HF F). }
    destruct (existsb (String.eqb k) seen) eqn:ES.
    + destruct (IH le (S i) seen HK) as [I1 I2].
      { apply HT. intros k0 Hk0. split; [|exact Hk0].
        destruct (String.eqb k0 k) eqn:E; [|reflexivity]. apply String.eqb_eq in E. subst. congruence. }
      destruct (declared lp (S i) seen), (declared le (S i) seen). simpl in *. split; [exact I1|congruence].
    + destruct (IH le (S i) (k :: seen) HK) as [I1 I2].
      { apply HT. intros k0 Hk0. simpl in Hk0. apply Bool.orb_false_elim in Hk0. exact Hk0. }
      destruct (HF k i xp ES) as (px' & F' & HR).
      { cbn [find_entry]. now rewrite String.eqb_refl. }
      cbn [find_entry] in F'. rewrite String.eqb_refl in F'. injection F' as <-.
      destruct (declared lp (S i) (k :: seen)), (declared le (S i) (k :: seen)). simpl in *.
      split; [|exact I2]. constructor; [split; [reflexivity|exact HR]|exact I1].
Qed.

Lemma insert_sorted_k e1 e2 l1 l2 :
  entk e1 e2 -> Forall2 entk l1 l2 -> Forall2 entk (insert_sorted e1 l1) (insert_sorted e2 l2).
Proof.
  intros He. induction 1 as [|a b l1 l2 Hab Hl IH]; simpl; [constructor; [exact He|constructor]|].
  destruct He as [E1 R1]. destruct Hab as [E2 R2]. rewrite <- E1, <- E2.
  destruct (String.ltb (snd (fst e1)) (snd (fst a))).
  - constructor; [split; auto|]. constructor; [split; auto|auto].
  - constructor; [split; auto|]. apply IH.
Qed.

Lemma sort_entries_k l1 l2 : Forall2 entk l1 l2 -> Forall2 entk (sort_entries l1) (sort_entries l2).
Proof.
  unfold sort_entries. intros H.
  assert (Gn : forall a1 a2, Forall2 entk a1 a2 ->
              Forall2 entk (fold_left (fun acc e => insert_sorted e acc) l1 a1) (fold_left (fun acc e => insert_sorted e acc) l2 a2)).
  { induction H as [|a b l1 l2 Hab _ IH]; simpl; intros a1 a2 Ha; [exact Ha|]. apply IH. now apply insert_sorted_k. }
  apply Gn. constructor.
Qed.
End ENTRIES.

Lemma find_entry_none_keys {A B} k (l : list (string * A)) : forall (l' : list (string * B)) i,
  map fst l = map fst l' -> find_entry k l i = None -> find_entry k l' i = None.
Proof.
  induction l as [|[k1 v] l IH]; intros [|[k2 v'] l'] i HK F; simpl in *; try discriminate; [reflexivity|].
  injection HK as <- HK. destruct (String.eqb k k1); [discriminate|]. eauto.
Qed.

Lemma reserved_count_keys {A B} (l : list (string * A)) : forall (l' : list (string * B)),
  map fst l = map fst l' ->
  length (filter (fun kv => reserved (fst kv)) l) = length (filter (fun kv => reserved (fst kv)) l').
Proof.
  induction l as [|[k v] l IH]; intros [|[k' v'] l'] HK; simpl in *; try discriminate; [reflexivity|].
  injection HK as <- HK. destruct (reserved k); simpl; auto.
Qed.

Lemma va_scalar f s sc x r a rest : value_access (S f) (LScalar s false sc x :: r) (a :: rest) = (invalid_access, 1).
Proof. reflexivity. Qed.

(* ------------------------------------------------------------------------------------------------ *)
(* worlds and contexts                                                                              *)
(* ------------------------------------------------------------------------------------------------ *)
Section SIM.
Variables Wp We : world.
Variable G : eid -> option string.
Notation dec := (w_decrypt We).
Notation ENC := (enc_at dec G).
Notation MT := (mrel_t G dec).

Definition nonres (kv : string * expr) : bool := negb (reserved (fst kv)).

Definition env_t (n : string) (dp de : envdef) : Prop :=
  ed_imports dp = ed_imports de /\ map fst (ed_values dp) = map fst (ed_values de) /\
  ENC n [] (EObj (filter nonres (ed_values dp))) (EObj (filter nonres (ed_values de))).

Definition load_t (n : string) (lp le : option env_load) : Prop :=
  match lp, le with
  | None, None => True
  | Some LoadFail, Some LoadFail => True
  | Some LoadNoParse, Some LoadNoParse => True
  | Some (LoadOk dp), Some (LoadOk de) => env_t n dp de
  | _, _ => False
  end.

(* the plaintext world and the encrypted world: everything equal except the stored environments, which are related
   name by name; no fault plan; the mode is opening, or checking with showSecrets *)
Record W_t : Prop := {
  wt_provs : w_provs Wp = w_provs We;
  wt_ctx : w_ctx Wp = w_ctx We;
  wt_check : w_check Wp = w_check We;
  wt_show : w_show Wp = w_show We;
  wt_fault_p : w_fault Wp = None;
  wt_fault_e : w_fault We = None;
  wt_dec : forall e c, w_decrypt Wp e c = w_decrypt We e c;
  wt_mode : w_check We && negb (w_show We) = false;
  wt_envs : forall n, load_t n (alookup n (w_envs Wp)) (alookup n (w_envs We))
}.

Hypothesis HW : W_t.

Record E_t (E E' : ectx) : Prop := {
  et_name : ec_name E = ec_name E';
  et_root : ec_root E = ec_root E';
  et_base : ec_base E = ec_base E';
  et_imports : ec_imports E = ec_imports E';
  et_context : ec_context E = ec_context E';
  et_values : ENC (ec_name E) [] (EObj (ec_values E)) (EObj (ec_values E'))
}.

Definition T_expr (f : nat) : Prop := forall E E' xp xe xsec xb p,
  E_t E E' -> ENC (ec_name E) p xp xe ->
  MT eq (eval_expr Wp f E xp xsec xb (ec_name E, p)) (eval_expr We f E' xe xsec xb (ec_name E, p)).
Definition T_repr (f : nat) : Prop := forall E E' xp xe xb p,
  E_t E E' -> ENC (ec_name E) p xp xe ->
  MT eq (eval_repr Wp f E xp xb (ec_name E, p)) (eval_repr We f E' xe xb (ec_name E, p)).
Definition T_typed (f : nat) : Prop := forall E E' xp xe a p,
  E_t E E' -> ENC (ec_name E) p xp xe ->
  MT eq (eval_typed Wp f E xp a (ec_name E, p)) (eval_typed We f E' xe a (ec_name E, p)).
Definition T_access (f : nat) : Prop := forall E E' q,
  E_t E E' -> MT eq (eval_access Wp f E q) (eval_access We f E' q).
Definition T_walk (f : nat) : Prop := forall E E' xp xe rsec rb p accs,
  E_t E E' -> ENC (ec_name E) p xp xe ->
  MT eq (walk Wp f E xp rsec rb (ec_name E, p) accs) (walk We f E' xe rsec rb (ec_name E, p) accs).

Ltac t_refl := apply t_ret; reflexivity.

Lemma t_ret_bind {A B C} (R : A -> B -> Prop) (c : C) k1 k2 : MT R (k1 c) (k2 c) -> MT R (bind (ret c) k1) (bind (ret c) k2).
Proof. intros H. exact H. Qed.

(* ---- loops ---- *)
Lemma t_interp_go f E E' : E_t E E' -> T_access f ->
  forall ps acc unk sec, MT eq (interp_go Wp f E ps acc unk sec) (interp_go We f E' ps acc unk sec).
Proof.
  intros HE HA. induction ps as [|[text [q|]] r IH]; intros acc unk sec.
  - rewrite !interp_go_nil. t_refl.
  - rewrite !interp_go_ref. t_bind_with (@eq chain); [now apply HA|].
    intros pv pv' <-. destruct (to_string (ts_need pv) pv) as [[s u] k]. apply IH.
  - rewrite !interp_go_text. apply IH.
Qed.

Lemma t_arr_go f E E' p : E_t E E' -> T_expr f ->
  forall es es' i acc, length es = length es' ->
  (forall j a, nth_error es j = Some a -> exists b, nth_error es' j = Some b /\ ENC (ec_name E) (p ++ [IIdx (i + j)]) a b) ->
  MT eq (arr_go Wp f E (ec_name E, p) es i acc) (arr_go We f E' (ec_name E, p) es' i acc).
Proof.
  intros HE HP. induction es as [|e es IH]; intros [|e' es'] i acc HL HN; simpl in HL; try discriminate.
  - rewrite !arr_go_nil. t_refl.
  - rewrite !arr_go_cons. cbn [fst snd]. t_bind_with (@eq chain).
    + apply HP; [exact HE|]. destruct (HN O e eq_refl) as (b & Eb & Hb). simpl in Eb. injection Eb as <-.
      now rewrite Nat.add_0_r in Hb.
    + intros v v' <-. apply IH; [now injection HL|].
      intros j a Ha. destruct (HN (S j) a Ha) as (b & Eb & Hb). exists b. split; [exact Eb|].
      now replace (S i + j)%nat with (i + S j)%nat by lia.
Qed.

Lemma t_obj_go f E E' xb p : E_t E E' -> T_expr f ->
  forall ds ds', Forall2 (entk (fun k => ENC (ec_name E) (p ++ [IKey k]))) ds ds' ->
  forall acc, MT eq (obj_go Wp f E xb (ec_name E, p) ds acc) (obj_go We f E' xb (ec_name E, p) ds' acc).
Proof.
  intros HE HP ds ds' Hds. induction Hds as [|[[i k] e] [[i' k'] e'] ds ds' [Ek He] _ IH]; intros acc.
  - rewrite !obj_go_nil. t_refl.
  - cbn [fst snd] in Ek, He. injection Ek as <- <-. rewrite !obj_go_cons. cbn [fst snd]. t_bind_with (@eq chain).
    + apply HP; [exact HE|exact He].
    + intros v v' <-. apply IH.
Qed.

(* ---- tails that depend on the world ---- *)
Lemma t_cipher_same E E' r : ec_name E = ec_name E' -> MT eq (cipher_body Wp E r) (cipher_body We E' r).
Proof.
  intros EN. unfold cipher_body. rewrite (wt_check HW), (wt_show HW), <- EN.
  destruct (decode_ct _ r) as [ct| | | | | |]; try (apply t_add_err; t_refl).
  destruct (w_check We && negb (w_show We)); [t_refl|].
  apply t_call; [apply HW|apply HW|]. apply t_emit. rewrite (wt_dec HW).
  destruct (w_decrypt We (ec_name E) ct); [t_refl|apply t_add_err; t_refl].
Qed.

Lemma t_open_tail E E' id pn prov r : ec_name E = ec_name E' -> ec_root E = ec_root E' ->
  MT eq (open_tail Wp E id pn prov r) (open_tail We E' id pn prov r).
Proof.
  intros EN ER. unfold open_tail. rewrite (wt_check HW), <- EN, <- ER. destruct r as [iv ok].
  destruct prov as [pv|]; [|t_refl].
  destruct (negb ok || contains_unknowns iv || w_check We); [t_refl|].
  destruct (export_t iv) as [[| |s u m]|]; try (apply t_add_err; t_refl); [|apply t_oof].
  apply t_call; [apply HW|apply HW|]. apply t_emit.
  destruct (pv_beh pv); try t_refl. apply t_add_err; t_refl.
Qed.

(* ---- the secret that is plaintext on one side and an envelope on the other ---- *)
Lemma t_secret_pair f E E' p s r ct :
  ec_name E = ec_name E' -> G (ec_name E, p ++ [IIdx 0]) = Some s ->
  decode_ct std r = DOk ct -> dec (ec_name E) ct = Some s ->
  MT eq (eval_expr Wp f E (EStr s) true [] (ec_name E, p ++ [IIdx 0])) (cipher_body We E' r).
Proof.
  intros EN HG HD HS. eapply t_left; [apply inner_eval; exact HG|].
  unfold cipher_body. fold std. rewrite HD, (wt_mode HW), <- EN.
  apply t_call_r; [apply HW|]. apply t_decrypt_r; [congruence|]. rewrite HS. t_refl.
Qed.

(* ---- one fuel step of the five functions ---- *)
Lemma tstep_expr f : T_repr f -> T_expr (S f).
Proof.
  intros HR E E' xp xe xsec xb p HE Hx. rewrite !eval_expr_S.
  pose proof (enc_at_clean _ _ _ _ _ _ Hx) as HG.
  apply t_get_memo; [exact HG|]. intros [[v|]|].
  - t_refl.
  - apply t_add_err. t_refl.
  - apply t_memo_set; [exact HG|]. t_bind_with (@eq chain); [now apply HR|].
    intros v v' <-. cbv zeta. apply t_memo_set; [exact HG|]. t_refl.
Qed.

Lemma tstep_typed f : T_expr f -> T_typed (S f).
Proof.
  intros HP E E' xp xe a p HE Hx. rewrite !eval_typed_S. t_bind_with (@eq chain); [now apply HP|].
  intros v v' <-. destruct (validate a v) as [ok n]. apply t_add_err. t_refl.
Qed.

Lemma t_access_result (r : chain * N) : MT eq (let '(c, n) := r in add_err n ;;; ret c) (let '(c, n) := r in add_err n ;;; ret c).
Proof. destruct r as [c n]. apply t_add_err. t_refl. Qed.

Lemma tstep_access f : T_walk f -> T_access (S f).
Proof.
  intros HWk E E' q HE. rewrite !eval_access_S. destruct q as [|a0 rest]; [t_refl|].
  rewrite !access_body_sel. destruct (sel_cases (object_key a0)) as [S|[S|S]]; rewrite !S.
  - rewrite <- (et_imports _ _ HE). apply t_access_result.
  - rewrite <- (et_context _ _ HE). apply t_access_result.
  - rewrite <- (et_name _ _ HE), <- (et_base _ _ HE). apply HWk; [exact HE|apply HE].
Qed.

Ltac twalk_default HP HE Hx :=
  t_bind_with (@eq chain); [apply HP; [exact HE|exact Hx]|];
  let v1 := fresh "v" in let v2 := fresh "v" in intros v1 v2 <-; apply t_access_result.

Lemma tstep_walk f : T_expr f -> T_walk f -> T_walk (S f).
Proof.
  intros HP HWk E E' xp xe rsec rb p accs HE Hx. rewrite !walk_S. unfold walk_body.
  destruct accs as [|a rest]; [now apply HP|].
  pose proof Hx as Hx'. destruct Hx; cbn [fst snd]; try (twalk_default HP HE Hx').
  - (* EArr *)
    rewrite <- H0. destruct (array_index a (Z.of_nat (length lp))) as [i|] eqn:AI; [|apply t_add_err; t_refl].
    assert (Hi : (i < length lp)%nat).
    { unfold array_index in AI. destruct a as [nm|ky|z]; try discriminate. destruct (z <? 0)%Z eqn:Z0; [discriminate|].
      destruct ((0 <=? Z.of_nat (length lp))%Z && (Z.of_nat (length lp) <=? z)%Z) eqn:B; [discriminate|].
      injection AI as <-. lia. }
    destruct (nth_error lp i) as [x|] eqn:Nx; [|apply nth_error_None in Nx; lia].
    destruct (H1 i x Nx) as (b & Nb & Hb).
    rewrite (nth_error_nth _ _ EMissing Nx), (nth_error_nth _ _ EMissing Nb). now apply HWk.
  - (* EObj *)
    destruct (object_key a) as [k|]; [|apply t_add_err; t_refl].
    destruct (find_entry k lp 0) as [[i px]|] eqn:F.
    + destruct (H1 k i px F) as (px' & F' & Hpx). rewrite F'. now apply HWk.
    + rewrite (find_entry_none_keys k lp le 0%nat H0 F).
      destruct (is_object rb); [apply t_access_result|apply t_add_err; t_refl].
  - (* ESecretPlain on both sides: the inner literal *)
    apply HWk; [exact HE|]. now constructor.
  - (* ESecretCipher on both sides *)
    apply t_add_err; t_refl.
  - (* plaintext secret / envelope *)
    destruct f as [|f1]; [rewrite walk_O; apply t_nn_l, tn_bind_oof; intro; omono_tac|].
    rewrite walk_S. cbn [walk_body].
    eapply t_left_bind; [apply inner_eval; eassumption|intro; omono_tac|].
    unfold sec_chain, str_layer.
    match goal with |- context [value_access (va_need ?c ?p) ?c ?p] => change (va_need c p) with 1%nat end.
    rewrite va_scalar. apply t_add_err. t_refl.
Qed.

Lemma tstep_repr f : T_expr f -> T_typed f -> T_access f -> T_repr (S f).
Proof.
  destruct (stable_tails G dec) as (Sj & Sfb & Stb & Sfj & Stj & Sts).
  intros HP HT HA E E' xp xe xb p HE Hx. rewrite !eval_repr_S.
  destruct Hx; cbn [repr_body fst snd]; try t_refl.
  - (* EInterp *) now apply t_interp_go.
  - (* ESym *) now apply HA.
  - (* EArr *) apply t_arr_go; [exact HE|exact HP|assumption|exact H1].
  - (* EObj *)
    destruct (declared_t (fun k => ENC (ec_name E) (p ++ [IKey k])) lp le O [] H0) as [HD EN].
    { intros k j px _ F. exact (H1 k j px F). }
    destruct (declared lp 0 []) as [d1 n1], (declared le 0 []) as [d2 n2]. cbn [fst snd] in *. subst n2.
    apply t_add_err. apply t_obj_go; [exact HE|exact HP|now apply sort_entries_k].
  - (* EJoin *)
    t_bind_with (@eq (chain * bool)); [now apply HT|]. intros dr dr' <-.
    t_bind_with (@eq (chain * bool)); [now apply HT|]. intros vr vr' <-. apply Sj.
  - (* EToJSON *) t_bind_with (@eq chain); [now apply HP|]. intros v v' <-. apply Stj.
  - (* EFromJSON *) t_bind_with (@eq (chain * bool)); [now apply HT|]. intros r r' <-. apply Sfj.
  - (* EToString *) t_bind_with (@eq chain); [now apply HP|]. intros v v' <-. apply Sts.
  - (* EToB64 *) t_bind_with (@eq (chain * bool)); [now apply HT|]. intros r r' <-. apply Stb.
  - (* EFromB64 *) t_bind_with (@eq (chain * bool)); [now apply HT|]. intros r r' <-. apply Sfb.
  - (* ESecretPlain on both sides *) apply HP; [exact HE|]. now constructor.
  - (* ESecretCipher on both sides *) apply t_cipher_same, HE.
  - (* plaintext secret / envelope *) eapply t_secret_pair; try eassumption. apply HE.
  - (* EOpen *)
    unfold open_body. cbn [fst snd]. apply t_call; [apply HW|apply HW|]. apply t_emit. rewrite (wt_provs HW).
    destruct (alookup pn (w_provs We)) as [pv|].
    + apply t_ret_bind. t_bind_with (@eq (chain * bool)); [now apply HT|]. intros r r' <-.
      apply t_open_tail; apply HE.
    + apply t_add_err. t_bind_with (@eq (chain * bool)); [now apply HT|]. intros r r' <-.
      apply t_open_tail; apply HE.
Qed.

Theorem transp_invariant : forall f, T_expr f /\ T_repr f /\ T_typed f /\ T_access f /\ T_walk f.
Proof.
  induction f as [|f (IHe & IHr & IHt & IHa & IHw)].
  - repeat apply conj; red; intros.
    + rewrite !eval_expr_O. apply t_oof.
    + rewrite !eval_repr_O. apply t_oof.
    + rewrite !eval_typed_O. apply t_oof.
    + rewrite !eval_access_O. apply t_oof.
    + rewrite !walk_O. apply t_oof.
  - repeat apply conj.
    + now apply tstep_expr.
    + now apply tstep_repr.
    + now apply tstep_typed.
    + now apply tstep_access.
    + now apply tstep_walk.
Qed.

(* ---- environments and imports ---- *)
Definition T_env (f : nat) : Prop := forall root name dp de,
  env_t name dp de -> MT eq (eval_env Wp f root name dp) (eval_env We f root name de).

Lemma t_imports_go f root' : T_env f ->
  forall is base my, MT eq (imports_go Wp f root' is base my) (imports_go We f root' is base my).
Proof.
  intros HEnv. induction is as [|[n merge] rest IH]; intros base my.
  - rewrite !imports_go_nil. t_refl.
  - rewrite !imports_go_cons. apply t_imps_get. intros [i|].
    + destruct (is_evaluating i); [apply t_add_err; apply IH|destruct (is_value i); apply IH].
    + apply t_call; [apply HW|apply HW|]. apply t_emit.
      pose proof (wt_envs HW n) as HL. unfold load_t in HL.
      destruct (alookup n (w_envs Wp)) as [[| |dp]|], (alookup n (w_envs We)) as [[| |de]|]; try contradiction;
        try (apply t_add_err; apply t_imps_set; apply IH).
      t_bind_with (@eq chain); [now apply HEnv|]. intros v v' <-. apply t_imps_set. apply IH.
Qed.

Lemma context_chain_t root cur : context_chain Wp root cur = context_chain We root cur.
Proof. unfold context_chain. now rewrite (wt_ctx HW). Qed.

Theorem transp_env : forall f, T_env f.
Proof.
  induction f as [|f IH]; intros root name dp de (HI & HK & HV).
  - rewrite !eval_env_O. apply t_oof.
  - rewrite !eval_env_S. cbv zeta. set (root' := if String.eqb root "" || String.eqb root "<yaml>" then name else root).
    apply t_imps_set. rewrite <- HI.
    t_bind_with (@eq (chain * list (string * chain))); [now apply t_imports_go|].
    intros [base my] r' <-. apply t_imps_set. rewrite (reserved_count_keys _ _ HK). apply t_add_err.
    assert (HE : E_t (env_ctx Wp root' name dp base my) (env_ctx We root' name de base my)).
    { constructor; cbn [env_ctx ec_name ec_root ec_values ec_base ec_imports ec_context]; auto.
      apply context_chain_t. }
    exact (proj1 (transp_invariant f) _ _ _ _ false base [] HE HV).
Qed.

End SIM.
