(* Proofs/SchemaSoundProperty.v — C06, schema clause: schema.go [Property] (Model/Chain.v [sch_property]).
   For ALL schemas, keys, objects and fuels: if a schema accepts a known object, the schema [Property] projects out
   for key k accepts the value at k — provided the schema says something about k at all ([prop_defined]: it is not
   `true`, not an object schema without additionalProperties, and so for every oneOf alternative).  The two excluded
   shapes are exactly where Property answers `false` although the value is unconstrained (witnesses below): this is
   a defect of the implementation's Property (finding), not of the proof. *)
From Verif Require Import Base.Bytes Base.Wire Model.Chain Model.GoText Model.Envelope Model.Eval Corr.EvalWire.
From Verif Require Corr.C06.
From Verif Require Import Proofs.NonInterferenceRel Proofs.NonInterferenceOps Proofs.CheckApproxExamples
     Proofs.SchemaSoundAccept Proofs.SchemaSoundUnion.
From Coq Require Import Lia ZifyN ZifyNat ZifyBool.

Lemma sch_property_S g k s :
  sch_property (S g) k s =
  match s with
  | ScObject props addl => match alookup k props with Some p => sch_union [p] | None => sch_union (opt_sch addl) end
  | ScOneOf alts => sch_union (map (sch_property g k) alts ++ [ScNever])
  | _ => ScNever
  end.
Proof. reflexivity. Qed.

(* the schema constrains every property: fuel g covers the oneOf nesting *)
Fixpoint prop_defined (g : nat) (s : sch) : bool :=
  match g with
  | O => false
  | S g' =>
    match s with
    | ScAlways => false
    | ScObject _ None => false
    | ScOneOf alts => forallb (prop_defined g') alts
    | _ => true
    end
  end.

Theorem sch_property_sound : forall g n s k sec m v,
  prop_defined g s = true ->
  sch_accepts n s (XObj sec false m) = true -> In (k, v) m ->
  sch_accepts n (sch_property g k s) v = true.
Proof.
  intros g; induction g as [|g IH]; intros n s k sec m v HD H Hin; [discriminate|].
  destruct n as [|n]; [discriminate|]. rewrite sch_accepts_S in H. cbn [C06.x_unk] in H.
  rewrite sch_property_S. cbn [prop_defined] in HD. destruct s; try discriminate.
  - (* object *)
    destruct addl as [ad|]; [|discriminate]. rewrite forallb_forall in H. specialize (H _ Hin).
    unfold acc_props in H. cbn [fst snd] in H. destruct (alookup k props) as [p|].
    + eapply sch_union_intro; [now left|exact H].
    + eapply sch_union_intro; [now left|exact H].
  - (* oneOf *)
    apply existsb_exists in H. destruct H as (a & Ha & Hv). rewrite forallb_forall in HD.
    eapply sch_union_intro; [apply in_or_app; left; apply in_map; exact Ha|].
    eapply IH; eauto.
Qed.

Corollary sch_property_accepts g s k sec m v :
  prop_defined g s = true -> accepts s (XObj sec false m) -> In (k, v) m -> accepts (sch_property g k s) v.
Proof. intros HD [n H] Hin. exists n. eapply sch_property_sound; eauto. Qed.

(* the excluded shapes: Property answers `false` for a value the schema does not constrain *)
Example sch_property_always_unsound :
  sch_accepts 3 ScAlways (XObj false false [("k", XScalar false false (SNum "1"))]) = true /\
  sch_property (sch_depth ScAlways) "k" ScAlways = ScNever /\
  forall n, sch_accepts n (sch_property (sch_depth ScAlways) "k" ScAlways) (XScalar false false (SNum "1")) = false.
Proof. repeat split. intros [|n]; reflexivity. Qed.

Example sch_property_open_record_unsound :
  sch_accepts 3 (ScObject [] None) (XObj false false [("k", XScalar false false (SNum "1"))]) = true /\
  sch_property (sch_depth (ScObject [] None)) "k" (ScObject [] None) = ScNever /\
  forall n, sch_accepts n (sch_property (sch_depth (ScObject [] None)) "k" (ScObject [] None)) (XScalar false false (SNum "1")) = false.
Proof. repeat split. intros [|n]; reflexivity. Qed.

(* closure of the classes *)
Lemma sch_ok_property g : forall k s, sch_ok s = true -> sch_ok (sch_property g k s) = true.
Proof.
  induction g as [|g IH]; intros k s H; [reflexivity|]. rewrite sch_property_S. destruct s; try reflexivity.
  - cbn [sch_ok] in H. destruct addl as [ad|]; [|discriminate]. apply andb_prop in H. destruct H as [H1 H2].
    destruct (alookup k props) as [p|] eqn:L.
    + apply sch_ok_union. intros s [<-|[]]. apply alookup_In' in L. rewrite forallb_forall in H1. apply (H1 _ L).
    + apply sch_ok_union. intros s [<-|[]]. exact H2.
  - cbn [sch_ok] in H. rewrite forallb_forall in H. apply sch_ok_union. intros s Hs. apply in_app_or in Hs.
    destruct Hs as [Hs|[<-|[]]]; [|reflexivity]. apply in_map_iff in Hs. destruct Hs as (a & <- & Ha). auto.
Qed.

(* one step on an object schema, as evaluateUnknownAccess uses it *)
Lemma sch_property_object k props addl :
  sch_property (sch_depth (ScObject props addl)) k (ScObject props addl) =
  match prop_sch props addl k with Some p => sch_union [p] | None => ScNever end.
Proof. unfold prop_sch. cbn. destruct (alookup k props); [reflexivity|]. destruct addl; reflexivity. Qed.
