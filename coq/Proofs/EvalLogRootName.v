(* Proofs/EvalLogRootName.v — C05: the root-name clause with the anonymous names made explicit.

   environment.go (ExecContext.CopyForEnv, L52-55) replaces the root name when it is "" OR "<yaml>"
   (esc.AnonymousEnvironmentName), and so does Model/Eval.v ([eval_env]: root' := if root = "" || root = "<yaml>" then
   name else root).  Consequences proved here and in EvalLog.v:
   * for a root environment whose name is NOT anonymous every provider is told that name ([r = name]); the hypothesis is
     part of the rule, not a restriction of the model: for the root "<yaml>" the provider of an imported environment
     "imp" IS told "imp" ([yaml_root_follows_source], by the code and now by the model);
   * for EVERY name: the root a provider is told is never anonymous unless the provider sits in that anonymous
     environment itself ([anon_root r = false \/ r = c]) - this is what distinguishes the rule from the one the model
     had before (which told imp's provider "<yaml>"). *)
From Verif Require Import Base.Bytes Model.Chain Model.GoText Model.Envelope Model.Eval Corr.EvalWire.
From Verif Require Import Proofs.EvalLogKit Proofs.EvalLogInd Proofs.EvalLog Proofs.EvalLogCorr
                          Proofs.EvalLog2Ind Proofs.EvalLog2Names.
From Verif Require Corr.C05.

Definition anon_yaml : string := "<yaml>".

Lemma anonymous_name_anon_root n : C05.anonymous_name n = anon_root n.
Proof. reflexivity. Qed.

Theorem run_open_inputs_ok_named fuel W name d id p xin r c :
  In (EvOpen id p xin r c) (ob_log (run fuel W name d)) ->
  w_check W = false
  /\ c = fst id
  /\ (name <> "" -> name <> "<yaml>" -> r = name)
  /\ (C05.anonymous_name r = false \/ r = c)
  /\ exists pv iv,
       alookup p (w_provs W) = Some pv
       /\ export_t iv = Some xin
       /\ contains_unknowns iv = false
       /\ x_has_unknown xin = false
       /\ fst (validate (AccIn (pv_in pv)) iv) = true
       /\ x_is_obj xin = true.
Proof. exact (run_open_inputs_ok fuel W name d id p xin r c). Qed.

Theorem open_inputs_ok_named W fuel root name d id p xin r c :
  In (EvOpen id p xin r c) (log (snd (eval_env W fuel root name d st0))) ->
  w_check W = false
  /\ c = fst id
  /\ (eff_root root name <> "" -> eff_root root name <> "<yaml>" -> r = eff_root root name)
  /\ (C05.anonymous_name r = false \/ r = c)
  /\ exists pv iv,
       alookup p (w_provs W) = Some pv
       /\ export_t iv = Some xin
       /\ contains_unknowns iv = false
       /\ x_has_unknown xin = false
       /\ fst (validate (AccIn (pv_in pv)) iv) = true
       /\ x_is_obj xin = true.
Proof. exact (open_inputs_ok W fuel root name d id p xin r c). Qed.

Theorem matched_opens_ok_named fuel W name d lg p i r c :
  log_matches (ob_log (run fuel W name d)) lg = true ->
  In (OOpen p i r c) lg ->
  w_check W = false
  /\ x_has_unknown i = false
  /\ x_is_obj i = true
  /\ (exists pv, alookup p (w_provs W) = Some pv)
  /\ (name <> "" -> name <> "<yaml>" -> r = name)
  /\ (C05.anonymous_name r = false \/ r = c)
  /\ (c = name \/ In (OLoad c) lg).
Proof. exact (matched_opens_ok fuel W name d lg p i r c). Qed.

Lemma anonymous_name_false n : C05.anonymous_name n = false <-> n <> "" /\ n <> "<yaml>".
Proof. exact (anon_root_false n). Qed.

(* the clauses of Corr/C05.spec_other for an implementation log that matches the model's; the root clause is
   [C05.root_ok], which for a root that is not anonymous is [r = name] *)
Theorem matched_open_oracle_clauses_named fuel W name d lg p i r c :
  C05.anonymous_name name = false -> unique_provider_sites W name d ->
  log_matches (ob_log (run fuel W name d)) lg = true ->
  In (p, i, r, c) (C05.opens lg) ->
  x_has_unknown i = false
  /\ match alookup p (w_provs W) with Some pv => negb (C05.x_valid (pv_in pv) i) | None => true end = false
  /\ (forall cs, C05.c_name cs = name -> negb (C05.root_ok cs r c) = false)
  /\ negb (Nat.eqb (C05.count_str p (map (fun o : string * xval * string * string => fst (fst (fst o))) (C05.opens lg))) 1) = false.
Proof.
  intros Han Hu Hm Hin. pose proof (proj1 (anonymous_name_false name) Han) as [Hne Hny].
  destruct (matched_open_oracle_clauses fuel W name d lg p i r c Hne Hny Hu Hm Hin) as (A & B & C & D).
  repeat split; auto. intros cs Hcs. unfold C05.root_ok. rewrite Hcs, Han. exact C.
Qed.

(* ---- the anonymous root, computed: root "<yaml>" importing "imp", whose provider is told the root ---- *)
Definition W_yaml : world :=
  {| w_envs := [("imp", LoadOk {| ed_imports := []; ed_values := [("b", EOpen "q" (EObj []))] |})];
     w_provs := [("q", {| pv_in := InAlways; pv_out := ScAlways; pv_beh := PEcho |})]; w_ctx := [];
     w_check := false; w_show := false; w_fault := None; w_decrypt := fun _ _ => None |}.
Definition d_yaml : envdef := {| ed_imports := [("imp", true)]; ed_values := [("z", ENull)] |}.

(* the model says root "imp", as eval.EvalEnvironment does (CopyForEnv); before the model followed the source it said
   "<yaml>" *)
Example yaml_root_follows_source :
  ob_log (run 30 W_yaml "<yaml>" d_yaml)
  = [EvLoad "imp"; EvLoadProvider "q"; EvOpen ("imp", [IKey "b"]) "q" (XObj false false []) "imp" "imp"].
Proof. vm_compute. reflexivity. Qed.
