(* Proofs/EvalLogRootName.v — C05: the root-name clause with the anonymous names made explicit.

   environment.go (ExecContext.CopyForEnv, L52-55) replaces the root name when it is "" OR "<yaml>"
   (esc.AnonymousEnvironmentName); Model/Eval.v ([eval_env]: root' := if root = "" then name else root) replaces it
   only when it is "".  For a root environment named "<yaml>" the model therefore tells a provider inside an imported
   environment the root "<yaml>" where the implementation says the name of the import ([yaml_root_model_deviation]
   below; measured on every run by lib/verif/props/c05.py, family `yaml_root`).  Until Model/Eval.v follows the source
   (one line: root' := if String.eqb root "" || String.eqb root "<yaml>" then name else root), the root-name clauses
   are stated for names that are not anonymous — the hypothesis is what makes them statements about the code. *)
From Verif Require Import Base.Bytes Model.Chain Model.GoText Model.Envelope Model.Eval Corr.EvalWire.
From Verif Require Import Proofs.EvalLogKit Proofs.EvalLogInd Proofs.EvalLog Proofs.EvalLogCorr
                          Proofs.EvalLog2Ind Proofs.EvalLog2Names.
From Verif Require Corr.C05.

Definition anon_yaml : string := "<yaml>".

Theorem run_open_inputs_ok_named fuel W name d id p xin r c :
  In (EvOpen id p xin r c) (ob_log (run fuel W name d)) ->
  w_check W = false
  /\ c = fst id
  /\ (name <> "" -> name <> "<yaml>" -> r = name)
  /\ exists pv iv,
       alookup p (w_provs W) = Some pv
       /\ export big_fuel iv = Some xin
       /\ contains_unknowns iv = false
       /\ x_has_unknown xin = false
       /\ fst (validate (AccIn (pv_in pv)) iv) = true
       /\ x_is_obj xin = true.
Proof.
  intros H. destruct (run_open_inputs_ok fuel W name d id p xin r c H) as (A & B & C & D).
  repeat split; auto.
Qed.

Theorem open_inputs_ok_named W fuel root name d id p xin r c :
  In (EvOpen id p xin r c) (log (snd (eval_env W fuel root name d st0))) ->
  w_check W = false
  /\ c = fst id
  /\ (eff_root root name <> "" -> eff_root root name <> "<yaml>" -> r = eff_root root name)
  /\ exists pv iv,
       alookup p (w_provs W) = Some pv
       /\ export big_fuel iv = Some xin
       /\ contains_unknowns iv = false
       /\ x_has_unknown xin = false
       /\ fst (validate (AccIn (pv_in pv)) iv) = true
       /\ x_is_obj xin = true.
Proof.
  intros H. destruct (open_inputs_ok W fuel root name d id p xin r c H) as (A & B & C & D).
  repeat split; auto.
Qed.

Theorem matched_opens_ok_named fuel W name d lg p i r c :
  log_matches (ob_log (run fuel W name d)) lg = true ->
  In (OOpen p i r c) lg ->
  w_check W = false
  /\ x_has_unknown i = false
  /\ x_is_obj i = true
  /\ (exists pv, alookup p (w_provs W) = Some pv)
  /\ (name <> "" -> name <> "<yaml>" -> r = name)
  /\ (c = name \/ In (OLoad c) lg).
Proof.
  intros Hm Hin. destruct (matched_opens_ok fuel W name d lg p i r c Hm Hin) as (A & B & C & D & E & F).
  repeat split; auto.
Qed.

Lemma anonymous_name_false n : C05.anonymous_name n = false <-> n <> "" /\ n <> "<yaml>".
Proof.
  unfold C05.anonymous_name. rewrite Bool.orb_false_iff. split.
  - intros [A B]. split; intros ->; [rewrite String.eqb_refl in A|rewrite String.eqb_refl in B]; discriminate.
  - intros [A B]. split; apply String.eqb_neq; assumption.
Qed.

(* the clauses of Corr/C05.spec_other for an implementation log that matches the model's; the root clause is
   [C05.root_ok], which for a root that is not anonymous is [r = name] *)
Theorem matched_open_oracle_clauses_named fuel W name d lg p i r c :
  C05.anonymous_name name = false -> unique_provider_sites W name d ->
  log_matches (ob_log (run fuel W name d)) lg = true ->
  In (p, i, r, c) (C05.opens lg) ->
  x_has_unknown i = false
  /\ match alookup p (w_provs W) with Some pv => negb (C05.x_valid (pv_in pv) i) | None => true end = false
  /\ (forall cs, C05.c_name cs = name -> negb (C05.root_ok cs r c) = false)
  /\ negb (Nat.eqb (C05.count_str p (map (fun o : string * xval * string * string => fst (fst (fst o))) (C05.opens lg))) 1) = false.
Proof.
  intros Han Hu Hm Hin. pose proof (proj1 (anonymous_name_false name) Han) as [Hne _].
  destruct (matched_open_oracle_clauses fuel W name d lg p i r c Hne Hu Hm Hin) as (A & B & C & D).
  repeat split; auto. intros cs Hcs. unfold C05.root_ok. rewrite Hcs, Han. exact C.
Qed.

(* ---- the deviation, computed: root "<yaml>" importing "imp", whose provider is told the root ---- *)
Definition W_yaml : world :=
  {| w_envs := [("imp", LoadOk {| ed_imports := []; ed_values := [("b", EOpen "q" (EObj []))] |})];
     w_provs := [("q", {| pv_in := InAlways; pv_out := ScAlways; pv_beh := PEcho |})]; w_ctx := [];
     w_check := false; w_show := false; w_fault := None; w_decrypt := fun _ _ => None |}.
Definition d_yaml : envdef := {| ed_imports := [("imp", true)]; ed_values := [("z", ENull)] |}.

(* the MODEL says root "<yaml>"; eval.EvalEnvironment says root "imp" (CopyForEnv), see the header *)
Example yaml_root_model_deviation :
  ob_log (run 30 W_yaml "<yaml>" d_yaml)
  = [EvLoad "imp"; EvLoadProvider "q"; EvOpen ("imp", [IKey "b"]) "q" (XObj false false []) "<yaml>" "imp"].
Proof. vm_compute. reflexivity. Qed.
