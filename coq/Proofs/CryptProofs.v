(* Proofs/CryptProofs.v — EncryptSecrets / DecryptSecrets on trees: top-down form, what happens to the secrets,
   and preservation of the skeleton (everything but the arguments of fn::secret). *)
From Verif Require Import Base.Bytes Model.Envelope Model.YamlTree Model.Crypt
     Proofs.YamlTreeProofs Proofs.CryptWalk Proofs.EnvelopeProofs.
From Coq Require Import Lia.

Lemma Forall2_flat_map {A B C D} (R : C -> D -> Prop) (f : A -> list C) (g : B -> list D) l l' :
  Forall2 (fun x y => Forall2 R (f x) (g y)) l l' -> Forall2 R (flat_map f l) (flat_map g l').
Proof.
  induction 1 as [|x y r t Hx _ IH]; cbn [flat_map]; [constructor|]. now apply Forall2_app.
Qed.

Lemma Forall_Forall2 {A B} (Pre Q : A -> B -> Prop) l l' :
  Forall (fun x => forall y, Pre x y -> Q x y) l -> Forall2 Pre l l' -> Forall2 Q l l'.
Proof.
  intros HF H2. induction H2 as [|x y r t Hxy _ IH]; [constructor|].
  inversion_clear HF as [|? ? Hx Hr]. constructor; auto.
Qed.

Section Crypt.
  Variable P : env_params.
  Variable fn_secret key_ciphertext new_key : string.
  Variable enc dec : string -> option string.
  Variable null_words quote_words : list string.
  Variable pf : string -> bool.
  Hypothesis Hne : String.eqb fn_secret key_ciphertext = false.
  Hypothesis Hnew : new_key = key_ciphertext.

  Notation parse_secret := (parse_secret fn_secret key_ciphertext).
  Notation encrypt_visit := (encrypt_visit P fn_secret key_ciphertext new_key enc).
  Notation decrypt_visit := (decrypt_visit P fn_secret key_ciphertext dec).
  Notation cipher_node := (cipher_node P new_key).
  Notation marshal := (marshal null_words quote_words pf).
  Notation marshal_str := (marshal_str quote_words pf).
  Notation marshal_null := (marshal_null null_words).
  Notation ysecret := (ysecret fn_secret key_ciphertext).
  Notation yarg := (yarg key_ciphertext).
  Notation skeleton_in := (skeleton_in fn_secret key_ciphertext).
  Notation skeleton := (skeleton fn_secret key_ciphertext).
  Notation ysecrets := (ysecrets fn_secret key_ciphertext).
  Notation rw_tree := (rw_tree fn_secret key_ciphertext).

  (* ---------------- the two visitors fit the generic scheme ---------------- *)
  Lemma enc_vis_ns n : parse_secret n = NotSecret -> encrypt_visit n = ROk n.
  Proof. intros H. unfold Crypt.encrypt_visit. now rewrite H. Qed.

  Lemma dec_vis_ns n : parse_secret n = NotSecret -> decrypt_visit n = ROk n.
  Proof. intros H. unfold Crypt.decrypt_visit. now rewrite H. Qed.

  Lemma enc_vis n r : encrypt_visit n = ROk r ->
    match parse_secret n with
    | NotSecret => r = n
    | Plain os k _ _ | Cipher os k _ _ => exists X, r = SObj os [(k, X)]
    end.
  Proof.
    unfold Crypt.encrypt_visit. destruct (parse_secret n) as [|os k ps p|os k cs c] eqn:E; intros H.
    - now injection H.
    - destruct (enc p); [|discriminate]. injection H as <-. unfold Crypt.cipher_node. eauto.
    - injection H as <-. destruct (parse_cipher_inv _ _ _ _ _ _ _ E) as (s2 & k2 & -> & _). eauto.
  Qed.

  Lemma dec_vis n r : decrypt_visit n = ROk r ->
    match parse_secret n with
    | NotSecret => r = n
    | Plain os k _ _ | Cipher os k _ _ => exists X, r = SObj os [(k, X)]
    end.
  Proof.
    unfold Crypt.decrypt_visit. destruct (parse_secret n) as [|os k ps p|os k cs c] eqn:E; intros H.
    - now injection H.
    - injection H as <-. destruct (parse_plain_inv _ _ _ _ _ _ _ E) as [-> _]. eauto.
    - destruct (decode_ct P c); try discriminate. destruct (dec ct); [|discriminate]. injection H as <-. eauto.
  Qed.

  Definition enc_tree : snode -> result snode := rw_tree encrypt_visit.
  Definition dec_tree : snode -> result snode := rw_tree decrypt_visit.

  Theorem encrypt_tree_top_down n : encrypt_tree P fn_secret key_ciphertext new_key enc n = enc_tree n.
  Proof. apply walk_rw_tree; [exact Hne|exact enc_vis_ns|exact enc_vis]. Qed.

  Theorem decrypt_tree_top_down n : decrypt_tree P fn_secret key_ciphertext dec n = dec_tree n.
  Proof. apply walk_rw_tree; [exact Hne|exact dec_vis_ns|exact dec_vis]. Qed.

  (* ---------------- the secrets of a syntax tree, in document order ---------------- *)
  Fixpoint secrets (n : snode) : list (string + string) :=
    match parse_secret n with
    | Plain _ _ _ p => [inl p]
    | Cipher _ _ _ c => [inr c]
    | NotSecret =>
        match n with
        | SArr _ items => flat_map secrets items
        | SObj _ es => flat_map (fun kv : skey * snode => let (_, v) := kv in secrets v) es
        | _ => []
        end
    end.

  Lemma secrets_obj s es :
    secrets (SObj s es) =
    match parse_secret (SObj s es) with
    | Plain _ _ _ p => [inl p]
    | Cipher _ _ _ c => [inr c]
    | NotSecret => flat_map (fun kv : skey * snode => secrets (snd kv)) es
    end.
  Proof.
    cbn [secrets]. destruct (parse_secret (SObj s es)); try reflexivity.
    induction es as [|[k v] r IH]; cbn [flat_map snd]; [reflexivity|]. now rewrite IH.
  Qed.

  Lemma parse_cipher_node os k ps ct :
    String.eqb (snd k) fn_secret = true ->
    parse_secret (cipher_node os k ps ct) = Cipher os k (copy_trivia ps) (encode_ct P ct).
  Proof.
    intros Ek. unfold Crypt.cipher_node. cbn. rewrite Ek, Hnew, eqb_refl_s. reflexivity.
  Qed.

  Lemma parse_plain_node os k cs p :
    String.eqb (snd k) fn_secret = true -> parse_secret (SObj os [(k, SStr cs p)]) = Plain os k cs p.
  Proof. intros Ek. cbn. now rewrite Ek. Qed.

  (* what EncryptSecrets does to the list of secrets *)
  Definition enc_rel (a b : string + string) : Prop :=
    match a with
    | inl p => exists ct, enc p = Some ct /\ b = inr (encode_ct P ct)
    | inr c => b = inr c
    end.

  Definition dec_rel (a b : string + string) : Prop :=
    match a with
    | inl p => b = inl p
    | inr c => exists ct p, decode_ct P c = DOk ct /\ dec ct = Some p /\ b = inl p
    end.

  Section SecretsMap.
    Variable visit : snode -> result snode.
    Variable R : string + string -> string + string -> Prop.
    Hypothesis Hvis_ns : forall n, parse_secret n = NotSecret -> visit n = ROk n.
    Hypothesis Hvis : forall n r, visit n = ROk r ->
      match parse_secret n with
      | NotSecret => r = n
      | Plain os k _ _ | Cipher os k _ _ => exists X, r = SObj os [(k, X)]
      end.
    Hypothesis Hsec : forall n r, parse_secret n <> NotSecret -> visit n = ROk r ->
      Forall2 R (secrets n) (secrets r).

    Lemma secrets_rw n n' : rw_tree visit n = ROk n' -> Forall2 R (secrets n) (secrets n').
    Proof.
      revert n'. induction n as [s|s|s|s v|s items IH|s es IH] using snode_ind'; intros n' H.
      1-4: cbn in H; injection H as <-; constructor.
      - rewrite rw_tree_arr in H. destruct (mapR (rw_tree visit) items) as [l|] eqn:El; [|discriminate].
        injection H as <-. cbn [secrets Crypt.parse_secret]. apply Forall2_flat_map.
        apply mapR_ok_Forall2 in El. eapply Forall_Forall2; [|exact El]. exact IH.
      - rewrite rw_tree_obj in H.
        destruct (parse_secret (SObj s es)) as [|os k ps p|os k cs c] eqn:E.
        + destruct (mapR (rw_step (rw_tree visit)) es) as [l|] eqn:El; [|discriminate]. injection H as <-.
          pose proof (not_secret_stable _ _ Hne visit Hvis _ _ _ E El) as E'.
          rewrite !secrets_obj, E, E'. apply Forall2_flat_map.
          apply rw_step_Forall2 in El. eapply Forall_Forall2; [|exact El].
          eapply Forall_impl; [|exact IH]. intros [k v] Hv [k' v'] [_ Hx]. cbn [snd] in *. auto.
        + apply Hsec; [congruence|exact H].
        + apply Hsec; [congruence|exact H].
    Qed.
  End SecretsMap.

  Lemma enc_sec n r : parse_secret n <> NotSecret -> encrypt_visit n = ROk r -> Forall2 enc_rel (secrets n) (secrets r).
  Proof.
    unfold Crypt.encrypt_visit. intros Hn H.
    destruct (parse_secret n) as [|os k ps p|os k cs c] eqn:E; [congruence| |].
    - destruct (parse_plain_inv _ _ _ _ _ _ _ E) as [-> Ek].
      destruct (enc p) as [ct|] eqn:Ep; [|discriminate]. injection H as <-.
      rewrite secrets_obj, E. unfold Crypt.cipher_node. rewrite secrets_obj.
      fold (cipher_node os k ps ct). rewrite (parse_cipher_node _ _ _ _ Ek).
      constructor; [|constructor]. cbn. eauto.
    - injection H as <-. destruct (parse_cipher_inv _ _ _ _ _ _ _ E) as (s2 & k2 & -> & _).
      rewrite secrets_obj, E. constructor; [reflexivity|constructor].
  Qed.

  Lemma dec_sec n r : parse_secret n <> NotSecret -> decrypt_visit n = ROk r -> Forall2 dec_rel (secrets n) (secrets r).
  Proof.
    unfold Crypt.decrypt_visit. intros Hn H.
    destruct (parse_secret n) as [|os k ps p|os k cs c] eqn:E; [congruence| |].
    - injection H as <-. destruct (parse_plain_inv _ _ _ _ _ _ _ E) as [-> _].
      rewrite secrets_obj, E. constructor; [reflexivity|constructor].
    - destruct (parse_cipher_inv _ _ _ _ _ _ _ E) as (s2 & k2 & -> & Ek & _).
      destruct (decode_ct P c) as [ct| | | | | |] eqn:Ed; try discriminate.
      destruct (dec ct) as [p|] eqn:Ep; [|discriminate]. injection H as <-.
      rewrite secrets_obj, E, secrets_obj, (parse_plain_node _ _ _ _ Ek).
      constructor; [|constructor]. cbn. eauto.
  Qed.

  Theorem secrets_after_encrypt n n' : enc_tree n = ROk n' -> Forall2 enc_rel (secrets n) (secrets n').
  Proof. apply secrets_rw; [exact enc_vis|exact enc_sec]. Qed.

  Theorem secrets_after_decrypt n n' : dec_tree n = ROk n' -> Forall2 dec_rel (secrets n) (secrets n').
  Proof. apply secrets_rw; [exact dec_vis|exact dec_sec]. Qed.

  (* DecryptSecrets succeeds when every ciphertext opens *)
  Definition opens (s : string + string) : Prop :=
    match s with
    | inl _ => True
    | inr c => exists ct p, decode_ct P c = DOk ct /\ dec ct = Some p
    end.

  Lemma Forall_flat_map_inv {A B} (Q : B -> Prop) (f : A -> list B) l :
    Forall Q (flat_map f l) -> Forall (fun x => Forall Q (f x)) l.
  Proof.
    induction l as [|x r IH]; cbn [flat_map]; intros H; [constructor|].
    apply Forall_app in H. destruct H. constructor; auto.
  Qed.

  Lemma mapR_exists {A B} (f : A -> result B) (Q : A -> Prop) l :
    Forall (fun x => Q x -> exists y, f x = ROk y) l -> Forall Q l -> exists l', mapR f l = ROk l'.
  Proof.
    induction 1 as [|x r Hx _ IH]; intros HQ; [eexists; reflexivity|].
    inversion_clear HQ as [|? ? Qx Qr]. destruct (Hx Qx) as [y Ey]. destruct (IH Qr) as [t Et].
    cbn [mapR]. rewrite Ey, Et. eauto.
  Qed.

  Theorem decrypt_succeeds n : Forall opens (secrets n) -> exists n', dec_tree n = ROk n'.
  Proof.
    induction n as [s|s|s|s v|s items IH|s es IH] using snode_ind'; intros Hs.
    1-4: eexists; reflexivity.
    - unfold dec_tree. rewrite rw_tree_arr.
      cbn [secrets Crypt.parse_secret] in Hs. apply Forall_flat_map_inv in Hs.
      destruct (mapR_exists (rw_tree decrypt_visit) _ items IH Hs) as [l ->]. eauto.
    - unfold dec_tree. rewrite rw_tree_obj. rewrite secrets_obj in Hs.
      destruct (parse_secret (SObj s es)) as [|os k ps p|os k cs c] eqn:E.
      + apply Forall_flat_map_inv in Hs.
        assert (IH' : Forall (fun kv : skey * snode => Forall opens (secrets (snd kv)) ->
                                 exists y, rw_step (rw_tree decrypt_visit) kv = ROk y) es).
        { eapply Forall_impl; [|exact IH]. intros [k x] Hx Hq. cbn [snd] in *.
          destruct (Hx Hq) as [x' Ex]. unfold dec_tree in Ex. cbn [rw_step]. rewrite Ex. eauto. }
        destruct (mapR_exists _ _ es IH' Hs) as [l ->]. eauto.
      + unfold Crypt.decrypt_visit. rewrite E. eauto.
      + unfold Crypt.decrypt_visit. rewrite E.
        inversion_clear Hs as [|? ? Hc _]. cbn in Hc. destruct Hc as (ct & p & -> & ->). eauto.
  Qed.
End Crypt.
