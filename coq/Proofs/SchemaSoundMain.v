(* Proofs/SchemaSoundMain.v — C06, schema clause: final theorems for [run].
   The clause as stated ([schema_sound_statement], Proofs/CheckApproxExamples.v) is FALSE of the model and of the
   implementation (SchemaSoundRefute.v).  Here: it is proved for the class
     no merged imports, execution context without unknowns, provider output schemas without open records / open
     arrays ([sch_ok])  — fn::toJSON is NOT excluded (without merged imports the merged view is the one layer);
   with the literal conclusion of the statement when the provider schemas contain no oneOf, and with "accepted with
   enough fuel" otherwise (the fuel S (S (x_depth o)) of the statement does not pay for nested oneOf). *)
From Verif Require Import Base.Bytes Base.Wire Model.Chain Model.GoText Model.Envelope Model.Eval Corr.EvalWire.
From Verif Require Corr.C06.
From Verif Require Import Proofs.NonInterferenceRel Proofs.NonInterferenceOps Proofs.NonInterferenceTwins
     Proofs.NonInterferenceBuiltins Proofs.NonInterferenceEval
     Proofs.CheckApproxMono Proofs.CheckApproxRel Proofs.CheckApproxKit Proofs.CheckApproxEval Proofs.CheckApproxMain
     Proofs.CheckApproxExamples
     Proofs.SchemaSoundAccept Proofs.SchemaSoundUnion Proofs.SchemaSoundProperty Proofs.SchemaSoundItem
     Proofs.SchemaSoundRel Proofs.SchemaSoundOps Proofs.SchemaSoundKit Proofs.SchemaSoundEval.
From Coq Require Import Lia ZifyN ZifyNat ZifyBool.

Lemma srel_s_st0 Rc : srel_s Rc st0 st0.
Proof. constructor; simpl; constructor. Qed.

(* the schema check reports for the root of the environment *)
Definition check_schema (Wc : world) (fuel : nat) (name : string) (d : envdef) : sch :=
  top_sch (fst (eval_env Wc fuel "" name d st0)).

(* general form: a check world and an open world (same environments, context and providers) *)
Theorem schema_sound_cs b Wc Wo fuel name d :
  W_cs b Wc Wo -> env_nm d = true ->
  ob_oof (run fuel Wc name d) = false -> ob_oof (run fuel Wo name d) = false ->
  exists o, ob_value (run fuel Wo name d) = Some o /\
            accepts (check_schema Wc fuel name d) o /\
            (b = true -> sch_accepts (S (S (x_depth o))) (check_schema Wc fuel name d) o = true).
Proof.
  intros HW Hnm Oc Oo.
  destruct (run_nof _ _ _ _ Oc) as (Gc & c & Xc & Vc). destruct (run_nof _ _ _ _ Oo) as (Go & o & Xo & Vo).
  destruct (ssim_env b Wc Wo HW fuel "" name d Hnm st0 st0 (srel_s_st0 _) Gc Go) as [Hc _].
  exists o. split; [exact Vo|]. unfold check_schema.
  pose proof (sa_export _ _ _ _ _ Hc Xo) as HA. split; [exact HA|].
  intros ->. apply of_free_tight; [|exact HA]. eapply sa_of_free; eauto.
Qed.

Lemma with_mode_cs b W show :
  w_check W = false -> w_fault W = None -> providers_conform W ->
  world_nm W -> ctx_known W = true -> provs_good b W ->
  W_cs b (C06.with_mode W true show) W.
Proof. intros. constructor; auto. Qed.

(* the clause, literally, for the class (provider schemas: no open records / arrays, no oneOf) *)
Theorem schema_sound_partial :
  forall W show fuel name d,
    w_check W = false -> w_fault W = None -> providers_conform W ->
    world_nm W -> env_nm d = true -> ctx_known W = true -> provs_good true W ->
    ob_oof (run fuel (C06.with_mode W true show) name d) = false -> ob_oof (run fuel W name d) = false ->
    exists o, ob_value (run fuel W name d) = Some o /\
              sch_accepts (S (S (x_depth o)))
                          (top_sch (fst (eval_env (C06.with_mode W true show) fuel "" name d st0))) o = true.
Proof.
  intros W show fuel name d Hc Hf Hp Hm Hdm Hx Hg Oc Oo.
  destruct (schema_sound_cs true _ _ fuel name d (with_mode_cs true W show Hc Hf Hp Hm Hx Hg) Hdm Oc Oo)
    as (o & Vo & _ & HA).
  exists o. split; [exact Vo|]. now apply HA.
Qed.

(* provider schemas with oneOf: accepted with enough fuel *)
Theorem schema_sound_partial_oneof :
  forall W show fuel name d,
    w_check W = false -> w_fault W = None -> providers_conform W ->
    world_nm W -> env_nm d = true -> ctx_known W = true -> provs_good false W ->
    ob_oof (run fuel (C06.with_mode W true show) name d) = false -> ob_oof (run fuel W name d) = false ->
    exists o, ob_value (run fuel W name d) = Some o /\
              exists n, forall m, (n <= m)%nat ->
                sch_accepts m (top_sch (fst (eval_env (C06.with_mode W true show) fuel "" name d st0))) o = true.
Proof.
  intros W show fuel name d Hc Hf Hp Hm Hdm Hx Hg Oc Oo.
  destruct (schema_sound_cs false _ _ fuel name d (with_mode_cs false W show Hc Hf Hp Hm Hx Hg) Hdm Oc Oo)
    as (o & Vo & [n HA] & _).
  exists o. split; [exact Vo|]. exists n. intros m Hm'. eapply sch_accepts_le; eauto.
Qed.
