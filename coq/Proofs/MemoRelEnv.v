(* Proofs/MemoRelEnv.v — C10: eval_env run twice — two roots, two incoming states that agree on a set C of names that
   contains the environment and is closed under imports, even two worlds that agree on C — returns equal chains and
   final states that agree on C again, with equal diagnostic / call / fuel-flag deltas and logs equal up to the root
   recorded by fn::open.  Import cycles are covered (the agreement includes the in-progress marks). *)
From Verif Require Import Base.Bytes Model.Chain Model.GoText Model.Envelope Model.Eval.
From Verif Require Import Proofs.NonInterferenceTwins Proofs.ChainAlgebraLink Proofs.MemoRelKit Proofs.MemoRelEval.
From Coq Require Import Lia.

Lemma forallb_filter' {A} (p q : A -> bool) l : forallb p l = true -> forallb p (filter q l) = true.
Proof.
  induction l as [|a r IH]; [reflexivity|]. cbn [forallb filter]. intro H. apply andb_true_iff in H.
  destruct H as [H1 H2]. destruct (q a); [cbn [forallb]; rewrite H1; auto|auto].
Qed.

Section ENV2.
Variables W1 W2 : world.
Variable C : string -> Prop.
Variables B1 B2 : st.
Hypothesis HF1 : w_fault W1 = None.
Hypothesis HF2 : w_fault W2 = None.
Hypothesis HPv : w_provs W1 = w_provs W2.
Hypothesis HCk : w_check W1 = w_check W2.
Hypothesis HSh : w_show W1 = w_show W2.
Hypothesis HDc : forall n, C n -> forall ct, w_decrypt W1 n ct = w_decrypt W2 n ct.
(* the two worlds serve the same definitions for the names in C; C is closed under imports; nothing in C reads `context` *)
Hypothesis HEn : forall n, C n -> alookup n (w_envs W1) = alookup n (w_envs W2).
Hypothesis HCl : forall n d, C n -> alookup n (w_envs W1) = Some (LoadOk d) -> forall im, In im (ed_imports d) -> C (fst im).
Hypothesis HNc : forall n d, C n -> alookup n (w_envs W1) = Some (LoadOk d) -> no_context_reference d.

Notation mr := (mrel C C B1 B2 eq).

Definition P_env (f : nat) : Prop := forall r1 r2 name d,
  C name -> (forall im, In im (ed_imports d) -> C (fst im)) -> no_context_reference d ->
  mr (eval_env W1 f r1 name d) (eval_env W2 f r2 name d).

Lemma rel_imports_go f r1 r2 : P_env f ->
  forall is, (forall im, In im is -> C (fst im)) ->
  forall base my, mrel C C B1 B2 eq (imports_go W1 f r1 is base my) (imports_go W2 f r2 is base my).
Proof.
  intros HEnv. induction is as [|[n merge] rest IH]; intros HC base my.
  - rewrite !imports_go_nil. now apply rel_ret.
  - assert (Cn : C n) by (apply (HC (n, merge)); now left).
    assert (HC' : forall im, In im rest -> C (fst im)) by (intros im Him; apply HC; now right).
    rewrite !imports_go_cons. apply rel_imps_get; [exact Cn|]. intros [i|].
    + destruct (is_evaluating i); [apply rel_err; now apply IH|]. destruct (is_value i); now apply IH.
    + apply rel_call; [exact HF1|exact HF2|]. apply rel_emit; [constructor|].
      rewrite <- (HEn n Cn). destruct (alookup n (w_envs W1)) as [[| |d']|] eqn:El;
        try (apply rel_err; apply rel_imps_set; [exact Cn|]; now apply IH).
      apply rel_bind_eq.
      * apply HEnv; [exact Cn|exact (HCl n d' Cn El)|exact (HNc n d' Cn El)].
      * intros v. apply rel_imps_set; [exact Cn|]. now apply IH.
Qed.

Theorem env_two_runs : forall f, P_env f.
Proof.
  induction f as [|f IH]; intros r1 r2 name d Cn Ci Nd.
  - rewrite !eval_env_O. apply rel_fail_oof.
  - rewrite !eval_env_S. cbv zeta.
    apply rel_imps_set; [exact Cn|].
    apply rel_bind_eq; [now apply rel_imports_go|]. intros [base my].
    apply rel_imps_set; [exact Cn|]. apply rel_add_err.
    apply (proj1 (eval_two_runs W1 W2 C C B1 B2 HF1 HF2 HPv HCk HSh HDc f)).
    + constructor; cbn [env_ctx ec_name ec_values ec_base ec_imports]; auto. now apply forallb_filter'.
    + reflexivity.
    + cbn [env_ctx ec_values no_ctx]. now apply forallb_filter'.
Qed.

End ENV2.

(* ---------------- the import closure ---------------- *)
(* names reachable from n0 through the imports of the definitions the world serves *)
Inductive reach (W : world) (n0 : string) : string -> Prop :=
| reach_self : reach W n0 n0
| reach_import n d im :
    reach W n0 n -> alookup n (w_envs W) = Some (LoadOk d) -> In im (ed_imports d) -> reach W n0 (fst im).

(* the closure of environment X opened with definition d (d need not be what the world serves under the name X) *)
Definition closure (W : world) (X : string) (d : envdef) (n : string) : Prop :=
  n = X \/ exists im, In im (ed_imports d) /\ reach W (fst im) n.

Lemma closure_self W X d : closure W X d X.
Proof. now left. Qed.

Lemma closure_imports W X d im : In im (ed_imports d) -> closure W X d (fst im).
Proof. intros H. right. exists im. split; [exact H|constructor]. Qed.

Lemma reach_trans W a b c : reach W a b -> reach W b c -> reach W a c.
Proof. intros Hab Hbc. induction Hbc; [exact Hab|]. econstructor; eassumption. Qed.

(* closed under imports, PROVIDED the world serves d itself under the name X whenever X is imported from inside *)
Lemma closure_closed W X d :
  (forall d', alookup X (w_envs W) = Some (LoadOk d') -> ed_imports d' = ed_imports d) ->
  forall n dn, closure W X d n -> alookup n (w_envs W) = Some (LoadOk dn) -> forall im, In im (ed_imports dn) -> closure W X d (fst im).
Proof.
  intros HX n dn [->|(im0 & Hi0 & Hr)] El im Him.
  - rewrite (HX dn El) in Him. now apply closure_imports.
  - right. exists im0. split; [exact Hi0|]. econstructor; eassumption.
Qed.

(* ---------------- the theorem, unpacked ---------------- *)
Record outcome_rel (C : string -> Prop) (s1 s2 s1' s2' : st) : Prop := {
  or_agree : agree C C s1' s2';
  or_nerr : exists k, nerr s1' = (nerr s1 + k)%N /\ nerr s2' = (nerr s2 + k)%N;
  or_calls : exists k, calls s1' = (calls s1 + k)%N /\ calls s2' = (calls s2 + k)%N;
  or_oof : exists b, oof s1' = (oof s1 || b)%bool /\ oof s2' = (oof s2 || b)%bool;
  or_log : exists l1 l2, log s1' = l1 ++ log s1 /\ log s2' = l2 ++ log s2 /\ Forall2 ev_sim l1 l2;
  or_frame1 : (forall id, ~ C (fst id) -> memo_get id (memo s1') = memo_get id (memo s1))
              /\ (forall n, ~ C n -> alookup n (imps s1') = alookup n (imps s1));
  or_frame2 : (forall id, ~ C (fst id) -> memo_get id (memo s2') = memo_get id (memo s2))
              /\ (forall n, ~ C n -> alookup n (imps s2') = alookup n (imps s2))
}.

Lemma srel_outcome C s1 s2 s1' s2' : srel C C s1 s2 s1' s2' -> outcome_rel C s1 s2 s1' s2'.
Proof. intros [a b c d e f g h i j]. constructor; auto. split; auto. Qed.

Theorem state_independent_gen (W1 W2 : world) (C : string -> Prop) :
  w_fault W1 = None -> w_fault W2 = None ->
  w_provs W1 = w_provs W2 -> w_check W1 = w_check W2 -> w_show W1 = w_show W2 ->
  (forall n, C n -> forall ct, w_decrypt W1 n ct = w_decrypt W2 n ct) ->
  (forall n, C n -> alookup n (w_envs W1) = alookup n (w_envs W2)) ->
  (forall n d, C n -> alookup n (w_envs W1) = Some (LoadOk d) -> forall im, In im (ed_imports d) -> C (fst im)) ->
  (forall n d, C n -> alookup n (w_envs W1) = Some (LoadOk d) -> no_context_reference d) ->
  forall (fuel : nat) (root1 root2 X : string) (d : envdef) (s1 s2 : st),
    C X -> (forall im, In im (ed_imports d) -> C (fst im)) -> no_context_reference d ->
    agree C C s1 s2 ->
    fst (eval_env W1 fuel root1 X d s1) = fst (eval_env W2 fuel root2 X d s2)
    /\ outcome_rel C s1 s2 (snd (eval_env W1 fuel root1 X d s1)) (snd (eval_env W2 fuel root2 X d s2)).
Proof.
  intros HF1 HF2 HPv HCk HSh HDc HEn HCl HNc fuel root1 root2 X d s1 s2 CX Ci Nd Ag.
  destruct (env_two_runs W1 W2 C s1 s2 HF1 HF2 HPv HCk HSh HDc HEn HCl HNc fuel root1 root2 X d CX Ci Nd s1 s2
              (srel_start C C s1 s2 Ag)) as [E S].
  split; [exact E|now apply srel_outcome].
Qed.
