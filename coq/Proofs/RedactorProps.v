(* Proofs/RedactorProps.v — the statements of property C13 over an arbitrary parameter record, assembled from the
   stream, cover and emit lemmas. *)
From Verif Require Import Base.Bytes Model.Redactor Proofs.RedactorBase Proofs.RedactorStream Proofs.RedactorCover
  Proofs.RedactorEmit.
From Coq Require Import Arith Lia.
Local Open Scope nat_scope.

Section Props.
Variable P : rparams.
Notation ph := (rp_placeholder P).
Notation filtered := (new_replacer P).

Definition params_check (Q : rparams) : bool :=
  (1 <=? rp_min_len Q) && negb (length (rp_placeholder Q) =? 0).

Lemma params_check_ok : params_check P = true -> 1 <= rp_min_len P /\ ph <> [].
Proof.
  unfold params_check. intros H. apply andb_true_iff in H. destruct H as [H1 H2].
  apply Nat.leb_le in H1. apply negb_true_iff, Nat.eqb_neq in H2. split; [exact H1|].
  intros Hn. rewrite Hn in H2. apply H2. reflexivity.
Qed.

Lemma threshold_check_ok : forall n, (rp_min_len P <=? n) = true -> rp_min_len P <= n.
Proof. intros n H. apply Nat.leb_le. exact H. Qed.

Lemma filtered_spec : forall secrets p, In p (filtered secrets) <-> In p secrets /\ rp_min_len P <= length p.
Proof.
  intros secrets p. unfold new_replacer. rewrite filter_In, Nat.leb_le. reflexivity.
Qed.

Theorem chunking_irrelevant : forall secrets chunks, run P secrets chunks = run P secrets [concat chunks].
Proof.
  intros secrets chunks. unfold run. rewrite !run_chunks_concat. cbn [concat]. rewrite app_nil_r. reflexivity.
Qed.

Theorem output_is_linewise : forall secrets chunks,
  run P secrets chunks =
  let (ls, r) := split_lines (concat chunks) in
  concat (map (redact ph (filtered secrets)) ls) ++ redact ph (filtered secrets) r.
Proof. intros. unfold run. apply run_chunks_linewise. Qed.

Theorem run_is_emit : forall secrets chunks,
  run P secrets chunks = emit ph false (concat chunks) (stream_flags (filtered secrets) (concat chunks)).
Proof. intros. unfold run. apply run_chunks_emit. Qed.

Theorem clean_text_unchanged : forall secrets chunks,
  (forall p, In p (filtered secrets) -> ~ occurs p (concat chunks)) ->
  run P secrets chunks = concat chunks.
Proof. intros secrets chunks H. rewrite run_is_emit. apply stream_clean. exact H. Qed.

Theorem nothing_withheld_after_close : forall secrets chunks,
  let s := concat chunks in
  let fl := stream_flags (filtered secrets) s in
  snd (run_chunks ph (filtered secrets) [] chunks) = []
  /\ run P secrets chunks = emit ph false s fl
  /\ length fl = length s
  /\ forall i, nth i (map fst fl) false = true ->
       exists p a b, In p (filtered secrets) /\ s = a ++ p ++ b /\ length a <= i < length a + length p.
Proof.
  intros secrets chunks s fl. repeat split.
  - apply run_chunks_buffer_empty.
  - apply run_is_emit.
  - apply stream_flags_length.
  - intros i H. apply (stream_cov_sound (filtered secrets) s i H).
Qed.

Theorem no_secret_byte_forwarded : forall secrets a p b,
  In p secrets -> rp_min_len P <= length p -> has_inner_newline p = false ->
  firstn (length p) (skipn (length a) (map fst (stream_flags (filtered secrets) (a ++ p ++ b)))) =
  repeat true (length p).
Proof.
  intros secrets a p b Hin Hlen Hnl. apply (stream_cov_occ (filtered secrets) p a b); [|exact Hnl].
  apply filtered_spec. split; assumption.
Qed.

Theorem no_secret_survives : forall secrets chunks p,
  In p secrets -> rp_min_len P <= length p -> has_inner_newline p = false -> ph_clash ph p = false ->
  ~ occurs p (run P secrets chunks).
Proof.
  intros secrets chunks p Hin Hlen Hnl Hind. rewrite run_is_emit.
  apply emit_no_secret; auto. apply filtered_spec. split; assumption.
Qed.
End Props.

Theorem split_lines_characterised : forall s ls r, split_lines s = (ls, r) ->
  s = concat ls ++ r
  /\ Forall (fun l => exists body, l = body ++ [nl] /\ Forall (fun c => is_nl c = false) body) ls
  /\ Forall (fun c => is_nl c = false) r.
Proof. exact split_lines_spec. Qed.
