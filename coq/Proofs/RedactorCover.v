(* Proofs/RedactorCover.v — which bytes the filter withholds: every byte of every occurrence of a secret inside a
   line (completeness), and only such bytes (soundness); lifted to whole streams for secrets without an inner newline. *)
From Verif Require Import Base.Bytes Model.Redactor Proofs.RedactorBase Proofs.RedactorStream.
From Coq Require Import Arith Lia.
Local Open Scope nat_scope.

Section Cover.
Variable pats : list bytes.

Definition cov (rem : nat) (s : bytes) : list bool := map fst (flags pats rem s).

Lemma cov_length : forall s rem, length (cov rem s) = length s.
Proof. intros. unfold cov. rewrite map_length. apply flags_length. Qed.

Lemma cov_cons : forall c t rem,
  cov rem (c :: t) = (0 <? Nat.max rem (longest pats (c :: t))) :: cov (pred (Nat.max rem (longest pats (c :: t)))) t.
Proof. reflexivity. Qed.

Lemma longest_ge : forall p s, In p pats -> is_prefix p s = true -> length p <= longest pats s.
Proof.
  intros p s. induction pats as [|q r IH]; intros Hin Hp; [destruct Hin|].
  cbn [longest]. destruct Hin as [-> | Hin].
  - rewrite Hp. lia.
  - specialize (IH Hin Hp). destruct (is_prefix q s); lia.
Qed.

Lemma longest_sound : forall s, 0 < longest pats s ->
  exists p, In p pats /\ is_prefix p s = true /\ length p = longest pats s.
Proof.
  intros s. induction pats as [|q r IH]; cbn [longest]; intros H; [lia|].
  destruct (is_prefix q s) eqn:E.
  - destruct (Nat.max_spec (length q) (longest r s)) as [[Hlt Hm] | [Hle Hm]]; rewrite Hm in *.
    + destruct (IH H) as [p [Hin [Hp Hl]]]. exists p. repeat split; auto. right. exact Hin.
    + exists q. repeat split; auto. left. reflexivity.
  - destruct (IH H) as [p [Hin [Hp Hl]]]. exists p. repeat split; auto. right. exact Hin.
Qed.

(* a run of [n] covered bytes once the coverage counter is at least [n] *)
Lemma cov_run : forall s rem n, n <= Nat.max rem (longest pats s) -> n <= length s ->
  firstn n (cov rem s) = repeat true n.
Proof.
  induction s as [|c t IH]; intros rem n Hn Hlen.
  - simpl in Hlen. assert (n = 0) by lia. subst. reflexivity.
  - destruct n as [|n]; [reflexivity|]. rewrite cov_cons. cbn [firstn repeat].
    set (r := Nat.max rem (longest pats (c :: t))) in *.
    assert (Hr : 0 <? r = true) by (apply Nat.ltb_lt; lia). rewrite Hr. f_equal.
    apply IH; [lia | simpl in Hlen; lia].
Qed.

(* completeness inside one text: every byte of an occurrence of a pattern is covered *)
Lemma cov_occ : forall a rem p b, In p pats ->
  firstn (length p) (skipn (length a) (cov rem (a ++ p ++ b))) = repeat true (length p).
Proof.
  induction a as [|c a IH]; intros rem p b Hin.
  - cbn [app length skipn]. apply cov_run.
    + pose proof (longest_ge p (p ++ b) Hin (is_prefix_app p b)). lia.
    + rewrite app_length. lia.
  - cbn [app length]. rewrite cov_cons. cbn [skipn]. apply IH. exact Hin.
Qed.

(* soundness inside one text: a covered byte lies in the tail of an occurrence that started before the text
   (i < rem) or inside an occurrence of a pattern in the text *)
Lemma cov_sound : forall t rem i, nth i (cov rem t) false = true ->
  i < rem \/ exists p a b, In p pats /\ t = a ++ p ++ b /\ length a <= i < length a + length p.
Proof.
  induction t as [|c t IH]; intros rem i H.
  - destruct i; discriminate.
  - rewrite cov_cons in H. set (L := longest pats (c :: t)) in *.
    destruct (Nat.le_gt_cases (Nat.max rem L) rem) as [Hle | Hgt].
    + (* the counter is the old one *)
      assert (Hr : Nat.max rem L = rem) by lia. rewrite Hr in H.
      destruct i as [|i]; cbn [nth] in H.
      * apply Nat.ltb_lt in H. left. exact H.
      * destruct (IH _ _ H) as [Hlt | [p [a [b [Hin [Ht Hi]]]]]].
        -- left. lia.
        -- right. exists p, (c :: a), b. subst t. repeat split; auto; simpl; lia.
    + (* a pattern starting here is longer than what was left *)
      assert (Hr : Nat.max rem L = L) by lia. rewrite Hr in H.
      assert (HL : 0 < L) by lia.
      destruct (longest_sound (c :: t) HL) as [p [Hin [Hp Hl]]]. fold L in Hl.
      apply is_prefix_spec in Hp. destruct Hp as [b Hb].
      destruct i as [|i]; cbn [nth] in H.
      * right. exists p, [], b. repeat split; auto; simpl; lia.
      * destruct (IH _ _ H) as [Hlt | [q [a [b' [Hin' [Ht Hi]]]]]].
        -- right. exists p, [], b. repeat split; auto; simpl; lia.
        -- right. exists q, (c :: a), b'. subst t. repeat split; auto; simpl; lia.
Qed.

(* ---- whole streams ------------------------------------------------------------------------------ *)
Definition stream_cov (s : bytes) : list bool := map fst (stream_flags pats s).

Definition lines_cov (ls : list bytes) (r : bytes) : list bool := concat (map (cov 0) ls) ++ cov 0 r.

Lemma stream_cov_lines : forall s ls r, split_lines s = (ls, r) -> stream_cov s = lines_cov ls r.
Proof.
  intros s ls r E. unfold stream_cov, stream_flags, lines_cov. rewrite E.
  rewrite map_app, concat_map, map_map. reflexivity.
Qed.

Lemma inner_newline_app : forall (x z : bytes), z <> [] -> In nl x -> has_inner_newline (x ++ z) = true.
Proof.
  intros x z Hz Hin. unfold has_inner_newline. rewrite removelast_app by exact Hz.
  apply existsb_exists. exists nl. split; [apply in_or_app; left; exact Hin | apply Ascii.eqb_refl].
Qed.

(* completeness for a stream: an occurrence of a secret without inner newline lies inside one line (or the rest) *)
Lemma lines_cov_occ : forall ls r p, In p pats -> has_inner_newline p = false ->
  Forall is_line ls -> forall a b, concat ls ++ r = a ++ p ++ b ->
  firstn (length p) (skipn (length a) (lines_cov ls r)) = repeat true (length p).
Proof.
  intros ls r p Hin Hnl. induction ls as [|l ls IH]; intros Hls a b Heq.
  - unfold lines_cov. simpl in *. subst r. apply cov_occ. exact Hin.
  - destruct (Nat.eq_dec (length p) 0) as [Hp0 | Hp0]; [rewrite Hp0; reflexivity|].
    assert (Hp : p <> []) by (intros Hn; apply Hp0; rewrite Hn; reflexivity).
    assert (Hl : is_line l) by (inversion Hls; assumption).
    assert (Hls' : Forall is_line ls) by (inversion Hls; assumption).
    unfold lines_cov. cbn [map concat]. rewrite <- app_assoc. fold (lines_cov ls r).
    cbn [concat] in Heq. rewrite <- app_assoc in Heq.
    destruct (app_eq_app _ _ _ _ Heq) as [l0 [[H1 H2] | [H1 H2]]].
    + (* the occurrence starts inside l (or right at its end when l0 = []) *)
      destruct (Nat.eq_dec (length l0) 0) as [Hl00 | Hl00].
      * apply length_zero_iff_nil in Hl00. rewrite Hl00 in *. rewrite app_nil_r in H1. simpl in H2.
        replace (length a) with (length (cov 0 l) + 0) by (rewrite cov_length, H1; lia).
        rewrite window_app_r. apply (IH Hls' [] b). simpl. symmetry. exact H2.
      * assert (Hl0 : l0 <> []) by (intros Hn; apply Hl00; rewrite Hn; reflexivity).
        (* p ++ b = l0 ++ rest *)
        destruct (app_eq_app _ _ _ _ H2) as [z [[H3 H4] | [H3 H4]]].
        -- (* p = l0 ++ z: p runs up to or over the end of the line *)
           destruct (Nat.eq_dec (length z) 0) as [Hz0 | Hz0].
           ++ apply length_zero_iff_nil in Hz0. rewrite Hz0 in *. rewrite app_nil_r in H3.
              rewrite window_app_l by (rewrite cov_length, H1, H3, app_length; lia).
              rewrite H1, <- H3. rewrite <- (app_nil_r p) at 2. apply cov_occ. exact Hin.
           ++ exfalso.
              assert (Hz : z <> []) by (intros Hn; apply Hz0; rewrite Hn; reflexivity).
              destruct Hl as [body [Hbody _]].
              assert (Hin_nl : In nl l0).
              { pose proof (last_in_suffix a l0 nl Hl0) as HL. rewrite <- H1, Hbody, last_last in HL. exact HL. }
              rewrite H3, (inner_newline_app l0 z Hz Hin_nl) in Hnl. discriminate.
        -- (* l0 = p ++ z: the occurrence lies inside the line *)
           rewrite window_app_l by (rewrite cov_length, H1, H3, !app_length; lia).
           rewrite H1, H3. apply cov_occ. exact Hin.
    + (* the occurrence starts after l *)
      rewrite H1, app_length.
      replace (length l) with (length (cov 0 l)) by apply cov_length.
      rewrite window_app_r. apply (IH Hls' l0 b). exact H2.
Qed.

Theorem stream_cov_occ : forall p a b, In p pats -> has_inner_newline p = false ->
  firstn (length p) (skipn (length a) (stream_cov (a ++ p ++ b))) = repeat true (length p).
Proof.
  intros p a b Hin Hnl. destruct (split_lines (a ++ p ++ b)) as [ls r] eqn:E.
  rewrite (stream_cov_lines _ _ _ E). destruct (split_lines_spec _ _ _ E) as [H1 [H2 _]].
  apply (lines_cov_occ ls r p Hin Hnl H2 a b). symmetry. exact H1.
Qed.

(* soundness for a stream: a withheld byte lies inside an occurrence of a secret in the stream *)
Lemma lines_cov_sound : forall ls r i, nth i (lines_cov ls r) false = true ->
  exists p a b, In p pats /\ concat ls ++ r = a ++ p ++ b /\ length a <= i < length a + length p.
Proof.
  induction ls as [|l ls IH]; intros r i H.
  - unfold lines_cov in H. simpl in H. destruct (cov_sound _ _ _ H) as [Hlt | Hex]; [lia | exact Hex].
  - unfold lines_cov in H. cbn [map concat] in H. rewrite <- app_assoc in H. fold (lines_cov ls r) in H.
    destruct (Nat.lt_ge_cases i (length l)) as [Hlt | Hge].
    + rewrite app_nth1 in H by (rewrite cov_length; exact Hlt).
      destruct (cov_sound _ _ _ H) as [Hl | [p [a [b [Hin [Hl Hi]]]]]]; [lia|].
      exists p, a, (b ++ concat ls ++ r). repeat split; auto; try lia.
      cbn [concat]. rewrite Hl, <- !app_assoc. reflexivity.
    + rewrite app_nth2 in H by (rewrite cov_length; exact Hge). rewrite cov_length in H.
      destruct (IH _ _ H) as [p [a [b [Hin [Heq Hi]]]]].
      exists p, (l ++ a), b. repeat split; auto.
      * cbn [concat]. rewrite <- !app_assoc, Heq. reflexivity.
      * rewrite app_length. lia.
      * rewrite app_length. lia.
Qed.

Theorem stream_cov_sound : forall s i, nth i (stream_cov s) false = true ->
  exists p a b, In p pats /\ s = a ++ p ++ b /\ length a <= i < length a + length p.
Proof.
  intros s i H. destruct (split_lines s) as [ls r] eqn:E.
  rewrite (stream_cov_lines _ _ _ E) in H. destruct (split_lines_spec _ _ _ E) as [H1 _].
  rewrite H1. apply lines_cov_sound. exact H.
Qed.

(* ---- clean text ---------------------------------------------------------------------------------- *)
Lemma emit_clean : forall ph t fl prev, length fl = length t ->
  (forall i, nth i (map fst fl) false = false) -> emit ph prev t fl = t.
Proof.
  induction t as [|c t IH]; intros fl prev Hlen Hall.
  - reflexivity.
  - destruct fl as [|[cv jn] fl]; [discriminate|]. cbn [emit].
    pose proof (Hall 0) as H0. simpl in H0. subst cv. simpl. f_equal.
    apply IH; [simpl in Hlen; lia|]. intros i. exact (Hall (S i)).
Qed.

Theorem stream_clean : forall ph s, (forall p, In p pats -> ~ occurs p s) ->
  emit ph false s (stream_flags pats s) = s.
Proof.
  intros ph s Hclean. apply emit_clean; [apply stream_flags_length|].
  intros i. fold (stream_cov s). destruct (nth i (stream_cov s) false) eqn:E; [|reflexivity].
  exfalso. destruct (stream_cov_sound _ _ E) as [p [a [b [Hin [Heq _]]]]].
  apply (Hclean p Hin). exists a, b. exact Heq.
Qed.
End Cover.
