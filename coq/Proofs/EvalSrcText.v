(* Proofs/EvalSrcText.v -- decides [eval_src_text_ok] (defined in Proofs/EvalSrc.v) on today's coq/Src/SrcEval.v.
   The [same_*] lemmas come first so that a failing build names the table and prints the entries that differ. *)
From Verif Require Import Base.Bytes Model.Chain Model.GoText Model.Eval Src.SrcEval Proofs.EvalSrc.

Lemma same_to_string : table_diff ev_to_string exp_to_string = [].
Proof. vm_compute. reflexivity. Qed.
Lemma same_unexport : table_diff ev_unexport exp_unexport = [].
Proof. vm_compute. reflexivity. Qed.
Lemma same_unexport_value : table_diff ev_unexport_value exp_unexport_value = [].
Proof. vm_compute. reflexivity. Qed.

Lemma eval_src_text_ok_true : eval_src_text_ok = true.
Proof. vm_compute. reflexivity. Qed.
