(* Proofs/ApiJsonProofs.v — round trip of the JSON API model (C18):
     clean values are serialisable, and unmarshal (marshal v) = v, for every type of the tables. *)
From Coq Require Import Lia.
From Verif Require Import Base.Bytes Model.ApiJson Proofs.ApiJsonBase.

(* ---- zero values ---------------------------------------------------------------------------------------- *)
Lemma zero_is_zero : forall tb n t v, is_zero t v = true -> zero tb n t = Ok v.
Proof.
  intros tb n t v H.
  destruct t; destruct v; simpl in H; try discriminate; destruct n; simpl; try reflexivity.
  all: try (destruct b; [discriminate | reflexivity]).
  all: try (destruct z; [reflexivity | discriminate | discriminate]).
  all: try (destruct s; [reflexivity | discriminate]).
  all: try (destruct text; [reflexivity | discriminate]).
Qed.

Lemma zero_of_empty : forall tb n t v,
  is_empty t v = Some true -> nonnil_empty v = false -> zero tb n t = Ok v.
Proof.
  intros tb n t v He Hn.
  destruct t; destruct v; simpl in He; try discriminate; inversion He as [He'].
  - destruct b; [discriminate|]. destruct n; reflexivity.
  - apply Z.eqb_eq in He'. subst. destruct n; reflexivity.
  - apply String.eqb_eq in He'. subst. destruct n; reflexivity.
  - apply String.eqb_eq in He'. subst. destruct n; reflexivity.
  - destruct n; reflexivity.
  - destruct n; reflexivity.
  - destruct n; reflexivity.
  - destruct l; [discriminate Hn | discriminate].
  - destruct n; reflexivity.
  - destruct l; [discriminate Hn | discriminate].
Qed.

(* ---- struct fields --------------------------------------------------------------------------------------- *)
Section Fields.
Variable nm : string.
Variable m : gty -> gval -> res json.
Variable u : field -> json -> res gval.
Variable ok : field -> gval -> bool.
Variable zero_of : gty -> res gval.
Hypothesis Hzero1 : forall t v, is_zero t v = true -> zero_of t = Ok v.
Hypothesis Hzero2 : forall t v, is_empty t v = Some true -> nonnil_empty v = false -> zero_of t = Ok v.

Lemma fields_m_keys : forall fs vs es,
  fields_m m fs vs = Ok es -> forall k, In k (map fst es) -> In k (json_names fs).
Proof.
  induction fs as [|f fs IH]; intros vs es H k Hin.
  - destruct vs; simpl in H; [inversion H; subst; exact Hin | discriminate].
  - destruct vs as [|v vs]; [discriminate|].
    simpl in H. unfold json_names. simpl.
    destruct (f_skip f) eqn:Hs; simpl.
    + exact (IH vs es H k Hin).
    + destruct (is_empty (f_ty f) v) as [e|]; [|discriminate].
      destruct (f_omit f && e).
      * right. exact (IH vs es H k Hin).
      * apply bind_ok in H. destruct H as [j [Hj H]].
        apply bind_ok in H. destruct H as [r [Hr H]]. inversion H; subst.
        simpl in Hin. destruct Hin as [<-|Hin]; [left; reflexivity | right; exact (IH vs r Hr k Hin)].
Qed.

Definition dec_field (es : list (string * json)) (f : field) : res gval :=
  if f_skip f then zero_of (f_ty f)
  else match assoc_last (f_json f) es with
       | None => zero_of (f_ty f)
       | Some jf => u f jf
       end.

Lemma fields_roundtrip : forall fs vs es pre,
  (forall f v j, In f fs -> m (f_ty f) v = Ok j -> ok f v = true -> u f j = Ok v) ->
  nodup_str (json_names fs) = true ->
  fields_m m fs vs = Ok es ->
  fields_ok pol_none nm ok fs vs = true ->
  (forall k, In k (map fst pre) -> ~ In k (json_names fs)) ->
  mapM (dec_field (pre ++ es)) fs = Ok vs.
Proof.
  induction fs as [|f fs IH]; intros vs es pre Hmu Hnd Hm Hok Hpre.
  - destruct vs; [reflexivity | discriminate].
  - destruct vs as [|v vs]; [discriminate|].
    simpl in Hm, Hok. apply andb_true_iff in Hok. destruct Hok as [Hokf Hokr].
    assert (Hmu' : forall f' v' j', In f' fs -> m (f_ty f') v' = Ok j' -> ok f' v' = true -> u f' j' = Ok v')
      by (intros; eapply Hmu; eauto; right; assumption).
    unfold json_names in Hnd, Hpre. simpl in Hnd, Hpre.
    simpl. unfold dec_field at 1.
    destruct (f_skip f) eqn:Hs; simpl in Hnd, Hpre.
    + rewrite (Hzero1 _ _ Hokf). simpl.
      rewrite (IH vs es pre Hmu' Hnd Hm Hokr Hpre). reflexivity.
    + apply nodup_str_cons in Hnd. destruct Hnd as [Hnotin Hnd].
      destruct (is_empty (f_ty f) v) as [e|] eqn:He; [|discriminate].
      destruct (f_omit f && e) eqn:Hoe.
      * (* omitted *)
        apply andb_true_iff in Hoe. destruct Hoe as [_ ->].
        assert (Hne : nonnil_empty v = false).
        { destruct (nonnil_empty v); [|reflexivity]. simpl in Hokf.
          destruct (lossy_field nm (f_go f)); discriminate Hokf. }
        clear Hokf. rename Hne into Hokf.
        rewrite assoc_last_app_none.
        -- rewrite (Hzero2 _ _ He Hokf). simpl.
           rewrite (IH vs es pre Hmu' Hnd Hm Hokr); [reflexivity|].
           intros k Hk Hin. apply (Hpre k Hk). right. exact Hin.
        -- intro Hin. apply (Hpre _ Hin). left. reflexivity.
        -- apply assoc_last_none. intro Hin. apply Hnotin. exact (fields_m_keys fs vs es Hm _ Hin).
      * (* kept *)
        apply bind_ok in Hm. destruct Hm as [j [Hj Hm]].
        apply bind_ok in Hm. destruct Hm as [r [Hr Hm]]. inversion Hm; subst es.
        rewrite (assoc_last_app_some (f_json f) pre ((f_json f, j) :: r) j).
        -- rewrite (Hmu f v j (or_introl eq_refl) Hj Hokf). simpl.
           replace (pre ++ (f_json f, j) :: r) with ((pre ++ [(f_json f, j)]) ++ r)
             by (rewrite <- app_assoc; reflexivity).
           rewrite (IH vs r (pre ++ [(f_json f, j)]) Hmu' Hnd Hr Hokr); [reflexivity|].
           intros k Hk Hin. rewrite map_app in Hk. apply in_app_or in Hk. destruct Hk as [Hk|Hk].
           ++ apply (Hpre k Hk). right. exact Hin.
           ++ simpl in Hk. destruct Hk as [<-|[]]. exact (Hnotin Hin).
        -- apply assoc_last_head. intro Hin. apply Hnotin. exact (fields_m_keys fs vs r Hr _ Hin).
Qed.

Lemma struct_roundtrip : forall fs vs es,
  (forall f v j, In f fs -> m (f_ty f) v = Ok j -> ok f v = true -> u f j = Ok v) ->
  nodup_str (json_names fs) = true ->
  fields_m m fs vs = Ok es ->
  fields_ok pol_none nm ok fs vs = true ->
  struct_u zero_of u fs es = Ok (GStruct vs).
Proof.
  intros fs vs es Hmu Hnd Hm Hok. unfold struct_u.
  change (fun f : field => if f_skip f then zero_of (f_ty f)
                           else match assoc_last (f_json f) es with
                                | Some jf => u f jf
                                | None => zero_of (f_ty f)
                                end) with (dec_field ([] ++ es)).
  rewrite (fields_roundtrip fs vs es [] Hmu Hnd Hm Hok); [reflexivity|].
  intros k [].
Qed.

Lemma flag_roundtrip : forall go fs vs,
  flag_only fs vs go = true -> struct_flag zero_of fs go = Ok (GStruct vs).
Proof.
  intros go fs vs H. unfold struct_flag.
  assert (Hm : mapM (fun f => if String.eqb (f_go f) go then Ok (GBool true) else zero_of (f_ty f)) fs = Ok vs).
  { revert vs H. induction fs as [|f fs IH]; intros vs H.
    - destruct vs; [reflexivity | discriminate].
    - destruct vs as [|v vs]; [discriminate|].
      simpl in H. apply andb_true_iff in H. destruct H as [H1 H2].
      simpl. destruct (String.eqb (f_go f) go).
      + destruct v; try discriminate. destruct b; [|discriminate]. simpl. rewrite (IH vs H2). reflexivity.
      + rewrite (Hzero1 _ _ H1). simpl. rewrite (IH vs H2). reflexivity. }
  rewrite Hm. reflexivity.
Qed.

(* serialisability of the fields *)
Lemma fields_m_exists : forall p fs vs,
  (forall f v, In f fs -> ok f v = true -> exists j, m (f_ty f) v = Ok j) ->
  fields_ok p nm ok fs vs = true -> exists es, fields_m m fs vs = Ok es.
Proof.
  induction fs as [|f fs IH]; intros vs Hex Hok.
  - destruct vs; [exists []; reflexivity | discriminate].
  - destruct vs as [|v vs]; [discriminate|].
    simpl in Hok. apply andb_true_iff in Hok. destruct Hok as [Hokf Hokr].
    destruct (IH vs (fun f' v' Hin => Hex f' v' (or_intror Hin)) Hokr) as [es Hes].
    simpl. destruct (f_skip f); [exists es; exact Hes|].
    destruct (is_empty (f_ty f) v) as [e|]; [|discriminate].
    destruct (f_omit f && e); [exists es; exact Hes|].
    destruct (Hex f v (or_introl eq_refl) Hokf) as [j Hj].
    exists ((f_json f, j) :: es). rewrite Hj. simpl. rewrite Hes. reflexivity.
Qed.
End Fields.

(* ---- marshal never yields null for the types a pointer may point to -------------------------------------- *)
Lemma marshal_nonnull : forall tb n t v j, ptr_target_ok t = true -> marshal tb n t v = Ok j -> j <> JNull.
Proof.
  intros tb n t v j Hp Hm Hj. subst j.
  destruct n as [|n']; [discriminate|].
  destruct t; try discriminate Hp; destruct v; cbn [marshal] in Hm; try discriminate.
  - destruct (int64_ok z); discriminate.
  - destruct (String.eqb text ""); [discriminate|]. destruct (valid_number text); discriminate.
  - destruct (lookup_sd tb n) as [sd|]; [|discriminate].
    assert (Hobj : bind (fields_m (marshal tb n') (sd_fields sd) l) (fun es => Ok (JObj es)) <> Ok JNull).
    { intro H. apply bind_ok in H. destruct H as [es [_ H]]. discriminate. }
    destruct (sd_marshal sd); try discriminate; try (exact (Hobj Hm)).
    destruct (bool_field (sd_fields sd) l "Never") as [[|]|]; try discriminate;
      destruct (bool_field (sd_fields sd) l "Always") as [[|]|]; try discriminate; exact (Hobj Hm).
Qed.

(* ---- the round trip -------------------------------------------------------------------------------------- *)
Section RoundTrip.
Variable tb : tables.
Hypothesis Htb : tables_ok tb = true.

Definition rt_at (n : nat) : Prop :=
  forall c t v j, marshal tb n t v = Ok j -> clean tb n c t v = true -> unmarshal tb n c t j = Ok v.

Lemma scalar_bool : forall n v j, marshal tb n TBool v = Ok j -> exists b, v = GBool b /\ j = JBool b.
Proof.
  intros [|n] v j H; [discriminate|]. destruct v; cbn [marshal] in H; try discriminate.
  inversion H. eauto.
Qed.

Lemma scalar_str : forall n c v j, marshal tb n TStr v = Ok j -> clean tb n c TStr v = true ->
  exists s, v = GStr s /\ j = JStr s.
Proof.
  intros [|n] c v j H Hc; [discriminate|]. destruct v; cbn [marshal] in H; try discriminate.
  unfold clean in Hc. cbn [okp] in Hc. unfold str_ok in Hc. simpl in Hc. rewrite orb_false_r in Hc.
  inversion H. rewrite (sanitize_valid _ Hc). eauto.
Qed.

Lemma scalar_num : forall n c v j, marshal tb n TNum v = Ok j -> clean tb n c TNum v = true ->
  exists s, v = GNum s /\ j = JNum s.
Proof.
  intros [|n] c v j H Hc; [discriminate|]. destruct v; cbn [marshal] in H; try discriminate.
  unfold clean in Hc. cbn [okp] in Hc. simpl in Hc. rewrite orb_false_r in Hc.
  apply andb_true_iff in Hc. destruct Hc as [H1 H2]. apply negb_true_iff in H1.
  rewrite H1, H2 in H. inversion H. eauto.
Qed.

Lemma slice_shape : forall n t l j, marshal tb n (TSlice t) (GSlice l) = Ok j -> exists js, j = JArr js.
Proof.
  intros [|n] t l j H; [discriminate|]. cbn [marshal] in H.
  apply bind_ok in H. destruct H as [js [_ H]]. inversion H. eauto.
Qed.

Lemma map_shape : forall n t l j, marshal tb n (TMap t) (GMap l) = Ok j -> exists es, j = JObj es.
Proof.
  intros [|n] t l j H; [discriminate|]. cbn [marshal] in H.
  destruct (sorted_keys l); [|discriminate].
  apply bind_ok in H. destruct H as [es [_ H]]. inversion H. eauto.
Qed.

Lemma rt_step : forall n, rt_at n -> rt_at (S n).
Proof.
  intros n IH c t v j Hm Hc. unfold clean in Hc.
  destruct t; destruct v; cbn [marshal] in Hm; try discriminate Hm; cbn [okp] in Hc; try discriminate Hc.
  - (* bool *) inversion Hm. reflexivity.
  - (* int *) rewrite Hc in Hm. inversion Hm. cbn [unmarshal]. rewrite (parse_print _ Hc). reflexivity.
  - (* string *) unfold str_ok in Hc. simpl in Hc. rewrite orb_false_r in Hc.
    inversion Hm. rewrite (sanitize_valid _ Hc). reflexivity.
  - (* json.Number *) simpl in Hc. rewrite orb_false_r in Hc.
    apply andb_true_iff in Hc. destruct Hc as [H1 H2]. apply negb_true_iff in H1.
    rewrite H1, H2 in Hm. inversion Hm. reflexivity.
  - (* any, nil *) inversion Hm. reflexivity.
  - (* any, dynamic value *)
    destruct c as [un|nm].
    + destruct t; try discriminate Hc.
      * destruct (scalar_bool _ _ _ Hm) as [b [-> ->]]. reflexivity.
      * destruct (scalar_str _ (DPlain un) _ _ Hm Hc) as [s [-> ->]]. reflexivity.
      * simpl in Hc. rewrite orb_false_r in Hc. apply andb_true_iff in Hc. destruct Hc as [-> Hc].
        destruct (scalar_num _ (DPlain true) _ _ Hm Hc) as [s [-> ->]]. reflexivity.
      * destruct t; try discriminate Hc. destruct v; try discriminate Hc.
        destruct (slice_shape _ _ _ _ Hm) as [js ->].
        cbn [unmarshal]. rewrite (IH _ _ _ _ Hm Hc). reflexivity.
      * destruct t; try discriminate Hc. destruct v; try discriminate Hc.
        destruct (map_shape _ _ _ _ Hm) as [es ->].
        cbn [unmarshal]. rewrite (IH _ _ _ _ Hm Hc). reflexivity.
    + destruct t; try discriminate Hc.
      * destruct (scalar_bool _ _ _ Hm) as [b [-> ->]]. reflexivity.
      * destruct (scalar_str _ (DPlain false) _ _ Hm Hc) as [s [-> ->]]. reflexivity.
      * destruct (scalar_num _ (DPlain false) _ _ Hm Hc) as [s [-> ->]]. reflexivity.
      * destruct t; try discriminate Hc. destruct v; try discriminate Hc.
        apply andb_true_iff in Hc. destruct Hc as [He Hc]. apply String.eqb_eq in He. subst n0.
        destruct (slice_shape _ _ _ _ Hm) as [js ->].
        cbn [unmarshal]. rewrite (IH _ _ _ _ Hm Hc). reflexivity.
      * destruct t; try discriminate Hc. destruct v; try discriminate Hc.
        apply andb_true_iff in Hc. destruct Hc as [He Hc]. apply String.eqb_eq in He. subst n0.
        destruct (map_shape _ _ _ _ Hm) as [es ->].
        cbn [unmarshal]. rewrite (IH _ _ _ _ Hm Hc). reflexivity.
  - (* nil pointer *) inversion Hm. reflexivity.
  - (* pointer *)
    apply andb_true_iff in Hc. destruct Hc as [Hp Hc].
    pose proof (marshal_nonnull _ _ _ _ _ Hp Hm) as Hnn.
    cbn [unmarshal]. destruct j; try (exfalso; apply Hnn; reflexivity); rewrite (IH _ _ _ _ Hm Hc); reflexivity.
  - (* nil slice *) inversion Hm. reflexivity.
  - (* slice *)
    apply bind_ok in Hm. destruct Hm as [js [Hjs Hm]]. inversion Hm; subst j.
    cbn [unmarshal].
    rewrite (mapM_roundtrip (marshal tb n t) (unmarshal tb n c t) (okp tb pol_none n c t) l js); [reflexivity | | exact Hjs | exact Hc].
    intros x y _ Hx Hy. exact (IH _ _ _ _ Hx Hy).
  - (* nil map *) inversion Hm. reflexivity.
  - (* map *)
    apply andb_true_iff in Hc. destruct Hc as [Hs Hc]. rewrite Hs in Hm.
    apply bind_ok in Hm. destruct Hm as [es [Hes Hm]]. inversion Hm; subst j.
    cbn [unmarshal]. unfold decode_entries.
    rewrite (mapM_roundtrip (fun kv => bind (marshal tb n t (snd kv)) (fun j => Ok (sanitize (fst kv), j)))
               (fun kj => bind (unmarshal tb n c t (snd kj)) (fun v => Ok (fst kj, v)))
               (fun kv => str_ok pol_none (fst kv) && okp tb pol_none n c t (snd kv)) l es); [| | exact Hes | exact Hc].
    + simpl. rewrite (map_of_entries_sorted _ Hs). reflexivity.
    + intros [k x] y _ Hx Hy. simpl in Hx, Hy.
      apply andb_true_iff in Hy. destruct Hy as [Hk Hy].
      unfold str_ok in Hk. simpl in Hk. rewrite orb_false_r in Hk.
      apply bind_ok in Hx. destruct Hx as [jx [Hjx Hx]]. inversion Hx; subst y. simpl.
      rewrite (IH _ _ _ _ Hjx Hy). simpl. rewrite (sanitize_valid _ Hk). reflexivity.
  - (* struct *)
    cbn [unmarshal].
    destruct (lookup_sd tb n0) as [sd|] eqn:Hl; [|discriminate].
    pose proof (lookup_sd_ok _ _ _ Htb Hl) as Hsd. unfold sdef_ok in Hsd.
    apply andb_true_iff in Hsd. destruct Hsd as [Hsd _].
    apply andb_true_iff in Hsd. destruct Hsd as [Hnd _].
    assert (Hplain : forall (cf : field -> dctx) es,
              fields_m (marshal tb n) (sd_fields sd) l = Ok es ->
              fields_ok pol_none n0 (fun f v => okp tb pol_none n (cf f) (f_ty f) v) (sd_fields sd) l = true ->
              struct_u (zero tb n) (fun f jf => unmarshal tb n (cf f) (f_ty f) jf) (sd_fields sd) es = Ok (GStruct l)).
    { intros cf es Hes Hok.
      apply (struct_roundtrip n0 (marshal tb n) _ (fun f v => okp tb pol_none n (cf f) (f_ty f) v) (zero tb n)
               (zero_is_zero tb n) (zero_of_empty tb n) (sd_fields sd) l es); [| exact Hnd | exact Hes | exact Hok].
      intros f v j' _ Hj' Hv. exact (IH _ _ _ _ Hj' Hv). }
    destruct (sd_marshal sd) eqn:Hsm; try discriminate Hm; destruct (sd_unmarshal sd) eqn:Hsu; try discriminate Hc.
    + apply bind_ok in Hm. destruct Hm as [es [Hes Hm]]. inversion Hm; subst j. exact (Hplain _ es Hes Hc).
    + apply bind_ok in Hm. destruct Hm as [es [Hes Hm]]. inversion Hm; subst j. exact (Hplain _ es Hes Hc).
    + apply bind_ok in Hm. destruct Hm as [es [Hes Hm]]. inversion Hm; subst j. exact (Hplain _ es Hes Hc).
    + destruct (bool_field (sd_fields sd) l "Never") as [[|]|]; try discriminate Hc;
        destruct (bool_field (sd_fields sd) l "Always") as [[|]|]; try discriminate Hc.
      * inversion Hm. exact (flag_roundtrip (zero tb n) (zero_is_zero tb n) "Never" _ _ Hc).
      * inversion Hm. exact (flag_roundtrip (zero tb n) (zero_is_zero tb n) "Never" _ _ Hc).
      * inversion Hm. exact (flag_roundtrip (zero tb n) (zero_is_zero tb n) "Always" _ _ Hc).
      * apply bind_ok in Hm. destruct Hm as [es [Hes Hm]]. inversion Hm; subst j. exact (Hplain _ es Hes Hc).
Qed.

Theorem roundtrip : forall n c t v j,
  marshal tb n t v = Ok j -> clean tb n c t v = true -> unmarshal tb n c t j = Ok v.
Proof.
  induction n as [|n IH].
  - intros c t v j H. discriminate.
  - exact (rt_step n IH).
Qed.
End RoundTrip.

(* ---- serialisability: json.Marshal fails only inside class K1 (invalid json.Number text) ------------------ *)
Section Serialisable.
Variable tb : tables.
Variable p : policy.
Hypothesis Hp : p_number p = false.

Definition ser_at (n : nat) : Prop :=
  forall c t v, okp tb p n c t v = true -> exists j, marshal tb n t v = Ok j.

Lemma ser_step : forall n, ser_at n -> ser_at (S n).
Proof.
  intros n IH c t v Hc.
  destruct t; destruct v; cbn [okp] in Hc; try discriminate Hc; cbn [marshal].
  - eauto.
  - rewrite Hc. eauto.
  - eauto.
  - rewrite Hp, orb_false_r in Hc. apply andb_true_iff in Hc. destruct Hc as [H1 H2].
    apply negb_true_iff in H1. rewrite H1, H2. eauto.
  - eauto.
  - destruct c as [un|nm].
    + destruct t; try discriminate Hc.
      * exact (IH _ _ _ Hc).
      * exact (IH _ _ _ Hc).
      * apply andb_true_iff in Hc. destruct Hc as [_ Hc]. exact (IH _ _ _ Hc).
      * destruct t; try discriminate Hc. destruct v; try discriminate Hc. exact (IH _ _ _ Hc).
      * destruct t; try discriminate Hc. destruct v; try discriminate Hc. exact (IH _ _ _ Hc).
    + destruct t; try discriminate Hc.
      * exact (IH _ _ _ Hc).
      * exact (IH _ _ _ Hc).
      * exact (IH _ _ _ Hc).
      * destruct t; try discriminate Hc. destruct v; try discriminate Hc.
        apply andb_true_iff in Hc. destruct Hc as [_ Hc]. exact (IH _ _ _ Hc).
      * destruct t; try discriminate Hc. destruct v; try discriminate Hc.
        apply andb_true_iff in Hc. destruct Hc as [_ Hc]. exact (IH _ _ _ Hc).
  - eauto.
  - apply andb_true_iff in Hc. destruct Hc as [_ Hc]. exact (IH _ _ _ Hc).
  - eauto.
  - destruct (mapM_exists (marshal tb n t) (okp tb p n c t) l) as [js Hjs]; [| exact Hc |].
    + intros x _ Hx. exact (IH _ _ _ Hx).
    + rewrite Hjs. simpl. eauto.
  - eauto.
  - apply andb_true_iff in Hc. destruct Hc as [Hs Hc]. rewrite Hs.
    destruct (mapM_exists (fun kv => bind (marshal tb n t (snd kv)) (fun j => Ok (sanitize (fst kv), j)))
                (fun kv => str_ok p (fst kv) && okp tb p n c t (snd kv)) l) as [es Hes]; [| exact Hc |].
    + intros [k x] _ Hx. simpl in Hx. apply andb_true_iff in Hx. destruct Hx as [_ Hx].
      destruct (IH _ _ _ Hx) as [j Hj]. simpl. rewrite Hj. simpl. eauto.
    + rewrite Hes. simpl. eauto.
  - destruct (lookup_sd tb n0) as [sd|]; [|discriminate].
    assert (Hplain : forall cf : field -> dctx,
              fields_ok p n0 (fun f v => okp tb p n (cf f) (f_ty f) v) (sd_fields sd) l = true ->
              exists j, bind (fields_m (marshal tb n) (sd_fields sd) l) (fun es => Ok (JObj es)) = Ok j).
    { intros cf Hok.
      destruct (fields_m_exists n0 (marshal tb n) (fun f v => okp tb p n (cf f) (f_ty f) v) p (sd_fields sd) l) as [es Hes];
        [| exact Hok |].
      - intros f v _ Hv. exact (IH _ _ _ Hv).
      - rewrite Hes. simpl. eauto. }
    destruct (sd_marshal sd); try discriminate Hc; destruct (sd_unmarshal sd); try discriminate Hc.
    + exact (Hplain _ Hc).
    + exact (Hplain _ Hc).
    + exact (Hplain _ Hc).
    + destruct (bool_field (sd_fields sd) l "Never") as [[|]|]; try discriminate Hc;
        destruct (bool_field (sd_fields sd) l "Always") as [[|]|]; try discriminate Hc;
        try (exact (Hplain (fun _ => DPlain true) Hc)); eauto.
Qed.

Theorem serialisable : forall n c t v, okp tb p n c t v = true -> exists j, marshal tb n t v = Ok j.
Proof.
  induction n as [|n IH].
  - intros c t v H. discriminate.
  - exact (ser_step n IH).
Qed.
End Serialisable.

(* ---- corollaries -------------------------------------------------------------------------------------------- *)
Theorem roundtrip_clean : forall tb, tables_ok tb = true -> forall n c t v,
  clean tb n c t v = true ->
  exists j, marshal tb n t v = Ok j /\ unmarshal tb n c t j = Ok v.
Proof.
  intros tb Htb n c t v Hc.
  destruct (serialisable tb pol_none eq_refl n c t v Hc) as [j Hj].
  exists j. split; [exact Hj | exact (roundtrip tb Htb n c t v j Hj Hc)].
Qed.

(* two clean values with the same JSON are equal: nothing is conflated by the API *)
Theorem marshal_injective : forall tb, tables_ok tb = true -> forall n c t v1 v2 j,
  clean tb n c t v1 = true -> clean tb n c t v2 = true ->
  marshal tb n t v1 = Ok j -> marshal tb n t v2 = Ok j -> v1 = v2.
Proof.
  intros tb Htb n c t v1 v2 j H1 H2 M1 M2.
  pose proof (roundtrip tb Htb n c t v1 j M1 H1) as R1.
  pose proof (roundtrip tb Htb n c t v2 j M2 H2) as R2.
  rewrite R1 in R2. inversion R2. reflexivity.
Qed.

(* ---- the four known-finding classes are exactly the gap between "well-formed" and "clean" ------------------- *)
Definition pmeet (p1 p2 : policy) : policy :=
  mkPolicy (p_number p1 && p_number p2) (p_anynum p1 && p_anynum p2) (p_empty p1 && p_empty p2)
           (p_empty_lossy p1 && p_empty_lossy p2) (p_utf8 p1 && p_utf8 p2).

Lemma forallb_meet {A} (f1 f2 f3 : A -> bool) : forall l,
  (forall x, In x l -> f1 x = true -> f2 x = true -> f3 x = true) ->
  forallb f1 l = true -> forallb f2 l = true -> forallb f3 l = true.
Proof.
  induction l as [|x r IH]; intros H H1 H2; [reflexivity|].
  simpl in *. apply andb_true_iff in H1. apply andb_true_iff in H2. destruct H1, H2.
  apply andb_true_iff. split; [apply H; auto | apply IH; auto].
Qed.

Lemma fields_ok_meet (p1 p2 : policy) (nm : string) (ok1 ok2 ok3 : field -> gval -> bool) : forall fs vs,
  (forall f v, ok1 f v = true -> ok2 f v = true -> ok3 f v = true) ->
  fields_ok p1 nm ok1 fs vs = true -> fields_ok p2 nm ok2 fs vs = true -> fields_ok (pmeet p1 p2) nm ok3 fs vs = true.
Proof.
  induction fs as [|f fs IH]; intros vs H H1 H2.
  - destruct vs; [reflexivity | discriminate].
  - destruct vs as [|v vs]; [discriminate|].
    simpl in *. apply andb_true_iff in H1. apply andb_true_iff in H2.
    destruct H1 as [A1 B1]. destruct H2 as [A2 B2].
    apply andb_true_iff. split; [|exact (IH vs H B1 B2)].
    destruct (f_skip f); [exact A1|].
    destruct (is_empty (f_ty f) v) as [e|]; [|discriminate].
    destruct (f_omit f && e); [|exact (H f v A1 A2)].
    destruct (nonnil_empty v); simpl in *; [|reflexivity].
    destruct (lossy_field nm (f_go f)); rewrite A1, A2; reflexivity.
Qed.

Lemma str_ok_meet p1 p2 s : str_ok p1 s = true -> str_ok p2 s = true -> str_ok (pmeet p1 p2) s = true.
Proof. unfold str_ok. simpl. destruct (valid_utf8 s); simpl; [reflexivity|]. intros -> ->. reflexivity. Qed.

Section Meet.
Variable tb : tables.
Variables p1 p2 : policy.

Definition meet_at (n : nat) : Prop :=
  forall c t v, okp tb p1 n c t v = true -> okp tb p2 n c t v = true -> okp tb (pmeet p1 p2) n c t v = true.

Lemma meet_step : forall n, meet_at n -> meet_at (S n).
Proof.
  intros n IH c t v H1 H2.
  destruct t; destruct v; cbn [okp] in H1, H2 |- *; try discriminate H1; try reflexivity; try exact H1.
  - exact (str_ok_meet _ _ _ H1 H2).
  - apply andb_true_iff in H1. apply andb_true_iff in H2. destruct H1 as [A1 B1]. destruct H2 as [_ B2].
    rewrite A1. simpl. destruct (valid_number text); simpl in *; [reflexivity | rewrite B1, B2; reflexivity].
  - destruct c as [un|nm].
    + destruct t; try discriminate H1; try exact (IH _ _ _ H1 H2).
      * apply andb_true_iff in H1. apply andb_true_iff in H2. destruct H1 as [A1 B1]. destruct H2 as [A2 B2].
        rewrite (IH _ _ _ B1 B2), andb_true_r. simpl.
        destruct un; simpl in *; [reflexivity | rewrite A1, A2; reflexivity].
      * destruct t; try discriminate H1. destruct v; try discriminate H1. exact (IH _ _ _ H1 H2).
      * destruct t; try discriminate H1. destruct v; try discriminate H1. exact (IH _ _ _ H1 H2).
    + destruct t; try discriminate H1; try exact (IH _ _ _ H1 H2).
      * destruct t; try discriminate H1. destruct v; try discriminate H1.
        apply andb_true_iff in H1. apply andb_true_iff in H2. destruct H1 as [A1 B1]. destruct H2 as [_ B2].
        rewrite A1, (IH _ _ _ B1 B2). reflexivity.
      * destruct t; try discriminate H1. destruct v; try discriminate H1.
        apply andb_true_iff in H1. apply andb_true_iff in H2. destruct H1 as [A1 B1]. destruct H2 as [_ B2].
        rewrite A1, (IH _ _ _ B1 B2). reflexivity.
  - apply andb_true_iff in H1. apply andb_true_iff in H2. destruct H1 as [A1 B1]. destruct H2 as [_ B2].
    rewrite A1, (IH _ _ _ B1 B2). reflexivity.
  - apply (forallb_meet (okp tb p1 n c t) (okp tb p2 n c t)); [| exact H1 | exact H2].
    intros x _. apply IH.
  - apply andb_true_iff in H1. apply andb_true_iff in H2. destruct H1 as [A1 B1]. destruct H2 as [_ B2].
    rewrite A1. simpl.
    apply (forallb_meet (fun kv => str_ok p1 (fst kv) && okp tb p1 n c t (snd kv))
                        (fun kv => str_ok p2 (fst kv) && okp tb p2 n c t (snd kv))); [| exact B1 | exact B2].
    intros x _ X1 X2. apply andb_true_iff in X1. apply andb_true_iff in X2. destruct X1, X2.
    apply andb_true_iff. split; [apply str_ok_meet; auto | apply IH; auto].
  - destruct (lookup_sd tb n0) as [sd|]; [|discriminate].
    destruct (sd_marshal sd); try discriminate H1; destruct (sd_unmarshal sd); try discriminate H1.
    + apply (fields_ok_meet p1 p2 _ _ _ _ _ _ (fun f v => IH _ _ _) H1 H2).
    + apply (fields_ok_meet p1 p2 _ _ _ _ _ _ (fun f v => IH _ _ _) H1 H2).
    + apply (fields_ok_meet p1 p2 _ _ _ _ _ _ (fun f v => IH _ _ _) H1 H2).
    + destruct (bool_field (sd_fields sd) l "Never") as [[|]|]; try discriminate H1;
        destruct (bool_field (sd_fields sd) l "Always") as [[|]|]; try discriminate H1; try exact H1.
      apply (fields_ok_meet p1 p2 _ _ _ _ _ _ (fun f v => IH _ _ _) H1 H2).
Qed.

Lemma okp_meet : forall n c t v,
  okp tb p1 n c t v = true -> okp tb p2 n c t v = true -> okp tb (pmeet p1 p2) n c t v = true.
Proof.
  induction n as [|n IH].
  - intros c t v H. discriminate.
  - exact (meet_step n IH).
Qed.
End Meet.

Theorem known_classes_cover : forall tb n c t v,
  wellformed tb n c t v = true ->
  kf_nonfinite tb n c t v = false -> kf_any_number tb n c t v = false ->
  kf_empty_omitted tb n c t v = false -> kf_non_utf8 tb n c t v = false ->
  clean tb n c t v = true.
Proof.
  intros tb n c t v Hw K1 K2 K3 K4.
  unfold kf_nonfinite, kf_any_number, kf_empty_omitted, kf_non_utf8 in *.
  rewrite Hw in K1, K2, K3, K4. simpl in K1, K2, K3, K4.
  apply negb_false_iff in K1. apply negb_false_iff in K2. apply negb_false_iff in K3. apply negb_false_iff in K4.
  pose proof (okp_meet tb _ _ n c t v K1 K2) as M12.
  pose proof (okp_meet tb _ _ n c t v K3 K4) as M34.
  exact (okp_meet tb _ _ n c t v M12 M34).
Qed.

Corollary in_known_class_false : forall tb n c t v,
  wellformed tb n c t v = true -> in_known_class tb n c t v = false -> clean tb n c t v = true.
Proof.
  intros tb n c t v Hw H. unfold in_known_class in H.
  apply orb_false_iff in H. destruct H as [H K4]. apply orb_false_iff in H. destruct H as [H K3].
  apply orb_false_iff in H. destruct H as [K1 K2].
  exact (known_classes_cover tb n c t v Hw K1 K2 K3 K4).
Qed.
