(* Proofs/TransparencySyntax.v — C04, evaluator level: the relation between a plaintext program and its encrypted
   form, at the level a user states it ([enc_rel]) and positioned at expression ids ([enc_at]), and the passage
   from the first to the second. *)
From Verif Require Import Base.Bytes Model.Chain Model.GoText Model.Envelope Model.Eval.
From Verif Require Import Proofs.NonInterferenceRel Proofs.NonInterferenceEval.
From Coq Require Import Lia ZifyN ZifyNat ZifyBool.

(* the envelope parameters the evaluator uses *)
Definition std : env_params := {| ep_magic := "escx"; ep_version := 1; ep_min_len := 12 |}.

Section ExprInd.
  Variable P : expr -> Prop.
  Hypothesis H0 : P ENull.
  Hypothesis H1 : forall b, P (EBool b).
  Hypothesis H2 : forall t, P (ENum t).
  Hypothesis H3 : forall s, P (EStr s).
  Hypothesis H4 : forall ps, P (EInterp ps).
  Hypothesis H5 : forall p, P (ESym p).
  Hypothesis H6 : forall l, Forall P l -> P (EArr l).
  Hypothesis H7 : forall l, Forall (fun kv => P (snd kv)) l -> P (EObj l).
  Hypothesis H8 : forall d v, P d -> P v -> P (EJoin d v).
  Hypothesis H9 : forall e, P e -> P (EToJSON e).
  Hypothesis H10 : forall e, P e -> P (EFromJSON e).
  Hypothesis H11 : forall e, P e -> P (EToString e).
  Hypothesis H12 : forall e, P e -> P (EToB64 e).
  Hypothesis H13 : forall e, P e -> P (EFromB64 e).
  Hypothesis H14 : forall s, P (ESecretPlain s).
  Hypothesis H15 : forall r, P (ESecretCipher r).
  Hypothesis H16 : forall p i, P i -> P (EOpen p i).
  Hypothesis H17 : P EMissing.
  Fixpoint expr_ind2 (x : expr) : P x :=
    match x with
    | ENull => H0 | EBool b => H1 b | ENum t => H2 t | EStr s => H3 s | EInterp ps => H4 ps | ESym p => H5 p
    | EArr l => H6 l ((fix go (l : list expr) : Forall P l :=
                         match l with [] => Forall_nil _ | x :: r => Forall_cons x (expr_ind2 x) (go r) end) l)
    | EObj l => H7 l ((fix go (l : list (string * expr)) : Forall (fun kv => P (snd kv)) l :=
                         match l with [] => Forall_nil _ | kv :: r => Forall_cons kv (expr_ind2 (snd kv)) (go r) end) l)
    | EJoin d v => H8 d v (expr_ind2 d) (expr_ind2 v)
    | EToJSON e => H9 e (expr_ind2 e) | EFromJSON e => H10 e (expr_ind2 e) | EToString e => H11 e (expr_ind2 e)
    | EToB64 e => H12 e (expr_ind2 e) | EFromB64 e => H13 e (expr_ind2 e)
    | ESecretPlain s => H14 s | ESecretCipher r => H15 r
    | EOpen p i => H16 p i (expr_ind2 i)
    | EMissing => H17
    end.
End ExprInd.

(* ------------------------------------------------------------------------------------------------ *)
(* the user-level relation                                                                          *)
(* ------------------------------------------------------------------------------------------------ *)
Section REL.
(* the decrypter: environment name, ciphertext -> plaintext *)
Variable dec : string -> string -> option string.

(* [enc_rel env xp xe]: [xe] is [xp] with some plaintext secrets replaced by envelopes that the decrypter of
   environment [env] opens to the same text *)
Inductive enc_rel (env : string) : expr -> expr -> Prop :=
| er_null : enc_rel env ENull ENull
| er_bool b : enc_rel env (EBool b) (EBool b)
| er_num t : enc_rel env (ENum t) (ENum t)
| er_str s : enc_rel env (EStr s) (EStr s)
| er_interp ps : enc_rel env (EInterp ps) (EInterp ps)
| er_sym p : enc_rel env (ESym p) (ESym p)
| er_arr lp le : Forall2 (enc_rel env) lp le -> enc_rel env (EArr lp) (EArr le)
| er_obj lp le : Forall2 (kv_rel (enc_rel env)) lp le -> enc_rel env (EObj lp) (EObj le)
| er_join d d' v v' : enc_rel env d d' -> enc_rel env v v' -> enc_rel env (EJoin d v) (EJoin d' v')
| er_tojson e e' : enc_rel env e e' -> enc_rel env (EToJSON e) (EToJSON e')
| er_fromjson e e' : enc_rel env e e' -> enc_rel env (EFromJSON e) (EFromJSON e')
| er_tostring e e' : enc_rel env e e' -> enc_rel env (EToString e) (EToString e')
| er_tob64 e e' : enc_rel env e e' -> enc_rel env (EToB64 e) (EToB64 e')
| er_fromb64 e e' : enc_rel env e e' -> enc_rel env (EFromB64 e) (EFromB64 e')
| er_plain s : enc_rel env (ESecretPlain s) (ESecretPlain s)
| er_cipher r : enc_rel env (ESecretCipher r) (ESecretCipher r)
| er_secret s r ct : decode_ct std r = DOk ct -> dec env ct = Some s -> enc_rel env (ESecretPlain s) (ESecretCipher r)
| er_open p i i' : enc_rel env i i' -> enc_rel env (EOpen p i) (EOpen p i')
| er_missing : enc_rel env EMissing EMissing.

Definition enc_env (env : string) (dp de : envdef) : Prop :=
  ed_imports dp = ed_imports de /\ Forall2 (kv_rel (enc_rel env)) (ed_values dp) (ed_values de).

(* ------------------------------------------------------------------------------------------------ *)
(* positions                                                                                        *)
(* ------------------------------------------------------------------------------------------------ *)
(* the child of an expression reached by one id step, exactly as the evaluator numbers them *)
Definition sub1 (st : idstep) (x : expr) : option expr :=
  match x with
  | EArr l => match st with IIdx i => nth_error l i | _ => None end
  | EObj l => match st with IKey k => option_map snd (find_entry k l 0) | _ => None end
  | EJoin d v => match st with IIdx 0 => Some d | IIdx 1 => Some v | _ => None end
  | EToJSON e | EFromJSON e | EToString e | EToB64 e | EFromB64 e => match st with IIdx 0 => Some e | _ => None end
  | EOpen _ i => match st with IIdx 0 => Some i | _ => None end
  | ESecretPlain s => match st with IIdx 0 => Some (EStr s) | _ => None end
  | _ => None
  end.

Fixpoint sub_at (p : list idstep) (x : expr) : option expr :=
  match p with
  | [] => Some x
  | st :: r => match sub1 st x with Some y => sub_at r y | None => None end
  end.

Lemma sub_at_snoc p st x : sub_at (p ++ [st]) x = match sub_at p x with Some y => sub1 st y | None => None end.
Proof.
  revert x; induction p as [|a p IH]; intros x; simpl; [now destruct (sub1 st x)|].
  destruct (sub1 a x); [apply IH|reflexivity].
Qed.

(* the ghost: which ids are the inner literal of a secret that is plaintext on one side and an envelope on the other,
   and what its text is *)
Variables rootp roote : string -> option expr.

Definition G_of (k : eid) : option string :=
  match rev (snd k) with
  | IIdx 0 :: rp =>
      match rootp (fst k), roote (fst k) with
      | Some xp, Some xe =>
          match sub_at (rev rp) xp, sub_at (rev rp) xe with
          | Some (ESecretPlain s), Some (ESecretCipher _) => Some s
          | _, _ => None
          end
      | _, _ => None
      end
  | _ => None
  end.

Lemma G_root n : G_of (n, []) = None.
Proof. reflexivity. Qed.

Lemma G_child n p st rp re xp xe :
  rootp n = Some rp -> roote n = Some re -> sub_at p rp = Some xp -> sub_at p re = Some xe ->
  (forall s r, xp = ESecretPlain s -> xe = ESecretCipher r -> False) -> G_of (n, p ++ [st]) = None.
Proof.
  intros Hp He Sp Se Hn. unfold G_of. cbn [fst snd]. rewrite rev_app_distr. simpl.
  destruct st as [k|[|i]]; try reflexivity. rewrite rev_involutive, Hp, He, Sp, Se.
  destruct xp; try reflexivity. destruct xe; try reflexivity. exfalso. eapply Hn; reflexivity.
Qed.

Lemma G_secret n p rp re s r :
  rootp n = Some rp -> roote n = Some re -> sub_at p rp = Some (ESecretPlain s) -> sub_at p re = Some (ESecretCipher r) ->
  G_of (n, p ++ [IIdx 0]) = Some s.
Proof.
  intros Hp He Sp Se. unfold G_of. cbn [fst snd]. rewrite rev_app_distr. simpl. now rewrite rev_involutive, Hp, He, Sp, Se.
Qed.

End REL.

(* ------------------------------------------------------------------------------------------------ *)
(* the positioned relation used by the simulation                                                   *)
(* ------------------------------------------------------------------------------------------------ *)
Section AT.
Variable dec : string -> string -> option string.
Variable G : eid -> option string.

(* [enc_at n p xp xe]: the expressions evaluated at id (n, p) in the plaintext / encrypted run *)
Inductive enc_at (n : string) : list idstep -> expr -> expr -> Prop :=
| ea_null p : G (n, p) = None -> enc_at n p ENull ENull
| ea_bool p b : G (n, p) = None -> enc_at n p (EBool b) (EBool b)
| ea_num p t : G (n, p) = None -> enc_at n p (ENum t) (ENum t)
| ea_str p s : G (n, p) = None -> enc_at n p (EStr s) (EStr s)
| ea_interp p ps : G (n, p) = None -> enc_at n p (EInterp ps) (EInterp ps)
| ea_sym p q : G (n, p) = None -> enc_at n p (ESym q) (ESym q)
| ea_arr p lp le : G (n, p) = None -> length lp = length le ->
    (forall i a, nth_error lp i = Some a -> exists b, nth_error le i = Some b /\ enc_at n (p ++ [IIdx i]) a b) ->
    enc_at n p (EArr lp) (EArr le)
| ea_obj p lp le : G (n, p) = None -> map fst lp = map fst le ->
    (forall k i px, find_entry k lp 0 = Some (i, px) ->
       exists px', find_entry k le 0 = Some (i, px') /\ enc_at n (p ++ [IKey k]) px px') ->
    enc_at n p (EObj lp) (EObj le)
| ea_join p d d' v v' : G (n, p) = None -> enc_at n (p ++ [IIdx 0]) d d' -> enc_at n (p ++ [IIdx 1]) v v' ->
    enc_at n p (EJoin d v) (EJoin d' v')
| ea_tojson p e e' : G (n, p) = None -> enc_at n (p ++ [IIdx 0]) e e' -> enc_at n p (EToJSON e) (EToJSON e')
| ea_fromjson p e e' : G (n, p) = None -> enc_at n (p ++ [IIdx 0]) e e' -> enc_at n p (EFromJSON e) (EFromJSON e')
| ea_tostring p e e' : G (n, p) = None -> enc_at n (p ++ [IIdx 0]) e e' -> enc_at n p (EToString e) (EToString e')
| ea_tob64 p e e' : G (n, p) = None -> enc_at n (p ++ [IIdx 0]) e e' -> enc_at n p (EToB64 e) (EToB64 e')
| ea_fromb64 p e e' : G (n, p) = None -> enc_at n (p ++ [IIdx 0]) e e' -> enc_at n p (EFromB64 e) (EFromB64 e')
| ea_plain p s : G (n, p) = None -> G (n, p ++ [IIdx 0]) = None -> enc_at n p (ESecretPlain s) (ESecretPlain s)
| ea_cipher p r : G (n, p) = None -> enc_at n p (ESecretCipher r) (ESecretCipher r)
| ea_secret p s r ct : G (n, p) = None -> G (n, p ++ [IIdx 0]) = Some s ->
    decode_ct std r = DOk ct -> dec n ct = Some s -> enc_at n p (ESecretPlain s) (ESecretCipher r)
| ea_open p pn i i' : G (n, p) = None -> enc_at n (p ++ [IIdx 0]) i i' -> enc_at n p (EOpen pn i) (EOpen pn i')
| ea_missing p : G (n, p) = None -> enc_at n p EMissing EMissing.

Lemma enc_at_clean n p xp xe : enc_at n p xp xe -> G (n, p) = None.
Proof. destruct 1; assumption. Qed.

End AT.

(* ------------------------------------------------------------------------------------------------ *)
(* from the user-level relation to the positioned one                                                *)
(* ------------------------------------------------------------------------------------------------ *)
Lemma find_entry_In {A} k (l : list (string * A)) : forall i j v, find_entry k l i = Some (j, v) -> In (k, v) l.
Proof.
  induction l as [|[k' v'] l IH]; intros i j v E; simpl in *; [discriminate|].
  destruct (String.eqb k k') eqn:Ek.
  - apply String.eqb_eq in Ek. subst. injection E as _ <-. now left.
  - right. eauto.
Qed.

Lemma F2_nth_err {A B} (R : A -> B -> Prop) l l' i a :
  Forall2 R l l' -> nth_error l i = Some a -> exists b, nth_error l' i = Some b /\ R a b.
Proof. intros H; revert i; induction H; intros [|i] E; simpl in *; try discriminate; [injection E as <-; eauto|eauto]. Qed.

Section LIFT.
Variable dec : string -> string -> option string.
Variables rootp roote : string -> option expr.
Notation G := (G_of rootp roote).

Lemma enc_rel_at n rp re : rootp n = Some rp -> roote n = Some re ->
  forall xp xe p, enc_rel dec n xp xe -> sub_at p rp = Some xp -> sub_at p re = Some xe -> G (n, p) = None ->
  enc_at dec G n p xp xe.
Proof.
  intros Hp He. induction xp using expr_ind2; intros xe pp HR Sp Se HG; inversion HR; subst; try (now constructor).
  - (* EArr *)
    constructor; [exact HG|eapply Forall2_length; eassumption|].
    intros i a Ha. destruct (F2_nth_err _ _ _ _ _ H1 Ha) as (b & Hb & Hab).
    exists b. split; [exact Hb|]. rewrite Forall_forall in H. apply H; [eapply nth_error_In; eassumption|exact Hab| | |].
    + rewrite sub_at_snoc, Sp. exact Ha.
    + rewrite sub_at_snoc, Se. exact Hb.
    + eapply G_child; try eassumption. intros; discriminate.
  - (* EObj *)
    constructor; [exact HG|eapply kv_keys; eassumption|].
    intros k i px F. pose proof (find_entry_rel (enc_rel dec n) k _ _ H1 O) as HF. rewrite F in HF.
    destruct (find_entry k le 0) as [[i' px']|] eqn:F'; simpl in HF; [|contradiction]. destruct HF as [Ei Hpx].
    simpl in Ei. subst i'. exists px'. split; [reflexivity|].
    rewrite Forall_forall in H. apply (H (k, px) (find_entry_In _ _ _ _ _ F)); [exact Hpx| | |].
    + rewrite sub_at_snoc, Sp. simpl. now rewrite F.
    + rewrite sub_at_snoc, Se. simpl. now rewrite F'.
    + eapply G_child; try eassumption. intros; discriminate.
  - (* EJoin *)
    constructor; [exact HG| |].
    + apply IHxp1; [assumption|now rewrite sub_at_snoc, Sp|now rewrite sub_at_snoc, Se|].
      eapply G_child; try eassumption. intros; discriminate.
    + apply IHxp2; [assumption|now rewrite sub_at_snoc, Sp|now rewrite sub_at_snoc, Se|].
      eapply G_child; try eassumption. intros; discriminate.
  - constructor; [exact HG|]. apply IHxp; [assumption|now rewrite sub_at_snoc, Sp|now rewrite sub_at_snoc, Se|].
    eapply G_child; try eassumption. intros; discriminate.
  - constructor; [exact HG|]. apply IHxp; [assumption|now rewrite sub_at_snoc, Sp|now rewrite sub_at_snoc, Se|].
    eapply G_child; try eassumption. intros; discriminate.
  - constructor; [exact HG|]. apply IHxp; [assumption|now rewrite sub_at_snoc, Sp|now rewrite sub_at_snoc, Se|].
    eapply G_child; try eassumption. intros; discriminate.
  - constructor; [exact HG|]. apply IHxp; [assumption|now rewrite sub_at_snoc, Sp|now rewrite sub_at_snoc, Se|].
    eapply G_child; try eassumption. intros; discriminate.
  - constructor; [exact HG|]. apply IHxp; [assumption|now rewrite sub_at_snoc, Sp|now rewrite sub_at_snoc, Se|].
    eapply G_child; try eassumption. intros; discriminate.
  - (* ESecretPlain on both sides *)
    constructor; [exact HG|]. eapply G_child; try eassumption. intros; discriminate.
  - (* the secret pair *)
    econstructor; [exact HG| |eassumption|eassumption]. eapply G_secret; eassumption.
  - (* EOpen *)
    constructor; [exact HG|]. apply IHxp; [assumption|now rewrite sub_at_snoc, Sp|now rewrite sub_at_snoc, Se|].
    eapply G_child; try eassumption. intros; discriminate.
Qed.

End LIFT.
