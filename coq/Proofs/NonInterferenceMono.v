(* Proofs/NonInterferenceMono.v — diagnostics are never retracted: if a computation of the evaluator ends in a
   state without diagnostics and without fuel exhaustion ("good"), the state it started from was good too.
   For all worlds, fuels, programs, states.  (Used to cut a good run into good prefixes.) *)
From Verif Require Import Base.Bytes Model.Chain Model.GoText Model.Envelope Model.Eval.
From Verif Require Import Proofs.NonInterferenceTwins.
From Coq Require Import Lia ZifyN ZifyNat ZifyBool.

Create HintDb mono.

Definition good (s : st) : Prop := nerr s = 0 /\ oof s = false.

Definition mono {A} (m : M A) : Prop := forall s, good (snd (m s)) -> good s.

Lemma mono_ret {A} (a : A) : mono (ret a).
Proof. intros s H; exact H. Qed.

Lemma mono_bind {A B} (m : M A) (k : A -> M B) : mono m -> (forall a, mono (k a)) -> mono (bind m k).
Proof.
  intros Hm Hk s H. unfold bind in H. apply Hm. destruct (m s) as [a s'] eqn:E. simpl. eapply Hk, H.
Qed.

Lemma mono_add_err n : mono (add_err n).
Proof. intros s [H1 H2]; simpl in *. split; [lia|exact H2]. Qed.

Lemma mono_err : mono err.
Proof. apply mono_add_err. Qed.

Lemma mono_emit e : mono (emit e).
Proof. intros s H; exact H. Qed.

Lemma mono_oof : mono out_of_fuel.
Proof. intros s [H1 H2]; simpl in *. discriminate. Qed.

Lemma mono_call W : mono (call W).
Proof. intros s H; exact H. Qed.

Lemma mono_memo_set id v : mono (memo_set id v).
Proof. intros s H; exact H. Qed.

Lemma mono_get_memo id : mono (get_memo id).
Proof. intros s H; exact H. Qed.

Lemma mono_imps_get n : mono (imps_get n).
Proof. intros s H; exact H. Qed.

Lemma mono_imps_set n v : mono (imps_set n v).
Proof. intros s H; exact H. Qed.

(* a tactic that discharges [mono] of any straight-line monadic code, given [mono] hints for the calls in it *)
Ltac mono_step :=
  lazymatch goal with
  | |- mono (ret _) => apply mono_ret
  | |- mono (bind _ _) => apply mono_bind; [|intro]
  | |- mono (add_err _) => apply mono_add_err
  | |- mono err => apply mono_err
  | |- mono (emit _) => apply mono_emit
  | |- mono out_of_fuel => apply mono_oof
  | |- mono (call _) => apply mono_call
  | |- mono (memo_set _ _) => apply mono_memo_set
  | |- mono (get_memo _) => apply mono_get_memo
  | |- mono (imps_get _) => apply mono_imps_get
  | |- mono (imps_set _ _) => apply mono_imps_set
  | |- mono (match ?x with _ => _ end) => destruct x
  | |- mono (let _ := _ in _) => cbv zeta
  end.

Ltac mono_tac := repeat first [ assumption | solve [auto with mono] | mono_step ].

Section MONO.
Variable W : world.

Lemma mono_tails :
  (forall dr vr, mono (join_tail dr vr)) /\ (forall r, mono (fromb64_tail r)) /\ (forall r, mono (tob64_tail r)) /\
  (forall r, mono (fromjson_tail r)) /\ (forall v, mono (tojson_tail v)) /\ (forall v, mono (tostring_tail v)) /\
  (forall E repr, mono (cipher_body W E repr)) /\ (forall E id pn prov r, mono (open_tail W E id pn prov r)).
Proof.
  repeat apply conj; intros.
  - unfold join_tail. mono_tac.
  - unfold fromb64_tail. mono_tac.
  - unfold tob64_tail. mono_tac.
  - unfold fromjson_tail. mono_tac.
  - unfold tojson_tail. mono_tac.
  - unfold tostring_tail. mono_tac.
  - unfold cipher_body. mono_tac.
  - unfold open_tail. mono_tac.
Qed.

Definition mono_all (f : nat) : Prop :=
  (forall E x xsec xbase id, mono (eval_expr W f E x xsec xbase id)) /\
  (forall E x xbase id, mono (eval_repr W f E x xbase id)) /\
  (forall E x a id, mono (eval_typed W f E x a id)) /\
  (forall E p, mono (eval_access W f E p)) /\
  (forall E rx rsec rbase rid accs, mono (walk W f E rx rsec rbase rid accs)).

Lemma mono_interp_go f E : (forall p, mono (eval_access W f E p)) ->
  forall ps acc unk sec, mono (interp_go W f E ps acc unk sec).
Proof.
  intros HA. induction ps as [|[text [p|]] r IH]; intros acc unk sec.
  - rewrite interp_go_nil. mono_tac.
  - rewrite interp_go_ref. apply mono_bind; [apply HA|]. intros pv.
    destruct (to_string (ts_need pv) pv) as [[s u] sc]. apply IH.
  - rewrite interp_go_text. apply IH.
Qed.

Lemma mono_arr_go f E id : (forall x xsec xbase id, mono (eval_expr W f E x xsec xbase id)) ->
  forall es i acc, mono (arr_go W f E id es i acc).
Proof.
  intros HA. induction es as [|e r IH]; intros i acc.
  - rewrite arr_go_nil. mono_tac.
  - rewrite arr_go_cons. apply mono_bind; [apply HA|]. intros v. apply IH.
Qed.

Lemma mono_obj_go f E xbase id : (forall x xsec xbase id, mono (eval_expr W f E x xsec xbase id)) ->
  forall ds acc, mono (obj_go W f E xbase id ds acc).
Proof.
  intros HA. induction ds as [|[[i k] e] r IH]; intros acc.
  - rewrite obj_go_nil. mono_tac.
  - rewrite obj_go_cons. apply mono_bind; [apply HA|]. intros v. apply IH.
Qed.

Theorem eval_mono : forall f, mono_all f.
Proof.
  destruct mono_tails as (Tj & Tfb & Ttb & Tfj & Ttj & Tts & Tc & To).
  induction f as [|f (IHe & IHr & IHt & IHa & IHw)]; unfold mono_all.
  - repeat apply conj; intros.
    + rewrite eval_expr_O. mono_tac.
    + rewrite eval_repr_O. mono_tac.
    + rewrite eval_typed_O. mono_tac.
    + rewrite eval_access_O. mono_tac.
    + rewrite walk_O. mono_tac.
  - repeat apply conj; intros.
    + rewrite eval_expr_S. mono_tac.
    + rewrite eval_repr_S. destruct x; cbn [repr_body]; try solve [mono_tac].
      * apply mono_interp_go, IHa.
      * apply mono_arr_go, IHe.
      * destruct (declared l 0 []) as [decl dups]. apply mono_bind; [apply mono_add_err|intros _]. apply mono_obj_go, IHe.
      * unfold open_body. mono_tac.
    + rewrite eval_typed_S. mono_tac.
    + rewrite eval_access_S. unfold access_body. mono_tac.
    + rewrite walk_S. unfold walk_body. destruct accs; [apply IHe|]. destruct rx; mono_tac.
Qed.

Lemma mono_eval_expr f E x xsec xbase id : mono (eval_expr W f E x xsec xbase id).
Proof. apply eval_mono. Qed.
Lemma mono_eval_repr f E x xbase id : mono (eval_repr W f E x xbase id).
Proof. apply eval_mono. Qed.
Lemma mono_eval_typed f E x a id : mono (eval_typed W f E x a id).
Proof. apply eval_mono. Qed.
Lemma mono_eval_access f E p : mono (eval_access W f E p).
Proof. apply eval_mono. Qed.
Lemma mono_walk f E rx rsec rbase rid accs : mono (walk W f E rx rsec rbase rid accs).
Proof. apply eval_mono. Qed.

Lemma mono_imports_go f root' : (forall root n d, mono (eval_env W f root n d)) ->
  forall is base my, mono (imports_go W f root' is base my).
Proof.
  intros HE. induction is as [|[n merge] rest IH]; intros base my.
  - rewrite imports_go_nil. mono_tac.
  - rewrite imports_go_cons. apply mono_bind; [apply mono_imps_get|]. intros [i|].
    + destruct (is_evaluating i); [|destruct (is_value i); apply IH]. apply mono_bind; [apply mono_err|intros _; apply IH].
    + apply mono_bind; [apply mono_call|]. intros failed. apply mono_bind; [apply mono_emit|intros _].
      destruct (if failed then LoadFail else match alookup n (w_envs W) with Some l => l | None => LoadFail end).
      * apply mono_bind; [apply mono_err|intros _]. apply mono_bind; [apply mono_imps_set|intros _; apply IH].
      * apply mono_bind; [apply mono_err|intros _]. apply mono_bind; [apply mono_imps_set|intros _; apply IH].
      * apply mono_bind; [apply HE|]. intros v. apply mono_bind; [apply mono_imps_set|intros _; apply IH].
Qed.

Theorem mono_eval_env : forall f root name d, mono (eval_env W f root name d).
Proof.
  induction f as [|f IH]; intros root name d.
  - rewrite eval_env_O. mono_tac.
  - rewrite eval_env_S. cbv zeta. apply mono_bind; [apply mono_imps_set|intros _].
    apply mono_bind; [apply mono_imports_go, IH|]. intros [base my].
    apply mono_bind; [apply mono_imps_set|intros _]. apply mono_bind; [apply mono_add_err|intros _].
    apply mono_eval_expr.
Qed.

End MONO.

#[export] Hint Resolve mono_eval_expr mono_eval_repr mono_eval_typed mono_eval_access mono_walk mono_eval_env : mono.
