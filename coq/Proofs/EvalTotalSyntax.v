(* Proofs/EvalTotalSyntax.v — structural facts about the nested inductive [expr]: induction principle,
   the relation "same expression up to the order of (unique) object keys", sizes. *)
From Verif Require Import Base.Bytes Model.Chain Model.Eval Proofs.EvalTotalOrder.
From Coq Require Import Lia Sorting.Permutation.

(* ---------------- induction principle ---------------- *)
Section EXPR_IND.
Variable P : expr -> Prop.
Hypothesis Hnull : P ENull.
Hypothesis Hbool : forall b, P (EBool b).
Hypothesis Hnum : forall t, P (ENum t).
Hypothesis Hstr : forall s, P (EStr s).
Hypothesis Hinterp : forall parts, P (EInterp parts).
Hypothesis Hsym : forall p, P (ESym p).
Hypothesis Harr : forall l, Forall P l -> P (EArr l).
Hypothesis Hobj : forall l, Forall (fun kv => P (snd kv)) l -> P (EObj l).
Hypothesis Hjoin : forall d vs, P d -> P vs -> P (EJoin d vs).
Hypothesis Htojson : forall e, P e -> P (EToJSON e).
Hypothesis Hfromjson : forall e, P e -> P (EFromJSON e).
Hypothesis Htostring : forall e, P e -> P (EToString e).
Hypothesis Htob64 : forall e, P e -> P (EToB64 e).
Hypothesis Hfromb64 : forall e, P e -> P (EFromB64 e).
Hypothesis Hsecret : forall s, P (ESecretPlain s).
Hypothesis Hcipher : forall r, P (ESecretCipher r).
Hypothesis Hopen : forall p e, P e -> P (EOpen p e).
Hypothesis Hmissing : P EMissing.

Fixpoint expr_ind' (x : expr) : P x :=
  match x with
  | ENull => Hnull | EBool b => Hbool b | ENum t => Hnum t | EStr s => Hstr s
  | EInterp parts => Hinterp parts
  | ESym p => Hsym p
  | EArr l => Harr l ((fix go (l : list expr) : Forall P l :=
                         match l with [] => Forall_nil _ | e :: r => Forall_cons _ (expr_ind' e) (go r) end) l)
  | EObj l => Hobj l ((fix go (l : list (string * expr)) : Forall (fun kv => P (snd kv)) l :=
                         match l with [] => Forall_nil _ | kv :: r => Forall_cons _ (expr_ind' (snd kv)) (go r) end) l)
  | EJoin d vs => Hjoin d vs (expr_ind' d) (expr_ind' vs)
  | EToJSON e => Htojson e (expr_ind' e)
  | EFromJSON e => Hfromjson e (expr_ind' e)
  | EToString e => Htostring e (expr_ind' e)
  | EToB64 e => Htob64 e (expr_ind' e)
  | EFromB64 e => Hfromb64 e (expr_ind' e)
  | ESecretPlain s => Hsecret s
  | ESecretCipher r => Hcipher r
  | EOpen p e => Hopen p e (expr_ind' e)
  | EMissing => Hmissing
  end.
End EXPR_IND.

(* ---------------- equality up to the order of object keys ---------------- *)
(* [l] and [m] list the same entries: identical, or a permutation when the keys are unique *)
Definition reorder {A} (l m : list (string * A)) : Prop :=
  l = m \/ (NoDup (map fst l) /\ Permutation l m).

Inductive expr_perm : expr -> expr -> Prop :=
| EP_null : expr_perm ENull ENull
| EP_bool b : expr_perm (EBool b) (EBool b)
| EP_num t : expr_perm (ENum t) (ENum t)
| EP_str s : expr_perm (EStr s) (EStr s)
| EP_interp parts : expr_perm (EInterp parts) (EInterp parts)
| EP_sym p : expr_perm (ESym p) (ESym p)
| EP_arr l l' : Forall2 expr_perm l l' -> expr_perm (EArr l) (EArr l')
| EP_obj l m l' :
    reorder l m ->
    Forall2 (fun a b => fst a = fst b /\ expr_perm (snd a) (snd b)) m l' ->
    expr_perm (EObj l) (EObj l')
| EP_join d vs d' vs' : expr_perm d d' -> expr_perm vs vs' -> expr_perm (EJoin d vs) (EJoin d' vs')
| EP_tojson e e' : expr_perm e e' -> expr_perm (EToJSON e) (EToJSON e')
| EP_fromjson e e' : expr_perm e e' -> expr_perm (EFromJSON e) (EFromJSON e')
| EP_tostring e e' : expr_perm e e' -> expr_perm (EToString e) (EToString e')
| EP_tob64 e e' : expr_perm e e' -> expr_perm (EToB64 e) (EToB64 e')
| EP_fromb64 e e' : expr_perm e e' -> expr_perm (EFromB64 e) (EFromB64 e')
| EP_secret s : expr_perm (ESecretPlain s) (ESecretPlain s)
| EP_cipher r : expr_perm (ESecretCipher r) (ESecretCipher r)
| EP_open p e e' : expr_perm e e' -> expr_perm (EOpen p e) (EOpen p e')
| EP_missing : expr_perm EMissing EMissing.

Lemma expr_perm_refl : forall x, expr_perm x x.
Proof.
  induction x using expr_ind'; try (constructor; assumption).
  - constructor. induction H; constructor; assumption.
  - apply EP_obj with (m := l); [left; reflexivity|].
    induction H; constructor; [split; [reflexivity|assumption]|assumption].
Qed.

(* plain reordering of the keys of one object, sub-expressions untouched *)
Lemma krel_refl_list (l : list (string * expr)) :
  Forall2 (fun a b => fst a = fst b /\ expr_perm (snd a) (snd b)) l l.
Proof. induction l; constructor; [split; [reflexivity|apply expr_perm_refl]|assumption]. Qed.

Lemma expr_perm_obj_reorder l l' : NoDup (map fst l) -> Permutation l l' -> expr_perm (EObj l) (EObj l').
Proof.
  intros Hn Hp. apply EP_obj with (m := l'); [right; split; assumption|apply krel_refl_list].
Qed.

(* ------------------------------------------------------------------------------------------------ *)
(* sizes and positions (used by the fuel bound)                                                     *)
(* ------------------------------------------------------------------------------------------------ *)

(* no fn::toJSON / fn::fromJSON anywhere (their non-ASCII cases are reported through the fuel flag) *)
Fixpoint no_json (x : expr) : bool :=
  match x with
  | EToJSON _ | EFromJSON _ => false
  | EArr l => forallb no_json l
  | EObj l => forallb (fun kv => no_json (snd kv)) l
  | EJoin d vs => no_json d && no_json vs
  | EToString e | EToB64 e | EFromB64 e | EOpen _ e => no_json e
  | _ => true
  end.

Definition part_len (tp : string * option path) : nat :=
  match snd tp with Some p => length p | None => 0%nat end.

(* the longest reference path written anywhere in the expression *)
Fixpoint max_path (x : expr) : nat :=
  match x with
  | ESym p => length p
  | EInterp parts => fold_right (fun tp a => Nat.max (part_len tp) a) 0%nat parts
  | EArr l => fold_right (fun e a => Nat.max (max_path e) a) 0%nat l
  | EObj l => fold_right (fun kv a => Nat.max (max_path (snd kv)) a) 0%nat l
  | EJoin d vs => Nat.max (max_path d) (max_path vs)
  | EToJSON e | EFromJSON e | EToString e | EToB64 e | EFromB64 e | EOpen _ e => max_path e
  | _ => 0%nat
  end.

(* identity paths of all sub-expression positions (an over-approximation: duplicate keys are all listed) *)
Fixpoint all_paths (x : expr) : list (list idstep) :=
  [] ::
  match x with
  | EArr l =>
      (fix go (l : list expr) (i : nat) : list (list idstep) :=
         match l with
         | [] => []
         | e :: r => map (cons (IIdx i)) (all_paths e) ++ go r (S i)
         end) l 0%nat
  | EObj l =>
      (fix go (l : list (string * expr)) : list (list idstep) :=
         match l with
         | [] => []
         | kv :: r => map (cons (IKey (fst kv))) (all_paths (snd kv)) ++ go r
         end) l
  | EJoin d vs => map (cons (IIdx 0)) (all_paths d) ++ map (cons (IIdx 1)) (all_paths vs)
  | EToJSON e | EFromJSON e | EToString e | EToB64 e | EFromB64 e | EOpen _ e => map (cons (IIdx 0)) (all_paths e)
  | ESecretPlain s => [[IIdx 0%nat]]
  | _ => []
  end.

Fixpoint arr_paths (l : list expr) (i : nat) : list (list idstep) :=
  match l with
  | [] => []
  | e :: r => map (cons (IIdx i)) (all_paths e) ++ arr_paths r (S i)
  end.
Fixpoint obj_paths (l : list (string * expr)) : list (list idstep) :=
  match l with
  | [] => []
  | kv :: r => map (cons (IKey (fst kv))) (all_paths (snd kv)) ++ obj_paths r
  end.
Lemma all_paths_arr l : all_paths (EArr l) = [] :: arr_paths l 0.
Proof. reflexivity. Qed.
Lemma all_paths_obj l : all_paths (EObj l) = [] :: obj_paths l.
Proof. reflexivity. Qed.

(* the sub-expression one identity step below x — the same steps eval_repr and walk append to identities *)
Definition child (x : expr) (stp : idstep) : option expr :=
  match x, stp with
  | EArr l, IIdx i => nth_error l i
  | EObj l, IKey k => alookup k l
  | EJoin d vs, IIdx 0 => Some d
  | EJoin d vs, IIdx 1 => Some vs
  | EToJSON e, IIdx 0 | EFromJSON e, IIdx 0 | EToString e, IIdx 0
  | EToB64 e, IIdx 0 | EFromB64 e, IIdx 0 | EOpen _ e, IIdx 0 => Some e
  | ESecretPlain s, IIdx 0 => Some (EStr s)
  | _, _ => None
  end.

Fixpoint sub_at (x : expr) (p : list idstep) : option expr :=
  match p with
  | [] => Some x
  | stp :: q => match child x stp with Some y => sub_at y q | None => None end
  end.

Lemma sub_at_app x p stp :
  sub_at x (p ++ [stp]) = match sub_at x p with Some y => child y stp | None => None end.
Proof.
  revert x. induction p as [|a q IH]; intro x; cbn [app sub_at].
  - destruct (child x stp); reflexivity.
  - destruct (child x a); [apply IH|reflexivity].
Qed.

Lemma nil_in_paths x : In [] (all_paths x).
Proof. destruct x; left; reflexivity. Qed.

Lemma arr_paths_in l : forall i j e q, nth_error l j = Some e -> In q (all_paths e) ->
  In (IIdx (i + j) :: q) (arr_paths l i).
Proof.
  induction l as [|e0 r IH]; intros i j e q Hn Hq; [destruct j; discriminate|].
  cbn [arr_paths]. apply in_or_app. destruct j as [|j].
  - injection Hn as ->. left. rewrite Nat.add_0_r. apply in_map, Hq.
  - right. replace (i + S j)%nat with (S i + j)%nat by lia. eapply IH; eassumption.
Qed.

Lemma obj_paths_in l : forall k e q, In (k, e) l -> In q (all_paths e) -> In (IKey k :: q) (obj_paths l).
Proof.
  induction l as [|[k0 e0] r IH]; intros k e q Hin Hq; [contradiction|].
  cbn [obj_paths fst snd]. apply in_or_app. destruct Hin as [[= -> ->]|Hin].
  - left. apply in_map, Hq.
  - right. eapply IH; eassumption.
Qed.

Lemma child_in_paths x stp y q : child x stp = Some y -> In q (all_paths y) -> In (stp :: q) (all_paths x).
Proof.
  intros Hc Hq. destruct x; cbn [child] in Hc; try discriminate.
  - destruct stp as [k|i]; [discriminate|]. rewrite all_paths_arr. right.
    apply (arr_paths_in l 0 i y q Hc Hq).
  - destruct stp as [k|i]; [|discriminate]. rewrite all_paths_obj. right.
    apply (obj_paths_in l k y q); [apply alookup_in, Hc|exact Hq].
  - destruct stp as [k|[|[|i]]]; try discriminate; injection Hc as ->; right; apply in_or_app;
      [left|right]; apply in_map, Hq.
  - destruct stp as [k|[|i]]; try discriminate. injection Hc as ->. right. apply in_map, Hq.
  - destruct stp as [k|[|i]]; try discriminate. injection Hc as ->. right. apply in_map, Hq.
  - destruct stp as [k|[|i]]; try discriminate. injection Hc as ->. right. apply in_map, Hq.
  - destruct stp as [k|[|i]]; try discriminate. injection Hc as ->. right. apply in_map, Hq.
  - destruct stp as [k|[|i]]; try discriminate. injection Hc as ->. right. apply in_map, Hq.
  - destruct stp as [k|[|i]]; try discriminate. injection Hc as <-. right.
    destruct Hq as [<-|[]]. left. reflexivity.
  - destruct stp as [k|[|i]]; try discriminate. injection Hc as ->. right. apply in_map, Hq.
Qed.

Lemma sub_at_in_paths : forall p x y, sub_at x p = Some y -> In p (all_paths x).
Proof.
  induction p as [|stp q IH]; intros x y H; [apply nil_in_paths|].
  cbn [sub_at] in H. destruct (child x stp) as [z|] eqn:Hc; [|discriminate].
  eapply child_in_paths; [exact Hc|eapply IH, H].
Qed.

(* "good": no JSON builtins, all reference paths of length at most L; inherited by children *)
Definition good (L : nat) (x : expr) : Prop := no_json x = true /\ (max_path x <= L)%nat.

Lemma max_path_arr_in l e : In e l -> (max_path e <= max_path (EArr l))%nat.
Proof.
  cbn [max_path]. induction l as [|a r IH]; [contradiction|]. cbn [fold_right].
  intros [->|H]; [lia|]. specialize (IH H). lia.
Qed.
Lemma max_path_obj_in l k e : In (k, e) l -> (max_path e <= max_path (EObj l))%nat.
Proof.
  cbn [max_path]. induction l as [|a r IH]; [contradiction|]. cbn [fold_right].
  intros [->|H]; [cbn [snd]; lia|]. specialize (IH H). lia.
Qed.
Lemma max_path_interp_in parts text p : In (text, Some p) parts -> (length p <= max_path (EInterp parts))%nat.
Proof.
  cbn [max_path]. induction parts as [|a r IH]; [contradiction|]. cbn [fold_right].
  intros [->|H]; [cbn [part_len snd]; lia|]. specialize (IH H). lia.
Qed.

Lemma child_good L x stp y : good L x -> child x stp = Some y -> good L y.
Proof.
  intros [Hj Hm] Hc. destruct x; cbn [child] in Hc; try discriminate.
  - destruct stp as [k|i]; [discriminate|]. apply nth_error_In in Hc. split.
    + cbn [no_json] in Hj. rewrite forallb_forall in Hj. apply Hj, Hc.
    + pose proof (max_path_arr_in l y Hc). lia.
  - destruct stp as [k|i]; [|discriminate]. apply alookup_in in Hc. split.
    + cbn [no_json] in Hj. rewrite forallb_forall in Hj. apply (Hj _ Hc).
    + pose proof (max_path_obj_in l k y Hc). lia.
  - cbn [no_json max_path] in *. apply andb_true_iff in Hj.
    destruct stp as [k|[|[|i]]]; try discriminate; injection Hc as ->; split; try tauto; lia.
  - destruct stp as [k|[|i]]; try discriminate. injection Hc as ->. split; assumption.
  - destruct stp as [k|[|i]]; try discriminate. injection Hc as ->. split; assumption.
  - destruct stp as [k|[|i]]; try discriminate. injection Hc as ->. split; assumption.
  - destruct stp as [k|[|i]]; try discriminate. injection Hc as <-. split; [reflexivity|cbn; lia].
  - destruct stp as [k|[|i]]; try discriminate. injection Hc as ->. split; assumption.
Qed.
