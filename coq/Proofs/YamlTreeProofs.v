(* Proofs/YamlTreeProofs.v — induction principles for the nested tree types, mapR lemmas, and the normal form
   of MarshalYAML after unmarshalYAMLNode on trees of the accepted subset. *)
From Verif Require Import Base.Bytes Model.YamlTree.
From Coq Require Import Lia.

(* ---------------- induction principles ---------------- *)
Section SnodeInd.
  Variable P : snode -> Prop.
  Hypothesis Hnull : forall s, P (SNull s).
  Hypothesis Hbool : forall s, P (SBool s).
  Hypothesis Hnum : forall s, P (SNum s).
  Hypothesis Hstr : forall s v, P (SStr s v).
  Hypothesis Harr : forall s items, Forall P items -> P (SArr s items).
  Hypothesis Hobj : forall s entries, Forall (fun kv : skey * snode => P (snd kv)) entries -> P (SObj s entries).

  Fixpoint snode_ind' (n : snode) : P n :=
    match n with
    | SNull s => Hnull s
    | SBool s => Hbool s
    | SNum s => Hnum s
    | SStr s v => Hstr s v
    | SArr s items =>
        Harr s items ((fix go (l : list snode) : Forall P l :=
                         match l with [] => Forall_nil _ | x :: r => Forall_cons _ (snode_ind' x) (go r) end) items)
    | SObj s entries =>
        Hobj s entries
             ((fix go (l : list (skey * snode)) : Forall (fun kv : skey * snode => P (snd kv)) l :=
                 match l with
                 | [] => Forall_nil _
                 | (k, v) :: r => Forall_cons (k, v) (snode_ind' v) (go r)
                 end) entries)
    end.
End SnodeInd.

Section YnodeInd.
  Variable P : ynode -> Prop.
  Hypothesis Hsc : forall m, P (YScalar m).
  Hypothesis Hseq : forall m items, Forall P items -> P (YSeq m items).
  Hypothesis Hmap : forall m entries,
      Forall (fun kv : ynode * ynode => P (fst kv) /\ P (snd kv)) entries -> P (YMap m entries).
  Hypothesis Hother : forall k m, P (YOther k m).

  Fixpoint ynode_ind' (y : ynode) : P y :=
    match y with
    | YScalar m => Hsc m
    | YSeq m items =>
        Hseq m items ((fix go (l : list ynode) : Forall P l :=
                         match l with [] => Forall_nil _ | x :: r => Forall_cons _ (ynode_ind' x) (go r) end) items)
    | YMap m entries =>
        Hmap m entries
             ((fix go (l : list (ynode * ynode)) : Forall (fun kv : ynode * ynode => P (fst kv) /\ P (snd kv)) l :=
                 match l with
                 | [] => Forall_nil _
                 | (k, v) :: r => Forall_cons (k, v) (conj (ynode_ind' k) (ynode_ind' v)) (go r)
                 end) entries)
    | YOther k m => Hother k m
    end.
End YnodeInd.

(* ---------------- mapR ---------------- *)
Lemma mapR_ok_Forall2 {A B} (f : A -> result B) l l' :
  mapR f l = ROk l' -> Forall2 (fun x y => f x = ROk y) l l'.
Proof.
  revert l'. induction l as [|x r IH]; intros l' H; cbn [mapR] in H.
  - injection H as <-. constructor.
  - destruct (f x) as [y|e] eqn:Ex; [|discriminate].
    destruct (mapR f r) as [t|e] eqn:Er; [|discriminate].
    injection H as <-. constructor; auto.
Qed.

Lemma Forall2_mapR_ok {A B} (f : A -> result B) l l' :
  Forall2 (fun x y => f x = ROk y) l l' -> mapR f l = ROk l'.
Proof.
  induction 1 as [|x y r t Hx _ IH]; cbn [mapR]; [reflexivity|]. now rewrite Hx, IH.
Qed.

Lemma mapR_ext_Forall {A B} (f g : A -> result B) l :
  Forall (fun x => f x = g x) l -> mapR f l = mapR g l.
Proof.
  induction 1 as [|x r Hx _ IH]; cbn [mapR]; [reflexivity|]. now rewrite Hx, IH.
Qed.

Lemma mapR_id_Forall {A} (f : A -> result A) l :
  Forall (fun x => f x = ROk x) l -> mapR f l = ROk l.
Proof.
  induction 1 as [|x r Hx _ IH]; cbn [mapR]; [reflexivity|]. now rewrite Hx, IH.
Qed.

Lemma Forall2_length' {A B} (R : A -> B -> Prop) l l' : Forall2 R l l' -> length l = length l'.
Proof. induction 1; cbn; congruence. Qed.

(* ---------------- string equality helpers ---------------- *)
Lemma eqb_refl_s (s : string) : String.eqb s s = true.
Proof. apply String.eqb_refl. Qed.

Lemma eqb_true_s (a b : string) : String.eqb a b = true -> a = b.
Proof. apply String.eqb_eq. Qed.

Lemma eqb_false_s (a b : string) : String.eqb a b = false -> a <> b.
Proof. apply String.eqb_neq. Qed.

(* ---------------- small facts about the meta setters ---------------- *)
Lemma norm_tag_same t m : y_tag m = t -> norm_tag t m = m.
Proof.
  intros <-. unfold norm_tag. rewrite eqb_refl_s. cbn. now rewrite Bool.andb_false_r.
Qed.

Lemma norm_tag_comments t m :
  y_head (norm_tag t m) = y_head m /\ y_line (norm_tag t m) = y_line m /\ y_foot (norm_tag t m) = y_foot m
  /\ y_value (norm_tag t m) = y_value m /\ y_style (norm_tag t m) = y_style m.
Proof. unfold norm_tag. destruct (_ && _); cbn; auto. Qed.

Lemma norm_tag_tag t m : y_tag (norm_tag t m) = "" \/ y_tag (norm_tag t m) = t.
Proof.
  unfold norm_tag.
  destruct (String.eqb (y_tag m) "") eqn:E1; cbn.
  - left. now apply eqb_true_s.
  - destruct (String.eqb (y_tag m) t) eqn:E2; cbn; [right; now apply eqb_true_s|now right].
Qed.

Section Norm.
  Variable null_words quote_words : list string.
  Variable pf : string -> bool.
  Notation marshal := (marshal null_words quote_words pf).
  Notation marshal_str := (marshal_str quote_words pf).
  Notation marshal_null := (marshal_null null_words).

  Lemma marshal_str_value s v : y_value (marshal_str s v) = v.
  Proof. unfold marshal_str. destruct (needs_quote _ _ _); cbv zeta; destruct (block_guard _ _); reflexivity. Qed.

  Lemma marshal_str_comments s v :
    y_head (marshal_str s v) = y_head (base_meta s) /\ y_line (marshal_str s v) = y_line (base_meta s)
    /\ y_foot (marshal_str s v) = y_foot (base_meta s).
  Proof.
    unfold marshal_str.
    destruct (norm_tag_comments tag_str (base_meta s)) as (H1 & H2 & H3 & _).
    destruct (needs_quote _ _ _); cbv zeta; destruct (block_guard _ _); cbn; auto.
  Qed.

  Lemma marshal_str_tag s v : y_tag (marshal_str s v) = "" \/ y_tag (marshal_str s v) = tag_str.
  Proof.
    unfold marshal_str. destruct (norm_tag_tag tag_str (base_meta s)) as [H|H];
      destruct (needs_quote _ _ _); cbv zeta; destruct (block_guard _ _); cbn; auto.
  Qed.

  Lemma marshal_str_tag_eq s v : y_tag (marshal_str s v) = y_tag (norm_tag tag_str (base_meta s)).
  Proof. unfold marshal_str. destruct (needs_quote _ _ _); cbv zeta; destruct (block_guard _ _); reflexivity. Qed.

  (* the style MarshalYAML leaves on a string node: single-quoted when the text is number-like or a quoting word,
     else double-quoted (block bits cleared) when the guard of fix 9b9d633 fires, else the style it had *)
  Definition str_style (st : N) (v : string) : N :=
    let st1 := if needs_quote quote_words pf v then st_single else st in
    if block_guard st1 v then force_double st1 else st1.

  Lemma marshal_str_style s v : y_style (marshal_str s v) = str_style (y_style (base_meta s)) v.
  Proof.
    unfold marshal_str, str_style. destruct (norm_tag_comments tag_str (base_meta s)) as (_ & _ & _ & _ & Hst).
    destruct (needs_quote _ _ _); cbv zeta; cbn [set_style set_value y_style]; try rewrite Hst;
      destruct (block_guard _ _); cbn; auto.
  Qed.

  (* the normal form MarshalYAML . unmarshalYAMLNode computes on a scalar of the accepted subset *)
  Definition nm (m : ymeta) : ymeta :=
    if String.eqb (y_tag m) tag_null then marshal_null (SynYaml m)
    else if String.eqb (y_tag m) tag_bool then m
    else if String.eqb (y_tag m) tag_int || String.eqb (y_tag m) tag_float then m
    else marshal_str (SynYaml m) (y_value m).

  Fixpoint ynorm (y : ynode) : ynode :=
    match y with
    | YScalar m => YScalar (nm m)
    | YSeq m items => YSeq m (map ynorm items)
    | YMap m entries => YMap m (map (fun kv : ynode * ynode => let (k, v) := kv in (ynorm k, ynorm v)) entries)
    | YOther k m => YOther k m
    end.

  Lemma marshal_unmarshal_scalar m : marshal (unmarshal_scalar m) = YScalar (nm m).
  Proof.
    unfold unmarshal_scalar, nm.
    destruct (String.eqb (y_tag m) tag_null) eqn:E1; [reflexivity|].
    destruct (String.eqb (y_tag m) tag_bool) eqn:E2.
    { cbn. unfold marshal_bool. cbn. rewrite norm_tag_same; [reflexivity|now apply eqb_true_s]. }
    destruct (String.eqb (y_tag m) tag_int || String.eqb (y_tag m) tag_float) eqn:E3; reflexivity.
  Qed.

  (* unmarshalling a key succeeded with a string node: the key is a scalar of string class *)
  Lemma unmarshal_str_inv k ks kv :
    unmarshal k = ROk (SStr ks kv) ->
    exists km, k = YScalar km /\ ks = SynYaml km /\ kv = y_value km /\ is_lit_tag (y_tag km) = false.
  Proof.
    destruct k as [km|m items|m entries|kd m]; cbn [unmarshal]; intros H.
    - injection H as H. exists km. unfold unmarshal_scalar in H. unfold is_lit_tag.
      destruct (String.eqb (y_tag km) tag_null) eqn:E1; [discriminate|].
      destruct (String.eqb (y_tag km) tag_bool) eqn:E2; [discriminate|].
      destruct (String.eqb (y_tag km) tag_int) eqn:E3; [discriminate|].
      destruct (String.eqb (y_tag km) tag_float) eqn:E4; [discriminate|].
      cbn in H. injection H as <- <-. auto.
    - destruct (mapR unmarshal items); discriminate.
    - destruct (mapR _ entries); discriminate.
    - discriminate.
  Qed.

  Theorem marshal_unmarshal y s : unmarshal y = ROk s -> marshal s = ynorm y.
  Proof.
    revert s. induction y as [m|m items IH|m entries IH|k m] using ynode_ind'; intros s H; cbn [unmarshal] in H.
    - injection H as <-. apply marshal_unmarshal_scalar.
    - destruct (mapR unmarshal items) as [l|e] eqn:E; [|discriminate]. injection H as <-.
      cbn [marshal ynorm base_meta]. f_equal.
      apply mapR_ok_Forall2 in E. induction E as [|x y' r t Hx _ IHE]; [reflexivity|].
      inversion_clear IH as [|? ? IHx IHr]. cbn [map]. f_equal; auto.
    - match type of H with context [mapR ?f entries] => destruct (mapR f entries) as [l|e] eqn:E; [|discriminate] end.
      injection H as <-. cbn [marshal ynorm base_meta]. f_equal.
      apply mapR_ok_Forall2 in E. induction E as [|[k v] [k' v'] r t Hx _ IHE]; [reflexivity|].
      inversion_clear IH as [|? ? [IHk IHv] IHr]. cbn [map fst snd] in *. f_equal; [|auto].
      destruct (unmarshal k) as [[| | |ks kv| |]|] eqn:Ek; try discriminate.
      destruct (unmarshal v) as [vv|] eqn:Ev; [|discriminate].
      injection Hx as <- <-. cbn [fst snd].
      f_equal; [|now apply IHv].
      specialize (IHk _ eq_refl). exact IHk.
    - discriminate.
  Qed.
End Norm.
