(* Proofs/RefSemWf.v — hereditary predicates on chains (every layer at every depth), closure under the chain
   operations the evaluator uses, and ABSORPTION: a chain followed by a second copy of its tail exports to the same
   value ([declare] re-merges each property with base.property(k), so every stored child already ends with the part of
   the base that [property] appends once more). *)
From Verif Require Import Base.Bytes Model.Chain Model.GoText Model.Eval
  Proofs.ChainAlgebraSorted Proofs.ChainAlgebraExport Proofs.RefSemAccess.
From Coq Require Import Lia Sorted.
Local Open Scope nat_scope.

Section HERED.
Variable P : layer -> bool.

Fixpoint lhered (l : layer) : bool :=
  P l &&
  match l with
  | LScalar _ _ _ _ => true
  | LArr _ _ _ elems => forallb (forallb lhered) elems
  | LObj _ _ _ props => forallb (fun kc => forallb lhered (snd kc)) props
  end.
Definition chered (c : chain) : bool := forallb lhered c.

Lemma lhered_P l : lhered l = true -> P l = true.
Proof. destruct l; cbn [lhered]; intro H; apply andb_true_iff in H; apply H. Qed.

Lemma chered_nil : chered [] = true. Proof. reflexivity. Qed.
Lemma chered_cons l c : chered (l :: c) = lhered l && chered c. Proof. reflexivity. Qed.
Lemma chered_app a b : chered (a ++ b) = chered a && chered b.
Proof. apply forallb_app. Qed.

Lemma lhered_scalar s u sc x : lhered (LScalar s u sc x) = P (LScalar s u sc x).
Proof. cbn [lhered]. apply andb_true_r. Qed.
Lemma lhered_arr s u sc elems :
  lhered (LArr s u sc elems) = P (LArr s u sc elems) && forallb chered elems.
Proof. reflexivity. Qed.
Lemma lhered_obj s u sc props :
  lhered (LObj s u sc props) = P (LObj s u sc props) && forallb (fun kc => chered (snd kc)) props.
Proof. reflexivity. Qed.

Lemma chered_child s u sc props k ch :
  lhered (LObj s u sc props) = true -> alookup k props = Some ch -> chered ch = true.
Proof.
  rewrite lhered_obj. intros H Ha. apply andb_true_iff in H. destruct H as [_ H].
  rewrite forallb_forall in H. apply (H (k, ch)). apply alookup_In, Ha.
Qed.

Lemma chered_nth s u sc elems i : lhered (LArr s u sc elems) = true -> chered (nth i elems []) = true.
Proof.
  rewrite lhered_arr. intros H. apply andb_true_iff in H. destruct H as [_ H].
  rewrite forallb_forall in H. destruct (nth_in_or_default i elems []) as [Hin | ->]; [apply H, Hin|reflexivity].
Qed.

Lemma lhered_unknown sec sc : lhered (unknown_layer sec sc) = P (unknown_layer sec sc).
Proof. apply lhered_scalar. Qed.

Hypothesis P_unknown : forall l sc, P l = true -> l_unk l = true -> P (unknown_layer false sc) = true.

Lemma chered_property k : forall c, chered c = true -> chered (property k c) = true.
Proof.
  induction c as [|l r IH]; intro H; [reflexivity|]. rewrite chered_cons in H. apply andb_true_iff in H.
  destruct H as [Hl Hr]. specialize (IH Hr).
  destruct l as [s u sc x|s u sc e|s u sc props].
  - cbn [property l_unk]. destruct u; [|reflexivity]. rewrite chered_cons, IH, lhered_unknown.
    rewrite (P_unknown _ _ (lhered_P _ Hl) eq_refl). reflexivity.
  - cbn [property l_unk]. destruct u; [|reflexivity]. rewrite chered_cons, IH, lhered_unknown.
    rewrite (P_unknown _ _ (lhered_P _ Hl) eq_refl). reflexivity.
  - cbn [property]. destruct (alookup k props) as [ch|] eqn:Ea; [|exact IH].
    rewrite chered_app, IH, (chered_child _ _ _ _ _ _ Hl Ea). reflexivity.
Qed.

End HERED.

(* ---------------- the two instances ---------------- *)
Definition psorted (l : layer) : bool :=
  match l with LObj _ _ _ props => sorted_b (map fst props) | _ => true end.
Definition pgood (l : layer) : bool := negb (l_unk l) && psorted l.

(* every object layer, at every depth, has strictly sorted keys *)
Notation csorted := (chered psorted).
(* ... and moreover no layer is unknown *)
Notation cgood := (chered pgood).

Lemma psorted_unknown l sc : psorted l = true -> l_unk l = true -> psorted (unknown_layer false sc) = true.
Proof. reflexivity. Qed.
Lemma pgood_unknown l sc : pgood l = true -> l_unk l = true -> pgood (unknown_layer false sc) = true.
Proof. unfold pgood. intros H Hu. rewrite Hu in H. discriminate H. Qed.

Lemma lhered_weaken (P Q : layer -> bool) : (forall l, P l = true -> Q l = true) ->
  forall n l, lsize l <= n -> lhered P l = true -> lhered Q l = true.
Proof.
  intros HPQ. induction n as [|n IH]; intros l Hn; [pose proof (lsize_pos l); lia|].
  destruct l as [s u sc x|s u sc e|s u sc props].
  - rewrite !lhered_scalar. apply HPQ.
  - rewrite !lhered_arr, lsize_arr in *. intro H. apply andb_true_iff in H. destruct H as [H1 H2].
    rewrite (HPQ _ H1). cbn [andb]. rewrite forallb_forall in *. intros c Hc. specialize (H2 c Hc).
    unfold chered in *. rewrite forallb_forall in *. intros l Hl. apply IH; [|apply H2, Hl].
    pose proof (cssize_In c e Hc). assert (lsize l <= csize c); [|lia].
    clear -Hl. induction c as [|a r IHc]; [contradiction|]. rewrite csize_cons. destruct Hl as [->|Hl]; [lia|].
    specialize (IHc Hl). lia.
  - rewrite !lhered_obj, lsize_obj in *. intro H. apply andb_true_iff in H. destruct H as [H1 H2].
    rewrite (HPQ _ H1). cbn [andb]. rewrite forallb_forall in *. intros [k c] Hc. specialize (H2 (k, c) Hc).
    cbn [snd] in *. unfold chered in *. rewrite forallb_forall in *. intros l Hl. apply IH; [|apply H2, Hl].
    assert (csize c <= psize props).
    { clear -Hc. induction props as [|a r IHp]; [contradiction|]. rewrite psize_cons.
      destruct Hc as [->|Hc]; [cbn [snd]; lia|]. specialize (IHp Hc). lia. }
    assert (lsize l <= csize c); [|lia].
    clear -Hl. induction c as [|a r IHc]; [contradiction|]. rewrite csize_cons. destruct Hl as [->|Hl]; [lia|].
    specialize (IHc Hl). lia.
Qed.

Lemma cgood_csorted c : cgood c = true -> csorted c = true.
Proof.
  unfold chered. rewrite !forallb_forall. intros H l Hl.
  apply (lhered_weaken pgood psorted) with (n := lsize l); [|lia|apply H, Hl].
  intros l0 H0. unfold pgood in H0. apply andb_true_iff in H0. apply H0.
Qed.

Lemma cgood_top_known l c : cgood (l :: c) = true -> l_unk l = false.
Proof.
  rewrite chered_cons. intro H. apply andb_true_iff in H. destruct H as [H _].
  apply lhered_P in H. unfold pgood in H. apply andb_true_iff in H. destruct H as [H _].
  now destruct (l_unk l).
Qed.

Lemma cgood_top_sorted s u sc props c : cgood (LObj s u sc props :: c) = true -> ssorted (map fst props).
Proof.
  rewrite chered_cons. intro H. apply andb_true_iff in H. destruct H as [H _].
  apply lhered_P in H. unfold pgood in H. apply andb_true_iff in H. destruct H as [_ H].
  apply sorted_b_ok, H.
Qed.

(* ---------------- keys and property of known, sorted chains ---------------- *)
Definition is_lobj (l : layer) : bool := match l with LObj _ _ _ _ => true | _ => false end.
Definition allobj (c : chain) : bool := forallb is_lobj c.

Lemma keys_app_cut a b : allobj a = false -> keys (a ++ b) = keys a.
Proof.
  induction a as [|l r IH]; [discriminate|]. cbn [allobj forallb app]. intro H.
  destruct l as [| |s u sc props]; try reflexivity. cbn [is_lobj andb] in H. cbn [keys]. rewrite (IH H). reflexivity.
Qed.

Lemma In_keys_app k a b : allobj a = true -> (In k (keys (a ++ b)) <-> In k (keys a) \/ In k (keys b)).
Proof.
  induction a as [|l r IH]; intro H; [cbn; tauto|]. cbn [allobj forallb] in H. apply andb_true_iff in H.
  destruct H as [Hl Hr]. destruct l as [| |s u sc props]; try discriminate. cbn [app keys].
  rewrite !In_sunion, (IH Hr). tauto.
Qed.

Lemma keys_sorted c : cgood c = true -> ssorted (keys c).
Proof.
  destruct c as [|[| |s u sc props] r]; try (intros; constructor). intro H. cbn [keys].
  apply sunion_sorted. eapply cgood_top_sorted, H.
Qed.

Lemma property_app_good k a b : cgood a = true ->
  property k (a ++ b) = if allobj a then property k a ++ property k b else property k a.
Proof.
  induction a as [|l r IH]; intro H; [reflexivity|]. pose proof (cgood_top_known _ _ H) as Hu.
  rewrite chered_cons in H. apply andb_true_iff in H. destruct H as [_ Hr]. specialize (IH Hr).
  destruct l as [s u sc x|s u sc e|s u sc props]; cbn [app property allobj forallb is_lobj andb].
  - rewrite Hu. reflexivity.
  - rewrite Hu. reflexivity.
  - fold (allobj r). destruct (alookup k props); rewrite IH; destruct (allobj r); try reflexivity.
    rewrite app_assoc. reflexivity.
Qed.

Lemma allobj_app a b : allobj (a ++ b) = allobj a && allobj b.
Proof. apply forallb_app. Qed.

Lemma keys_dup x y : cgood (x ++ y) = true -> keys (x ++ y ++ y) = keys (x ++ y).
Proof.
  intro H. rewrite app_assoc. destruct (allobj (x ++ y)) eqn:Ea; [|apply keys_app_cut, Ea].
  apply ssorted_ext.
  - apply keys_sorted. rewrite chered_app, H. rewrite chered_app in H. apply andb_true_iff in H. apply H.
  - apply keys_sorted, H.
  - intro k. rewrite (In_keys_app k (x ++ y) y Ea). split; [|tauto]. intros [Hk|Hk]; [exact Hk|].
    rewrite allobj_app in Ea. apply andb_true_iff in Ea. apply (In_keys_app k x y (proj1 Ea)). right. exact Hk.
Qed.

Lemma property_dup k x y : cgood (x ++ y) = true ->
  exists x' y', property k (x ++ y ++ y) = x' ++ y' ++ y' /\ property k (x ++ y) = x' ++ y' /\ cgood (x' ++ y') = true.
Proof.
  intro H. pose proof (chered_property pgood pgood_unknown k _ H) as Hp.
  rewrite chered_app in H. apply andb_true_iff in H. destruct H as [Hx Hy].
  rewrite (property_app_good k x (y ++ y) Hx). rewrite (property_app_good k x y Hx) in *.
  destruct (allobj x).
  - rewrite (property_app_good k y y Hy). destruct (allobj y).
    + exists (property k x), (property k y). repeat split; [exact Hp].
    + exists (property k x ++ property k y), []. rewrite !app_nil_r. repeat split; [exact Hp].
  - exists (property k x), []. rewrite !app_nil_r. repeat split; [exact Hp].
Qed.

Lemma mapM_ext_in' {A B} (f g : A -> option B) (l : list A) :
  (forall x, In x l -> f x = g x) -> mapM f l = mapM g l.
Proof.
  induction l as [|x r IH]; intro H; [reflexivity|]. cbn [mapM].
  rewrite (H x (or_introl eq_refl)), IH; [reflexivity|]. intros y Hy. apply H. right. exact Hy.
Qed.

(* ABSORPTION *)
Theorem export_dup : forall f x y, cgood (x ++ y) = true -> export f (x ++ y ++ y) = export f (x ++ y).
Proof.
  induction f as [|f IH]; intros x y H; [reflexivity|]. rewrite !export_S.
  destruct (x ++ y) as [|l r] eqn:Exy.
  - apply app_eq_nil in Exy. destruct Exy as [-> ->]. reflexivity.
  - assert (Etop : exists r', x ++ y ++ y = l :: r').
    { rewrite app_assoc, Exy. cbn [app]. eauto. }
    destruct Etop as [r' Er']. rewrite Er'.
    destruct l as [s u sc v|s u sc e|s u sc props]; try reflexivity.
    rewrite <- Er', <- Exy. rewrite <- Exy in H. rewrite (keys_dup x y H).
    erewrite mapM_ext_in'; [reflexivity|]. intros k _. cbv beta.
    destruct (property_dup k x y H) as (x' & y' & -> & -> & Hg). rewrite (IH x' y' Hg). reflexivity.
Qed.

Corollary export_dup2 f x y : cgood (x ++ y) = true -> export f ((x ++ y) ++ y) = export f (x ++ y).
Proof. intro H. rewrite <- app_assoc. apply export_dup, H. Qed.

(* ---------------- on known chains every diagnostic-free access is strict ---------------- *)
Lemma cgood_tail l c : cgood (l :: c) = true -> cgood c = true.
Proof. rewrite chered_cons. intro H. apply andb_true_iff in H. apply H. Qed.
Lemma cgood_head l c : cgood (l :: c) = true -> lhered pgood l = true.
Proof. rewrite chered_cons. intro H. apply andb_true_iff in H. apply H. Qed.

Lemma va_known_of_good : forall f c p c',
  cgood c = true -> value_access f c p = (c', 0%N) -> va_known f c p = Some c' /\ cgood c' = true.
Proof.
  induction f as [|f IH]; intros c p c' Hg H; [discriminate|]. cbn [value_access] in H. cbn [va_known].
  destruct p as [|a rest]; [injection H as <-; split; [reflexivity|exact Hg]|].
  destruct c as [|l base]; [discriminate|]. rewrite (cgood_top_known _ _ Hg) in *.
  pose proof (cgood_head _ _ Hg) as Hl. pose proof (cgood_tail _ _ Hg) as Hb.
  destruct l as [s u sc x|s u sc elems|s u sc props]; [discriminate| |].
  - destruct (array_index a _) as [i|]; [|discriminate]. apply IH; [|exact H]. eapply chered_nth, Hl.
  - destruct (object_key a) as [k|]; [|discriminate]. destruct (alookup k props) as [ch|] eqn:Ea.
    + apply IH; [|exact H]. rewrite chered_app, (chered_child _ _ _ _ _ _ _ Hl Ea).
      apply (chered_property pgood pgood_unknown), Hb.
    + destruct (is_object base); [|discriminate]. apply IH; assumption.
Qed.

(* C02, value level, for known chains: the statement in terms of [value_access] itself *)
Theorem value_access_export f c p c' fe xv :
  cgood c = true -> value_access f c p = (c', 0%N) -> export fe c = Some xv ->
  exists xk, x_access p xv = Some xk /\ export fe c' = Some xk.
Proof.
  intros Hg H Hx. destruct (va_known_of_good f c p c' Hg H) as [Hk _].
  apply (va_known_export p c c' fe xv); [exists f; exact Hk|exact Hx].
Qed.
