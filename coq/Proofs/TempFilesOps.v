(* Proofs/TempFilesOps.v — what createTemporaryFile / removeTemporaryFiles do to the file system, for an
   arbitrary fault plan and an arbitrary naming scheme of the file system. *)
From Verif Require Import Base.Bytes Model.TempFiles Proofs.TempFilesMaps.
From Coq Require Import Lia.

(* the operation touches at most the file [p] *)
Definition only (p : string) (st st' : fsys) : Prop :=
  forall q, q <> p -> lookup q (fs_files st') = lookup q (fs_files st).

Lemma only_refl p st : only p st st.
Proof. intros q _. reflexivity. Qed.

Lemma only_trans p a b c : only p a b -> only p b c -> only p a c.
Proof. intros H1 H2 q Hq. rewrite (H2 q Hq). apply H1. exact Hq. Qed.

(* events a createTemporaryFile for the file [p] may log *)
Definition ev_about (p : string) (e : event) : Prop :=
  match e with
  | EvCreate (Some q) => q = p
  | EvCreate None => True
  | EvWrite q _ | EvClose q _ | EvReclose q | EvRemove q _ => q = p
  | EvRun _ => False
  end.

Definition is_remove (e : event) : Prop := match e with EvRemove _ _ => True | _ => False end.
Definition is_run (e : event) : Prop := match e with EvRun _ => True | _ => False end.

Definition rm_faulted (q : string) (tr : list event) : bool :=
  existsb (fun e => match e with EvRemove p RmFault => String.eqb p q | _ => false end) tr.

Lemma rm_faulted_In q tr : rm_faulted q tr = true <-> In (EvRemove q RmFault) tr.
Proof.
  unfold rm_faulted. rewrite existsb_exists. split.
  - intros [e [Hin He]]. destruct e as [| | | |p r|]; try discriminate. destruct r; try discriminate.
    apply String.eqb_eq in He. subst p. exact Hin.
  - intro Hin. exists (EvRemove q RmFault). split; [exact Hin|]. apply String.eqb_refl.
Qed.

Lemma fault_dec q tr : {In (EvRemove q RmFault) tr} + {~ In (EvRemove q RmFault) tr}.
Proof.
  destruct (rm_faulted q tr) eqn:E.
  - left. apply rm_faulted_In. exact E.
  - right. intro H. apply rm_faulted_In in H. congruence.
Qed.

Section Ops.
  Variable plan : kind -> nat -> bool.
  Variable name_of : nat -> string.
  Variable P : tf_params.

  Notation ctf := (create_temporary_file plan name_of P).
  Notation rtf := (remove_temporary_files plan).
  Notation op_remove' := (op_remove plan).

  (* ---- single operations ---- *)
  Lemma op_write_spec st p v st' ok :
    op_write plan st p v = (st', ok) ->
    only p st st' /\ fs_next st' = fs_next st /\ fs_trace st' = EvWrite p ok :: fs_trace st /\
    lookup p (fs_files st') = option_map (fun c => c +++ (if ok then v else partial v)) (lookup p (fs_files st)).
  Proof.
    unfold op_write. destruct (faulty plan st KWrite); intro H; inversion H; subst; clear H;
      cbn [log set_files fs_files fs_next fs_trace]; (split; [|split; [|split]]); try reflexivity.
    - intros q Hq. cbn. apply lookup_fupdate_neq. congruence.
    - apply lookup_fupdate_eq.
    - intros q Hq. cbn. apply lookup_fupdate_neq. congruence.
    - apply lookup_fupdate_eq.
  Qed.

  Lemma op_close_spec st p st' ok :
    op_close plan st p = (st', ok) ->
    only p st st' /\ fs_next st' = fs_next st /\ fs_trace st' = EvClose p ok :: fs_trace st /\
    (ok = true -> fs_files st' = fs_files st) /\
    (ok = false -> lookup p (fs_files st') = option_map partial (lookup p (fs_files st))
                   /\ plan KClose (count KClose (fs_trace st)) = true).
  Proof.
    unfold op_close, faulty. destruct (plan KClose (count KClose (fs_trace st))) eqn:E; intro H; inversion H; subst; clear H;
      cbn [log set_files fs_files fs_next fs_trace]; (split; [|split; [|split; [|split]]]); try reflexivity;
      try discriminate.
    - intros q Hq. cbn. apply lookup_fupdate_neq. congruence.
    - intros _. split; [apply lookup_fupdate_eq|reflexivity].
    - intros q Hq. reflexivity.
  Qed.

  Lemma op_remove_spec st p :
    let st' := op_remove' st p in
    only p st st' /\ fs_next st' = fs_next st /\
    exists r, fs_trace st' = EvRemove p r :: fs_trace st /\
      match r with
      | RmFault => fs_files st' = fs_files st /\ plan KRemove (count KRemove (fs_trace st)) = true
      | _ => lookup p (fs_files st') = None
      end.
  Proof.
    unfold op_remove, faulty. destruct (plan KRemove (count KRemove (fs_trace st))) eqn:E.
    - cbn [log fs_files fs_next fs_trace]. split; [intros q Hq; reflexivity|]. split; [reflexivity|].
      exists RmFault. auto.
    - destruct (lookup p (fs_files st)) eqn:L; cbn [log set_files fs_files fs_next fs_trace].
      + split; [intros q Hq; apply lookup_fremove_neq; congruence|]. split; [reflexivity|].
        exists RmOk. split; [reflexivity|]. apply lookup_fremove_eq.
      + split; [intros q Hq; reflexivity|]. split; [reflexivity|]. exists RmMissing. auto.
  Qed.

  Lemma op_remove_shrinks st p q c :
    lookup q (fs_files (op_remove' st p)) = Some c -> lookup q (fs_files st) = Some c.
  Proof.
    unfold op_remove. destruct (faulty plan st KRemove); [cbn; auto|].
    destruct (lookup p (fs_files st)); cbn [log set_files fs_files]; [|auto].
    apply lookup_fremove_sub.
  Qed.

  (* ---- createTemporaryFile ---- *)
  Definition okc (v c : string) : Prop :=
    c = v \/ (tp_close_checked P = false /\ (exists i, plan KClose i = true) /\ c = partial v).

  Ltac nofault R :=
    let q := fresh "q" in let Hin := fresh "Hin" in
    intros q Hin; cbn [In] in Hin;
    repeat (destruct Hin as [Hin|Hin];
            [try discriminate; inversion Hin; subst; cbn in R; destruct R as [_ R]; eexists; exact R|]);
    contradiction.

  Lemma ctf_spec st v st' r :
    ctf st v = (st', r) ->
    let p := name_of (fs_next st) in
    only p st st' /\
    (exists new, fs_trace st' = new ++ fs_trace st /\ Forall (ev_about p) new /\
                 (r <> None -> Forall (fun e => ~ is_remove e) new) /\
                 (forall q, In (EvRemove q RmFault) new -> exists i, plan KRemove i = true)) /\
    match r with
    | Some p' => p' = p /\ fs_next st' = S (fs_next st) /\ exists c, lookup p (fs_files st') = Some c /\ okc v c
    | None => (fs_next st' = fs_next st /\ fs_files st' = fs_files st) \/
              (fs_next st' = S (fs_next st) /\
               (tp_remove_on_write_fail P = true ->
                lookup p (fs_files st') = None \/ In (EvRemove p RmFault) (fs_trace st')))
    end.
  Proof.
    unfold create_temporary_file, op_create.
    destruct (faulty plan st KCreate).
    { intro H. inversion H; subst; clear H. cbn [log fs_files fs_next fs_trace].
      split; [intros q Hq; reflexivity|]. split.
      - exists [EvCreate None]. split; [reflexivity|]. split; [repeat constructor|]. split; [intro C; congruence|]. nofault R4.
      - left. auto. }
    set (p := name_of (fs_next st)).
    set (st1 := mk_fsys (finsert p "" (fs_files st)) (S (fs_next st)) (EvCreate (Some p) :: fs_trace st)).
    assert (O1 : only p st st1).
    { intros q Hq. unfold st1. cbn [fs_files]. apply lookup_finsert_neq. congruence. }
    assert (L1 : lookup p (fs_files st1) = Some "") by apply lookup_finsert_eq.
    destruct (op_write plan st1 p v) as [st2 wok] eqn:Hw.
    destruct (op_write_spec _ _ _ _ _ Hw) as (O2 & N2 & T2 & L2).
    rewrite L1 in L2. cbn [option_map append] in L2.
    destruct (tp_close_checked P) eqn:CC.
    - (* repaired shape *)
      destruct (op_close plan st2 p) as [st3 cok] eqn:Hc.
      destruct (op_close_spec _ _ _ _ Hc) as (O3 & N3 & T3 & F3 & G3).
      destruct (wok && cok) eqn:Eok.
      + intro H. inversion H; subst st' r; clear H.
        apply andb_prop in Eok. destruct Eok as [-> ->].
        split; [eauto using only_trans|]. split.
        * exists [EvClose p true; EvWrite p true; EvCreate (Some p)]. rewrite T3, T2. split; [reflexivity|].
          split; [repeat constructor|]. split; [intros _; repeat constructor; cbn; auto|]. nofault R4.
        * split; [reflexivity|]. split; [rewrite N3, N2; reflexivity|].
          exists v. rewrite (F3 eq_refl). split; [exact L2|]. left. reflexivity.
      + intro H. inversion H; subst st' r; clear H.
        unfold maybe_remove. destruct (tp_remove_on_write_fail P) eqn:RM.
        * destruct (op_remove_spec st3 p) as (O4 & N4 & rr & T4 & R4).
          split; [eauto using only_trans|]. split.
          -- exists [EvRemove p rr; EvClose p cok; EvWrite p wok; EvCreate (Some p)]. rewrite T4, T3, T2.
             split; [reflexivity|]. split; [repeat constructor|]. split; [intro C; congruence|]. nofault R4.
          -- right. split; [rewrite N4, N3, N2; reflexivity|]. intros _.
             destruct rr; [left; exact R4| right; rewrite T4; left; reflexivity | left; exact R4].
        * split; [eauto using only_trans|]. split.
          -- exists [EvClose p cok; EvWrite p wok; EvCreate (Some p)]. rewrite T3, T2.
             split; [reflexivity|]. split; [repeat constructor|]. split; [intro C; congruence|]. nofault R4.
          -- right. split; [rewrite N3, N2; reflexivity|]. discriminate.
    - (* the code as found *)
      destruct (op_close plan st2 p) as [st3 cok] eqn:Hc. cbn [fst].
      destruct (op_close_spec _ _ _ _ Hc) as (O3 & N3 & T3 & F3 & G3).
      destruct wok.
      + intro H. inversion H; subst st' r; clear H.
        split; [eauto using only_trans|]. split.
        * exists [EvClose p cok; EvWrite p true; EvCreate (Some p)]. rewrite T3, T2. split; [reflexivity|].
          split; [repeat constructor|]. split; [intros _; repeat constructor; cbn; auto|]. nofault R4.
        * split; [reflexivity|]. split; [rewrite N3, N2; reflexivity|].
          destruct cok.
          -- exists v. rewrite (F3 eq_refl). split; [exact L2|]. left. reflexivity.
          -- destruct (G3 eq_refl) as [G3a G3b]. exists (partial v). rewrite G3a, L2. split; [reflexivity|].
             right. split; [exact CC|]. split; [eexists; exact G3b|reflexivity].
      + intro H. inversion H; subst st' r; clear H.
        unfold maybe_remove, op_reclose. destruct (tp_remove_on_write_fail P) eqn:RM.
        * destruct (op_remove_spec st3 p) as (O4 & N4 & rr & T4 & R4).
          cbn [log fs_files fs_next fs_trace].
          split; [intros q Hq; cbn [log fs_files]; exact (only_trans _ _ _ _ (only_trans _ _ _ _ (only_trans _ _ _ _ O1 O2) O3) O4 q Hq)|].
          split.
          -- exists [EvReclose p; EvRemove p rr; EvClose p cok; EvWrite p false; EvCreate (Some p)].
             rewrite T4, T3, T2. split; [reflexivity|]. split; [repeat constructor|]. split; [intro C; congruence|]. nofault R4.
          -- right. split; [rewrite N4, N3, N2; reflexivity|]. intros _.
             destruct rr; [left; exact R4| right; rewrite T4; right; left; reflexivity | left; exact R4].
        * cbn [log fs_files fs_next fs_trace].
          split; [intros q Hq; cbn [log fs_files]; exact (only_trans _ _ _ _ (only_trans _ _ _ _ O1 O2) O3 q Hq)|].
          split.
          -- exists [EvReclose p; EvClose p cok; EvWrite p false; EvCreate (Some p)].
             rewrite T3, T2. split; [reflexivity|]. split; [repeat constructor|]. split; [intro C; congruence|]. nofault R4.
          -- right. split; [rewrite N3, N2; reflexivity|]. discriminate.
  Qed.

  (* ---- removeTemporaryFiles ---- *)
  Lemma rtf_spec : forall ps st,
    let st' := rtf st ps in
    fs_next st' = fs_next st /\
    (forall q, ~ In q ps -> lookup q (fs_files st') = lookup q (fs_files st)) /\
    (forall q c, lookup q (fs_files st') = Some c -> lookup q (fs_files st) = Some c) /\
    exists new, fs_trace st' = new ++ fs_trace st /\
      Forall (fun e => exists p r, e = EvRemove p r /\ In p ps) new /\
      (forall p, In p ps -> exists r, In (EvRemove p r) new) /\
      (forall p, In p ps -> lookup p (fs_files st') = None \/ In (EvRemove p RmFault) new) /\
      (forall p, In (EvRemove p RmFault) new -> exists i, plan KRemove i = true).
  Proof.
    induction ps as [|p r IH]; intro st; cbn [remove_temporary_files].
    - split; [reflexivity|]. split; [reflexivity|]. split; [auto|]. exists []. split; [reflexivity|].
      split; [constructor|]. split; [intros ? []|]. split; [intros ? []|intros ? []].
    - destruct (op_remove_spec st p) as (O1 & N1 & rr & T1 & R1).
      specialize (IH (op_remove' st p)). cbn zeta in IH.
      destruct IH as (N2 & F2 & S2 & new & T2 & A2 & B2 & C2 & D2).
      split; [rewrite N2; exact N1|]. split.
      { intros q Hq. rewrite F2 by (intro C; apply Hq; right; exact C). apply O1. intro C. apply Hq. left. congruence. }
      split. { intros q c H. apply S2 in H. eapply op_remove_shrinks. exact H. }
      exists (new ++ [EvRemove p rr]). split; [rewrite T2, T1, <- app_assoc; reflexivity|].
      split.
      { apply Forall_app. split.
        - eapply Forall_impl; [|exact A2]. intros e (p' & r' & -> & Hin). exists p', r'. split; [reflexivity|right; exact Hin].
        - constructor; [|constructor]. exists p, rr. split; [reflexivity|left; reflexivity]. }
      split.
      { intros p' [<-|Hin].
        - exists rr. apply in_or_app. right. left. reflexivity.
        - destruct (B2 p' Hin) as [r' Hr]. exists r'. apply in_or_app. left. exact Hr. }
      split.
      { intros p' Hp'. destruct (in_dec string_dec p' r) as [Hin|Hnin].
        - destruct (C2 p' Hin) as [H|H]; [left; exact H|right; apply in_or_app; left; exact H].
        - destruct Hp' as [<-|Hin]; [|contradiction].
          rewrite (F2 p Hnin). destruct rr.
          + left. exact R1.
          + right. apply in_or_app. right. left. reflexivity.
          + left. exact R1. }
      intros p' Hin. apply in_app_or in Hin. destruct Hin as [Hin|[Heq|[]]].
      + eapply D2. exact Hin.
      + inversion Heq; subst. destruct R1 as [_ R1]. eexists. exact R1.
  Qed.
End Ops.
