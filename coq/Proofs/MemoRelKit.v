(* Proofs/MemoRelKit.v — C10, relational toolkit: two runs of the evaluator's state monad from states that AGREE on
   a set C of environment names (same import-table entries for the names in C, same memo entries for the ids whose
   environment component is in C) and are arbitrary elsewhere.  The relation also records, relative to the two
   starting states B1 B2, that both runs add the same number of diagnostics and collaborator calls, raise the fuel
   flag together, append logs that are equal up to the root component of EvOpen, and leave everything outside C alone. *)
From Verif Require Import Base.Bytes Model.Chain Model.GoText Model.Envelope Model.Eval.
From Verif Require Import Proofs.NonInterferenceTwins.
From Coq Require Import Lia.

(* events equal up to the root environment recorded by fn::open *)
Inductive ev_sim : ev -> ev -> Prop :=
| ev_sim_load n : ev_sim (EvLoad n) (EvLoad n)
| ev_sim_prov n : ev_sim (EvLoadProvider n) (EvLoadProvider n)
| ev_sim_open id p x r1 r2 c : ev_sim (EvOpen id p x r1 c) (EvOpen id p x r2 c)
| ev_sim_dec e ct : ev_sim (EvDecrypt e ct) (EvDecrypt e ct).

Lemma ev_sim_refl e : ev_sim e e.
Proof. destruct e; constructor. Qed.

Lemma eid_eqb_true (a b : eid) : eid_eqb a b = true -> a = b.
Proof.
  destruct a as [n p], b as [n' p']. unfold eid_eqb. cbn [fst snd]. intros H. apply andb_true_iff in H. destruct H as [H1 H2].
  apply String.eqb_eq in H1. subst n'. f_equal.
  revert p' H2. induction p as [|a p IH]; intros [|b p']; cbn [idpath_eqb]; try discriminate; [reflexivity|].
  intros H. apply andb_true_iff in H. destruct H as [Ha Hp]. f_equal; [|now apply IH].
  destruct a, b; cbn [idstep_eqb] in Ha; try discriminate.
  - apply String.eqb_eq in Ha. now subst.
  - apply Nat.eqb_eq in Ha. now subst.
Qed.

Section KIT.
(* CM: the environment names whose memo entries must agree; CI: the names whose import-table entries must agree *)
Variables CM CI : string -> Prop.
Variables B1 B2 : st.

Record srel (s1 s2 : st) : Prop := {
  sr_memo : forall id, CM (fst id) -> memo_get id (memo s1) = memo_get id (memo s2);
  sr_imps : forall n, CI n -> alookup n (imps s1) = alookup n (imps s2);
  sr_nerr : exists k, nerr s1 = (nerr B1 + k)%N /\ nerr s2 = (nerr B2 + k)%N;
  sr_calls : exists k, calls s1 = (calls B1 + k)%N /\ calls s2 = (calls B2 + k)%N;
  sr_oof : exists b, oof s1 = (oof B1 || b)%bool /\ oof s2 = (oof B2 || b)%bool;
  sr_log : exists l1 l2, log s1 = l1 ++ log B1 /\ log s2 = l2 ++ log B2 /\ Forall2 ev_sim l1 l2;
  sr_fm1 : forall id, ~ CM (fst id) -> memo_get id (memo s1) = memo_get id (memo B1);
  sr_fm2 : forall id, ~ CM (fst id) -> memo_get id (memo s2) = memo_get id (memo B2);
  sr_fi1 : forall n, ~ CI n -> alookup n (imps s1) = alookup n (imps B1);
  sr_fi2 : forall n, ~ CI n -> alookup n (imps s2) = alookup n (imps B2)
}.

Definition agree (s1 s2 : st) : Prop :=
  (forall id, CM (fst id) -> memo_get id (memo s1) = memo_get id (memo s2))
  /\ (forall n, CI n -> alookup n (imps s1) = alookup n (imps s2)).

Lemma srel_start : agree B1 B2 -> srel B1 B2.
Proof.
  intros [Hm Hi]. constructor; auto.
  - exists 0%N. split; lia.
  - exists 0%N. split; lia.
  - exists false. now rewrite !orb_false_r.
  - exists [], []. repeat split. constructor.
Qed.

Definition mrel {A B} (R : A -> B -> Prop) (m1 : M A) (m2 : M B) : Prop :=
  forall s1 s2, srel s1 s2 -> R (fst (m1 s1)) (fst (m2 s2)) /\ srel (snd (m1 s1)) (snd (m2 s2)).

Lemma rel_ret {A B} (R : A -> B -> Prop) a b : R a b -> mrel R (ret a) (ret b).
Proof. intros H s1 s2 Hs. split; auto. Qed.

Lemma rel_bind {A B A' B'} (R : A -> B -> Prop) (R' : A' -> B' -> Prop) m1 m2 k1 k2 :
  mrel R m1 m2 -> (forall a b, R a b -> mrel R' (k1 a) (k2 b)) -> mrel R' (bind m1 k1) (bind m2 k2).
Proof.
  intros Hm Hk s1 s2 Hs. unfold bind. specialize (Hm s1 s2 Hs).
  destruct (m1 s1) as [a s1'], (m2 s2) as [b s2']. cbn [fst snd] in Hm. destruct Hm as [Hab Hs']. now apply Hk.
Qed.

Lemma rel_bind_eq {A A' B'} (R' : A' -> B' -> Prop) (m1 m2 : M A) k1 k2 :
  mrel eq m1 m2 -> (forall a, mrel R' (k1 a) (k2 a)) -> mrel R' (bind m1 k1) (bind m2 k2).
Proof. intros Hm Hk. apply (rel_bind eq); [exact Hm|]. intros a b <-. apply Hk. Qed.

Lemma rel_conseq {A B} (R R' : A -> B -> Prop) m1 m2 : (forall a b, R a b -> R' a b) -> mrel R m1 m2 -> mrel R' m1 m2.
Proof. intros H Hm s1 s2 Hs. destruct (Hm s1 s2 Hs). split; auto. Qed.

(* ---- primitives ---- *)
Lemma srel_add_err n s1 s2 : srel s1 s2 -> srel (snd (add_err n s1)) (snd (add_err n s2)).
Proof.
  intros [a b (k & c1 & c2) d e f g h i j]. constructor; cbn [add_err snd memo imps nerr calls oof log]; auto.
  exists (k + n)%N. split; lia.
Qed.

Lemma srel_oof s1 s2 : srel s1 s2 -> srel (snd (out_of_fuel s1)) (snd (out_of_fuel s2)).
Proof.
  intros [a b c d (x & e1 & e2) f g h i j]. constructor; cbn [out_of_fuel snd memo imps nerr calls oof log]; auto.
  exists true. now rewrite !orb_true_r.
Qed.

Lemma srel_emit e1 e2 s1 s2 : ev_sim e1 e2 -> srel s1 s2 -> srel (snd (emit e1 s1)) (snd (emit e2 s2)).
Proof.
  intros He [a b c d e (l1 & l2 & f1 & f2 & f3) g h i j]. constructor; cbn [emit snd memo imps nerr calls oof log]; auto.
  exists (e1 :: l1), (e2 :: l2). rewrite f1, f2. repeat split. now constructor.
Qed.

Lemma srel_call W1 W2 s1 s2 : srel s1 s2 -> srel (snd (call W1 s1)) (snd (call W2 s2)).
Proof.
  intros [a b c (k & d1 & d2) e f g h i j]. constructor; cbn [call snd memo imps nerr calls oof log]; auto.
  exists (k + 1)%N. split; lia.
Qed.

Lemma srel_memo_set id v s1 s2 : CM (fst id) -> srel s1 s2 -> srel (snd (memo_set id v s1)) (snd (memo_set id v s2)).
Proof.
  intros Hc [a b c d e f g h i j]. constructor; cbn [memo_set snd memo imps nerr calls oof log]; auto.
  - intros id' Hid'. cbn [memo_get]. destruct (eid_eqb id' id); [reflexivity|now apply a].
  - intros id' Hid'. cbn [memo_get]. destruct (eid_eqb id' id) eqn:E; [|now apply g].
    apply eid_eqb_true in E. subst. contradiction.
  - intros id' Hid'. cbn [memo_get]. destruct (eid_eqb id' id) eqn:E; [|now apply h].
    apply eid_eqb_true in E. subst. contradiction.
Qed.

Lemma srel_imps_set n v s1 s2 : CI n -> srel s1 s2 -> srel (snd (imps_set n v s1)) (snd (imps_set n v s2)).
Proof.
  intros Hc [a b c d e f g h i j]. constructor; cbn [imps_set snd memo imps nerr calls oof log]; auto.
  - intros m Hm. cbn [alookup]. destruct (String.eqb m n); [reflexivity|now apply b].
  - intros m Hm. cbn [alookup]. destruct (String.eqb m n) eqn:E; [|now apply i]. apply String.eqb_eq in E. subst. contradiction.
  - intros m Hm. cbn [alookup]. destruct (String.eqb m n) eqn:E; [|now apply j]. apply String.eqb_eq in E. subst. contradiction.
Qed.

Lemma rel_add_err {A B} (R : A -> B -> Prop) n k1 k2 :
  mrel R (k1 tt) (k2 tt) -> mrel R (bind (add_err n) k1) (bind (add_err n) k2).
Proof. intros Hk s1 s2 Hs. unfold bind. apply Hk. now apply srel_add_err. Qed.

Lemma rel_err {A B} (R : A -> B -> Prop) k1 k2 : mrel R (k1 tt) (k2 tt) -> mrel R (bind err k1) (bind err k2).
Proof. apply rel_add_err. Qed.

Lemma rel_oof {A B} (R : A -> B -> Prop) k1 k2 :
  mrel R (k1 tt) (k2 tt) -> mrel R (bind out_of_fuel k1) (bind out_of_fuel k2).
Proof. intros Hk s1 s2 Hs. unfold bind. apply Hk. now apply srel_oof. Qed.

Lemma rel_emit {A B} (R : A -> B -> Prop) e1 e2 k1 k2 :
  ev_sim e1 e2 -> mrel R (k1 tt) (k2 tt) -> mrel R (bind (emit e1) k1) (bind (emit e2) k2).
Proof. intros He Hk s1 s2 Hs. unfold bind. apply Hk. now apply srel_emit. Qed.

(* without a fault plan a collaborator call never fails, whatever the call counters are *)
Lemma call_no_fault W s : w_fault W = None -> call W s = (false, snd (call W s)).
Proof. intros H. unfold call. rewrite H. reflexivity. Qed.

Lemma rel_call {A B} (R : A -> B -> Prop) W1 W2 k1 k2 :
  w_fault W1 = None -> w_fault W2 = None -> mrel R (k1 false) (k2 false) -> mrel R (bind (call W1) k1) (bind (call W2) k2).
Proof.
  intros H1 H2 Hk s1 s2 Hs. unfold bind. rewrite (call_no_fault W1 s1 H1), (call_no_fault W2 s2 H2).
  apply Hk. exact (srel_call W1 W2 s1 s2 Hs).
Qed.

Lemma rel_get_memo {A B} (R : A -> B -> Prop) id k1 k2 :
  CM (fst id) -> (forall a, mrel R (k1 a) (k2 a)) -> mrel R (bind (get_memo id) k1) (bind (get_memo id) k2).
Proof. intros Hc Hk s1 s2 Hs. unfold bind, get_memo. rewrite (sr_memo _ _ Hs id Hc). now apply Hk. Qed.

Lemma rel_memo_set {A B} (R : A -> B -> Prop) id v k1 k2 :
  CM (fst id) -> mrel R (k1 tt) (k2 tt) -> mrel R (bind (memo_set id v) k1) (bind (memo_set id v) k2).
Proof. intros Hc Hk s1 s2 Hs. unfold bind. apply Hk. now apply srel_memo_set. Qed.

Lemma rel_imps_get {A B} (R : A -> B -> Prop) n k1 k2 :
  CI n -> (forall a, mrel R (k1 a) (k2 a)) -> mrel R (bind (imps_get n) k1) (bind (imps_get n) k2).
Proof. intros Hc Hk s1 s2 Hs. unfold bind, imps_get. rewrite (sr_imps _ _ Hs n Hc). now apply Hk. Qed.

Lemma rel_imps_set {A B} (R : A -> B -> Prop) n v k1 k2 :
  CI n -> mrel R (k1 tt) (k2 tt) -> mrel R (bind (imps_set n v) k1) (bind (imps_set n v) k2).
Proof. intros Hc Hk s1 s2 Hs. unfold bind. apply Hk. now apply srel_imps_set. Qed.

(* the same effect-free-on-tables computation on both sides *)
Lemma rel_fail_oof {A} (a : A) : mrel eq (out_of_fuel ;;; ret a) (out_of_fuel ;;; ret a).
Proof. apply rel_oof. now apply rel_ret. Qed.

End KIT.

(* straight-line code that is literally the same on both sides and only raises diagnostics / the fuel flag *)
Ltac rel_step :=
  lazymatch goal with
  | |- mrel _ _ _ _ _ (ret ?a) (ret ?a) => apply rel_ret; reflexivity
  | |- mrel _ _ _ _ _ (bind (add_err _) _) (bind (add_err _) _) => apply rel_add_err
  | |- mrel _ _ _ _ _ (bind err _) (bind err _) => apply rel_err
  | |- mrel _ _ _ _ _ (bind out_of_fuel _) (bind out_of_fuel _) => apply rel_oof
  | |- mrel _ _ _ _ _ (match ?x with _ => _ end) (match ?x with _ => _ end) => destruct x
  | |- mrel _ _ _ _ _ (let _ := _ in _) _ => cbv zeta
  end.
Ltac rel_tac := repeat rel_step.
