(* Proofs/ValidateTotal.v — for schemas without $ref the specification always gives a verdict once the fuel exceeds
   the nesting depth of the schema (whatever the value): the hypothesis "vspec ... = Some b" of the agreement theorem
   is not a restriction there.  (With $ref the needed fuel depends on the value, as in every recursive schema.) *)
From Coq Require Import Lia.
From Verif Require Import Base.Bytes Model.Schema Model.Validate Proofs.ValidateBase Proofs.ValidateProofs.

Lemma list_max_In : forall l n, In n l -> (n <= list_max l)%nat.
Proof.
  intros l n H. pose proof (proj1 (list_max_le l (list_max l)) (le_n _)) as F.
  rewrite Forall_forall in F. apply F. exact H.
Qed.

Lemma depth_sub : forall ref a o pre it ad props k,
  let n := depth (SNode ref a o pre it ad props k) in
  (forall t, In t a -> (depth t < n)%nat) /\ (forall t, In t o -> (depth t < n)%nat)
  /\ (forall t, In t pre -> (depth t < n)%nat) /\ (forall t, it = Some t -> (depth t < n)%nat)
  /\ (forall t, ad = Some t -> (depth t < n)%nat) /\ (forall key t, In (key, t) props -> (depth t < n)%nat).
Proof.
  intros ref a o pre it ad props k n. subst n. cbn [depth].
  set (A := list_max (map depth a)). set (O := list_max (map depth o)). set (Pp := list_max (map depth pre)).
  set (Pr := list_max (map (fun kp : string * schema => match kp with (_, t) => depth t end) props)).
  repeat split.
  - intros t H. assert (depth t <= A)%nat by (apply list_max_In; apply in_map; exact H). lia.
  - intros t H. assert (depth t <= O)%nat by (apply list_max_In; apply in_map; exact H). lia.
  - intros t H. assert (depth t <= Pp)%nat by (apply list_max_In; apply in_map; exact H). lia.
  - intros t E. subst. lia.
  - intros t E. subst. lia.
  - intros key t H. assert (depth t <= Pr)%nat.
    { apply list_max_In. apply (in_map (fun kp : string * schema => match kp with (_, t0) => depth t0 end) props (key, t)). exact H. }
    lia.
Qed.

Lemma mapM_total : forall A B (g : A -> option B) l, (forall x, In x l -> g x <> None) -> mapM g l <> None.
Proof.
  induction l as [|x r IH]; intros H; simpl; [discriminate|].
  destruct (g x) eqn:E; [| exfalso; apply (H x (or_introl eq_refl)); exact E].
  destruct (mapM g r) eqn:E2; [discriminate|]. exfalso. apply IH; [|reflexivity]. intros y Hy. apply H. right. exact Hy.
Qed.

Lemma allM_total : forall o, o <> None -> allM o <> None.
Proof. intros [l|] H; [discriminate | contradiction]. Qed.

Lemma prefix_total : forall (g : schema -> json -> option bool) pre vs,
  (forall p v, In p pre -> g p v <> None) -> spec_prefixItems g pre vs <> None.
Proof.
  intros g. induction pre as [|p pre IH]; intros vs H; [destruct vs; discriminate|].
  destruct vs as [|v vs]; [discriminate|]. simpl.
  destruct (g p v) eqn:E; [| exfalso; apply (H p v (or_introl eq_refl)); exact E].
  destruct (spec_prefixItems g pre vs) eqn:E2; [discriminate|]. exfalso.
  apply (IH vs); [|exact E2]. intros q w Hq. apply H. right. exact Hq.
Qed.

Theorem vspec_total_ref_free : forall re D f s v,
  ref_free s = true -> (depth s < f)%nat -> vspec re D f s v <> None.
Proof.
  intros re D. induction f as [|f IH]; intros s v Hr Hd; [lia|].
  destruct s as [ | |ref a o pre it ad props k]; try discriminate.
  pose proof (sall_here _ _ Hr) as Hn. unfold no_ref_node in Hn. simpl in Hn. destruct ref; [discriminate|].
  destruct (sall_node _ _ _ _ _ _ _ _ _ Hr) as [Ra [Ro [Rpre [Rit [Rad Rprops]]]]].
  destruct (depth_sub None a o pre it ad props k) as [Da [Do [Dpre [Dit [Dad Dprops]]]]].
  assert (G : forall t x, ref_free t = true -> (depth t < depth (SNode None a o pre it ad props k))%nat -> vspec re D f t x <> None)
    by (intros t x H1 H2; apply IH; [exact H1 | lia]).
  cbn [vspec].
  destruct (mapM (fun t => vspec re D f t v) a) eqn:Ea.
  2:{ exfalso. revert Ea. apply mapM_total. intros t Ht. apply G; [apply Ra | apply Da]; exact Ht. }
  destruct (mapM (fun t => vspec re D f t v) o) eqn:Eo.
  2:{ exfalso. revert Eo. apply mapM_total. intros t Ht. apply G; [apply Ro | apply Do]; exact Ht. }
  destruct (spec_app_prefixItems (vspec re D f) pre v) eqn:Ep.
  2:{ exfalso. revert Ep. unfold spec_app_prefixItems. destruct v; try discriminate.
      apply prefix_total. intros p x Hp. apply G; [apply Rpre | apply Dpre]; exact Hp. }
  destruct (spec_app_items (vspec re D f) pre it v) eqn:Ei.
  2:{ exfalso. revert Ei. unfold spec_app_items. destruct v; try discriminate. destruct it as [t|]; [|discriminate].
      apply allM_total. apply mapM_total. intros x _. apply G; [apply Rit | apply Dit]; reflexivity. }
  destruct (spec_app_properties (vspec re D f) props v) eqn:Epr.
  2:{ exfalso. revert Epr. unfold spec_app_properties. destruct v; try discriminate.
      apply allM_total. apply mapM_total. intros [key x] _. destruct (lookup key props) eqn:El; [|discriminate].
      apply lookup_In in El. apply G; [eapply Rprops | eapply Dprops]; exact El. }
  destruct (spec_app_additionalProperties (vspec re D f) props ad v) eqn:Ead.
  2:{ exfalso. revert Ead. unfold spec_app_additionalProperties. destruct v; try discriminate. destruct ad as [t|]; [|discriminate].
      apply allM_total. apply mapM_total. intros [key x] _. destruct (mem key (keys props)); [discriminate|].
      apply G; [apply Rad | apply Dad]; reflexivity. }
  discriminate.
Qed.

(* hence, without $ref, agreement needs no hypothesis about the run at all *)
Theorem validate_agrees_ref_free : forall P re D s v fuel,
  p_minlen_chars P = true -> p_maxlen_chars P = true ->
  ref_free s = true -> (depth s < fuel)%nat ->
  compiled D s = true -> in_vocabulary D s = true -> numbers_integral D s v = true -> value_wf v = true ->
  exists b d, vspec re D fuel s v = Some b /\ vimpl P re D fuel s v = Some (b, d).
Proof.
  intros P re D s v fuel Hmin Hmax Hr Hd Hc Hvoc Hn Hw.
  destruct (vspec re D fuel s v) as [b|] eqn:E; [| exfalso; exact (vspec_total_ref_free re D fuel s v Hr Hd E)].
  destruct (validate_agrees P re D s v fuel b Hmin Hmax Hc Hvoc Hn Hw E) as [d Hd'].
  exists b, d. split; [reflexivity | exact Hd'].
Qed.
