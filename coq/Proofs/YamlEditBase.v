(* Proofs/YamlEditBase.v — list-level lemmas about the loops of Get/Set/Delete (Model/YamlEdit.v). *)
From Coq Require Import Lia ZifyNat ZifyBool.
From Verif Require Import Base.Bytes Model.YamlEdit.

(* ---------- induction over a mapping's content, two nodes at a time ---------- *)
Lemma pair_ind (P : list node -> Prop) :
  P [] -> (forall k, P [k]) -> (forall k v r, P r -> P (k :: v :: r)) -> forall l, P l.
Proof.
  intros H0 H1 H2. fix IH 1. intros [|k [|v r]].
  - exact H0.
  - exact (H1 k).
  - exact (H2 k v r (IH r)).
Qed.

(* ---------- results ---------- *)
Lemma rmap_ok {A B} (f : A -> B) (r : result A) (b : B) :
  rmap f r = Ok b -> exists a, r = Ok a /\ b = f a.
Proof. destruct r; cbn; intros H; inversion H; eauto. Qed.

Lemma rmap_panic {A B} (f : A -> B) (r : result A) : rmap f r = Panic -> r = Panic.
Proof. destruct r; cbn; intros H; inversion H; auto. Qed.

Lemma rmap_not_panic {A B} (f : A -> B) (r : result A) : r <> Panic -> rmap f r <> Panic.
Proof. intros H E. apply H. eapply rmap_panic; eauto. Qed.

(* ---------- accessors ---------- *)
Lemma acc_eqb_eq a b : acc_eqb a b = true <-> a = b.
Proof.
  destruct a, b; cbn; split; intros H; try discriminate; try (inversion H; subst).
  - apply String.eqb_eq in H. now subst.
  - apply String.eqb_refl.
  - apply Z.eqb_eq in H. now subst.
  - apply Z.eqb_refl.
Qed.

Lemma acc_eqb_refl a : acc_eqb a a = true.
Proof. now apply acc_eqb_eq. Qed.

Lemma acc_eqb_sym a b : acc_eqb a b = acc_eqb b a.
Proof.
  destruct (acc_eqb a b) eqn:E.
  - apply acc_eqb_eq in E. subst. symmetry. apply acc_eqb_refl.
  - destruct (acc_eqb b a) eqn:E'; auto. apply acc_eqb_eq in E'. subst. now rewrite acc_eqb_refl in E.
Qed.

Lemma acc_eqb_neq a b : acc_eqb a b = false <-> a <> b.
Proof.
  split.
  - intros H E. subst. now rewrite acc_eqb_refl in H.
  - intros H. destruct (acc_eqb a b) eqn:E; auto. apply acc_eqb_eq in E. contradiction.
Qed.

Lemma with_content_kind n c : nkind (with_content n c) = nkind n.
Proof. now destruct n. Qed.
Lemma with_content_content n c : ncontent (with_content n c) = c.
Proof. now destruct n. Qed.
Lemma with_content_same n : with_content n (ncontent n) = n.
Proof. now destruct n. Qed.

Lemma len_app l1 l2 : len (l1 ++ l2) = (len l1 + len l2)%Z.
Proof. unfold len. rewrite app_length. lia. Qed.

Lemma len_nonneg l : (0 <= len l)%Z.
Proof. unfold len. lia. Qed.

(* ---------- sequences: upd_nth, del_nth ---------- *)
Lemma upd_nth_ok i f l l' :
  upd_nth i f l = Ok l' ->
  exists c c', nth_error l i = Some c /\ f c = Ok c' /\ nth_error l' i = Some c'
               /\ length l' = length l
               /\ (forall j, j <> i -> nth_error l' j = nth_error l j).
Proof.
  revert i l'. induction l as [|c r IH]; intros i l' H.
  - destruct i; discriminate.
  - destruct i as [|i]; cbn in H.
    + apply rmap_ok in H. destruct H as (c' & Hf & ->).
      exists c, c'. repeat split; auto. intros [|j] Hj; [congruence|reflexivity].
    + apply rmap_ok in H. destruct H as (r' & Hr & ->).
      destruct (IH _ _ Hr) as (c0 & c' & H1 & H2 & H3 & H4 & H5).
      exists c0, c'. repeat split; auto.
      * cbn. now rewrite H4.
      * intros [|j] Hj; [reflexivity|]. cbn. apply H5. congruence.
Qed.

Lemma upd_nth_not_panic i f l :
  (i < length l)%nat -> (forall c, In c l -> f c <> Panic) -> upd_nth i f l <> Panic.
Proof.
  revert i. induction l as [|c r IH]; intros i Hi Hf; cbn in Hi; [lia|].
  destruct i as [|i]; cbn; apply rmap_not_panic.
  - apply Hf. now left.
  - apply IH; [lia|]. intros c0 Hc. apply Hf. now right.
Qed.

Lemma upd_nth_forallb (P : node -> bool) i f l l' :
  forallb P l = true ->
  (forall c c', In c l -> f c = Ok c' -> P c' = true) ->
  upd_nth i f l = Ok l' -> forallb P l' = true.
Proof.
  revert i l'. induction l as [|c r IH]; intros i l' HP Hf H.
  - destruct i; discriminate.
  - cbn in HP. apply andb_true_iff in HP. destruct HP as [Hc Hr].
    destruct i as [|i]; cbn in H; apply rmap_ok in H.
    + destruct H as (c' & Hfc & ->). cbn. rewrite Hr, (Hf c c'); auto. now left.
    + destruct H as (r' & Hr' & ->). cbn. rewrite Hc. cbn. eapply IH; eauto.
      intros c0 c' Hin. apply Hf. now right.
Qed.

Lemma upd_nth_forallb_nth (P : node -> bool) i f l l' :
  (forall j c, j <> i -> nth_error l j = Some c -> P c = true) ->
  (forall c c', nth_error l i = Some c -> f c = Ok c' -> P c' = true) ->
  upd_nth i f l = Ok l' -> forallb P l' = true.
Proof.
  intros Ho Hi H. apply upd_nth_ok in H. destruct H as (c & c' & H1 & H2 & H3 & H4 & H5).
  apply forallb_forall. intros x Hin. apply In_nth_error in Hin. destruct Hin as [j Hj].
  destruct (Nat.eq_dec j i) as [->|Hne].
  - rewrite H3 in Hj. inversion Hj; subst. eapply Hi; eauto.
  - rewrite H5 in Hj by auto. eapply Ho; eauto.
Qed.

Lemma nth_error_del_nth_lt i j l : (j < i)%nat -> nth_error (del_nth i l) j = nth_error l j.
Proof.
  revert i j. induction l as [|c r IH]; intros i j H; destruct i; cbn; try lia; auto.
  destruct j; cbn; auto. apply IH. lia.
Qed.

Lemma nth_error_del_nth_ge i j l : (i <= j)%nat -> nth_error (del_nth i l) j = nth_error l (S j).
Proof.
  revert i j. induction l as [|c r IH]; intros i j H; destruct i; cbn; auto.
  - now destruct j.
  - now destruct j.
  - destruct j; [lia|]. cbn. apply IH. lia.
Qed.

Lemma length_del_nth i l : (i < length l)%nat -> length (del_nth i l) = pred (length l).
Proof.
  revert i. induction l as [|c r IH]; intros i H; cbn in H; [lia|].
  destruct i; cbn; auto. rewrite IH by lia. destruct r; cbn in *; lia.
Qed.

Lemma forallb_del_nth (P : node -> bool) i l : forallb P l = true -> forallb P (del_nth i l) = true.
Proof.
  revert i. induction l as [|c r IH]; intros i H; destruct i; cbn in *; auto;
    apply andb_true_iff in H; destruct H as [H1 H2]; auto.
  rewrite H1. cbn. now apply IH.
Qed.

Lemma nth_error_in_range (l : list node) (i : Z) :
  (0 <= i)%Z -> (i < len l)%Z -> exists c, nth_error l (Z.to_nat i) = Some c.
Proof.
  intros H0 H1. destruct (nth_error l (Z.to_nat i)) eqn:E; eauto.
  apply nth_error_None in E. unfold len in H1. lia.
Qed.

(* ---------- mappings: find_val, upd_key, del_key ---------- *)
Lemma keys_of_app_pair l k v :
  Nat.even (length l) = true -> keys_of (l ++ [k; v]) = keys_of l ++ [k].
Proof.
  induction l as [| k0 | k0 v0 r IH] using pair_ind; cbn; intros H; auto; try discriminate.
  now rewrite IH.
Qed.

Lemma find_val_missing_str_in key l :
  find_val key l = GMissing <-> (Nat.even (length l) = true /\ str_in key (key_names l) = false).
Proof.
  induction l as [| k0 | k0 v0 r IH] using pair_ind; cbn.
  - tauto.
  - split; [discriminate|]. intros [H _]. discriminate.
  - unfold key_names in *. cbn. destruct (String.eqb (nvalue k0) key); cbn.
    + split; [discriminate|]. intros [_ H]. discriminate.
    + exact IH.
Qed.

Lemma find_val_not_panic key l : Nat.even (length l) = true -> find_val key l <> GPanic.
Proof.
  induction l as [| k0 | k0 v0 r IH] using pair_ind; cbn; intros H; try discriminate.
  destruct (String.eqb (nvalue k0) key); [discriminate|auto].
Qed.

Lemma find_val_in key l v : find_val key l = GFound v -> In v (vals_of l).
Proof.
  induction l as [| k0 | k0 v0 r IH] using pair_ind; cbn; try discriminate.
  destruct (String.eqb (nvalue k0) key); intros H.
  - inversion H. now left.
  - right. auto.
Qed.

Lemma vals_of_in l v : In v (vals_of l) -> In v l.
Proof.
  induction l as [| k0 | k0 v0 r IH] using pair_ind; cbn; auto.
  intros [H|H]; auto.
Qed.

Lemma keys_of_in l k : In k (keys_of l) -> In k l.
Proof.
  induction l as [| k0 | k0 v0 r IH] using pair_ind; cbn; auto.
  intros [H|H]; auto.
Qed.

(* a successful update: the node it continued in, and what lookups see afterwards *)
Lemma upd_key_ok key f l l' :
  upd_key key f l = Ok l' ->
  exists v0 v', f v0 = Ok v' /\ find_val key l' = GFound v' /\
    ((find_val key l = GFound v0 /\ keys_of l' = keys_of l /\ length l' = length l)
     \/ (find_val key l = GMissing /\ v0 = zero_node /\ l' = l ++ [key_node key; v'])).
Proof.
  revert l'. induction l as [| k0 | k0 v0 r IH] using pair_ind; intros l' H; cbn in H.
  - apply rmap_ok in H. destruct H as (v' & Hf & ->).
    exists zero_node, v'. split; auto. split.
    + cbn. now rewrite String.eqb_refl.
    + right. auto.
  - discriminate.
  - destruct (String.eqb (nvalue k0) key) eqn:E.
    + apply rmap_ok in H. destruct H as (v' & Hf & ->).
      exists v0, v'. split; auto. cbn. rewrite E. split; auto.
    + apply rmap_ok in H. destruct H as (r' & Hr & ->).
      destruct (IH _ Hr) as (w0 & w' & Hf & Hfind & Hcase).
      exists w0, w'. split; auto. cbn. rewrite E. split; auto.
      destruct Hcase as [(H1 & H2 & H3)|(H1 & H2 & H3)].
      * left. split; [exact H1|]. split; cbn; congruence.
      * right. split; [exact H1|]. split; [exact H2|]. cbn. congruence.
Qed.

Lemma upd_key_other key key' f l l' :
  key' <> key -> upd_key key f l = Ok l' -> find_val key' l' = find_val key' l.
Proof.
  intros Hne. revert l'. induction l as [| k0 | k0 v0 r IH] using pair_ind; intros l' H; cbn in H.
  - apply rmap_ok in H. destruct H as (v' & Hf & ->). cbn.
    destruct (String.eqb key key') eqn:E; auto. apply String.eqb_eq in E. congruence.
  - discriminate.
  - destruct (String.eqb (nvalue k0) key) eqn:E; apply rmap_ok in H.
    + destruct H as (v' & Hf & ->). cbn.
      destruct (String.eqb (nvalue k0) key') eqn:E'; auto.
      apply String.eqb_eq in E, E'. congruence.
    + destruct H as (r' & Hr & ->). cbn.
      destruct (String.eqb (nvalue k0) key'); auto.
Qed.

Lemma upd_key_not_panic key f l :
  Nat.even (length l) = true -> (forall v, In v (vals_of l) \/ v = zero_node -> f v <> Panic) ->
  upd_key key f l <> Panic.
Proof.
  induction l as [| k0 | k0 v0 r IH] using pair_ind; cbn; intros He Hf; try discriminate.
  - apply rmap_not_panic, Hf. now right.
  - destruct (String.eqb (nvalue k0) key); apply rmap_not_panic.
    + apply Hf. left. now left.
    + apply IH; auto. intros v [H|H]; apply Hf; auto.
Qed.

(* deletion of a pair *)
Lemma del_key_last_missing pr key f l l' :
  Nat.even (length l) = true -> nodupb (key_names l) = true ->
  del_key pr key true f l = Ok l' -> find_val key l' = GMissing.
Proof.
  revert l'. induction l as [| k0 | k0 v0 r IH] using pair_ind; intros l' He Hnd H; cbn in H.
  - now inversion H.
  - discriminate.
  - unfold key_names in Hnd. cbn in Hnd, He. apply andb_true_iff in Hnd. destruct Hnd as [Hn1 Hn2].
    destruct (String.eqb (nvalue k0) key) eqn:E.
    + inversion H; subst. apply String.eqb_eq in E. subst key.
      apply find_val_missing_str_in. split; auto. now apply negb_true_iff in Hn1.
    + apply rmap_ok in H. destruct H as (r' & Hr & ->). cbn. rewrite E. now apply IH.
Qed.

(* what Delete does to a mapping's content when the key is the last path element *)
Fixpoint del_pair (key : string) (l : list node) : list node :=
  match l with
  | k :: v :: r => if String.eqb (nvalue k) key then r else k :: v :: del_pair key r
  | _ => l
  end.

Lemma del_key_last_eq pr key f l l' : del_key pr key true f l = Ok l' -> l' = del_pair key l.
Proof.
  revert l'. induction l as [| k0 | k0 v0 r IH] using pair_ind; intros l' H; cbn in H.
  - now inversion H.
  - discriminate.
  - cbn. destruct (String.eqb (nvalue k0) key).
    + now inversion H.
    + apply rmap_ok in H. destruct H as (r' & Hr & ->). now rewrite (IH _ Hr).
Qed.

Lemma del_pair_other key key' l :
  key' <> key -> find_val key' (del_pair key l) = find_val key' l.
Proof.
  intros Hne. induction l as [| k0 | k0 v0 r IH] using pair_ind; cbn; auto.
  destruct (String.eqb (nvalue k0) key) eqn:E.
  - destruct (String.eqb (nvalue k0) key') eqn:E'; auto.
    apply String.eqb_eq in E, E'. congruence.
  - cbn. destruct (String.eqb (nvalue k0) key'); auto.
Qed.

Lemma del_pair_names_sub key l x :
  str_in x (key_names (del_pair key l)) = true -> str_in x (key_names l) = true.
Proof.
  induction l as [| k0 | k0 v0 r IH] using pair_ind; cbn; auto.
  unfold key_names in *. destruct (String.eqb (nvalue k0) key); cbn.
  - intros H. rewrite H. apply orb_true_r.
  - intros H. apply orb_true_iff in H as [H|H]; [now rewrite H|]. rewrite (IH H). apply orb_true_r.
Qed.

Lemma del_pair_props key l :
  Nat.even (length l) = true -> forallb is_scalar (keys_of l) = true ->
  nodupb (key_names l) = true -> forallb wf l = true ->
  Nat.even (length (del_pair key l)) = true /\ forallb is_scalar (keys_of (del_pair key l)) = true
  /\ nodupb (key_names (del_pair key l)) = true /\ forallb wf (del_pair key l) = true.
Proof.
  induction l as [| k0 | k0 v0 r IH] using pair_ind; intros He Hs Hnd Hw; cbn; auto.
  cbn in He. unfold key_names in Hnd. cbn in Hs, Hnd, Hw.
  apply andb_true_iff in Hs as [Hs1 Hs2]. apply andb_true_iff in Hnd as [Hn1 Hn2].
  apply andb_true_iff in Hw as [Hw1 Hw]. apply andb_true_iff in Hw as [Hw2 Hw3].
  destruct (String.eqb (nvalue k0) key); auto.
  destruct (IH He Hs2 Hn2 Hw3) as (I1 & I2 & I3 & I4).
  unfold key_names. cbn. rewrite I1, Hs1, I2, Hw1, Hw2, I4. fold (key_names (del_pair key r)). rewrite I3.
  repeat split; auto. rewrite andb_true_r. apply negb_true_iff. apply negb_true_iff in Hn1.
  destruct (str_in (nvalue k0) (key_names (del_pair key r))) eqn:E; auto.
  apply del_pair_names_sub in E. unfold key_names in E. congruence.
Qed.

(* Delete continuing below a key *)
Lemma del_key_notlast_ok pr key f l l' :
  del_key pr key false f l = Ok l' ->
  (exists v v', find_val key l = GFound v /\ f v = Ok v' /\ find_val key l' = GFound v'
                /\ keys_of l' = keys_of l /\ length l' = length l
                /\ (forall key', key' <> key -> find_val key' l' = find_val key' l))
  \/ (find_val key l = GMissing /\ l' = l).
Proof.
  revert l'. induction l as [| k0 | k0 v0 r IH] using pair_ind; intros l' H; cbn in H.
  - right. destruct (p_del_missing pr); cbn in H; try discriminate. inversion H. auto.
  - discriminate.
  - destruct (String.eqb (nvalue k0) key) eqn:E; apply rmap_ok in H.
    + destruct H as (v' & Hf & ->). left. exists v0, v'. cbn. rewrite E. repeat split; auto.
      intros key' Hne. destruct (String.eqb (nvalue k0) key') eqn:E'; auto.
      apply String.eqb_eq in E, E'. congruence.
    + destruct H as (r' & Hr & ->). destruct (IH _ Hr) as [(v & v' & H1 & H2 & H3 & H4 & H5 & H6)|[H1 H2]].
      * left. exists v, v'. cbn. rewrite E. repeat split; auto; try congruence.
        intros key' Hne. destruct (String.eqb (nvalue k0) key'); auto.
      * right. cbn. rewrite E. split; auto. congruence.
Qed.

Lemma del_key_not_panic pr key last f l :
  p_del_missing pr <> GdNone -> Nat.even (length l) = true ->
  (forall v, In v (vals_of l) -> f v <> Panic) -> del_key pr key last f l <> Panic.
Proof.
  intros Hg. induction l as [| k0 | k0 v0 r IH] using pair_ind; cbn; intros He Hf; try discriminate.
  - destruct last; [discriminate|]. destruct (p_del_missing pr); cbn; congruence.
  - destruct (String.eqb (nvalue k0) key).
    + destruct last; [discriminate|]. apply rmap_not_panic, Hf. now left.
    + apply rmap_not_panic, IH; auto.
Qed.

Lemma del_key_map_ok pr key last f l l' :
  Nat.even (length l) = true -> forallb is_scalar (keys_of l) = true ->
  nodupb (key_names l) = true -> forallb wf l = true ->
  (forall v v', In v (vals_of l) -> f v = Ok v' -> wf v' = true) ->
  del_key pr key last f l = Ok l' ->
  Nat.even (length l') = true /\ forallb is_scalar (keys_of l') = true
  /\ nodupb (key_names l') = true /\ forallb wf l' = true.
Proof.
  intros He Hs Hnd Hw Hf H. destruct last.
  - apply del_key_last_eq in H. subst l'. now apply del_pair_props.
  - revert l' He Hs Hnd Hw Hf H.
    induction l as [| k0 | k0 v0 r IH] using pair_ind; intros l' He Hs Hnd Hw Hf H.
    + cbn in H. destruct (p_del_missing pr); cbn in H; try discriminate. inversion H. auto.
    + discriminate.
    + cbn in He. unfold key_names in Hnd. cbn in Hs, Hnd, Hw.
      apply andb_true_iff in Hs as [Hs1 Hs2]. apply andb_true_iff in Hnd as [Hn1 Hn2].
      apply andb_true_iff in Hw as [Hw1 Hw]. apply andb_true_iff in Hw as [Hw2 Hw3].
      cbn in H. destruct (String.eqb (nvalue k0) key) eqn:E; apply rmap_ok in H.
      * destruct H as (v' & Hfv & ->). unfold key_names. cbn.
        assert (Hv' : wf v' = true) by (apply (Hf v0 v'); auto; now left).
        rewrite He, Hs1, Hs2, Hn1, Hn2, Hw1, Hw3, Hv'; auto.
      * destruct H as (r' & Hr & ->).
        assert (Hf' : forall v v', In v (vals_of r) -> f v = Ok v' -> wf v' = true).
        { intros v v' Hin. apply Hf. now right. }
        destruct (IH _ He Hs2 Hn2 Hw3 Hf' Hr) as (I1 & I2 & I3 & I4).
        unfold key_names. cbn. rewrite I1, Hs1, I2, Hw1, Hw2, I4. fold (key_names r'). rewrite I3.
        repeat split; auto. rewrite andb_true_r.
        destruct (del_key_notlast_ok _ _ _ _ _ Hr) as [(v & v' & _ & _ & _ & Hk & _)|[_ ->]].
        -- unfold key_names. now rewrite Hk.
        -- exact Hn1.
Qed.

(* an update that gives back the same element gives back the same list *)
Lemma upd_nth_same i f l l' :
  upd_nth i f l = Ok l' -> (forall c c', nth_error l i = Some c -> f c = Ok c' -> c' = c) -> l' = l.
Proof.
  revert i l'. induction l as [|c r IH]; intros i l' H Hs.
  - destruct i; discriminate.
  - destruct i as [|i]; cbn in H; apply rmap_ok in H.
    + destruct H as (c' & Hf & ->). now rewrite (Hs c c' eq_refl Hf).
    + destruct H as (r' & Hr & ->). f_equal. eapply IH; eauto.
Qed.

Lemma del_key_notlast_same pr key f l l' :
  del_key pr key false f l = Ok l' ->
  (forall v v', find_val key l = GFound v -> f v = Ok v' -> v' = v) -> l' = l.
Proof.
  revert l'. induction l as [| k0 | k0 v0 r IH] using pair_ind; intros l' H Hs; cbn in H.
  - destruct (p_del_missing pr); cbn in H; try discriminate. now inversion H.
  - discriminate.
  - cbn in Hs. destruct (String.eqb (nvalue k0) key) eqn:E; apply rmap_ok in H.
    + destruct H as (v' & Hf & ->). now rewrite (Hs v0 v' eq_refl Hf).
    + destruct H as (r' & Hr & ->). do 2 f_equal. eapply IH; eauto.
Qed.

Lemma del_pair_missing key l : find_val key l = GMissing -> del_pair key l = l.
Proof.
  induction l as [| k0 | k0 v0 r IH] using pair_ind; cbn; auto.
  destruct (String.eqb (nvalue k0) key); [discriminate|]. intros H. now rewrite IH.
Qed.
