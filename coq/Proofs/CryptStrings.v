(* Proofs/CryptStrings.v — "strings stay strings": what MarshalYAML does to the tag, value and style of a string
   node, and why the scalars the visitors synthesise are read back as strings. *)
From Verif Require Import Base.Bytes Model.Envelope Model.YamlTree Model.Crypt
     Proofs.YamlTreeProofs Proofs.CryptSkeleton Proofs.CryptSem.

(* decidable side conditions on the constants read from the source *)
Definition no_dollarb (s : string) : bool := forallb (fun c => negb (Ascii.eqb c dollar)) (chars s).

Lemma no_dollarb_ok s : no_dollarb s = true -> no_dollar s.
Proof.
  unfold no_dollarb, no_dollar. intros H. rewrite forallb_forall in H. apply Forall_forall.
  intros c Hc. specialize (H c Hc). now destruct (Ascii.eqb c dollar).
Qed.

Definition magic_first_ok (P : env_params) : bool :=
  match ep_magic P with
  | String c0 _ => negb (special_first (b64char (N_of_ascii c0 / 4)))
  | EmptyString => false
  end.

Lemma magic_first_ok_plain P : magic_first_ok P = true -> forall ct, plain_is_string (encode_ct P ct) = true.
Proof.
  unfold magic_first_ok. destruct (ep_magic P) as [|c0 r0] eqn:E; [discriminate|]. intros H ct.
  apply (envelope_plain_is_string P ct c0 r0 E). now destruct (special_first _).
Qed.

Section Strings.
  Variable quote_words : list string.
  Variable pf : string -> bool.
  Notation marshal_str := (marshal_str quote_words pf).

  (* tag, value, style of a marshalled string node.  Style: single-quoted when ParseFloat accepts the text or it is a
     quoting word; otherwise double-quoted with the block bits cleared when the guard of fix 9b9d633 fires (unquoted,
     contains [block_contains], starts with one of [block_prefixes]); otherwise the style it had *)
  Theorem marshal_str_facts s v :
    (y_tag (marshal_str s v) = "" \/ y_tag (marshal_str s v) = tag_str)
    /\ y_value (marshal_str s v) = v
    /\ (needs_quote quote_words pf v = true -> y_style (marshal_str s v) = st_single)
    /\ (needs_quote quote_words pf v = false ->
        y_style (marshal_str s v) =
        if block_guard (y_style (base_meta s)) v then force_double (y_style (base_meta s)) else y_style (base_meta s)).
  Proof.
    split; [apply marshal_str_tag|]. split; [apply marshal_str_value|].
    rewrite (marshal_str_style quote_words pf). unfold str_style.
    destruct (needs_quote quote_words pf v); split; intros H; try discriminate; [|reflexivity].
    (* single-quoted: the guard's first test fails *)
    unfold block_guard. reflexivity.
  Qed.

  (* a string node decoded from YAML keeps an explicit string tag whatever its text is: the text of a decrypted
     secret is written on the node of the ciphertext it replaces *)
  Theorem marshal_str_yaml_tagged m v :
    String.eqb (y_tag m) "" = false -> y_tag (marshal_str (SynYaml m) v) = tag_str.
  Proof.
    intros Hm. rewrite (marshal_str_tag_eq quote_words pf). unfold norm_tag. cbn [base_meta]. rewrite Hm. cbn [negb andb].
    destruct (String.eqb (y_tag m) tag_str) eqn:E; cbn [negb]; [now apply eqb_true_s|reflexivity].
  Qed.

  (* an untagged synthesised string whose first character is outside yaml.v3's resolver table is read back as
     a string *)
  Theorem resolved_marshal_str s v :
    plain_is_string v = true -> y_tag (resolved_scalar (marshal_str s v)) = tag_str.
  Proof.
    intros Hp. destruct (marshal_str_tag quote_words pf s v) as [H|H].
    - unfold resolved_scalar. rewrite H. cbn [String.eqb]. rewrite marshal_str_value, Hp. reflexivity.
    - rewrite resolved_scalar_tagged; rewrite H; reflexivity.
  Qed.
End Strings.
