(* Proofs/CryptStrings.v — "strings stay strings": what MarshalYAML does to the tag, value and style of a string
   node, and why the scalars the visitors synthesise are read back as strings. *)
From Verif Require Import Base.Bytes Model.Envelope Model.YamlTree Model.Crypt
     Proofs.YamlTreeProofs Proofs.CryptSkeleton Proofs.CryptSem.

(* decidable side conditions on the constants read from the source *)
Definition no_dollarb (s : string) : bool := forallb (fun c => negb (Ascii.eqb c dollar)) (chars s).

Lemma no_dollarb_ok s : no_dollarb s = true -> no_dollar s.
Proof.
  unfold no_dollarb, no_dollar. intros H. rewrite forallb_forall in H. apply Forall_forall.
  intros c Hc. specialize (H c Hc). now destruct (Ascii.eqb c dollar).
Qed.

Definition magic_first_ok (P : env_params) : bool :=
  match ep_magic P with
  | String c0 _ => negb (special_first (b64char (N_of_ascii c0 / 4)))
  | EmptyString => false
  end.

Lemma magic_first_ok_plain P : magic_first_ok P = true -> forall ct, plain_is_string (encode_ct P ct) = true.
Proof.
  unfold magic_first_ok. destruct (ep_magic P) as [|c0 r0] eqn:E; [discriminate|]. intros H ct.
  apply (envelope_plain_is_string P ct c0 r0 E). now destruct (special_first _).
Qed.

Section Strings.
  Variable quote_words : list string.
  Variable pf : string -> bool.
  Notation marshal_str := (marshal_str quote_words pf).

  (* tag, value, style of a marshalled string node *)
  Theorem marshal_str_facts s v :
    (y_tag (marshal_str s v) = "" \/ y_tag (marshal_str s v) = tag_str)
    /\ y_value (marshal_str s v) = v
    /\ (needs_quote quote_words pf v = true -> y_style (marshal_str s v) = st_single)
    /\ (needs_quote quote_words pf v = false -> y_style (marshal_str s v) = y_style (base_meta s)).
  Proof.
    split; [apply marshal_str_tag|]. split; [apply marshal_str_value|].
    unfold YamlTree.marshal_str. destruct (norm_tag_comments tag_str (base_meta s)) as (_ & _ & _ & _ & Hst).
    destruct (needs_quote quote_words pf v); split; intros H; try discriminate; cbn; auto.
  Qed.

  (* a string node decoded from YAML keeps an explicit string tag whatever its text is: the text of a decrypted
     secret is written on the node of the ciphertext it replaces *)
  Theorem marshal_str_yaml_tagged m v :
    String.eqb (y_tag m) "" = false -> y_tag (marshal_str (SynYaml m) v) = tag_str.
  Proof.
    intros Hm. unfold YamlTree.marshal_str, norm_tag. cbn [base_meta]. rewrite Hm. cbn [negb andb].
    destruct (String.eqb (y_tag m) tag_str) eqn:E; cbn [negb];
      destruct (needs_quote quote_words pf v); cbn; try reflexivity; now apply eqb_true_s.
  Qed.

  (* an untagged synthesised string whose first character is outside yaml.v3's resolver table is read back as
     a string *)
  Theorem resolved_marshal_str s v :
    plain_is_string v = true -> y_tag (resolved_scalar (marshal_str s v)) = tag_str.
  Proof.
    intros Hp. destruct (marshal_str_tag quote_words pf s v) as [H|H].
    - unfold resolved_scalar. rewrite H. cbn [String.eqb]. rewrite marshal_str_value, Hp. reflexivity.
    - rewrite resolved_scalar_tagged; rewrite H; reflexivity.
  Qed.
End Strings.
