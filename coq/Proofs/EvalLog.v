(* Proofs/EvalLog.v — what the evaluator's log of collaborator calls can contain.
   The instance [delta] ("the log grew by events that all satisfy [ev_ok], one per collaborator call,
   and no counter decreased") of the generic induction of Proofs/EvalLogInd.v yields log_monotone,
   check_no_open, check_no_decrypt, open_inputs_ok, decrypt_only_valid_envelopes and calls_counts_log. *)
From Coq Require Import Lia ZifyN ZifyNat ZifyBool.
From Verif Require Import Base.Bytes Model.Chain Model.GoText Model.Envelope Model.Eval.
From Verif Require Import Proofs.EvalLogKit Proofs.EvalLogInd.

(* ------------------------------------------------------------------------------------------- *)
(** * 1. The instance: "the log grew by events that are all OK, one per collaborator call" *)

Definition delta (OK : ev -> Prop) (g s : st) : Prop :=
  exists new, log s = new ++ log g /\ Forall OK new
              /\ calls s = calls g + N.of_nat (length new) /\ nerr g <= nerr s.

Lemma delta_refl (OK : ev -> Prop) s : delta OK s s.
Proof. exists []. cbn. repeat split; [constructor|lia|lia]. Qed.

Lemma delta_trans (OK1 OK2 OK : ev -> Prop) g s s' :
  (forall e, OK1 e -> OK e) -> (forall e, OK2 e -> OK e) ->
  delta OK1 g s -> delta OK2 s s' -> delta OK g s'.
Proof.
  intros H1 H2 (n1 & L1 & F1 & C1 & E1) (n2 & L2 & F2 & C2 & E2).
  exists (n2 ++ n1). rewrite L2, L1, app_assoc. split; [reflexivity|]. split.
  - apply Forall_app. split; [eapply Forall_impl; [exact H2|exact F2]|eapply Forall_impl; [exact H1|exact F1]].
  - rewrite app_length. lia.
Qed.

Lemma delta_weaken (OK1 OK : ev -> Prop) g s : (forall e, OK1 e -> OK e) -> delta OK1 g s -> delta OK g s.
Proof.
  intros H (n & L & F & C & E). exists n. repeat split; try assumption. eapply Forall_impl; [exact H|exact F].
Qed.

Lemma delta_stable (OK : ev -> Prop) g : lcn_stable (delta OK g).
Proof.
  intros s s' Hl Hc Hn (n & L & F & C & E). exists n. rewrite Hl, Hc. repeat split; try assumption. lia.
Qed.

Lemma delta_event W (OK : ev -> Prop) g e s : OK e -> delta OK g s -> delta OK g (snd (emit e (snd (call W s)))).
Proof.
  intros He (n & L & F & C & E). exists (e :: n). cbn. rewrite L. split; [reflexivity|].
  split; [constructor; assumption|]. split; [lia|exact E].
Qed.

(* what a state invariant on logs needs in order to be carried along a [delta] *)
Lemma delta_Forall (OK P : ev -> Prop) g s :
  (forall e, OK e -> P e) -> delta OK g s -> Forall P (log g) -> Forall P (log s).
Proof.
  intros H (n & L & F & _) Hg. rewrite L. apply Forall_app. split; [|exact Hg]. eapply Forall_impl; [exact H|exact F].
Qed.

Lemma delta_mono (OK : ev -> Prop) g s : delta OK g s -> suffix_of (log g) (log s) /\ nerr g <= nerr s /\ calls g <= calls s.
Proof. intros (n & L & F & C & E). split; [exists n; exact L|]. lia. Qed.

Lemma delta_count (OK : ev -> Prop) g s :
  delta OK g s -> calls g = N.of_nat (length (log g)) -> calls s = N.of_nat (length (log s)).
Proof. intros (n & L & F & C & E) H. rewrite L, app_length. lia. Qed.

(* events of a whole environment evaluation started with root [root] for environment [name] *)
Definition env_ev_ok (W : world) (IdOK : ectx -> eid -> Prop) (root name : string) (e : ev) : Prop :=
  match e with
  | EvLoad _ => True
  | _ => exists E, ev_ok W IdOK E e
                   /\ (eff_root root name <> "" -> eff_root root name <> "<yaml>" -> ec_root E = eff_root root name)
                   (* whatever the names: an anonymous root is only ever told to the anonymous environment itself *)
                   /\ (anon_root (ec_root E) = false \/ ec_root E = ec_name E)
  end.

Lemma eff_root_idem root name n :
  eff_root root name <> "" -> eff_root root name <> "<yaml>" -> eff_root (eff_root root name) n = eff_root root name.
Proof.
  intros H H'. rewrite (eff_root_anon (eff_root root name) n).
  rewrite (proj2 (anon_root_false (eff_root root name)) (conj H H')). reflexivity.
Qed.

Lemma eff_root_anon_or_own root name : anon_root (eff_root root name) = false \/ eff_root root name = name.
Proof.
  rewrite eff_root_anon. destruct (anon_root root) eqn:E; [now right|now left].
Qed.

Section Delta.
Variable W : world.
Variable IdOK : ectx -> eid -> Prop.
Hypothesis IdOK_closed : id_closed IdOK.

Let R (E : ectx) := delta (ev_ok W IdOK E).
Let Renv (root name : string) := delta (env_ev_ok W IdOK root name).

Lemma delta_memo_set (OK : ev -> Prop) g s id v : delta OK g s -> delta OK g (snd (memo_set id v s)).
Proof. apply (pres_memo_set _ (delta_stable OK g)). Qed.

Theorem eval_delta : forall fuel,
  (forall E x xsec xbase id g, IdOK E id ->
     preserves (delta (ev_ok W IdOK E) g) (eval_expr W fuel E x xsec xbase id)) /\
  (forall E x xbase id s, IdOK E id ->
     delta (ev_ok W IdOK E) s (snd (eval_repr W fuel E x xbase id s))) /\
  (forall E x a id g, IdOK E id ->
     hoare (delta (ev_ok W IdOK E) g) (eval_typed W fuel E x a id)
           (fun r s => delta (ev_ok W IdOK E) g s /\ typed_post a r)) /\
  (forall E p g, preserves (delta (ev_ok W IdOK E) g) (eval_access W fuel E p)) /\
  (forall E rx rsec rbase rid accs g, IdOK E rid ->
     preserves (delta (ev_ok W IdOK E) g) (walk W fuel E rx rsec rbase rid accs)).
Proof.
  intros fuel.
  pose proof (eval_ind_pres W IdOK IdOK_closed R) as H.
  specialize (H (fun E s => delta_refl _ s)).
  specialize (H (fun E g n => pres_add_err _ (delta_stable _ g) n)).
  specialize (H (fun E g => pres_out_of_fuel _ (delta_stable _ g))).
  specialize (H (fun E g e s He _ => delta_event W _ g e s He)).
  specialize (H (fun _ _ => True) (fun E _ => R E)).
  specialize (H (fun E id s s' _ Hr => Hr)).
  specialize (H (fun E id s n => pres_add_err _ (delta_stable _ s) n)).
  specialize (H (fun E id s s1 p xin _ Hr He => delta_event W _ s _ s1 He Hr)).
  assert (forall E id g s0, R E g s0 -> memo_get id (memo s0) = None ->
            True /\ forall s2 v, R E (snd (memo_set id None s0)) s2 -> R E g (snd (memo_set id v s2))) as Hm.
  { intros E id g s0 Hr _. split; [exact I|]. intros s2 v H2. apply delta_memo_set.
    eapply delta_trans; [| |apply delta_memo_set, Hr|exact H2]; auto. }
  specialize (H Hm fuel). destruct H as (He & Hr & Ht & Ha & Hw).
  split; [exact He|]. split; [|split; [exact Ht|split; [exact Ha|exact Hw]]].
  intros E x xbase id s Hid. apply Hr; [exact Hid|exact I].
Qed.

(* [eval_env_pres] with the expression-level relation fixed to [delta (ev_ok ...)] *)
Lemma eval_env_pres_delta (Renv' : string -> string -> st -> st -> Prop) :
  (forall root name s, Renv' root name s s) ->
  (forall root name g n, preserves (Renv' root name g) (add_err n)) ->
  (forall root name g, preserves (Renv' root name g) out_of_fuel) ->
  (forall root name g n v, preserves (Renv' root name g) (imps_set n v)) ->
  (forall root name g n s, Renv' root name g s -> Renv' root name g (snd (emit (EvLoad n) (snd (call W s))))) ->
  (forall root name E g s s', ec_name E = name -> ec_root E = eff_root root name ->
     Renv' root name g s -> delta (ev_ok W IdOK E) s s' -> Renv' root name g s') ->
  (forall root name n g s s', Renv' root name g s ->
     Renv' (eff_root root name) n (snd (emit (EvLoad n) (snd (call W s)))) s' -> Renv' root name g s') ->
  forall fuel root name d g, preserves (Renv' root name g) (eval_env W fuel root name d).
Proof.
  apply (eval_env_pres W IdOK IdOK_closed R (fun E s => delta_refl _ s)
           (fun E g n => pres_add_err _ (delta_stable _ g) n)
           (fun E g => pres_out_of_fuel _ (delta_stable _ g))
           (fun E g e s He _ => delta_event W _ g e s He)
           (fun _ _ => True) (fun E _ => R E)
           (fun E id s s' _ Hr => Hr)
           (fun E id s n => pres_add_err _ (delta_stable _ s) n)
           (fun E id s s1 p xin _ Hr He => delta_event W _ s _ s1 He Hr)).
  intros E id g s0 Hr _. split; [exact I|]. intros s2 v H2. apply delta_memo_set.
  eapply delta_trans; [| |apply delta_memo_set, Hr|exact H2]; auto.
Qed.

Theorem eval_env_delta : forall fuel root name d g,
  preserves (delta (env_ev_ok W IdOK root name) g) (eval_env W fuel root name d).
Proof.
  assert (forall root name E e, ec_name E = name -> ec_root E = eff_root root name ->
            ev_ok W IdOK E e -> env_ev_ok W IdOK root name e) as Hup.
  { intros root name E e Hn Hr He. destruct e; try exact I; exists E; (split; [exact He|split; [intros _ _; exact Hr|]]);
      rewrite Hr, Hn; apply eff_root_anon_or_own. }
  assert (forall root name n e, env_ev_ok W IdOK (eff_root root name) n e -> env_ev_ok W IdOK root name e) as Hnest.
  { intros root name n e He.
    destruct e; try exact I; destruct He as (E & He & Hr & Han); exists E; (split; [exact He|split; [|exact Han]]);
      intros Hne Hny; rewrite <- (eff_root_idem root name n Hne Hny); apply Hr; rewrite eff_root_idem; assumption. }
  apply (eval_env_pres_delta Renv).
  - intros root name s. apply delta_refl.
  - intros root name g n. apply pres_add_err, delta_stable.
  - intros root name g. apply pres_out_of_fuel, delta_stable.
  - intros root name g n v. apply pres_imps_set, delta_stable.
  - intros root name g n s. apply delta_event. exact I.
  - intros root name E g s s' Hn Hr H1 H2. eapply delta_trans; [| |exact H1|exact H2]; [auto|].
    intros e. apply Hup; assumption.
  - intros root name n g s s' H1 H2.
    eapply delta_trans; [| |apply (delta_event W _ g (EvLoad n) s I H1)|exact H2]; [auto|apply Hnest].
Qed.

(* which environment an event belongs to *)
Definition ev_env (e : ev) : option string :=
  match e with EvOpen _ _ _ _ c => Some c | EvDecrypt env _ => Some env | _ => None end.

(* the new events belong to [name] or to an environment loaded among the new events *)
Definition own_or_loaded (name : string) (g s : st) : Prop :=
  exists new, log s = new ++ log g /\
    forall e c, In e new -> ev_env e = Some c -> c = name \/ In (EvLoad c) new.

Theorem eval_env_own_or_loaded : forall fuel root name d g,
  preserves (own_or_loaded name g) (eval_env W fuel root name d).
Proof.
  assert (forall name g s s', log s' = log s -> own_or_loaded name g s -> own_or_loaded name g s') as Hlog.
  { intros name g s s' Hl (n & L & H). exists n. rewrite Hl. split; assumption. }
  apply (eval_env_pres_delta (fun _ name => own_or_loaded name)).
  - intros _ name s. exists []. split; [reflexivity|]. intros e c [].
  - intros _ name g n s. apply Hlog. reflexivity.
  - intros _ name g s. apply Hlog. reflexivity.
  - intros _ name g n v s. apply Hlog. reflexivity.
  - intros _ name g n s (nw & L & H). exists (EvLoad n :: nw). cbn. rewrite L. split; [reflexivity|].
    intros e c [<-|Hin] Hc; [discriminate|]. destruct (H e c Hin Hc) as [->|Hl]; [now left|right; now right].
  - intros _ name E g s s' Hn _ (n1 & L1 & H1) (n2 & L2 & F2 & _). exists (n2 ++ n1).
    rewrite L2, L1, app_assoc. split; [reflexivity|]. intros e c Hin Hc. apply in_app_or in Hin. destruct Hin as [Hin|Hin].
    + left. rewrite Forall_forall in F2. specialize (F2 e Hin).
      destruct e; try discriminate; cbn in Hc; inversion Hc; subst.
      * destruct F2 as (_ & _ & Hcn & _). congruence.
      * destruct F2 as (Hen & _). congruence.
    + destruct (H1 e c Hin Hc) as [->|Hl]; [now left|right; apply in_or_app; now right].
  - intros _ name n g s s' (n1 & L1 & H1) (n2 & L2 & H2). exists (n2 ++ EvLoad n :: n1).
    rewrite L2. cbn. rewrite L1, <- app_assoc. split; [reflexivity|].
    intros e c Hin Hc. apply in_app_or in Hin. destruct Hin as [Hin|[<-|Hin]].
    + right. destruct (H2 e c Hin Hc) as [->|Hl]; apply in_or_app; [right; now left|now left].
    + discriminate.
    + destruct (H1 e c Hin Hc) as [->|Hl]; [now left|right; apply in_or_app; right; now right].
Qed.
End Delta.

(* ------------------------------------------------------------------------------------------- *)
(** * 2. The theorems *)

(* the state only grows: old log is a suffix of the new one, counters never decrease *)
Definition mono (s s' : st) : Prop := suffix_of (log s) (log s') /\ nerr s <= nerr s' /\ calls s <= calls s'.

(* a statement about the final state of each of the six functions, from an arbitrary start state *)
Definition all_six (W : world) (fuel : nat) (Q : st -> st -> Prop) : Prop :=
  (forall E x xsec xbase id s, Q s (snd (eval_expr W fuel E x xsec xbase id s))) /\
  (forall E x xbase id s, Q s (snd (eval_repr W fuel E x xbase id s))) /\
  (forall E x a id s, Q s (snd (eval_typed W fuel E x a id s))) /\
  (forall E p s, Q s (snd (eval_access W fuel E p s))) /\
  (forall E rx rsec rbase rid accs s, Q s (snd (walk W fuel E rx rsec rbase rid accs s))) /\
  (forall root name d s, Q s (snd (eval_env W fuel root name d s))).

(* the workhorse: anything implied by "delta with OK events" holds of all six functions *)
Lemma all_six_delta W fuel (Q : st -> st -> Prop) :
  (forall E s s', delta (ev_ok W Id_any E) s s' -> Q s s') ->
  (forall root name s s', delta (env_ev_ok W Id_any root name) s s' -> Q s s') ->
  all_six W fuel Q.
Proof.
  intros HQ HQe. destruct (eval_delta W Id_any id_closed_any fuel) as (He & Hr & Ht & Ha & Hw).
  unfold all_six. split; [|split; [|split; [|split; [|split]]]].
  - intros E x xsec xbase id s. apply (HQ E). apply He; [exact I|apply delta_refl].
  - intros E x xbase id s. apply (HQ E). apply Hr. exact I.
  - intros E x a id s. apply (HQ E). apply (Ht E x a id s I s). apply delta_refl.
  - intros E p s. apply (HQ E). apply Ha. apply delta_refl.
  - intros E rx rsec rbase rid accs s. apply (HQ E). apply Hw; [exact I|apply delta_refl].
  - intros root name d s. apply (HQe root name). apply eval_env_delta; [exact id_closed_any|apply delta_refl].
Qed.

(** ** 1. log_monotone *)
Theorem log_monotone W fuel : all_six W fuel mono.
Proof. apply all_six_delta; intros; eapply delta_mono; eassumption. Qed.

(** ** 6. calls_counts_log *)
Theorem calls_counts_log W fuel :
  all_six W fuel (fun s s' => calls s = N.of_nat (length (log s)) -> calls s' = N.of_nat (length (log s'))).
Proof. apply all_six_delta; intros; eapply delta_count; eassumption. Qed.

(* a property of events that is true of every event the evaluator can emit in world [W] holds of the whole log *)
Lemma log_all_carry W fuel (P : ev -> Prop) :
  (forall E e, ev_ok W Id_any E e -> P e) -> (forall n, P (EvLoad n)) ->
  all_six W fuel (fun s s' => Forall P (log s) -> Forall P (log s')).
Proof.
  intros HP HL. apply all_six_delta.
  - intros E s s' Hd. eapply delta_Forall; [|exact Hd]. apply HP.
  - intros root name s s' Hd. eapply delta_Forall; [|exact Hd].
    intros e He. destruct e; try apply HL; destruct He as (E & He & _); exact (HP E _ He).
Qed.

(** ** 2. check_no_open *)
Theorem check_no_open W fuel : w_check W = true ->
  all_six W fuel (fun s s' => Forall (fun e => is_open e = false) (log s) -> Forall (fun e => is_open e = false) (log s')).
Proof.
  intros Hc. apply log_all_carry; [|reflexivity].
  intros E e He. destruct e; try reflexivity. destruct He as (_ & _ & _ & Hf & _). congruence.
Qed.

(** ** 3. check_no_decrypt *)
Theorem check_no_decrypt W fuel : w_check W = true -> w_show W = false ->
  all_six W fuel (fun s s' => Forall (fun e => is_decrypt e = false) (log s) -> Forall (fun e => is_decrypt e = false) (log s')).
Proof.
  intros Hc Hs. apply log_all_carry; [|reflexivity].
  intros E e He. destruct e; try reflexivity. destruct He as (_ & Hf & _). rewrite Hc, Hs in Hf. discriminate.
Qed.

(* from the initial state, any root *)
Theorem check_no_open_env W fuel root name d :
  w_check W = true -> forall e, In e (log (snd (eval_env W fuel root name d st0))) -> is_open e = false.
Proof.
  intros Hc e He. destruct (check_no_open W fuel Hc) as (_ & _ & _ & _ & _ & H).
  specialize (H root name d st0 (Forall_nil _)). rewrite Forall_forall in H. exact (H e He).
Qed.

Theorem check_no_decrypt_env W fuel root name d :
  w_check W = true -> w_show W = false ->
  forall e, In e (log (snd (eval_env W fuel root name d st0))) -> is_decrypt e = false.
Proof.
  intros Hc Hs e He. destruct (check_no_decrypt W fuel Hc Hs) as (_ & _ & _ & _ & _ & H).
  specialize (H root name d st0 (Forall_nil _)). rewrite Forall_forall in H. exact (H e He).
Qed.

(** ** 4./5. what every logged event satisfies — expression level (all NEW events, context [E]) *)
Theorem expr_events_ok W fuel :
  (forall E x xsec xbase id s, fst id = ec_name E ->
     delta (ev_ok W Id_env E) s (snd (eval_expr W fuel E x xsec xbase id s))) /\
  (forall E x xbase id s, fst id = ec_name E ->
     delta (ev_ok W Id_env E) s (snd (eval_repr W fuel E x xbase id s))) /\
  (forall E x a id s, fst id = ec_name E ->
     delta (ev_ok W Id_env E) s (snd (eval_typed W fuel E x a id s))) /\
  (forall E p s, delta (ev_ok W Id_env E) s (snd (eval_access W fuel E p s))) /\
  (forall E rx rsec rbase rid accs s, fst rid = ec_name E ->
     delta (ev_ok W Id_env E) s (snd (walk W fuel E rx rsec rbase rid accs s))).
Proof.
  destruct (eval_delta W Id_env id_closed_env fuel) as (He & Hr & Ht & Ha & Hw).
  split; [|split; [|split; [|split]]].
  - intros E x xsec xbase id s Hid. apply He; [exact Hid|apply delta_refl].
  - intros E x xbase id s Hid. apply Hr. exact Hid.
  - intros E x a id s Hid. apply (Ht E x a id s Hid s). apply delta_refl.
  - intros E p s. apply Ha. apply delta_refl.
  - intros E rx rsec rbase rid accs s Hid. apply Hw; [exact Hid|apply delta_refl].
Qed.

(* environment level *)
Theorem env_events_ok W fuel root name d s :
  delta (env_ev_ok W Id_env root name) s (snd (eval_env W fuel root name d s)).
Proof. apply eval_env_delta; [exact id_closed_env|apply delta_refl]. Qed.

Lemma env_log_from_st0 W fuel root name d :
  Forall (env_ev_ok W Id_env root name) (log (snd (eval_env W fuel root name d st0))).
Proof.
  destruct (env_events_ok W fuel root name d st0) as (n & L & F & _). rewrite L. cbn. rewrite app_nil_r. exact F.
Qed.

(** ** 4. open_inputs_ok *)
Theorem open_inputs_ok W fuel root name d id p xin r c :
  In (EvOpen id p xin r c) (log (snd (eval_env W fuel root name d st0))) ->
  w_check W = false
  /\ c = fst id
  /\ (eff_root root name <> "" -> eff_root root name <> "<yaml>" -> r = eff_root root name)
  /\ (anon_root r = false \/ r = c)
  /\ exists pv iv,
       alookup p (w_provs W) = Some pv
       /\ export_t iv = Some xin
       /\ contains_unknowns iv = false
       /\ x_has_unknown xin = false
       /\ fst (validate (AccIn (pv_in pv)) iv) = true
       /\ x_is_obj xin = true.
Proof.
  intros Hin. pose proof (env_log_from_st0 W fuel root name d) as F.
  rewrite Forall_forall in F. specialize (F _ Hin). cbn in F.
  destruct F as (E & (Hid & Hr & Hc & Hchk & Hex) & Hroot & Han). unfold Id_env in Hid.
  split; [exact Hchk|]. split; [congruence|]. split; [intros Hne Hny; rewrite Hr; auto|].
  split; [rewrite Hr, Hc; exact Han|exact Hex].
Qed.

(** ** 5. decrypt_only_valid_envelopes *)
Theorem decrypt_only_valid_envelopes W fuel root name d env ct :
  In (EvDecrypt env ct) (log (snd (eval_env W fuel root name d st0))) ->
  (exists repr, decode_ct std_params repr = DOk ct) /\ (w_check W && negb (w_show W)) = false.
Proof.
  intros Hin. pose proof (env_log_from_st0 W fuel root name d) as F.
  rewrite Forall_forall in F. specialize (F _ Hin). cbn in F.
  destruct F as (E & (_ & Hg & Hex) & _). split; assumption.
Qed.

(* ---- the same, about the observable [run] ---- *)
Lemma run_log fuel W name d : ob_log (run fuel W name d) = rev (log (snd (eval_env W fuel "" name d st0))).
Proof. unfold run. destruct (eval_env W fuel "" name d st0) as [c s]. reflexivity. Qed.

Lemma Forall_st0 (P : ev -> Prop) : Forall P (log st0).
Proof. constructor. Qed.

Theorem run_check_no_open fuel W name d :
  w_check W = true -> forall e, In e (ob_log (run fuel W name d)) -> is_open e = false.
Proof.
  intros Hc e He. rewrite run_log, <- in_rev in He.
  destruct (check_no_open W fuel Hc) as (_ & _ & _ & _ & _ & H).
  specialize (H "" name d st0 (Forall_st0 _)). rewrite Forall_forall in H. exact (H e He).
Qed.

Theorem run_check_no_decrypt fuel W name d :
  w_check W = true -> w_show W = false -> forall e, In e (ob_log (run fuel W name d)) -> is_decrypt e = false.
Proof.
  intros Hc Hs e He. rewrite run_log, <- in_rev in He.
  destruct (check_no_decrypt W fuel Hc Hs) as (_ & _ & _ & _ & _ & H).
  specialize (H "" name d st0 (Forall_st0 _)). rewrite Forall_forall in H. exact (H e He).
Qed.

Theorem run_open_inputs_ok fuel W name d id p xin r c :
  In (EvOpen id p xin r c) (ob_log (run fuel W name d)) ->
  w_check W = false
  /\ c = fst id
  /\ (name <> "" -> name <> "<yaml>" -> r = name)
  /\ (anon_root r = false \/ r = c)
  /\ exists pv iv,
       alookup p (w_provs W) = Some pv
       /\ export_t iv = Some xin
       /\ contains_unknowns iv = false
       /\ x_has_unknown xin = false
       /\ fst (validate (AccIn (pv_in pv)) iv) = true
       /\ x_is_obj xin = true.
Proof.
  intros He. rewrite run_log, <- in_rev in He. exact (open_inputs_ok W fuel "" name d id p xin r c He).
Qed.

Theorem run_decrypt_only_valid_envelopes fuel W name d env ct :
  In (EvDecrypt env ct) (ob_log (run fuel W name d)) ->
  (exists repr, decode_ct std_params repr = DOk ct) /\ (w_check W && negb (w_show W)) = false.
Proof.
  intros He. rewrite run_log, <- in_rev in He. exact (decrypt_only_valid_envelopes W fuel "" name d env ct He).
Qed.

(* the fault index of the harness is "the k-th logged call": the run makes exactly as many collaborator
   calls as it logs events *)
Theorem run_calls_counts_log fuel W name d :
  calls (snd (eval_env W fuel "" name d st0)) = N.of_nat (length (ob_log (run fuel W name d))).
Proof.
  rewrite run_log, rev_length.
  destruct (calls_counts_log W fuel) as (_ & _ & _ & _ & _ & H). apply H. reflexivity.
Qed.

(* the environment named in an [EvOpen] / [EvDecrypt] is the evaluated one or one whose load is logged *)
Theorem event_env_own_or_loaded W fuel root name d e c :
  In e (log (snd (eval_env W fuel root name d st0))) -> ev_env e = Some c ->
  c = name \/ In (EvLoad c) (log (snd (eval_env W fuel root name d st0))).
Proof.
  intros Hin Hc.
  destruct (eval_env_own_or_loaded W Id_any id_closed_any fuel root name d st0 st0) as (n & L & H).
  { exists []. split; [reflexivity|]. intros ? ? []. }
  cbn in L. rewrite app_nil_r in L. rewrite L in *. exact (H e c Hin Hc).
Qed.

(* ------------------------------------------------------------------------------------------- *)
(** * 3. Examples: the hypotheses are satisfiable and the events do occur *)

Definition ex_prov : provider :=
  {| pv_in := InRecord [("k", "string")] ["k"] true; pv_out := ScType "string";
     pv_beh := PConst (XScalar true false (SStr "tok")) |}.

Definition ex_ct : string := encode_ct std_params "c1ph3r".

Definition ex_imp : envdef :=
  {| ed_imports := []; ed_values := [("b", EOpen "p" (EObj [("k", EStr "w")]))] |}.

Definition ex_world (check show : bool) : world :=
  {| w_envs := [("imp", LoadOk ex_imp)]; w_provs := [("p", ex_prov)]; w_ctx := [];
     w_check := check; w_show := show; w_fault := None;
     w_decrypt := fun env ct => Some ("plain:" +++ env) |}.

(* one provider *)
Definition ex_def1 : envdef :=
  {| ed_imports := []; ed_values := [("a", EOpen "p" (EObj [("k", EStr "v")]))] |}.

Example ex1_open_log :
  ob_log (run 20 (ex_world false false) "e" ex_def1)
  = [EvLoadProvider "p";
     EvOpen ("e", [IKey "a"]) "p" (XObj false false [("k", XScalar false false (SStr "v"))]) "e" "e"].
Proof. vm_compute. reflexivity. Qed.

Example ex1_check_log : ob_log (run 20 (ex_world true false) "e" ex_def1) = [EvLoadProvider "p"].
Proof. vm_compute. reflexivity. Qed.

(* the provider is referenced three times, opened once; an import with its own provider; a ciphertext *)
Definition ex_def2 : envdef :=
  {| ed_imports := [("imp", true)];
     ed_values := [("a", EOpen "p" (EObj [("k", EStr "v")]));
                   ("r1", ESym [AName "a"]); ("r2", EInterp [("x", Some [AName "a"]); ("y", Some [AName "b"])]);
                   ("s", ESecretCipher ex_ct)] |}.

Example ex2_open_log :
  ob_log (run 30 (ex_world false false) "e" ex_def2)
  = [EvLoad "imp"; EvLoadProvider "p";
     EvOpen ("imp", [IKey "b"]) "p" (XObj false false [("k", XScalar false false (SStr "w"))]) "e" "imp";
     EvLoadProvider "p";
     EvOpen ("e", [IKey "a"]) "p" (XObj false false [("k", XScalar false false (SStr "v"))]) "e" "e";
     EvDecrypt "e" "c1ph3r"].
Proof. vm_compute. reflexivity. Qed.

Example ex2_check_log :
  ob_log (run 30 (ex_world true false) "e" ex_def2) = [EvLoad "imp"; EvLoadProvider "p"; EvLoadProvider "p"].
Proof. vm_compute. reflexivity. Qed.

Example ex2_checkshow_log :
  ob_log (run 30 (ex_world true true) "e" ex_def2)
  = [EvLoad "imp"; EvLoadProvider "p"; EvLoadProvider "p"; EvDecrypt "e" "c1ph3r"].
Proof. vm_compute. reflexivity. Qed.

Example ex_ct_decodes : decode_ct std_params ex_ct = DOk "c1ph3r".
Proof. vm_compute. reflexivity. Qed.
