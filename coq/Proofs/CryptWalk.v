(* Proofs/CryptWalk.v — syntax.Walk with a visitor that only rewrites calls of fn::secret is a top-down
   structural rewrite: the post-order visit never changes what the parent's parseSecret sees. *)
From Verif Require Import Base.Bytes Model.Envelope Model.YamlTree Model.Crypt Proofs.YamlTreeProofs.
From Coq Require Import Lia.

Section Walk.
  Variable fn_secret key_ciphertext : string.
  Hypothesis Hne : String.eqb fn_secret key_ciphertext = false.

  Notation parse_secret := (parse_secret fn_secret key_ciphertext).

  Definition is_sstr (n : snode) : bool := match n with SStr _ _ => true | _ => false end.

  Definition is_cipher_arg (n : snode) : bool :=
    match n with
    | SObj _ [(k2, SStr _ _)] => String.eqb (snd k2) key_ciphertext
    | _ => false
    end.

  Definition is_not_secret (v : secret_view) : bool := match v with NotSecret => true | _ => false end.

  (* ---------------- parseSecret: inversion and characterisation ---------------- *)
  Lemma parse_plain_inv n os k ps p :
    parse_secret n = Plain os k ps p -> n = SObj os [(k, SStr ps p)] /\ String.eqb (snd k) fn_secret = true.
  Proof.
    destruct n as [| | | | |s [|[k0 v] [|]]]; cbn; try discriminate.
    destruct (String.eqb (snd k0) fn_secret) eqn:E; [|discriminate].
    destruct v as [| | |ps0 p0| |s2 [|[k2 [| | |cs c| |]] [|]]]; try discriminate.
    - intros H. injection H as <- <- <- <-. auto.
    - destruct (String.eqb (snd k2) key_ciphertext); discriminate.
  Qed.

  Lemma parse_cipher_inv n os k cs c :
    parse_secret n = Cipher os k cs c ->
    exists s2 k2, n = SObj os [(k, SObj s2 [(k2, SStr cs c)])] /\ String.eqb (snd k) fn_secret = true
                  /\ String.eqb (snd k2) key_ciphertext = true.
  Proof.
    destruct n as [| | | | |s [|[k0 v] [|]]]; cbn; try discriminate.
    destruct (String.eqb (snd k0) fn_secret) eqn:E; [|discriminate].
    destruct v as [| | |ps0 p0| |s2 [|[k2 [| | |cs0 c0| |]] [|]]]; try discriminate.
    destruct (String.eqb (snd k2) key_ciphertext) eqn:E2; [|discriminate].
    intros H. injection H as <- <- <- <-. eauto.
  Qed.

  Lemma parse_obj1 s k v :
    is_not_secret (parse_secret (SObj s [(k, v)]))
    = negb (String.eqb (snd k) fn_secret) || (negb (is_sstr v) && negb (is_cipher_arg v)).
  Proof.
    cbn. destruct (String.eqb (snd k) fn_secret); [|reflexivity]. cbn.
    destruct v as [| | |ps0 p0| |s2 [|[k2 [| | |cs0 c0| |]] [|]]]; try reflexivity.
    cbn. destruct (String.eqb (snd k2) key_ciphertext); reflexivity.
  Qed.

  Lemma parse_obj_len s es : length es <> 1%nat -> parse_secret (SObj s es) = NotSecret.
  Proof. destruct es as [|[k v] [|]]; cbn; intros H; try reflexivity. lia. Qed.

  Lemma parse_not_obj n : (forall s es, n <> SObj s es) -> parse_secret n = NotSecret.
  Proof. destruct n; intros H; try reflexivity. exfalso. eapply H. reflexivity. Qed.

  Lemma not_secret_true v : is_not_secret v = true -> v = NotSecret.
  Proof. destruct v; cbn; congruence. Qed.

  (* the argument of a ciphertext call is not itself a call *)
  Lemma parse_cipher_arg s2 k2 v :
    String.eqb (snd k2) key_ciphertext = true -> parse_secret (SObj s2 [(k2, v)]) = NotSecret.
  Proof.
    intros E. apply eqb_true_s in E. cbn. rewrite E.
    rewrite String.eqb_sym, Hne. reflexivity.
  Qed.

  (* ---------------- generic visitor ---------------- *)
  Variable visit : snode -> result snode.
  Hypothesis Hvis_ns : forall n, parse_secret n = NotSecret -> visit n = ROk n.
  Hypothesis Hvis : forall n r, visit n = ROk r ->
    match parse_secret n with
    | NotSecret => r = n
    | Plain os k _ _ | Cipher os k _ _ => exists X, r = SObj os [(k, X)]
    end.

  Definition rw_step (rw : snode -> result snode) (kv : skey * snode) : result (skey * snode) :=
    let (k, v) := kv in match rw v with ROk v' => ROk (k, v') | RErr e => RErr e end.

  Fixpoint rw_tree (n : snode) : result snode :=
    match parse_secret n with
    | NotSecret =>
        match n with
        | SArr s items => match mapR rw_tree items with ROk l => ROk (SArr s l) | RErr e => RErr e end
        | SObj s entries =>
            match mapR (fun kv : skey * snode =>
                          let (k, v) := kv in match rw_tree v with ROk v' => ROk (k, v') | RErr e => RErr e end)
                       entries with
            | ROk l => ROk (SObj s l)
            | RErr e => RErr e
            end
        | _ => ROk n
        end
    | _ => visit n
    end.

  Lemma rw_tree_obj s es :
    rw_tree (SObj s es) =
    match parse_secret (SObj s es) with
    | NotSecret => match mapR (rw_step rw_tree) es with ROk l => ROk (SObj s l) | RErr e => RErr e end
    | _ => visit (SObj s es)
    end.
  Proof. reflexivity. Qed.

  Lemma rw_tree_arr s items :
    rw_tree (SArr s items) = match mapR rw_tree items with ROk l => ROk (SArr s l) | RErr e => RErr e end.
  Proof. reflexivity. Qed.

  Lemma walk_obj s es :
    walk visit (SObj s es) =
    match mapR (rw_step (walk visit)) es with ROk l => visit (SObj s l) | RErr e => RErr e end.
  Proof. reflexivity. Qed.

  Lemma rw_step_Forall2 rw es l :
    mapR (rw_step rw) es = ROk l ->
    Forall2 (fun kv kv' : skey * snode => fst kv' = fst kv /\ rw (snd kv) = ROk (snd kv')) es l.
  Proof.
    intros H. apply mapR_ok_Forall2 in H.
    induction H as [|[k v] [k' v'] r t Hx _ IH]; [constructor|].
    constructor; [|exact IH].
    cbn in Hx. cbn [fst snd]. destruct (rw v) as [a|] eqn:Ev; [|discriminate]. injection Hx as <- <-. auto.
  Qed.

  (* the rewrite of a node that is not a string is not a string *)
  Lemma rw_sstr x x' : rw_tree x = ROk x' -> is_sstr x' = is_sstr x.
  Proof.
    destruct x as [s|s|s|s v|s items|s es]; cbn [rw_tree parse_secret]; intros H.
    - injection H as <-. reflexivity.
    - injection H as <-. reflexivity.
    - injection H as <-. reflexivity.
    - injection H as <-. reflexivity.
    - fold rw_tree in H. destruct (mapR rw_tree items); [|discriminate]. injection H as <-. reflexivity.
    - change (rw_tree (SObj s es) = ROk x') in H. rewrite rw_tree_obj in H.
      destruct (parse_secret (SObj s es)) as [|os k ps p|os k cs c] eqn:E.
      + destruct (mapR _ es); [|discriminate]. injection H as <-. reflexivity.
      + apply Hvis in H. rewrite E in H. destruct H as [X ->]. reflexivity.
      + apply Hvis in H. rewrite E in H. destruct H as [X ->]. reflexivity.
  Qed.

  Lemma rw_shape v v' :
    rw_tree v = ROk v' -> is_sstr v' = is_sstr v /\ is_cipher_arg v' = is_cipher_arg v.
  Proof.
    intros H. split; [now apply rw_sstr|].
    destruct v as [s|s|s|s v0|s items|s es].
    1-4: cbn in H; injection H as <-; reflexivity.
    - rewrite rw_tree_arr in H. destruct (mapR rw_tree items); [|discriminate]. injection H as <-. reflexivity.
    - rewrite rw_tree_obj in H.
      destruct (parse_secret (SObj s es)) as [|os k ps p|os k cs c] eqn:E.
      + destruct (mapR (rw_step rw_tree) es) as [l|] eqn:El; [|discriminate]. injection H as <-.
        apply rw_step_Forall2 in El.
        destruct El as [|[k x] [k' x'] r t [Hk Hx] Hr]; [reflexivity|].
        cbn [fst snd] in Hk, Hx. subst k'.
        destruct Hr as [|? ? ? ? _ _].
        * apply rw_sstr in Hx. cbn [is_cipher_arg].
          destruct x, x'; cbn in Hx; try discriminate; reflexivity.
        * destruct x, x'; reflexivity.
      + destruct (parse_plain_inv _ _ _ _ _ E) as [-> Ek].
        apply Hvis in H. rewrite E in H. destruct H as [X ->].
        cbn [is_cipher_arg]. apply eqb_true_s in Ek. rewrite Ek, Hne.
        destruct X; reflexivity.
      + destruct (parse_cipher_inv _ _ _ _ _ E) as (s2 & k2 & -> & Ek & Ek2).
        apply Hvis in H. rewrite E in H. destruct H as [X ->].
        cbn [is_cipher_arg]. apply eqb_true_s in Ek. rewrite Ek, Hne.
        destruct X; reflexivity.
  Qed.

  (* a node that is not a call stays one when its children are rewritten *)
  Lemma not_secret_stable s es l :
    parse_secret (SObj s es) = NotSecret -> mapR (rw_step rw_tree) es = ROk l ->
    parse_secret (SObj s l) = NotSecret.
  Proof.
    intros E El. apply rw_step_Forall2 in El.
    destruct El as [|[k v] [k' v'] r t [Hk Hv] Hr]; [reflexivity|].
    cbn [fst snd] in Hk, Hv. subst k'.
    destruct Hr as [|? ? ? ? _ Hr'].
    - apply not_secret_true. rewrite parse_obj1.
      assert (E' : is_not_secret (parse_secret (SObj s [(k, v)])) = true) by now rewrite E.
      rewrite parse_obj1 in E'.
      destruct (rw_shape _ _ Hv) as [-> ->]. exact E'.
    - apply parse_obj_len. cbn. lia.
  Qed.

  Theorem walk_rw_tree n : walk visit n = rw_tree n.
  Proof.
    induction n as [s|s|s|s v|s items IH|s es IH] using snode_ind'.
    1-4: cbn; now rewrite Hvis_ns.
    - cbn [walk]. rewrite rw_tree_arr.
      rewrite (mapR_ext_Forall (walk visit) rw_tree items IH).
      destruct (mapR rw_tree items); [|reflexivity]. now apply Hvis_ns.
    - rewrite walk_obj, rw_tree_obj.
      assert (Hm : mapR (rw_step (walk visit)) es = mapR (rw_step rw_tree) es).
      { apply mapR_ext_Forall. eapply Forall_impl; [|exact IH].
        intros [k v] Hv. cbn in *. now rewrite Hv. }
      rewrite Hm.
      destruct (parse_secret (SObj s es)) as [|os k ps p|os k cs c] eqn:E.
      + destruct (mapR (rw_step rw_tree) es) as [l|] eqn:El; [|reflexivity].
        apply Hvis_ns. eapply not_secret_stable; eauto.
      + destruct (parse_plain_inv _ _ _ _ _ E) as [Heq Ek]. injection Heq as -> ->.
        cbn [mapR rw_step rw_tree parse_secret]. reflexivity.
      + destruct (parse_cipher_inv _ _ _ _ _ E) as (s2 & k2 & Heq & Ek & Ek2). injection Heq as -> ->.
        cbn [mapR rw_step]. rewrite rw_tree_obj, (parse_cipher_arg _ _ _ Ek2).
        cbn [mapR rw_step rw_tree parse_secret]. reflexivity.
  Qed.
End Walk.
