(* Proofs/ChainAlgebraSrc.v — the chains the evaluator actually builds carry, in every object layer's children, a copy of the
   base the layer was declared over ([declare] re-merges each property with base.property(k)).  Such "source-shaped"
   chains export to the same JSON as the clean flattened layer list: duplicated base segments are absorbed. *)
From Verif Require Import Base.Bytes Model.Chain Model.Eval Corr.C01
  Proofs.ChainAlgebraSorted Proofs.ChainAlgebraExport Proofs.ChainAlgebra Proofs.ChainAlgebraDeep Proofs.ChainAlgebraLit.
From Coq Require Import Lia Sorted.
Local Open Scope nat_scope.

Notation jsdeep js := (Forall (fun j => jdeep j = true) js).

Lemma jsdeep_wf js : jsdeep js -> jswf js.
Proof. intros H. eapply Forall_impl; [|exact H]. intros j. apply jdeep_wf. Qed.

Lemma jdeep_obj m : jdeep (JObj m) = true -> forall k v, alookup k m = Some v -> jdeep v = true.
Proof.
  cbn [jdeep]. intros H k v E. apply andb_true_iff in H. destruct H as [_ H]. rewrite forallb_forall in H.
  apply alookup_In in E. exact (H _ E).
Qed.

Lemma oprefix_deep js : jsdeep js -> Forall (fun m => jdeep (JObj m) = true) (oprefix js).
Proof. induction 1 as [|j r Hj Hr IH]; [constructor|]. destruct j; try constructor; assumption. Qed.

Lemma jprop_deep k ms : Forall (fun m => jdeep (JObj m) = true) ms -> jsdeep (jprop k ms).
Proof.
  induction 1 as [|m r Hm Hr IH]; [constructor|]. cbn [jprop].
  destruct (alookup k m) as [v|] eqn:E; [|exact IH]. constructor; [|exact IH]. exact (jdeep_obj _ Hm _ _ E).
Qed.

(* ================= duplicated segments are absorbed ================= *)
Lemma all_obj_app a b : all_obj (a ++ b) = all_obj a && all_obj b.
Proof. unfold all_obj. apply forallb_app. Qed.

Lemma flat_merge_head_nonobj j r r' : is_jobj j = false -> flat_merge (j :: r) = flat_merge (j :: r').
Proof.
  intros H. transitivity (flat_merge [j]); [exact (flat_merge_app_nonobj j [] r H)|symmetry; exact (flat_merge_app_nonobj j [] r' H)].
Qed.

(* the object prefixes of X++Y++Y++Z and X++Y++Z differ by a duplicated segment, too *)
Lemma oprefix_dup X Y Z :
  exists X' Y' Z', oprefix (X ++ Y ++ Y ++ Z) = X' ++ Y' ++ Y' ++ Z' /\ oprefix (X ++ Y ++ Z) = X' ++ Y' ++ Z'.
Proof.
  destruct (all_obj X) eqn:AX.
  - destruct (all_obj Y) eqn:AY.
    + exists (oprefix X), (oprefix Y), (oprefix Z).
      rewrite !(oprefix_app_all X _ AX), !(oprefix_app_all Y _ AY). split; reflexivity.
    + exists (oprefix X ++ oprefix Y), [], [].
      rewrite !(oprefix_app_all X _ AX), !(oprefix_app_cut Y _ AY). cbn [app]. rewrite !app_nil_r. split; reflexivity.
  - exists (oprefix X), [], []. rewrite !(oprefix_app_cut X _ AX). cbn [app]. rewrite !app_nil_r. split; reflexivity.
Qed.

Lemma jkeys_In_app k a b : In k (jkeys (a ++ b)) <-> In k (jkeys a) \/ In k (jkeys b).
Proof.
  rewrite !In_jkeys, jprop_app. destruct (jprop k a), (jprop k b); cbn [app]; split; try tauto; try (intros; discriminate);
    try (intros [H|H]; congruence); intros _; left; discriminate.
Qed.

Lemma flat_merge_dup_n (n : nat) (X Y Z : list json) :
  jlsize (X ++ Y ++ Y ++ Z) < n -> jsdeep X -> jsdeep Y -> jsdeep Z ->
  flat_merge (X ++ Y ++ Y ++ Z) = flat_merge (X ++ Y ++ Z).
Proof.
  revert X Y Z. induction n as [|n IH]; intros X Y Z Hn DX DY DZ; [lia|].
  assert (DA : jsdeep (X ++ Y ++ Y ++ Z)) by (repeat (apply Forall_app; split); assumption).
  assert (DB : jsdeep (X ++ Y ++ Z)) by (repeat (apply Forall_app; split); assumption).
  (* both lists have the same head *)
  assert (Hd : (X ++ Y ++ Y ++ Z = [] /\ X ++ Y ++ Z = []) \/
               exists a rA rB, X ++ Y ++ Y ++ Z = a :: rA /\ X ++ Y ++ Z = a :: rB).
  { destruct X as [|a X1]; [|right; now exists a, (X1 ++ Y ++ Y ++ Z), (X1 ++ Y ++ Z)].
    destruct Y as [|a Y1]; [|right; now exists a, (Y1 ++ (a :: Y1) ++ Z), (Y1 ++ Z)].
    cbn [app]. destruct Z as [|a Z1]; [now left|right; now exists a, Z1, Z1]. }
  destruct Hd as [[-> ->]|(a & rA & rB & EA & EB)]; [reflexivity|].
  destruct (is_jobj a) eqn:Oa.
  2:{ rewrite EA, EB. now apply flat_merge_head_nonobj. }
  destruct a as [| | | | |m]; try discriminate.
  destruct (oprefix_dup X Y Z) as (X' & Y' & Z' & PA & PB).
  rewrite EA, EB, !flat_merge_obj, <- EA, <- EB, PA, PB. unfold fm_obj.
  assert (Sm : asorted m).
  { rewrite EA in DA. inversion DA as [|? ? Hm _]; subst. apply jdeep_wf in Hm. exact (proj1 (jwf_obj _ Hm)). }
  assert (TA : exists t, X' ++ Y' ++ Y' ++ Z' = m :: t) by (rewrite <- PA, EA; cbn [oprefix]; eauto).
  assert (TB : exists t, X' ++ Y' ++ Z' = m :: t) by (rewrite <- PB, EB; cbn [oprefix]; eauto).
  assert (K : jkeys (X' ++ Y' ++ Y' ++ Z') = jkeys (X' ++ Y' ++ Z')).
  { apply ssorted_ext.
    - destruct TA as (t & ->). now apply jkeys_sorted.
    - destruct TB as (t & ->). now apply jkeys_sorted.
    - intros k. rewrite !jkeys_In_app. tauto. }
  rewrite K. unfold tab. f_equal. apply map_ext. intros k. f_equal. rewrite !jprop_app.
  assert (DPA : Forall (fun m => jdeep (JObj m) = true) (X' ++ Y' ++ Y' ++ Z')) by (rewrite <- PA; now apply oprefix_deep).
  apply Forall_app in DPA. destruct DPA as [DX' DPA]. apply Forall_app in DPA. destruct DPA as [DY' DPA].
  apply Forall_app in DPA. destruct DPA as [_ DZ'].
  apply IH; try (now apply jprop_deep).
  rewrite <- !jprop_app, <- PA, EA. pose proof (jlsize_jprop_lt k m rA). rewrite EA in Hn. lia.
Qed.

Theorem flat_merge_dup (X Y Z : list json) :
  jsdeep X -> jsdeep Y -> jsdeep Z -> flat_merge (X ++ Y ++ Y ++ Z) = flat_merge (X ++ Y ++ Z).
Proof. apply (flat_merge_dup_n (S (jlsize (X ++ Y ++ Y ++ Z)))). lia. Qed.

(* the value of a list depends on what lies under its first layer only through that part's value *)
Lemma flat_merge_cons_cong (j : json) (U U' : list json) :
  jwf j = true -> jswf U -> jswf U' -> flat_merge U = flat_merge U' -> flat_merge (j :: U) = flat_merge (j :: U').
Proof. intros Wj WU WU' E. rewrite (flat_merge_cons j U), (flat_merge_cons j U') by assumption. now rewrite E. Qed.

(* ================= source-shaped chains ================= *)
(* the layer the evaluator builds for the JSON value j declared over base B *)
Fixpoint jlayer (j : json) (B : chain) : layer :=
  match j with
  | JNull => LScalar false false (ScType "null") SNull
  | JBool b => LScalar false false (ScType "boolean") (SBool b)
  | JNum t => LScalar false false (ScType "number") (SNum t)
  | JStr s => str_layer false false s
  | JArr l => arr_layer (map (fun x => [jlayer x []]) l)
  | JObj m => obj_layer (map (fun kv => (fst kv, jlayer (snd kv) (property (fst kv) B) :: property (fst kv) B)) m)
  end.

(* a layer together with the blocks it was declared over; the blocks also follow it in the chain *)
Inductive src := Src (j : json) (b : list src).

Fixpoint ssize (s : src) : nat :=
  match s with Src j b => S ((fix go (l : list src) : nat := match l with [] => 0 | x :: r => ssize x + go r end) b) end.
Fixpoint sssize (l : list src) : nat := match l with [] => 0 | x :: r => ssize x + sssize r end.
Lemma ssize_Src j b : ssize (Src j b) = S (sssize b). Proof. reflexivity. Qed.
Lemma sssize_cons x r : sssize (x :: r) = ssize x + sssize r. Proof. reflexivity. Qed.
Lemma sssize_app a b : sssize (a ++ b) = sssize a + sssize b.
Proof. induction a as [|x a IH]; [reflexivity|]. rewrite <- app_comm_cons, !sssize_cons, IH. lia. Qed.

Fixpoint schain (s : src) : chain :=
  match s with
  | Src j b => let cb := (fix go (l : list src) : chain := match l with [] => [] | x :: r => schain x ++ go r end) b in
               jlayer j cb :: cb
  end.
Fixpoint schains (l : list src) : chain := match l with [] => [] | x :: r => schain x ++ schains r end.
Lemma schain_Src j b : schain (Src j b) = jlayer j (schains b) :: schains b. Proof. reflexivity. Qed.
Lemma schains_cons x r : schains (x :: r) = schain x ++ schains r. Proof. reflexivity. Qed.
Lemma schains_app a b : schains (a ++ b) = schains a ++ schains b.
Proof. induction a as [|x a IH]; [reflexivity|]. rewrite <- app_comm_cons, !schains_cons, IH. now rewrite app_assoc. Qed.

Fixpoint sflat (s : src) : list json :=
  match s with
  | Src j b => j :: (fix go (l : list src) : list json := match l with [] => [] | x :: r => sflat x ++ go r end) b
  end.
Fixpoint sflats (l : list src) : list json := match l with [] => [] | x :: r => sflat x ++ sflats r end.
Lemma sflat_Src j b : sflat (Src j b) = j :: sflats b. Proof. reflexivity. Qed.
Lemma sflats_cons x r : sflats (x :: r) = sflat x ++ sflats r. Proof. reflexivity. Qed.
Lemma sflats_app a b : sflats (a ++ b) = sflats a ++ sflats b.
Proof. induction a as [|x a IH]; [reflexivity|]. rewrite <- app_comm_cons, !sflats_cons, IH. now rewrite app_assoc. Qed.

Lemma schains_Src j b rest : schains (Src j b :: rest) = jlayer j (schains b) :: schains (b ++ rest).
Proof. now rewrite schains_cons, schain_Src, schains_app. Qed.
Lemma sflats_Src j b rest : sflats (Src j b :: rest) = j :: sflats (b ++ rest).
Proof. now rewrite sflats_cons, sflat_Src, sflats_app. Qed.

(* property(k) on source-shaped chains, at the level of sources *)
Fixpoint sprops (fuel : nat) (k : string) (ss : list src) : list src :=
  match fuel with
  | O => []
  | S f =>
    match ss with
    | Src (JObj m) b :: rest =>
        (match alookup k m with Some v => [Src v (sprops f k b)] | None => [] end) ++ sprops f k (b ++ rest)
    | _ => []
    end
  end.

Lemma sprops_fuel (f f' : nat) (k : string) (ss : list src) : sssize ss < f -> sssize ss < f' -> sprops f k ss = sprops f' k ss.
Proof.
  revert f' ss. induction f as [|f IH]; intros f' ss H H'; [lia|]. destruct f' as [|f']; [lia|]. cbn [sprops].
  destruct ss as [|[j b] rest]; [reflexivity|]. destruct j; try reflexivity.
  rewrite sssize_cons, ssize_Src in *. f_equal.
  - destruct (alookup k m); [|reflexivity]. f_equal. f_equal. apply IH; lia.
  - apply IH; rewrite sssize_app; lia.
Qed.

Definition sprop (k : string) (ss : list src) : list src := sprops (S (sssize ss)) k ss.

Lemma sprop_nil k : sprop k [] = []. Proof. reflexivity. Qed.

Lemma sprop_nonobj k j b rest : is_jobj j = false -> sprop k (Src j b :: rest) = [].
Proof. destruct j; try reflexivity; discriminate. Qed.

Lemma sprop_obj k m b rest :
  sprop k (Src (JObj m) b :: rest) =
    (match alookup k m with Some v => [Src v (sprop k b)] | None => [] end) ++ sprop k (b ++ rest).
Proof.
  unfold sprop at 1. cbn [sprops]. rewrite sssize_cons, ssize_Src. f_equal.
  - destruct (alookup k m); [|reflexivity]. f_equal. f_equal. apply sprops_fuel; lia.
  - apply sprops_fuel; rewrite sssize_app; lia.
Qed.

Lemma alookup_map_key {A B} (g : string -> A -> B) (k : string) (m : list (string * A)) :
  alookup k (map (fun kv => (fst kv, g (fst kv) (snd kv))) m) = option_map (g k) (alookup k m).
Proof.
  induction m as [|[k' v'] m IH]; [reflexivity|]. cbn [map alookup fst snd].
  destruct (String.eqb k k') eqn:E; [|exact IH]. apply String.eqb_eq in E. now subst.
Qed.

Lemma property_schains (k : string) (ss : list src) : property k (schains ss) = schains (sprop k ss).
Proof.
  assert (H : forall n ss, sssize ss < n -> property k (schains ss) = schains (sprop k ss)).
  { induction n as [|n IH]; intros l Hl; [lia|]. destruct l as [|[j b] rest]; [reflexivity|].
    rewrite sssize_cons, ssize_Src in Hl. rewrite schains_Src.
    destruct j; try reflexivity.
    rewrite sprop_obj. cbn [jlayer]. unfold obj_layer. cbn [property].
    rewrite (alookup_map_key (fun k0 v => jlayer v (property k0 (schains b)) :: property k0 (schains b)) k m).
    rewrite (IH (b ++ rest)) by (rewrite sssize_app; lia).
    destruct (alookup k m) as [v|]; cbn [option_map]; [|reflexivity].
    rewrite (IH b) by lia. cbn [app]. rewrite schains_cons, schain_Src. reflexivity. }
  apply (H (S (sssize ss))). lia.
Qed.

Lemma keys_schains (ss : list src) : keys (schains ss) = jkeys (oprefix (sflats ss)).
Proof.
  assert (H : forall n ss, sssize ss < n -> keys (schains ss) = jkeys (oprefix (sflats ss))).
  { induction n as [|n IH]; intros l Hl; [lia|]. destruct l as [|[j b] rest]; [reflexivity|].
    rewrite sssize_cons, ssize_Src in Hl. rewrite schains_Src, sflats_Src.
    destruct j; try reflexivity.
    cbn [jlayer]. unfold obj_layer. cbn [keys oprefix jkeys]. rewrite (IH (b ++ rest)) by (rewrite sssize_app; lia).
    f_equal. rewrite map_map. reflexivity. }
  apply (H (S (sssize ss))). lia.
Qed.

Lemma sprop_app (k : string) (a rest : list src) :
  sprop k (a ++ rest) = sprop k a ++ (if all_obj (sflats a) then sprop k rest else []).
Proof.
  assert (H : forall n a, sssize a < n -> sprop k (a ++ rest) = sprop k a ++ (if all_obj (sflats a) then sprop k rest else [])).
  { induction n as [|n IH]; intros l Hl; [lia|]. destruct l as [|[j b] r1]; [reflexivity|].
    rewrite sssize_cons, ssize_Src in Hl. rewrite <- app_comm_cons, sflats_Src.
    destruct (is_jobj j) eqn:Oj.
    2:{ rewrite !sprop_nonobj by exact Oj. cbn [all_obj forallb]. rewrite Oj. reflexivity. }
    destruct j; try discriminate. rewrite !sprop_obj. cbn [all_obj forallb is_jobj andb]. fold (all_obj (sflats (b ++ r1))).
    rewrite app_assoc, (IH (b ++ r1)) by (rewrite sssize_app; lia). now rewrite app_assoc. }
  apply (H (S (sssize a))). lia.
Qed.

Lemma sprop_deep (k : string) (ss : list src) : jsdeep (sflats ss) -> jsdeep (sflats (sprop k ss)).
Proof.
  assert (H : forall n ss, sssize ss < n -> jsdeep (sflats ss) -> jsdeep (sflats (sprop k ss))).
  { induction n as [|n IH]; intros l Hl D; [lia|]. destruct l as [|[j b] rest]; [constructor|].
    rewrite sssize_cons, ssize_Src in Hl. rewrite sflats_Src in D. inversion D as [|? ? Dj Dr]; subst.
    destruct (is_jobj j) eqn:Oj; [|rewrite sprop_nonobj by exact Oj; constructor].
    destruct j; try discriminate. rewrite sprop_obj, sflats_app. apply Forall_app. split.
    - destruct (alookup k m) as [v|] eqn:E; [|constructor]. cbn [sflats]. rewrite app_nil_r, sflat_Src. constructor.
      + exact (jdeep_obj _ Dj _ _ E).
      + apply IH; [lia|]. rewrite sflats_app in Dr. apply Forall_app in Dr. apply Dr.
    - apply IH; [rewrite sssize_app; lia|exact Dr]. }
  apply (H (S (sssize ss))). lia.
Qed.

(* R: the duplicated bases are absorbed — property(k) on the evaluator's chain means jprop on the clean layer list *)
Lemma sprop_absorbed (k : string) (ss : list src) :
  jsdeep (sflats ss) -> flat_merge (sflats (sprop k ss)) = flat_merge (jprop k (oprefix (sflats ss))).
Proof.
  assert (H : forall n ss, sssize ss < n -> jsdeep (sflats ss) ->
                           flat_merge (sflats (sprop k ss)) = flat_merge (jprop k (oprefix (sflats ss)))).
  { induction n as [|n IH]; intros l Hl D; [lia|]. destruct l as [|[j b] rest]; [reflexivity|].
    rewrite sssize_cons, ssize_Src in Hl. rewrite sflats_Src in *. inversion D as [|? ? Dj Dr]; subst.
    destruct (is_jobj j) eqn:Oj; [|rewrite sprop_nonobj by exact Oj; destruct j; try discriminate; reflexivity].
    destruct j; try discriminate. rewrite sprop_obj. cbn [oprefix jprop].
    assert (IHr := IH (b ++ rest) ltac:(rewrite sssize_app; lia) Dr).
    destruct (alookup k m) as [v|] eqn:E; [|exact IHr].
    cbn [app]. rewrite sflats_cons, sflat_Src, <- app_comm_cons.
    assert (Dv : jdeep v = true) by exact (jdeep_obj _ Dj _ _ E).
    assert (Db : jsdeep (sflats b)) by (rewrite sflats_app in Dr; apply Forall_app in Dr; apply Dr).
    assert (Drest : jsdeep (sflats rest)) by (rewrite sflats_app in Dr; apply Forall_app in Dr; apply Dr).
    (* the copy of property k b inside the child is followed by property k (b ++ rest), which starts with the same segment *)
    rewrite sprop_app, sflats_app.
    transitivity (flat_merge (v :: sflats (sprop k b) ++ sflats (if all_obj (sflats b) then sprop k rest else []))).
    { apply (flat_merge_dup [v] (sflats (sprop k b)) (sflats (if all_obj (sflats b) then sprop k rest else []))).
      - now repeat constructor.
      - now apply sprop_deep.
      - destruct (all_obj (sflats b)); [now apply sprop_deep|constructor]. }
    rewrite <- sflats_app, <- sprop_app.
    apply flat_merge_cons_cong; [now apply jdeep_wf| | |exact IHr].
    - apply jsdeep_wf, sprop_deep, Dr.
    - apply jprop_wf, oprefix_wf, jsdeep_wf, Dr. }
  intros D. apply (H (S (sssize ss))); [lia|exact D].
Qed.

Lemma export_src (fuel : nat) (ss : list src) (v : xval) :
  jsdeep (sflats ss) -> export fuel (schains ss) = Some v -> xjson v = flat_merge (sflats ss).
Proof.
  revert ss v. induction fuel as [|f IH]; intros ss v D E; [discriminate|]. rewrite export_S in E.
  destruct ss as [|[j b] rest]; [injection E as <-; reflexivity|].
  rewrite schains_Src in E. rewrite sflats_Src in *. inversion D as [|? ? Dj Dr]; subst.
  destruct j; cbn [jlayer] in E; try (injection E as <-; reflexivity).
  - (* array *)
    unfold arr_layer in E.
    destruct (mapM (export f) (map (fun x => [jlayer x []]) l)) as [vs|] eqn:Em; [|discriminate].
    injection E as <-. cbn [xjson]. rewrite flat_merge_arr. f_equal.
    cbn [jdeep] in Dj. rewrite forallb_forall in Dj. clear D.
    revert vs Em. induction l as [|x l' IHl]; intros vs Em.
    + injection Em as <-. reflexivity.
    + cbn [map mapM] in Em. destruct (export f [jlayer x []]) as [y|] eqn:Ey; [|discriminate].
      destruct (mapM (export f) (map (fun x => [jlayer x []]) l')) as [t|] eqn:Et; [|discriminate].
      injection Em as <-. cbn [map]. f_equal.
      * apply (IH [Src x []]); [|exact Ey]. cbn. constructor; [|constructor]. apply Dj. now left.
      * apply IHl; [|reflexivity]. intros z Hz. apply Dj. now right.
  - (* object *)
    change (obj_layer (map (fun kv => (fst kv, jlayer (snd kv) (property (fst kv) (schains b)) :: property (fst kv) (schains b))) m)
              :: schains (b ++ rest)) with (jlayer (JObj m) (schains b) :: schains (b ++ rest)) in E.
    rewrite <- schains_Src in E. unfold obj_layer in E. rewrite keys_schains in E. rewrite sflats_Src in E.
    rewrite flat_merge_obj. unfold fm_obj, tab.
    revert v E. generalize (jkeys (oprefix (JObj m :: sflats (b ++ rest)))) as ks. intros ks v E.
    match type of E with match ?mm with _ => _ end = _ => destruct mm as [xs|] eqn:Em end; [|discriminate].
    injection E as <-. cbn [xjson]. f_equal.
    revert xs Em. induction ks as [|k ks IHk]; intros xs Em.
    + injection Em as <-. reflexivity.
    + cbn [mapM] in Em. rewrite property_schains in Em.
      destruct (export f (schains (sprop k (Src (JObj m) b :: rest)))) as [y|] eqn:Ey; [|discriminate].
      match type of Em with match ?mm with _ => _ end = _ => destruct mm as [t|] eqn:Et end; [|discriminate].
      injection Em as <-. cbn [map fst snd]. f_equal; [|now apply IHk]. f_equal.
      rewrite (IH _ _ (sprop_deep k _ ltac:(rewrite sflats_Src; exact D)) Ey).
      rewrite sprop_absorbed by (rewrite sflats_Src; exact D). now rewrite sflats_Src.
Qed.
