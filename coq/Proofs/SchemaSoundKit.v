(* Proofs/SchemaSoundKit.v — C06, schema clause: the relational toolkit of CheckApproxKit.v, generic in the relation
   [Rc] on chains that memo tables and import tables are related by (CheckApproxKit.v fixes it to the approximation
   relation; here it is instantiated with the schema invariant [sa]).  Check run left, open run right; logs, call
   counters and diagnostics are not related; both runs must end with [oof = false]. *)
From Verif Require Import Base.Bytes Base.Wire Model.Chain Model.GoText Model.Envelope Model.Eval.
From Verif Require Import Proofs.NonInterferenceRel Proofs.NonInterferenceOps Proofs.NonInterferenceTwins
     Proofs.NonInterferenceBuiltins Proofs.CheckApproxMono Proofs.CheckApproxRel Proofs.CheckApproxKit.
From Coq Require Import Lia ZifyN ZifyNat ZifyBool.

Section KIT.
Variable Rc : chain -> chain -> Prop.

Definition memo_entry_s (a b : eid * option chain) : Prop := fst a = fst b /\ opt_rel Rc (snd a) (snd b).

Definition imp_s (a b : imp_state) : Prop :=
  is_evaluating a = is_evaluating b /\ opt_rel Rc (is_value a) (is_value b).

Record srel_s (s1 s2 : st) : Prop := {
  ss_memo : Forall2 memo_entry_s (memo s1) (memo s2);
  ss_imps : Forall2 (kv_rel imp_s) (imps s1) (imps s2)
}.

Definition mrel_s {A B} (R : A -> B -> Prop) (m1 : M A) (m2 : M B) : Prop :=
  forall s1 s2, srel_s s1 s2 -> nof (snd (m1 s1)) -> nof (snd (m2 s2)) ->
                R (fst (m1 s1)) (fst (m2 s2)) /\ srel_s (snd (m1 s1)) (snd (m2 s2)).

Lemma srl_ret {A B} (R : A -> B -> Prop) a b : R a b -> mrel_s R (ret a) (ret b).
Proof. intros H s1 s2 Hs _ _. split; auto. Qed.

Lemma srl_bind {A B A' B'} (R : A -> B -> Prop) (R' : A' -> B' -> Prop) m1 m2 k1 k2 :
  mrel_s R m1 m2 -> (forall a, omono (k1 a)) -> (forall b, omono (k2 b)) ->
  (forall a b, R a b -> mrel_s R' (k1 a) (k2 b)) -> mrel_s R' (bind m1 k1) (bind m2 k2).
Proof.
  intros Hm M1 M2 Hk s1 s2 Hs G1 G2. unfold bind in *.
  specialize (Hm s1 s2 Hs). destruct (m1 s1) as [a s1'], (m2 s2) as [b s2']. simpl in Hm.
  destruct Hm as [Hab Hs']; [eapply M1, G1|eapply M2, G2|]. now apply Hk.
Qed.

Lemma srl_conseq {A B} (R R' : A -> B -> Prop) m1 m2 : (forall a b, R a b -> R' a b) -> mrel_s R m1 m2 -> mrel_s R' m1 m2.
Proof. intros H Hm s1 s2 Hs G1 G2. destruct (Hm s1 s2 Hs G1 G2). split; auto. Qed.

(* a run that certainly runs out of fuel is outside the statement *)
Definition never_nof {A} (m : M A) : Prop := forall s, ~ nof (snd (m s)).

Lemma nn_bind_oof {A} (k : unit -> M A) : (forall a, omono (k a)) -> never_nof (bind out_of_fuel k).
Proof. intros Hk s G. unfold bind in G. simpl in G. apply Hk in G. unfold nof in G. simpl in G. discriminate. Qed.

Lemma srl_nn_l {A B} (R : A -> B -> Prop) m1 m2 : never_nof m1 -> mrel_s R m1 m2.
Proof. intros H s1 s2 _ G. now apply H in G. Qed.

Lemma srl_nn_r {A B} (R : A -> B -> Prop) m1 m2 : never_nof m2 -> mrel_s R m1 m2.
Proof. intros H s1 s2 _ _ G. now apply H in G. Qed.

Lemma srel_s_upd s1 s2 l1 n1 c1 o1 l2 n2 c2 o2 :
  srel_s s1 s2 ->
  srel_s {| memo := memo s1; imps := imps s1; log := l1; nerr := n1; calls := c1; oof := o1 |}
         {| memo := memo s2; imps := imps s2; log := l2; nerr := n2; calls := c2; oof := o2 |}.
Proof. intros [A B]; constructor; simpl; auto. Qed.

(* diagnostics, log entries and collaborator calls may happen on either side independently *)
Lemma srl_add_err {A B} (R : A -> B -> Prop) n1 n2 k1 k2 :
  mrel_s R (k1 tt) (k2 tt) -> mrel_s R (bind (add_err n1) k1) (bind (add_err n2) k2).
Proof. intros Hk s1 s2 Hs G1 G2. unfold bind in *. simpl in *. apply Hk; auto. now apply srel_s_upd. Qed.

Lemma srl_add_err_l {A B} (R : A -> B -> Prop) n k1 (m2 : M B) :
  mrel_s R (k1 tt) m2 -> mrel_s R (bind (add_err n) k1) m2.
Proof.
  intros Hk s1 s2 Hs G1 G2. unfold bind in *. simpl in *. apply Hk; auto.
  destruct Hs as [A' B']; constructor; simpl; auto.
Qed.

Lemma srl_add_err_r {A B} (R : A -> B -> Prop) n (m1 : M A) k2 :
  mrel_s R m1 (k2 tt) -> mrel_s R m1 (bind (add_err n) k2).
Proof.
  intros Hk s1 s2 Hs G1 G2. unfold bind in *. simpl in *. apply Hk; auto.
  destruct Hs as [A' B']; constructor; simpl; auto.
Qed.

Lemma srl_emit_l {A B} (R : A -> B -> Prop) e k1 (m2 : M B) :
  mrel_s R (k1 tt) m2 -> mrel_s R (bind (emit e) k1) m2.
Proof.
  intros Hk s1 s2 Hs G1 G2. unfold bind in *. simpl in *. apply Hk; auto.
  destruct Hs as [A' B']; constructor; simpl; auto.
Qed.

Lemma srl_emit_r {A B} (R : A -> B -> Prop) e (m1 : M A) k2 :
  mrel_s R m1 (k2 tt) -> mrel_s R m1 (bind (emit e) k2).
Proof.
  intros Hk s1 s2 Hs G1 G2. unfold bind in *. simpl in *. apply Hk; auto.
  destruct Hs as [A' B']; constructor; simpl; auto.
Qed.

(* without a fault plan a collaborator call never fails *)
Lemma srl_call_l {A B} (R : A -> B -> Prop) W k1 (m2 : M B) :
  w_fault W = None -> mrel_s R (k1 false) m2 -> mrel_s R (bind (call W) k1) m2.
Proof.
  intros HW Hk s1 s2 Hs G1 G2. unfold bind, call in *. rewrite HW in *. simpl in *. apply Hk; auto.
  destruct Hs as [A' B']; constructor; simpl; auto.
Qed.

Lemma srl_call_r {A B} (R : A -> B -> Prop) W (m1 : M A) k2 :
  w_fault W = None -> mrel_s R m1 (k2 false) -> mrel_s R m1 (bind (call W) k2).
Proof.
  intros HW Hk s1 s2 Hs G1 G2. unfold bind, call in *. rewrite HW in *. simpl in *. apply Hk; auto.
  destruct Hs as [A' B']; constructor; simpl; auto.
Qed.

Lemma srl_ret_bind_l {A B C} (R : A -> B -> Prop) (c : C) k1 (m2 : M B) :
  mrel_s R (k1 c) m2 -> mrel_s R (bind (ret c) k1) m2.
Proof. intros H. exact H. Qed.

Lemma srl_ret_bind_r {A B C} (R : A -> B -> Prop) (c : C) (m1 : M A) k2 :
  mrel_s R m1 (k2 c) -> mrel_s R m1 (bind (ret c) k2).
Proof. intros H. exact H. Qed.

Lemma memo_get_s id m1 m2 : Forall2 memo_entry_s m1 m2 -> opt_rel (opt_rel Rc) (memo_get id m1) (memo_get id m2).
Proof.
  induction 1 as [|[k1 v1] [k2 v2] m1 m2 [E HR] _ IH]; simpl; [exact I|].
  simpl in E; subst k2. destruct (eid_eqb id k1); [exact HR|exact IH].
Qed.

Lemma srl_get_memo {A B} (R : A -> B -> Prop) id k1 k2 :
  (forall a b, opt_rel (opt_rel Rc) a b -> mrel_s R (k1 a) (k2 b)) -> mrel_s R (bind (get_memo id) k1) (bind (get_memo id) k2).
Proof. intros Hk s1 s2 Hs G1 G2. unfold bind in *. simpl in *. apply Hk; auto. apply memo_get_s, Hs. Qed.

Lemma srl_memo_set {A B} (R : A -> B -> Prop) id v1 v2 k1 k2 :
  opt_rel Rc v1 v2 -> mrel_s R (k1 tt) (k2 tt) -> mrel_s R (bind (memo_set id v1) k1) (bind (memo_set id v2) k2).
Proof.
  intros Hv Hk s1 s2 Hs G1 G2. unfold bind in *. simpl in *. apply Hk; auto.
  destruct Hs; constructor; simpl; auto. constructor; [split; auto|auto].
Qed.

Lemma srl_imps_get {A B} (R : A -> B -> Prop) n k1 k2 :
  (forall a b, opt_rel imp_s a b -> mrel_s R (k1 a) (k2 b)) -> mrel_s R (bind (imps_get n) k1) (bind (imps_get n) k2).
Proof. intros Hk s1 s2 Hs G1 G2. unfold bind in *. simpl in *. apply Hk; auto. apply alookup_rel, Hs. Qed.

Lemma srl_imps_set {A B} (R : A -> B -> Prop) n v1 v2 k1 k2 :
  imp_s v1 v2 -> mrel_s R (k1 tt) (k2 tt) -> mrel_s R (bind (imps_set n v1) k1) (bind (imps_set n v2) k2).
Proof.
  intros Hv Hk s1 s2 Hs G1 G2. unfold bind in *. simpl in *. apply Hk; auto.
  destruct Hs; constructor; simpl; auto. constructor; [split; auto|auto].
Qed.


(* an unknown on the check side faces whatever a neutral computation on the open side returns, if every result of
   that computation is acceptable *)
Lemma srl_neutral (w : chain) (m2 : M chain) :
  neutral m2 -> (forall s, Rc w (fst (m2 s))) -> mrel_s Rc (ret w) m2.
Proof.
  intros Hn Hr s1 s2 Hs _ _. split; [apply Hr|].
  destruct (Hn s2) as [E1 E2]. destruct Hs as [A' B']. constructor; simpl; congruence.
Qed.

Lemma srl_neutral_nof (w : chain) (m2 : M chain) :
  neutral m2 -> (forall s, nof (snd (m2 s)) -> Rc w (fst (m2 s))) -> mrel_s Rc (ret w) m2.
Proof.
  intros Hn Hr s1 s2 Hs _ G. split; [now apply Hr|].
  destruct (Hn s2) as [E1 E2]. destruct Hs as [A' B']. constructor; simpl; congruence.
Qed.

End KIT.

Arguments mrel_s Rc {A B} R m1 m2.

Ltac srl_bind_with Rc R := apply (srl_bind Rc R); [ | intro; omono_tac | intro; omono_tac | ].
