(* Proofs/EvalSrcChainView.v -- decides [eval_src_chain_view_ok] (defined in Proofs/EvalSrc.v) on today's coq/Src/SrcEval.v.
   The [same_*] lemmas come first so that a failing build names the table and prints the entries that differ. *)
From Verif Require Import Base.Bytes Model.Chain Model.GoText Model.Eval Src.SrcEval Proofs.EvalSrc.

Lemma same_property : table_diff ev_property exp_property = [].
Proof. vm_compute. reflexivity. Qed.
Lemma same_keys : table_diff ev_keys exp_keys = [].
Proof. vm_compute. reflexivity. Qed.
Lemma same_export : table_diff ev_export exp_export = [].
Proof. vm_compute. reflexivity. Qed.
Lemma same_is_object : table_diff ev_is_object exp_is_object = [].
Proof. vm_compute. reflexivity. Qed.
Lemma same_copy : table_diff ev_copy exp_copy = [].
Proof. vm_compute. reflexivity. Qed.

Lemma eval_src_chain_view_ok_true : eval_src_chain_view_ok = true.
Proof. vm_compute. reflexivity. Qed.
