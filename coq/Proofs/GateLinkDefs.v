(* Proofs/GateLinkDefs.v — the bridge between the two models of the provider-input gate:
   the evaluator model's schema family [in_schema] / exported values [xval] (Model/Eval.v, Model/Chain.v) and
   the C08 development's schema record / JSON values (Model/Schema.v, Model/Validate.v). *)
From Verif Require Import Base.Bytes Model.Chain Model.GoText Model.Envelope Model.Eval.
From Verif Require Model.Schema Model.Validate.

(* JSON-Schema type names the evaluator model uses ([top_type], [scalar_type]) *)
Definition jtype_of_name (ty : string) : option Schema.jtype :=
  if String.eqb ty "null" then Some Schema.TNull
  else if String.eqb ty "boolean" then Some Schema.TBool
  else if String.eqb ty "number" then Some Schema.TNum
  else if String.eqb ty "string" then Some Schema.TStr
  else if String.eqb ty "array" then Some Schema.TArr
  else if String.eqb ty "object" then Some Schema.TObj
  else None.

Definition name_of_jtype (t : Schema.jtype) : string :=
  match t with
  | Schema.TNull => "null" | Schema.TBool => "boolean" | Schema.TNum => "number"
  | Schema.TStr => "string" | Schema.TArr => "array" | Schema.TObj => "object"
  end.

Definition kw_type_req (t : option Schema.jtype) (req : list string) : Schema.keywords :=
  Schema.mkKw t None [] None None None None None None None None None None false None None req [].

(* the schema `{type: t}` *)
Definition tnode (t : Schema.jtype) : Schema.schema :=
  Schema.SNode None [] [] [] None None [] (kw_type_req (Some t) []).

(* `{type: ty}`; a type name outside the six JSON types matches nothing *)
Definition ty_schema (ty : string) : Schema.schema :=
  match jtype_of_name ty with Some t => tnode t | None => Schema.SNever end.

(* InAlways: `true`.  InRecord: {type: object, properties: {k: {type: ty}}, required, additionalProperties: false if closed} *)
Definition schema_of_in (s : in_schema) : Schema.schema :=
  match s with
  | InAlways => Schema.SAlways
  | InRecord props required closed =>
      Schema.SNode None [] [] [] None (if closed then Some Schema.SNever else None)
                   (map (fun p => (fst p, ty_schema (snd p))) props)
                   (kw_type_req (Some Schema.TObj) required)
  end.

(* the side condition of JSON objects / Go maps (C08's [compiled]): property names declared once *)
Definition in_wf (s : in_schema) : bool :=
  match s with InAlways => true | InRecord props _ _ => Schema.nodupb (map fst props) end.

(* ---- numerals by their text: the canonical integer literal of strconv.FormatInt ---- *)
Definition digit_val (c : ascii) : option Z :=
  let n := N_of_ascii c in if (48 <=? n) && (n <=? 57) then Some (Z.of_N (n - 48)) else None.

Fixpoint parse_digits (s : string) (acc : Z) : option Z :=
  match s with
  | EmptyString => Some acc
  | String c r => match digit_val c with Some d => parse_digits r (10 * acc + d)%Z | None => None end
  end.

Definition canon_int (t : string) : option Z :=
  match t with
  | EmptyString => None
  | String "-" r =>
      match r with
      | EmptyString => None
      | String "0" _ => None
      | _ => option_map Z.opp (parse_digits r 0%Z)
      end
  | String "0" EmptyString => Some 0%Z
  | String "0" _ => None
  | _ => parse_digits t 0%Z
  end.

(* exported values as JSON; flags are dropped (the theorems assume no unknown part).  A numeral whose text is the
   canonical literal of the integer z becomes [JNum z 0]; any other spelling becomes a numeral with form <> 0,
   which C08's side condition [value_integral] excludes (on this schema family the numeric value is never looked at) *)
Fixpoint json_of_x (v : xval) : Schema.json :=
  match v with
  | XScalar _ _ SNull => Schema.JNull
  | XScalar _ _ (SBool b) => Schema.JBool b
  | XScalar _ _ (SNum t) => match canon_int t with Some z => Schema.JNum z 0 | None => Schema.JNum 0%Z 1 end
  | XScalar _ _ (SStr s) => Schema.JStr s
  | XArr _ _ l => Schema.JArr (map json_of_x l)
  | XObj _ _ m => Schema.JObj (map (fun kv => (fst kv, json_of_x (snd kv))) m)
  end.

Example canon_int_examples :
  canon_int "0" = Some 0%Z /\ canon_int "-12" = Some (-12)%Z /\ canon_int "1844" = Some 1844%Z
  /\ canon_int "01" = None /\ canon_int "-0" = None /\ canon_int "1.0" = None /\ canon_int "1e3" = None /\ canon_int "" = None.
Proof. repeat split; reflexivity. Qed.
