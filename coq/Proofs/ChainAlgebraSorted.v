(* Proofs/ChainAlgebraSorted.v — the string order used by value.go's sorted key sets, and canonical
   (strictly key-sorted) association lists: [sinsert]/[sunion]/[ainsert] facts and extensionality. *)
From Verif Require Import Base.Bytes Model.Chain.
From Coq Require Import Lia OrderedTypeEx Sorted.

(* ---------------- String.ltb is a strict total order ---------------- *)
Lemma sltb_lt (a b : string) : String.ltb a b = true <-> String_as_OT.lt a b.
Proof.
  unfold String.ltb. rewrite <- String_as_OT.cmp_lt. unfold String_as_OT.cmp.
  destruct (String.compare a b); split; congruence.
Qed.

Lemma sltb_trans (a b c : string) : String.ltb a b = true -> String.ltb b c = true -> String.ltb a c = true.
Proof. rewrite !sltb_lt. apply String_as_OT.lt_trans. Qed.

Lemma sltb_irrefl (a : string) : String.ltb a a = false.
Proof.
  destruct (String.ltb a a) eqn:E; [|reflexivity].
  apply sltb_lt in E. exfalso. exact (String_as_OT.lt_not_eq _ _ E eq_refl).
Qed.

Lemma sltb_total (a b : string) : String.eqb a b = false -> String.ltb a b = false -> String.ltb b a = true.
Proof.
  unfold String.ltb. intros Hne Hlt. rewrite String.compare_antisym.
  destruct (String.compare a b) eqn:E; simpl; try reflexivity; try discriminate.
  apply String.compare_eq_iff in E. subst. now rewrite String.eqb_refl in Hne.
Qed.

Lemma sltb_neq (a b : string) : String.ltb a b = true -> String.eqb a b = false.
Proof.
  intros H. destruct (String.eqb a b) eqn:E; [|reflexivity].
  apply String.eqb_eq in E. subst. now rewrite sltb_irrefl in H.
Qed.

Lemma sltb_asym (a b : string) : String.ltb a b = true -> String.ltb b a = false.
Proof.
  intros H. destruct (String.ltb b a) eqn:E; [|reflexivity].
  pose proof (sltb_trans _ _ _ H E) as C. now rewrite sltb_irrefl in C.
Qed.

(* ---------------- membership as a boolean ---------------- *)
Definition smem (k : string) (l : list string) : bool := existsb (String.eqb k) l.

Lemma smem_In (k : string) (l : list string) : smem k l = true <-> In k l.
Proof.
  unfold smem. rewrite existsb_exists. split.
  - intros (x & Hx & E). apply String.eqb_eq in E. now subst.
  - intros H. exists k. split; [exact H|apply String.eqb_refl].
Qed.

Lemma smem_false (k : string) (l : list string) : smem k l = false <-> ~ In k l.
Proof. rewrite <- smem_In. destruct (smem k l); split; congruence. Qed.

(* ---------------- strictly sorted key lists ---------------- *)
Definition slt (a b : string) : Prop := String.ltb a b = true.
Notation ssorted := (StronglySorted slt).

Lemma ssorted_nodup (l : list string) : ssorted l -> NoDup l.
Proof.
  induction 1 as [|a l Hs IH Hall]; constructor; [|exact IH].
  intros Hin. rewrite Forall_forall in Hall. specialize (Hall _ Hin). unfold slt in Hall.
  now rewrite sltb_irrefl in Hall.
Qed.

Lemma In_sinsert (k x : string) (l : list string) : In x (sinsert k l) <-> x = k \/ In x l.
Proof.
  induction l as [|a l IH]; simpl.
  - intuition.
  - destruct (String.eqb k a) eqn:E.
    + apply String.eqb_eq in E. subst. simpl. intuition.
    + destruct (String.ltb k a); simpl; [intuition|]. rewrite IH. intuition.
Qed.

Lemma sinsert_sorted (k : string) (l : list string) : ssorted l -> ssorted (sinsert k l).
Proof.
  induction 1 as [|a l Hs IH Hall]; simpl.
  - repeat constructor.
  - destruct (String.eqb k a) eqn:E; [now constructor|].
    destruct (String.ltb k a) eqn:L.
    + constructor; [now constructor|]. constructor; [exact L|].
      eapply Forall_impl; [|exact Hall]. intros b Hb. unfold slt in *. eapply sltb_trans; eassumption.
    + constructor; [exact IH|]. apply Forall_forall. intros x Hx. apply In_sinsert in Hx.
      destruct Hx as [->|Hx]; [exact (sltb_total _ _ E L)|]. rewrite Forall_forall in Hall. now apply Hall.
Qed.

Lemma fold_sinsert_sorted (b a : list string) :
  ssorted a -> ssorted (fold_left (fun acc k => sinsert k acc) b a).
Proof. revert a. induction b as [|k b IH]; simpl; intros a Ha; [exact Ha|]. apply IH, sinsert_sorted, Ha. Qed.

Lemma In_fold_sinsert (x : string) (b a : list string) :
  In x (fold_left (fun acc k => sinsert k acc) b a) <-> In x a \/ In x b.
Proof.
  revert a. induction b as [|k b IH]; simpl; intros a; [intuition|].
  rewrite IH, In_sinsert. intuition.
Qed.

(* NB [sunion a b] inserts the elements of [a] into [b] *)
Lemma sunion_sorted (a b : list string) : ssorted b -> ssorted (sunion a b).
Proof. apply fold_sinsert_sorted. Qed.

Lemma In_sunion (x : string) (a b : list string) : In x (sunion a b) <-> In x a \/ In x b.
Proof. unfold sunion. rewrite In_fold_sinsert. tauto. Qed.

(* boolean check of strict sortedness *)
Fixpoint sorted_b (l : list string) : bool :=
  match l with
  | a :: r => match r with b :: _ => String.ltb a b | [] => true end && sorted_b r
  | [] => true
  end.

Lemma sorted_b_ok (l : list string) : sorted_b l = true <-> ssorted l.
Proof.
  induction l as [|a r IH]; [split; [constructor|reflexivity]|].
  cbn [sorted_b]. rewrite andb_true_iff, IH. split.
  - intros [Hh Hr]. constructor; [exact Hr|].
    destruct r as [|b r']; [constructor|]. constructor; [exact Hh|].
    inversion Hr as [|? ? _ Hb]; subst. eapply Forall_impl; [|exact Hb].
    intros c Hc. unfold slt in *. eapply sltb_trans; eassumption.
  - intros H. inversion H as [|? ? Hr Ha]; subst. split; [|exact Hr].
    destruct r as [|b r']; [reflexivity|]. now inversion Ha.
Qed.

(* two strictly sorted lists with the same elements are equal *)
Lemma ssorted_ext (l1 l2 : list string) :
  ssorted l1 -> ssorted l2 -> (forall x, In x l1 <-> In x l2) -> l1 = l2.
Proof.
  intros H1. revert l2. induction H1 as [|a l1 Hs1 IH Ha]; intros l2 H2 Hext.
  - destruct l2 as [|b l2]; [reflexivity|]. exfalso. apply (proj2 (Hext b)). now left.
  - destruct H2 as [|b l2 Hs2 Hb].
    + exfalso. apply (proj1 (Hext a)). now left.
    + rewrite Forall_forall in Ha, Hb. unfold slt in *.
      assert (a = b) as ->.
      { destruct (proj1 (Hext a) (or_introl eq_refl)) as [E|Hin]; [now symmetry|].
        destruct (proj2 (Hext b) (or_introl eq_refl)) as [E|Hin']; [exact E|].
        pose proof (Hb _ Hin) as X. pose proof (Ha _ Hin') as Y.
        pose proof (sltb_trans _ _ _ X Y) as C. now rewrite sltb_irrefl in C. }
      f_equal. apply IH; [exact Hs2|]. intros x. split; intros Hx.
      * destruct (proj1 (Hext x) (or_intror Hx)) as [E|Hin]; [|exact Hin].
        subst. specialize (Ha _ Hx). now rewrite sltb_irrefl in Ha.
      * destruct (proj2 (Hext x) (or_intror Hx)) as [E|Hin]; [|exact Hin].
        subst. specialize (Hb _ Hx). now rewrite sltb_irrefl in Hb.
Qed.

(* ---------------- association lists ---------------- *)
Lemma alookup_In {A} (k : string) (m : list (string * A)) (v : A) : alookup k m = Some v -> In (k, v) m.
Proof.
  induction m as [|[k' v'] m IH]; simpl; [discriminate|].
  destruct (String.eqb k k') eqn:E.
  - intros [= ->]. apply String.eqb_eq in E. subst. now left.
  - intros H. right. now apply IH.
Qed.

Lemma alookup_None {A} (k : string) (m : list (string * A)) : alookup k m = None <-> ~ In k (map fst m).
Proof.
  induction m as [|[k' v'] m IH]; simpl; [intuition|].
  destruct (String.eqb k k') eqn:E.
  - apply String.eqb_eq in E. subst. split; [discriminate|]. intros H. exfalso. apply H. now left.
  - rewrite IH. apply String.eqb_neq in E. intuition.
Qed.

Lemma alookup_Some_In {A} (k : string) (m : list (string * A)) : In k (map fst m) <-> exists v, alookup k m = Some v.
Proof.
  destruct (alookup k m) as [v|] eqn:E.
  - split; [eauto|]. intros _. apply alookup_In in E. apply in_map_iff. now exists (k, v).
  - split; [|intros (v & Hv); discriminate]. intros H. apply alookup_None in E. contradiction.
Qed.

Lemma alookup_map {A B} (f : A -> B) (k : string) (m : list (string * A)) :
  alookup k (map (fun kv => (fst kv, f (snd kv))) m) = option_map f (alookup k m).
Proof.
  induction m as [|[k' v'] m IH]; simpl; [reflexivity|]. destruct (String.eqb k k'); [reflexivity|exact IH].
Qed.

Lemma map_fst_map {A B} (f : A -> B) (m : list (string * A)) :
  map fst (map (fun kv => (fst kv, f (snd kv))) m) = map fst m.
Proof. rewrite map_map. apply map_ext. reflexivity. Qed.

(* tabulating a function over a key list *)
Definition tab {A} (f : string -> A) (ks : list string) : list (string * A) := map (fun k => (k, f k)) ks.

Lemma tab_keys {A} (f : string -> A) ks : map fst (tab f ks) = ks.
Proof. unfold tab. rewrite map_map. simpl. apply map_id. Qed.

Lemma alookup_tab {A} (f : string -> A) ks k : alookup k (tab f ks) = if smem k ks then Some (f k) else None.
Proof.
  induction ks as [|a ks IH]; simpl; [reflexivity|].
  destruct (String.eqb k a) eqn:E; simpl.
  - apply String.eqb_eq in E. now subst.
  - exact IH.
Qed.

Lemma alookup_ainsert {A} (k x : string) (v : A) (m : list (string * A)) :
  alookup x (ainsert k v m) = if String.eqb x k then Some v else alookup x m.
Proof.
  induction m as [|[k' v'] m IH]; simpl.
  - reflexivity.
  - destruct (String.eqb k k') eqn:E.
    + apply String.eqb_eq in E. subst. simpl. destruct (String.eqb x k'); reflexivity.
    + destruct (String.ltb k k') eqn:L; simpl.
      * reflexivity.
      * rewrite IH. destruct (String.eqb x k') eqn:E2; [|reflexivity].
        apply String.eqb_eq in E2. subst. rewrite String.eqb_sym, E. reflexivity.
Qed.

Lemma ainsert_keys {A} (k : string) (v : A) (m : list (string * A)) : map fst (ainsert k v m) = sinsert k (map fst m).
Proof.
  induction m as [|[k' v'] m IH]; simpl; [reflexivity|].
  destruct (String.eqb k k') eqn:E.
  - apply String.eqb_eq in E. now subst.
  - destruct (String.ltb k k'); simpl; [reflexivity|]. now rewrite IH.
Qed.

Notation asorted m := (ssorted (map fst m)).

Lemma ainsert_sorted {A} (k : string) (v : A) (m : list (string * A)) : asorted m -> asorted (ainsert k v m).
Proof. rewrite ainsert_keys. apply sinsert_sorted. Qed.

(* canonical forms: key-sorted association lists are determined by their lookups *)
Lemma asorted_ext {A} (m1 m2 : list (string * A)) :
  asorted m1 -> asorted m2 -> (forall k, alookup k m1 = alookup k m2) -> m1 = m2.
Proof.
  intros H1 H2 Hext.
  assert (Hk : map fst m1 = map fst m2).
  { apply ssorted_ext; [exact H1|exact H2|]. intros x. rewrite !alookup_Some_In, Hext. reflexivity. }
  revert m2 H1 H2 Hext Hk. induction m1 as [|[k v] m1 IH]; intros [|[k2 v2] m2] H1 H2 Hext Hk; try discriminate; [reflexivity|].
  simpl in Hk. injection Hk as -> Hk.
  pose proof (Hext k2) as E. simpl in E. rewrite String.eqb_refl in E. injection E as ->.
  f_equal. inversion H1 as [|? ? Hs1 Ha1]; inversion H2 as [|? ? Hs2 Ha2]; subst.
  apply IH; [exact Hs1|exact Hs2| |exact Hk].
  intros x. pose proof (Hext x) as E. simpl in E.
  destruct (String.eqb x k2) eqn:Ex; [|exact E].
  apply String.eqb_eq in Ex. subst.
  assert (N1 : ~ In k2 (map fst m1)).
  { intros Hin. rewrite Forall_forall in Ha1. specialize (Ha1 _ Hin). unfold slt in Ha1. now rewrite sltb_irrefl in Ha1. }
  assert (N2 : ~ In k2 (map fst m2)) by now rewrite <- Hk.
  apply alookup_None in N1, N2. congruence.
Qed.

(* folding [ainsert] over a duplicate-free list *)
Definition ains_all {A} (b acc : list (string * A)) : list (string * A) :=
  fold_left (fun acc kv => ainsert (fst kv) (snd kv) acc) b acc.

Lemma ains_all_sorted {A} (b acc : list (string * A)) : asorted acc -> asorted (ains_all b acc).
Proof.
  unfold ains_all. revert acc. induction b as [|[k v] b IH]; simpl; intros acc H; [exact H|].
  apply IH, ainsert_sorted, H.
Qed.

Lemma alookup_ains_all {A} (b acc : list (string * A)) (x : string) :
  NoDup (map fst b) ->
  alookup x (ains_all b acc) = match alookup x b with Some v => Some v | None => alookup x acc end.
Proof.
  unfold ains_all. revert acc. induction b as [|[k v] b IH]; simpl; intros acc Hnd; [reflexivity|].
  inversion Hnd as [|? ? Hni Hnd']; subst. rewrite (IH _ Hnd'), alookup_ainsert.
  destruct (String.eqb x k) eqn:E; [|reflexivity].
  apply String.eqb_eq in E. subst. apply alookup_None in Hni. now rewrite Hni.
Qed.

(* a sorted list folded into the empty list is itself *)
Lemma ains_all_id {A} (b : list (string * A)) : asorted b -> ains_all b [] = b.
Proof.
  intros H. apply asorted_ext; [apply ains_all_sorted; constructor|exact H|].
  intros k. rewrite alookup_ains_all by (rewrite <- (map_id (map fst b)); apply ssorted_nodup; now rewrite map_id).
  destruct (alookup k b); reflexivity.
Qed.
