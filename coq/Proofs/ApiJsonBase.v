(* Proofs/ApiJsonBase.v — lemmas about the leaf functions of Model/ApiJson.v: UTF-8 sanitising, integer text,
   key-sorted maps, the [res] monad, lookups. *)
From Coq Require Import Lia DecimalString DecimalZ.
From Verif Require Import Base.Bytes Model.ApiJson.

(* ---- res monad -------------------------------------------------------------------------------------- *)
Lemma bind_ok {A B} (r : res A) (f : A -> res B) b :
  bind r f = Ok b -> exists a, r = Ok a /\ f a = Ok b.
Proof. destruct r; simpl; intro H; try discriminate. eauto. Qed.

Lemma mapM_cons_ok {A B} (f : A -> res B) x r ys :
  mapM f (x :: r) = Ok ys -> exists y t, f x = Ok y /\ mapM f r = Ok t /\ ys = y :: t.
Proof.
  simpl. intro H. apply bind_ok in H. destruct H as [y [Hy H]].
  apply bind_ok in H. destruct H as [t [Ht H]]. inversion H. eauto.
Qed.

(* a list mapped by [f] and mapped back by [g] element-wise *)
Lemma mapM_roundtrip {A B} (f : A -> res B) (g : B -> res A) (ok : A -> bool) :
  forall l ys,
    (forall x y, In x l -> f x = Ok y -> ok x = true -> g y = Ok x) ->
    mapM f l = Ok ys -> forallb ok l = true -> mapM g ys = Ok l.
Proof.
  induction l as [|x r IH]; intros ys Hfg Hm Hok.
  - simpl in Hm. inversion Hm. reflexivity.
  - apply mapM_cons_ok in Hm. destruct Hm as [y [t [Hy [Ht ->]]]].
    simpl in Hok. apply andb_true_iff in Hok. destruct Hok as [Hx Hr].
    simpl. rewrite (Hfg x y (or_introl eq_refl) Hy Hx). simpl.
    rewrite (IH t (fun x' y' Hin => Hfg x' y' (or_intror Hin)) Ht Hr). reflexivity.
Qed.

Lemma mapM_exists {A B} (f : A -> res B) (ok : A -> bool) :
  forall l, (forall x, In x l -> ok x = true -> exists y, f x = Ok y) ->
            forallb ok l = true -> exists ys, mapM f l = Ok ys.
Proof.
  induction l as [|x r IH]; intros Hf Hok.
  - exists []. reflexivity.
  - simpl in Hok. apply andb_true_iff in Hok. destruct Hok as [Hx Hr].
    destruct (Hf x (or_introl eq_refl) Hx) as [y Hy].
    destruct (IH (fun x' Hin => Hf x' (or_intror Hin)) Hr) as [ys Hys].
    exists (y :: ys). simpl. rewrite Hy. simpl. rewrite Hys. reflexivity.
Qed.

(* ---- UTF-8 ------------------------------------------------------------------------------------------ *)
Lemma sanitize_eq a r :
  sanitize (String a r) =
  if N_of_ascii a <? 128 then String a (sanitize r)
  else match rune_size (String a r), r with
       | 2%nat, String b r2 => String a (String b (sanitize r2))
       | 3%nat, String b (String c r3) => String a (String b (String c (sanitize r3)))
       | 4%nat, String b (String c (String d r4)) => String a (String b (String c (String d (sanitize r4))))
       | _, _ => ufffd +++ sanitize r
       end.
Proof. reflexivity. Qed.

Lemma valid_utf8_eq a r :
  valid_utf8 (String a r) =
  if N_of_ascii a <? 128 then valid_utf8 r
  else match rune_size (String a r), r with
       | 2%nat, String b r2 => valid_utf8 r2
       | 3%nat, String b (String c r3) => valid_utf8 r3
       | 4%nat, String b (String c (String d r4)) => valid_utf8 r4
       | _, _ => false
       end.
Proof. reflexivity. Qed.

Lemma sanitize_valid_len : forall n s, (String.length s <= n)%nat -> valid_utf8 s = true -> sanitize s = s.
Proof.
  induction n as [|n IH]; intros s Hlen Hv.
  - destruct s; [reflexivity | simpl in Hlen; lia].
  - destruct s as [|a r]; [reflexivity|].
    rewrite valid_utf8_eq in Hv. rewrite sanitize_eq.
    destruct (N_of_ascii a <? 128).
    + rewrite (IH r); [reflexivity | simpl in Hlen; lia | exact Hv].
    + destruct (rune_size (String a r)) as [|[|[|[|[|k]]]]]; try discriminate.
      * destruct r as [|b r2]; [discriminate|].
        rewrite (IH r2); [reflexivity | simpl in Hlen; lia | exact Hv].
      * destruct r as [|b [|c r3]]; try discriminate.
        rewrite (IH r3); [reflexivity | simpl in Hlen; lia | exact Hv].
      * destruct r as [|b [|c [|d r4]]]; try discriminate.
        rewrite (IH r4); [reflexivity | simpl in Hlen; lia | exact Hv].
Qed.

Lemma sanitize_valid : forall s, valid_utf8 s = true -> sanitize s = s.
Proof. intros s. apply (sanitize_valid_len (String.length s)). lia. Qed.

(* ---- integers ------------------------------------------------------------------------------------------ *)
Lemma parse_print : forall z, int64_ok z = true -> parse_int (print_Z z) = Some z.
Proof.
  intros z H. unfold parse_int, print_Z. rewrite NilEmpty.isi. rewrite DecimalZ.of_to. rewrite H. reflexivity.
Qed.

(* ---- strings as keys ---------------------------------------------------------------------------------- *)
Lemma ltb_gt : forall a b, String.ltb a b = true -> String.compare b a = Gt.
Proof.
  intros a b H. unfold String.ltb in H. rewrite String.compare_antisym.
  destruct (String.compare a b); try discriminate. reflexivity.
Qed.

Lemma insert_last {A} : forall (k : string) (v : A) acc,
  forallb (fun kv => String.ltb (fst kv) k) acc = true -> map_insert k v acc = acc ++ [(k, v)].
Proof.
  induction acc as [|[k' v'] r IH]; intro H.
  - reflexivity.
  - simpl in H. apply andb_true_iff in H. destruct H as [H1 H2].
    simpl. rewrite (ltb_gt _ _ H1). rewrite (IH H2). reflexivity.
Qed.

Lemma fold_insert_sorted {A} : forall (l acc : list (string * A)),
  sorted_keys l = true ->
  forallb (fun kv' => forallb (fun kv => String.ltb (fst kv) (fst kv')) acc) l = true ->
  fold_left (fun a kv => map_insert (fst kv) (snd kv) a) l acc = acc ++ l.
Proof.
  induction l as [|[k v] r IH]; intros acc Hs Hc.
  - simpl. rewrite app_nil_r. reflexivity.
  - simpl in Hs. apply andb_true_iff in Hs. destruct Hs as [Hk Hr].
    simpl in Hc. apply andb_true_iff in Hc. destruct Hc as [Hc1 Hc2].
    simpl. rewrite (insert_last k v acc Hc1).
    rewrite IH; [rewrite <- app_assoc; reflexivity | exact Hr |].
    rewrite forallb_forall in *. intros kv' Hin.
    rewrite forallb_app. rewrite (Hc2 kv' Hin). simpl. rewrite (Hk kv' Hin). reflexivity.
Qed.

Lemma map_of_entries_sorted {A} : forall l : list (string * A), sorted_keys l = true -> map_of_entries l = l.
Proof.
  intros l H. unfold map_of_entries. rewrite fold_insert_sorted; [reflexivity | exact H |].
  rewrite forallb_forall. intros. reflexivity.
Qed.

(* ---- assoc_last ----------------------------------------------------------------------------------------- *)
Lemma assoc_last_none {A} : forall (k : string) (l : list (string * A)),
  ~ In k (map fst l) -> assoc_last k l = None.
Proof.
  induction l as [|[k' v] r IH]; intro H; [reflexivity|].
  simpl in *. rewrite IH by tauto.
  destruct (String.eqb k' k) eqn:E; [|reflexivity].
  apply String.eqb_eq in E. tauto.
Qed.

Lemma assoc_last_app_some {A} : forall (k : string) (l1 l2 : list (string * A)) w,
  assoc_last k l2 = Some w -> assoc_last k (l1 ++ l2) = Some w.
Proof.
  induction l1 as [|[k' v] r IH]; intros l2 w H; [exact H|].
  simpl. rewrite (IH l2 w H). reflexivity.
Qed.

Lemma assoc_last_app_none {A} : forall (k : string) (l1 l2 : list (string * A)),
  ~ In k (map fst l1) -> assoc_last k l2 = None -> assoc_last k (l1 ++ l2) = None.
Proof.
  intros k l1 l2 H1 H2. apply assoc_last_none. rewrite map_app. intro Hin.
  apply in_app_or in Hin. destruct Hin as [Hin|Hin]; [tauto|].
  clear H1. induction l2 as [|[k' v] r IH]; [exact Hin|].
  simpl in H2. destruct (assoc_last k r) eqn:E; [discriminate|].
  destruct (String.eqb k' k) eqn:E2; [discriminate|].
  simpl in Hin. destruct Hin as [Hin|Hin].
  - subst. rewrite String.eqb_refl in E2. discriminate.
  - apply IH; auto.
Qed.

Lemma assoc_last_head {A} : forall (k : string) (j : A) r,
  ~ In k (map fst r) -> assoc_last k ((k, j) :: r) = Some j.
Proof.
  intros k j r H. simpl. rewrite (assoc_last_none k r H). rewrite String.eqb_refl. reflexivity.
Qed.

(* ---- nodup_str -------------------------------------------------------------------------------------------- *)
Lemma existsb_eqb_false : forall (x : string) l, existsb (String.eqb x) l = false -> ~ In x l.
Proof.
  induction l as [|y r IH]; intros H Hin; [exact Hin|].
  simpl in H. apply orb_false_iff in H. destruct H as [H1 H2].
  destruct Hin as [->|Hin]; [rewrite String.eqb_refl in H1; discriminate | exact (IH H2 Hin)].
Qed.

Lemma nodup_str_cons : forall x l, nodup_str (x :: l) = true -> ~ In x l /\ nodup_str l = true.
Proof.
  intros x l H. simpl in H. apply andb_true_iff in H. destruct H as [H1 H2].
  split; [|exact H2]. apply existsb_eqb_false. destruct (existsb (String.eqb x) l); [discriminate|reflexivity].
Qed.

(* ---- tables ------------------------------------------------------------------------------------------------ *)
Lemma lookup_sd_ok : forall tb nm sd, tables_ok tb = true -> lookup_sd tb nm = Some sd -> sdef_ok sd = true.
Proof.
  intros tb nm sd Hok Hl. unfold tables_ok in Hok. apply andb_true_iff in Hok. destruct Hok as [_ Hall].
  unfold lookup_sd in Hl. apply find_some in Hl. destruct Hl as [Hin _].
  rewrite forallb_forall in Hall. exact (Hall sd Hin).
Qed.
