(* Proofs/CheckApproxExamples.v — C06: a concrete world (constant provider output, ciphertext secret, an object
   merged over a provider output, an import loaded after a provider was opened) by computation. *)
From Verif Require Import Base.Bytes Base.Wire Model.Chain Model.GoText Model.Envelope Model.Eval Corr.EvalWire.
From Verif Require Corr.C06.
From Verif Require Import Proofs.CheckApproxMono Proofs.CheckApproxRel Proofs.CheckApproxKit Proofs.CheckApproxEval
     Proofs.CheckApproxMain.

Definition demo_ct : string := encode_ct {| ep_magic := "escx"; ep_version := 1; ep_min_len := 12 |} "sealed".

Definition W_demo (fault : option N) (token : string) (dec : string -> string -> option string) : world :=
  {| w_envs := [("a", LoadOk {| ed_imports := []; ed_values := [("cfg", EOpen "p" (EObj [("region", EStr "eu")]))] |});
                ("b", LoadOk {| ed_imports := []; ed_values := [("bkey", EStr "from-b")] |})];
     w_provs := [("p", {| pv_in := InAlways; pv_out := ScObject [("token", ScType "string")] None;
                          pv_beh := PConst (XObj false false [("token", XScalar true false (SStr token))]) |})];
     w_ctx := []; w_check := false; w_show := false; w_fault := fault; w_decrypt := dec |}.

Definition dec1 : string -> string -> option string := fun _ c => Some ("plain:" +++ c).
Definition dec2 : string -> string -> option string := fun _ _ => None.

Definition d_demo : envdef :=
  {| ed_imports := [("a", true); ("b", true)];
     ed_values := [("cfg", EObj [("extra", EStr "x")]);                 (* merged over the provider output of a *)
                   ("pw", ESecretCipher demo_ct);                       (* ciphertext secret *)
                   ("hello", EInterp [("hi ", Some [AName "bkey"])]);   (* static data from b *)
                   ("tok", ESym [AName "cfg"; AName "token"]);          (* access into the provider output *)
                   ("up", EToString (ESym [AName "pw"]));               (* derived from the ciphertext *)
                   ("lst", EArr [EStr "k"; ESym [AName "cfg"; AName "token"]])] |}.

Definition demo_check : xval :=
  XObj false false
    [("bkey", XScalar false false (SStr "from-b"));
     ("cfg", XObj false false [("extra", XScalar false false (SStr "x"))]);
     ("hello", XScalar false false (SStr "hi from-b"));
     ("lst", XArr false false [XScalar false false (SStr "k"); XScalar false true SNull]);
     ("pw", XScalar true true SNull);
     ("tok", XScalar false true SNull);
     ("up", XScalar true true SNull)].

Definition demo_open : xval :=
  XObj false false
    [("bkey", XScalar false false (SStr "from-b"));
     ("cfg", XObj false false [("extra", XScalar false false (SStr "x")); ("token", XScalar true false (SStr "t0k"))]);
     ("hello", XScalar false false (SStr "hi from-b"));
     ("lst", XArr false false [XScalar false false (SStr "k"); XScalar true false (SStr "t0k")]);
     ("pw", XScalar true false (SStr "plain:sealed"));
     ("tok", XScalar true false (SStr "t0k"));
     ("up", XScalar true false (SStr "plain:sealed"))].

(* what the three modes compute: everything derived from the provider or the ciphertext is unknown in check,
   the open environment has one more key under cfg *)
Example demo_runs :
  ob_value (run 40 (C06.with_mode (W_demo None "t0k" dec1) true false) "main" d_demo) = Some demo_check /\
  ob_value (run 40 (W_demo None "t0k" dec1) "main" d_demo) = Some demo_open /\
  ob_oof (run 40 (C06.with_mode (W_demo None "t0k" dec1) true false) "main" d_demo) = false /\
  ob_oof (run 40 (C06.with_mode (W_demo None "t0k" dec1) true true) "main" d_demo) = false /\
  ob_oof (run 40 (W_demo None "t0k" dec1) "main" d_demo) = false /\
  C06.approx 4 demo_check demo_open = true.
Proof. vm_compute. repeat split. Qed.

Lemma demo_world_ntj f t dc : world_ntj (W_demo f t dc).
Proof.
  intros n d [E|[E|[]]]; injection E as _ <-; reflexivity.
Qed.

Lemma demo_env_ntj : env_ntj d_demo = true.
Proof. reflexivity. Qed.

(* the hypotheses of the theorem hold for this world, in both showSecrets settings; the conclusion is obtained
   FROM THE THEOREM *)
Example demo_instance show :
  approx_concl (run 40 (C06.with_mode (W_demo None "t0k" dec1) true show) "main" d_demo)
               (run 40 (W_demo None "t0k" dec1) "main" d_demo).
Proof.
  apply check_approx_open_partial;
    [reflexivity|reflexivity|apply demo_world_ntj|reflexivity|destruct show; vm_compute; reflexivity|vm_compute; reflexivity].
Qed.

(* unknown, not invented: another token, a decrypter that fails — what check reported as known is unchanged *)
Example demo_not_invented :
  exists c o1 o2,
    ob_value (run 40 (C06.with_mode (W_demo None "t0k" dec1) true false) "main" d_demo) = Some c /\
    ob_value (run 40 (W_demo None "t0k" dec1) "main" d_demo) = Some o1 /\
    ob_value (run 40 (W_demo None "other" dec2) "main" d_demo) = Some o2 /\
    forall p s x, x_get p c = Some (XScalar s false x) ->
                  x_get p o1 = Some (XScalar s false x) /\ x_get p o2 = Some (XScalar s false x).
Proof.
  destruct (two_open_worlds (W_demo None "t0k" dec1) (W_demo None "other" dec2)) as [H1 H2];
    try reflexivity; [apply demo_world_ntj|].
  apply unknown_not_invented; auto; vm_compute; reflexivity.
Qed.

Example demo_get : x_get [XKey "lst"; XIdx 0] demo_check = Some (XScalar false false (SStr "k")) /\
                   x_get [XKey "cfg"; XKey "extra"] demo_open = Some (XScalar false false (SStr "x")).
Proof. split; reflexivity. Qed.

(* ---- fault plans must be excluded: the call counters of the two modes differ (check neither opens providers nor
   decrypts), so the same plan hits different calls.  Plan "call 3 fails": in open mode that is the load of
   import b (calls: load a, load provider, open, load b), in check mode there is no call 3 — check reports
   bkey / hello as known, the opened environment does not have them ---- *)
Example faults_break_approx :
  let oc := run 40 (C06.with_mode (W_demo (Some 3) "t0k" dec1) true false) "main" d_demo in
  let oo := run 40 (W_demo (Some 3) "t0k" dec1) "main" d_demo in
  ob_oof oc = false /\ ob_oof oo = false /\
  match ob_value oc, ob_value oo with
  | Some c, Some o => C06.approx (S (x_depth c)) c o = false /\
                      x_get [XKey "bkey"] c = Some (XScalar false false (SStr "from-b")) /\ x_get [XKey "bkey"] o = None
  | _, _ => False
  end.
Proof. vm_compute. repeat split. Qed.

(* ------------------------------------------------------------------------------------------------ *)
(* schema soundness (NOT proved): the intended statement, with an acceptance relation, and one instance *)
(* ------------------------------------------------------------------------------------------------ *)
(* acceptance of an exported value by a schema of Model/Chain.v (type / tuple prefix + items / properties +
   additionalProperties / oneOf); an unknown value is accepted by every schema *)
Fixpoint sch_accepts (fuel : nat) (s : sch) (v : xval) : bool :=
  match fuel with
  | O => false
  | S f =>
    if C06.x_unk v then true else
    match s with
    | ScAlways => true
    | ScNever => false
    | ScType t => match v with XScalar _ _ x => String.eqb (scalar_type x) t | _ => false end
    | ScArray prefix items =>
        match v with
        | XArr _ _ l =>
            (fix go (ps : list sch) (l : list xval) : bool :=
               match l with
               | [] => true
               | x :: r => match ps with
                           | p :: ps' => sch_accepts f p x && go ps' r
                           | [] => match items with Some i => forallb (sch_accepts f i) l | None => true end
                           end
               end) prefix l
        | _ => false
        end
    | ScObject props addl =>
        match v with
        | XObj _ _ m => forallb (fun kv => match alookup (fst kv) props with
                                           | Some p => sch_accepts f p (snd kv)
                                           | None => match addl with Some a => sch_accepts f a (snd kv) | None => true end
                                           end) m
        | _ => false
        end
    | ScOneOf alts => existsb (fun a => sch_accepts f a v) alts
    end
  end.

(* providers return what they declare *)
Definition providers_conform (W : world) : Prop :=
  forall pn p, In (pn, p) (w_provs W) ->
    match pv_beh p with
    | PConst v => sch_accepts (S (S (x_depth v))) (pv_out p) v = true
    | PEcho => pv_out p = ScAlways
    | PFail => True
    end.

Definition schema_sound_statement : Prop :=
  forall W show fuel name d,
    w_check W = false -> w_fault W = None -> providers_conform W ->
    ob_oof (run fuel (C06.with_mode W true show) name d) = false -> ob_oof (run fuel W name d) = false ->
    exists o, ob_value (run fuel W name d) = Some o /\
              sch_accepts (S (S (x_depth o)))
                          (top_sch (fst (eval_env (C06.with_mode W true show) fuel "" name d st0))) o = true.

(* on the demo world: the schema check reports, and it accepts what open produces *)
Example demo_schema :
  top_sch (fst (eval_env (C06.with_mode (W_demo None "t0k" dec1) true false) 40 "" "main" d_demo st0)) =
  ScObject [("bkey", ScType "string");
            ("cfg", ScObject [("extra", ScType "string"); ("token", ScType "string")] None);
            ("hello", ScType "string");
            ("lst", ScArray [ScType "string"; ScType "string"] (Some ScNever));
            ("pw", ScType "string"); ("tok", ScType "string"); ("up", ScType "string")] None
  /\ sch_accepts 6 (ScObject [("bkey", ScType "string");
            ("cfg", ScObject [("extra", ScType "string"); ("token", ScType "string")] None);
            ("hello", ScType "string");
            ("lst", ScArray [ScType "string"; ScType "string"] (Some ScNever));
            ("pw", ScType "string"); ("tok", ScType "string"); ("up", ScType "string")] None) demo_open = true.
Proof. vm_compute. split; reflexivity. Qed.
