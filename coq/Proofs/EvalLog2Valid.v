(* Proofs/EvalLog2Valid.v — the model's chain-level gate implies the oracle's value-level validity:
   if [validate (AccIn insch) iv] says ok, [iv] exports to [xin] and [xin] has no unknown part, then
   [Corr/C05.x_valid insch xin = true] (the JSON-Schema reading of the InAlways / InRecord family). *)
From Coq Require Import Lia ZifyN ZifyNat ZifyBool.
From Verif Require Import Base.Bytes Model.Chain Model.GoText Model.Envelope Model.Eval.
From Verif Require Import Proofs.EvalLogKit Proofs.EvalTotalOrder.
From Verif Require Proofs.RefSem2Depth.
From Verif Require Corr.C05.

(* ---- small list facts ---- *)
Lemma filter_nil_all {A} (f : A -> bool) l : filter f l = [] -> forall x, In x l -> f x = false.
Proof.
  induction l as [|a r IH]; intros H x Hin; [destruct Hin|]. cbn in H.
  destruct (f a) eqn:E; [discriminate|]. destruct Hin as [<-|Hin]; [exact E|exact (IH H x Hin)].
Qed.

Lemma length_zero_nil {A} (l : list A) : length l = 0%nat -> l = [].
Proof. destruct l; [reflexivity|discriminate]. Qed.

Lemma mapM_Forall2 {A B} (g : A -> option B) l m : mapM g l = Some m -> Forall2 (fun a b => g a = Some b) l m.
Proof.
  revert m. induction l as [|a r IH]; intros m H; cbn in H.
  - injection H as <-. constructor.
  - destruct (g a) as [b|] eqn:Ea; [|discriminate]. destruct (mapM g r) as [t|]; [|discriminate].
    injection H as <-. constructor; [exact Ea|apply IH; reflexivity].
Qed.

Lemma Forall2_in_l {A B} (P : A -> B -> Prop) l m a : Forall2 P l m -> In a l -> exists b, In b m /\ P a b.
Proof.
  induction 1 as [|x y l m Hxy _ IH]; intros Hin; [destruct Hin|].
  destruct Hin as [<-|Hin]; [exists y; split; [now left|exact Hxy]|].
  destruct (IH Hin) as (b & Hb & Hp). exists b. split; [now right|exact Hp].
Qed.

Lemma Forall2_in_r {A B} (P : A -> B -> Prop) l m b : Forall2 P l m -> In b m -> exists a, In a l /\ P a b.
Proof.
  induction 1 as [|x y l m Hxy _ IH]; intros Hin; [destruct Hin|].
  destruct Hin as [<-|Hin]; [exists x; split; [now left|exact Hxy]|].
  destruct (IH Hin) as (a & Ha & Hp). exists a. split; [now right|exact Hp].
Qed.

Lemma existsb_eqb_in r ks : existsb (String.eqb r) ks = true <-> In r ks.
Proof.
  rewrite existsb_exists. split.
  - intros (x & Hx & E). apply String.eqb_eq in E. now subst.
  - intros H. exists r. split; [exact H|apply String.eqb_refl].
Qed.

(* ---- exported values: top flags, types ---- *)
Definition xtop_unk (v : xval) : bool := match v with XScalar _ u _ | XArr _ u _ | XObj _ u _ => u end.

Lemma export_top_unk fuel l rest v : export fuel (l :: rest) = Some v -> xtop_unk v = l_unk l.
Proof.
  destruct fuel as [|f]; [discriminate|]. destruct l as [sec unk sc s|sec unk sc es|sec unk sc ps]; cbn [export].
  - intros H. injection H as <-. reflexivity.
  - destruct (mapM (export f) es); intros H; [injection H as <-; reflexivity|discriminate].
  - match goal with |- match ?m with _ => _ end = _ -> _ => destruct m end;
      intros H; [injection H as <-; reflexivity|discriminate].
Qed.

Lemma export_x_type fuel l rest v : export fuel (l :: rest) = Some v -> C05.x_type v = top_type (l :: rest).
Proof.
  destruct fuel as [|f]; [discriminate|]. destruct l as [sec unk sc s|sec unk sc es|sec unk sc ps]; cbn [export top_type].
  - intros H. injection H as <-. destruct s; reflexivity.
  - destruct (mapM (export f) es); intros H; [injection H as <-; reflexivity|discriminate].
  - match goal with |- match ?m with _ => _ end = _ -> _ => destruct m end;
      intros H; [injection H as <-; reflexivity|discriminate].
Qed.

Lemma x_any_S_top (p : bool -> bool -> bool) f v :
  x_any p (S f) v = false -> match v with XScalar s u _ | XArr s u _ | XObj s u _ => p s u end = false.
Proof. destruct v; cbn [x_any]; intros H; [exact H|apply orb_false_iff in H; tauto..]. Qed.

Lemma no_unknown_top v : x_has_unknown v = false -> xtop_unk v = false.
Proof. unfold x_has_unknown. intros H. apply x_any_S_top in H. destruct v; exact H. Qed.

Lemma no_unknown_obj_children s u m :
  x_has_unknown (XObj s u m) = false -> forall kv, In kv m -> xtop_unk (snd kv) = false.
Proof.
  unfold x_has_unknown. cbn [x_depth x_any]. intros H kv Hin.
  apply orb_false_iff in H. destruct H as [_ H].
  assert (x_any (fun _ u0 => u0) (S (fold_left (fun a kv0 => Nat.max a (x_depth (snd kv0))) m 0%nat)) (snd kv) = false) as Hk.
  { destruct (x_any _ _ (snd kv)) eqn:E; [|reflexivity].
    rewrite <- H. symmetry. apply existsb_exists. exists kv. split; [exact Hin|exact E]. }
  apply x_any_S_top in Hk. destruct (snd kv); exact Hk.
Qed.

Lemma big_fuel_S : exists f, big_fuel = S f.
Proof. exists (Nat.pred big_fuel). reflexivity. Qed.

Lemma export_obj_S f sec unk sc ps rest :
  export (S f) (LObj sec unk sc ps :: rest) =
  match mapM (fun k => match export f (property k (LObj sec unk sc ps :: rest)) with Some v => Some (k, v) | None => None end)
             (keys (LObj sec unk sc ps :: rest)) with
  | Some m => Some (XObj sec unk m)
  | None => None
  end.
Proof. reflexivity. Qed.

(* ---- the theorem ---- *)
Theorem gate_implies_oracle_valid (insch : in_schema) (iv : chain) (xin : xval) :
  fst (validate (AccIn insch) iv) = true ->
  export_t iv = Some xin ->
  x_has_unknown xin = false ->
  C05.x_valid insch xin = true.
Proof.
  intros Hv Hx Hu. apply RefSem2Depth.export_t_sound in Hx. remember (cdepth iv) as F eqn:HF. clear HF.
  destruct insch as [|props required closed]; [reflexivity|].
  destruct iv as [|l rest]; [discriminate|].
  pose proof (export_top_unk _ _ _ _ Hx) as Htop. rewrite (no_unknown_top _ Hu) in Htop.
  unfold validate in Hv. rewrite <- Htop in Hv.
  destruct l as [sec unk sc s|sec unk sc es|sec unk sc ps]; try discriminate.
  set (c := LObj sec unk sc ps :: rest) in *.
  cbv zeta in Hv. cbn [fst] in Hv.
  apply Nat.eqb_eq in Hv.
  set (ks := keys c) in *.
  match type of Hv with (length ?a + length ?b + length ?d)%nat = _ =>
    assert (a = []) as Hmiss by (apply length_zero_nil; lia);
    assert (b = []) as Hextra by (apply length_zero_nil; lia);
    assert (d = []) as Hbad by (apply length_zero_nil; lia) end.
  clear Hv.
  unfold c in Hx. rewrite export_obj_S in Hx. fold c in Hx. fold ks in Hx.
  match type of Hx with match mapM ?g ks with _ => _ end = _ => destruct (mapM g ks) as [m|] eqn:Hm; [|discriminate] end.
  injection Hx as <-. apply mapM_Forall2 in Hm.
  unfold C05.x_valid. apply andb_true_iff. split.
  - (* required keys are present *)
    apply forallb_forall. intros r Hr.
    pose proof (filter_nil_all _ _ Hmiss r Hr) as Hin. apply negb_false_iff in Hin. apply existsb_eqb_in in Hin.
    destruct (Forall2_in_l _ _ _ r Hm Hin) as ([k v] & Hkv & Hg).
    destruct (export F (property r c)); [|discriminate]. injection Hg as <- <-.
    apply existsb_exists. exists (r, x). split; [exact Hkv|apply String.eqb_refl].
  - (* every property has its declared type; no extra property if closed *)
    apply forallb_forall. intros [k v] Hkv.
    destruct (Forall2_in_r _ _ _ (k, v) Hm Hkv) as (k' & Hk' & Hg).
    destruct (export F (property k' c)) as [v'|] eqn:Hxp; [|discriminate]. injection Hg as -> ->.
    cbn [fst snd].
    assert (existsb (String.eqb k) ks = true) as Hkin by (apply existsb_eqb_in; exact Hk').
    destruct (alookup k props) as [ty|] eqn:Hlk.
    + apply alookup_in in Hlk.
      pose proof (filter_nil_all _ _ Hbad (k, ty) Hlk) as Hb. cbn [fst snd] in Hb. rewrite Hkin in Hb.
      cbn [andb] in Hb. apply negb_false_iff in Hb.
      destruct (property k c) as [|pl prest] eqn:Hpc; [discriminate|].
      pose proof (export_top_unk _ _ _ _ Hxp) as Hpu.
      pose proof (no_unknown_obj_children _ _ _ Hu (k, v) Hkv) as Hc. cbn [snd] in Hc. rewrite Hc in Hpu. rewrite <- Hpu in Hb.
      rewrite (export_x_type _ _ _ _ Hxp). exact Hb.
    + destruct closed; [|reflexivity]. exfalso.
      pose proof (filter_nil_all _ _ Hextra k Hk') as He. apply negb_false_iff in He.
      apply existsb_exists in He. destruct He as ([k0 ty0] & Hin0 & E0). cbn [fst] in E0. apply String.eqb_eq in E0. subst k0.
      apply (proj1 (alookup_none k props) Hlk). apply in_map_iff. exists (k, ty0). split; [reflexivity|exact Hin0].
Qed.
