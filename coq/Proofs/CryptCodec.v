(* Proofs/CryptCodec.v — the text level.  yaml.v3's emitter and parser are NOT modelled: they are section variables
   [yenc] / [ydec] with one assumption, that re-reading what was written gives back the content of the tree
   (kind, resolved tags, values, comments, order, flow/block) on encodable trees.  Under that assumption the
   skeleton theorems carry over from node trees to texts.  The assumption itself is what the correspondence check
   exercises on every case (implementation output re-read by yaml.v3 vs the model's tree, compared by [content]). *)
From Verif Require Import Base.Bytes Model.Envelope Model.YamlTree Model.Crypt
     Proofs.YamlTreeProofs Proofs.CryptWalk Proofs.CryptProofs Proofs.CryptSkeleton Proofs.CryptDoc.
From Coq Require Import Lia.

Lemma resolved_scalar_tag_nonempty m : String.eqb (y_tag (resolved_scalar m)) "" = false.
Proof.
  unfold resolved_scalar. destruct (String.eqb (y_tag m) "") eqn:E; [|exact E].
  cbn. destruct (plain_is_string (y_value m) || negb (y_style m =? 0)); reflexivity.
Qed.

Lemma content_scalar_tag m : y_tag (content_scalar m) = y_tag (resolved_scalar m).
Proof. reflexivity. Qed.

Lemma content_scalar_idem m : content_scalar (content_scalar m) = content_scalar m.
Proof.
  unfold content_scalar at 1.
  rewrite (resolved_scalar_tagged (content_scalar m)) by (rewrite content_scalar_tag; apply resolved_scalar_tag_nonempty).
  unfold content_scalar. cbn [y_tag y_value y_head y_line y_foot].
  destruct (String.eqb (y_tag (resolved_scalar m)) tag_null); reflexivity.
Qed.

Lemma is_str_meta_content m : is_str_meta (content_scalar m) = is_str_meta m.
Proof.
  unfold is_str_meta.
  rewrite (resolved_scalar_tagged (content_scalar m)) by (rewrite content_scalar_tag; apply resolved_scalar_tag_nonempty).
  reflexivity.
Qed.

Lemma content_scalar_value_str m : is_str_meta m = true -> y_value (content_scalar m) = y_value m.
Proof.
  unfold is_str_meta, content_scalar. intros H. cbn [y_value].
  destruct (String.eqb (y_tag (resolved_scalar m)) tag_null) eqn:E.
  - apply eqb_true_s in E. rewrite E in H. discriminate.
  - apply resolved_scalar_comments.
Qed.

Lemma is_flow_content_coll d fl m : is_flow (content_coll d fl m) = fl.
Proof. unfold is_flow, content_coll. cbn [y_style]. destruct fl; reflexivity. Qed.

Lemma content_coll_idem d fl m : content_coll d fl (content_coll d fl m) = content_coll d fl m.
Proof.
  unfold content_coll, fill_tag. cbn [y_tag y_head y_line y_foot].
  destruct (String.eqb (y_tag m) "") eqn:E; cbn [y_tag set_tag]; [|now rewrite E].
  destruct (String.eqb d ""); reflexivity.
Qed.

Section Codec.
  Variable fn_secret key_ciphertext : string.
  Notation ysecret := (ysecret fn_secret key_ciphertext).
  Notation yarg := (yarg key_ciphertext).
  Notation skeleton_in := (skeleton_in fn_secret key_ciphertext).
  Notation skeleton := (skeleton fn_secret key_ciphertext).

  Lemma hole_content m : hole (content_scalar m) = hole m.
  Proof.
    destruct (resolved_scalar_comments m) as (H1 & H2 & H3 & _). unfold content_scalar.
    apply hole_comments; cbn; auto.
  Qed.

  Lemma yarg_content fl v : yarg (content_in fl v) = option_map content_scalar (yarg v).
  Proof.
    destruct v as [m|m items|m [|[k c] [|]]|kd m]; try reflexivity.
    - cbn [content_in Crypt.yarg]. rewrite is_str_meta_content. destruct (is_str_meta m); reflexivity.
    - destruct k as [k2| | |]; try reflexivity.
      destruct c as [c| | |]; try reflexivity.
      cbn [content_in map Crypt.yarg]. rewrite !is_str_meta_content.
      destruct (is_str_meta k2) eqn:Ek; [|reflexivity]. cbn [andb].
      rewrite (content_scalar_value_str _ Ek).
      destruct (String.eqb (y_value k2) key_ciphertext && is_str_meta c); reflexivity.
    - cbn [content_in map Crypt.yarg]. destruct k, c; reflexivity.
  Qed.

  Lemma ysecret_content fl y :
    ysecret (content_in fl y) =
    match ysecret y with
    | Some (m0, km, t) => Some (content_coll tag_map (fl || is_flow m0) m0, content_scalar km, content_scalar t)
    | None => None
    end.
  Proof.
    destruct y as [m|m items|m [|[k v] [|]]|kd m]; try reflexivity.
    - destruct k as [km| | |]; try reflexivity.
      cbn [content_in map Crypt.ysecret]. rewrite is_str_meta_content.
      destruct (is_str_meta km) eqn:Ek; [|reflexivity]. cbn [andb].
      rewrite (content_scalar_value_str _ Ek).
      destruct (String.eqb (y_value km) fn_secret); [|reflexivity].
      rewrite yarg_content. destruct (yarg v); reflexivity.
    - cbn [content_in map Crypt.ysecret]. destruct k; reflexivity.
  Qed.

  (* the skeleton only depends on the content of a tree *)
  Theorem skeleton_content y : forall fl, skeleton_in fl (content_in fl y) = skeleton_in fl y.
  Proof.
    induction y as [m|m items IH|m es IH|kd m] using ynode_ind'; intros fl.
    - cbn [content_in Crypt.skeleton_in]. now rewrite content_scalar_idem.
    - cbn [content_in Crypt.skeleton_in]. rewrite is_flow_content_coll.
      replace (fl || (fl || is_flow m)) with (fl || is_flow m) by (destruct fl; reflexivity).
      rewrite content_coll_idem. f_equal. rewrite map_map. apply map_ext_in. intros x Hx. rewrite Forall_forall in IH. now apply IH.
    - change (content_in fl (YMap m es)) with
        (YMap (content_coll tag_map (fl || is_flow m) m)
              (map (fun kv : ynode * ynode => let (k, v) := kv in (content_in (fl || is_flow m) k, content_in (fl || is_flow m) v)) es)).
      rewrite !skeleton_map.
      change (YMap (content_coll tag_map (fl || is_flow m) m)
              (map (fun kv : ynode * ynode => let (k, v) := kv in (content_in (fl || is_flow m) k, content_in (fl || is_flow m) v)) es))
        with (content_in fl (YMap m es)).
      rewrite ysecret_content, is_flow_content_coll.
      replace (fl || (fl || is_flow m)) with (fl || is_flow m) by (destruct fl; reflexivity).
      rewrite content_coll_idem.
      destruct (ysecret (YMap m es)) as [[[m0 km] t]|] eqn:E.
      + now rewrite content_scalar_idem, hole_content.
      + f_equal. rewrite map_map. apply map_ext_in. intros [k v] Hx.
        rewrite Forall_forall in IH. destruct (IH _ Hx) as [IHk IHv]. cbn [fst snd] in *.
        unfold skel_pair. now rewrite IHk, IHv.
    - reflexivity.
  Qed.

  Corollary skeleton_of_content y y' : content y' = content y -> skeleton y' = skeleton y.
  Proof.
    intros H. unfold Crypt.skeleton. rewrite <- (skeleton_content y' false), <- (skeleton_content y false).
    unfold content in H. now rewrite H.
  Qed.

  (* ---------------- the codec as a collaborator ---------------- *)
  Variable yenc : ynode -> option string.       (* yaml.v3 Encoder on a node tree *)
  Variable ydec : string -> option ynode.       (* yaml.v3 parser: the root content node of the one document *)
  Definition encodable (n : ynode) : bool := negb (codec_unsafe n).
  Hypothesis codec_round_trip :
    forall n s, encodable n = true -> yenc n = Some s -> exists n', ydec s = Some n' /\ content n' = content n.

  Variable rewrite : ynode -> result ynode.      (* encrypt_doc or decrypt_doc *)
  Hypothesis rewrite_skeleton : forall y y', std_tree y = true -> rewrite y = ROk y' -> skeleton y' = skeleton y.

  (* rewriteYAML on texts *)
  Definition rewrite_text (src : string) : option string :=
    match ydec src with
    | Some y => match rewrite y with ROk y' => yenc y' | RErr _ => None end
    | None => None
    end.

  Theorem rewrite_text_skeleton src out y :
    ydec src = Some y -> std_tree y = true -> rewrite_text src = Some out ->
    (forall y', rewrite y = ROk y' -> encodable y' = true) ->
    exists y2, ydec out = Some y2 /\ skeleton y2 = skeleton y.
  Proof.
    unfold rewrite_text. intros Hd Hs H He. rewrite Hd in H.
    destruct (rewrite y) as [y'|] eqn:Er; [|discriminate].
    destruct (codec_round_trip y' out (He _ eq_refl) H) as (y2 & Hy2 & Hc).
    exists y2. split; [exact Hy2|]. rewrite (skeleton_of_content _ _ Hc). now apply rewrite_skeleton.
  Qed.
End Codec.
