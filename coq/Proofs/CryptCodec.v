(* Proofs/CryptCodec.v — the text level.  yaml.v3's emitter and parser are NOT modelled: they are section variables
   [yenc] / [ydec] with one assumption, that re-reading what was written gives back the content of the tree
   (kind, resolved tags, values, comments, order, flow/block) on encodable trees.  Under that assumption the
   skeleton theorems carry over from node trees to texts.  The assumption itself is what the correspondence check
   exercises on every case (implementation output re-read by yaml.v3 vs the model's tree, compared by [content]). *)
From Verif Require Import Base.Bytes Model.Envelope Model.YamlTree Model.Crypt
     Proofs.YamlTreeProofs Proofs.CryptWalk Proofs.CryptProofs Proofs.CryptSkeleton Proofs.CryptDoc.
From Coq Require Import Lia.

Lemma resolved_scalar_tag_nonempty m : String.eqb (y_tag (resolved_scalar m)) "" = false.
Proof.
  unfold resolved_scalar. destruct (String.eqb (y_tag m) "") eqn:E; [|exact E].
  cbn. destruct (plain_is_string (y_value m) || negb (y_style m =? 0)); reflexivity.
Qed.

Lemma content_scalar_tag m : y_tag (content_scalar m) = y_tag (resolved_scalar m).
Proof. reflexivity. Qed.

Lemma content_scalar_idem m : content_scalar (content_scalar m) = content_scalar m.
Proof.
  unfold content_scalar at 1.
  rewrite (resolved_scalar_tagged (content_scalar m)) by (rewrite content_scalar_tag; apply resolved_scalar_tag_nonempty).
  unfold content_scalar. cbn [y_tag y_value y_head y_line y_foot].
  destruct (String.eqb (y_tag (resolved_scalar m)) tag_null); reflexivity.
Qed.

Lemma is_str_meta_content m : is_str_meta (content_scalar m) = is_str_meta m.
Proof.
  unfold is_str_meta.
  rewrite (resolved_scalar_tagged (content_scalar m)) by (rewrite content_scalar_tag; apply resolved_scalar_tag_nonempty).
  reflexivity.
Qed.

Lemma content_scalar_value_str m : is_str_meta m = true -> y_value (content_scalar m) = y_value m.
Proof.
  unfold is_str_meta, content_scalar. intros H. cbn [y_value].
  destruct (String.eqb (y_tag (resolved_scalar m)) tag_null) eqn:E.
  - apply eqb_true_s in E. rewrite E in H. discriminate.
  - apply resolved_scalar_comments.
Qed.

Lemma is_flow_content_coll d fl m : is_flow (content_coll d fl m) = fl.
Proof. unfold is_flow, content_coll. cbn [y_style]. destruct fl; reflexivity. Qed.

Lemma content_coll_idem d fl m : content_coll d fl (content_coll d fl m) = content_coll d fl m.
Proof.
  unfold content_coll, fill_tag. cbn [y_tag y_head y_line y_foot].
  destruct (String.eqb (y_tag m) "") eqn:E; cbn [y_tag set_tag]; [|now rewrite E].
  destruct (String.eqb d ""); reflexivity.
Qed.

(* ---------------- what MarshalYAML hands to the emitter is encodable (fix 9b9d633) ----------------
   [block_guard_ok]: the guard read from today's source covers every string of [block_unsafe_value] (the four prefixes
   yaml.v3 mangles, with the line feed as the byte looked for).  Decidable; discharged by computation in
   Properties/C12.v (C12_src_block_guard_ok) and false when srcfacts finds no guard. *)
Definition unsafe_prefixes : list string :=
  [String (ascii_of_N 10) EmptyString; String (ascii_of_N 9) EmptyString; hx "e280a8"; hx "e280a9"].

Definition block_guard_ok : bool :=
  forallb (fun p => mem_str p block_prefixes) unsafe_prefixes
  && String.eqb block_contains (String (ascii_of_N 10) EmptyString).

Lemma mem_str_existsb (f : string -> bool) x l : mem_str x l = true -> f x = true -> existsb f l = true.
Proof.
  unfold mem_str. intros H Hf. apply existsb_exists in H. destruct H as (y & Hy & E).
  apply eqb_true_s in E. subst y. apply existsb_exists. eauto.
Qed.

Lemma guard_covers st v :
  block_guard_ok = true -> (N.land st (st_single + st_double) =? 0) = true -> block_unsafe_value v = true ->
  block_guard st v = true.
Proof.
  unfold block_guard_ok, block_unsafe_value, block_guard. intros Hok Hst Hv.
  apply Bool.andb_true_iff in Hok. destruct Hok as [Hp Hc]. apply eqb_true_s in Hc.
  apply Bool.andb_true_iff in Hv. destruct Hv as [Hlf Hpre].
  rewrite Hst, Hc, Hlf. cbn [andb].
  cbn [unsafe_prefixes forallb] in Hp.
  apply Bool.andb_true_iff in Hp. destruct Hp as [P1 Hp].
  apply Bool.andb_true_iff in Hp. destruct Hp as [P2 Hp].
  apply Bool.andb_true_iff in Hp. destruct Hp as [P3 Hp].
  apply Bool.andb_true_iff in Hp. destruct Hp as [P4 _].
  apply Bool.orb_true_iff in Hpre. destruct Hpre as [Hpre|H4]; [|exact (mem_str_existsb _ _ _ P4 H4)].
  apply Bool.orb_true_iff in Hpre. destruct Hpre as [Hpre|H3]; [|exact (mem_str_existsb _ _ _ P3 H3)].
  apply Bool.orb_true_iff in Hpre. destruct Hpre as [H1|H2];
    [exact (mem_str_existsb _ _ _ P1 H1)|exact (mem_str_existsb _ _ _ P2 H2)].
Qed.

Lemma force_double_quoted st : (N.land (force_double st) (st_single + st_double) =? 0) = false.
Proof.
  unfold force_double. apply N.eqb_neq. intros H.
  rewrite N.land_lor_distr_l in H. apply N.lor_eq_0_iff in H. destruct H as [_ H]. vm_compute in H. discriminate.
Qed.

Section Encodable.
  Variable null_words quote_words : list string.
  Variable pf : string -> bool.
  Hypothesis Hguard : block_guard_ok = true.
  Notation marshal := (marshal null_words quote_words pf).
  Notation marshal_str := (marshal_str quote_words pf).

  (* a marshalled string is never one of the scalars the emitter mangles: it is quoted, or the guard did not fire on
     an unquoted style, and then the text is not block-unsafe *)
  Lemma marshal_str_safe fl s v : block_unsafe_scalar fl (marshal_str s v) = false.
  Proof.
    unfold block_unsafe_scalar. rewrite (marshal_str_style quote_words pf), (marshal_str_value quote_words pf).
    unfold str_style. set (st1 := if needs_quote quote_words pf v then st_single else y_style (base_meta s)).
    destruct (block_guard st1 v) eqn:G.
    - rewrite force_double_quoted. now rewrite Bool.andb_false_r.
    - destruct (N.land st1 (st_single + st_double) =? 0) eqn:Q; [|now rewrite Bool.andb_false_r].
      destruct (block_unsafe_value v) eqn:U; [|now rewrite !Bool.andb_false_r].
      rewrite (guard_covers _ _ Hguard Q U) in G. discriminate.
  Qed.

  Lemma lit_scalar_safe fl m : is_lit_tag (y_tag m) = true -> block_unsafe_scalar fl m = false.
  Proof. unfold block_unsafe_scalar. intros ->. cbn [negb]. now rewrite Bool.andb_false_r. Qed.

  Theorem marshal_encodable n : std_s n = true -> forall fl, codec_unsafe_in fl (marshal n) = false.
  Proof.
    induction n as [s|s|s|s v|s items IH|s es IH] using snode_ind'; intros Hs fl; cbn [std_s] in Hs.
    - cbn [YamlTree.marshal codec_unsafe_in]. apply lit_scalar_safe. now rewrite (marshal_null_tag null_words _ Hs).
    - cbn [YamlTree.marshal codec_unsafe_in]. apply lit_scalar_safe. apply eqb_true_s in Hs. unfold marshal_bool.
      rewrite (norm_tag_same tag_bool (base_meta s) Hs). unfold syn_tag in Hs. now rewrite Hs.
    - cbn [YamlTree.marshal codec_unsafe_in]. apply lit_scalar_safe. unfold marshal_num, syn_tag in *.
      apply Bool.orb_true_iff in Hs. destruct Hs as [Hs|Hs]; apply eqb_true_s in Hs; now rewrite Hs.
    - cbn [YamlTree.marshal codec_unsafe_in]. apply marshal_str_safe.
    - cbn [YamlTree.marshal codec_unsafe_in]. set (fl' := fl || is_flow (base_meta s)). clearbody fl'.
      induction items as [|x r IHr]; [reflexivity|].
      inversion_clear IH as [|? ? Hx Hr]. cbn [forallb] in Hs. apply Bool.andb_true_iff in Hs. destruct Hs as [Sx Sr].
      cbn [map existsb]. now rewrite (Hx Sx fl'), (IHr Hr Sr).
    - cbn [YamlTree.marshal codec_unsafe_in]. set (fl' := fl || is_flow (base_meta s)). clearbody fl'.
      induction es as [|[k v] r IHr]; [reflexivity|].
      inversion_clear IH as [|? ? Hx Hr]. cbn [forallb snd] in Hs, Hx. apply Bool.andb_true_iff in Hs. destruct Hs as [Sx Sr].
      cbn [map existsb codec_unsafe_in]. now rewrite marshal_str_safe, (Hx Sx fl'), (IHr Hr Sr).
  Qed.
End Encodable.

Section Codec.
  Variable fn_secret key_ciphertext : string.
  Notation ysecret := (ysecret fn_secret key_ciphertext).
  Notation yarg := (yarg key_ciphertext).
  Notation skeleton_in := (skeleton_in fn_secret key_ciphertext).
  Notation skeleton := (skeleton fn_secret key_ciphertext).

  Lemma hole_content m : hole (content_scalar m) = hole m.
  Proof.
    destruct (resolved_scalar_comments m) as (H1 & H2 & H3 & _). unfold content_scalar.
    apply hole_comments; cbn; auto.
  Qed.

  Lemma yarg_content fl v : yarg (content_in fl v) = option_map content_scalar (yarg v).
  Proof.
    destruct v as [m|m items|m [|[k c] [|]]|kd m]; try reflexivity.
    - cbn [content_in Crypt.yarg]. rewrite is_str_meta_content. destruct (is_str_meta m); reflexivity.
    - destruct k as [k2| | |]; try reflexivity.
      destruct c as [c| | |]; try reflexivity.
      cbn [content_in map Crypt.yarg]. rewrite !is_str_meta_content.
      destruct (is_str_meta k2) eqn:Ek; [|reflexivity]. cbn [andb].
      rewrite (content_scalar_value_str _ Ek).
      destruct (String.eqb (y_value k2) key_ciphertext && is_str_meta c); reflexivity.
    - cbn [content_in map Crypt.yarg]. destruct k, c; reflexivity.
  Qed.

  Lemma ysecret_content fl y :
    ysecret (content_in fl y) =
    match ysecret y with
    | Some (m0, km, t) => Some (content_coll tag_map (fl || is_flow m0) m0, content_scalar km, content_scalar t)
    | None => None
    end.
  Proof.
    destruct y as [m|m items|m [|[k v] [|]]|kd m]; try reflexivity.
    - destruct k as [km| | |]; try reflexivity.
      cbn [content_in map Crypt.ysecret]. rewrite is_str_meta_content.
      destruct (is_str_meta km) eqn:Ek; [|reflexivity]. cbn [andb].
      rewrite (content_scalar_value_str _ Ek).
      destruct (String.eqb (y_value km) fn_secret); [|reflexivity].
      rewrite yarg_content. destruct (yarg v); reflexivity.
    - cbn [content_in map Crypt.ysecret]. destruct k; reflexivity.
  Qed.

  (* the skeleton only depends on the content of a tree *)
  Theorem skeleton_content y : forall fl, skeleton_in fl (content_in fl y) = skeleton_in fl y.
  Proof.
    induction y as [m|m items IH|m es IH|kd m] using ynode_ind'; intros fl.
    - cbn [content_in Crypt.skeleton_in]. now rewrite content_scalar_idem.
    - cbn [content_in Crypt.skeleton_in]. rewrite is_flow_content_coll.
      replace (fl || (fl || is_flow m)) with (fl || is_flow m) by (destruct fl; reflexivity).
      rewrite content_coll_idem. f_equal. rewrite map_map. apply map_ext_in. intros x Hx. rewrite Forall_forall in IH. now apply IH.
    - change (content_in fl (YMap m es)) with
        (YMap (content_coll tag_map (fl || is_flow m) m)
              (map (fun kv : ynode * ynode => let (k, v) := kv in (content_in (fl || is_flow m) k, content_in (fl || is_flow m) v)) es)).
      rewrite !skeleton_map.
      change (YMap (content_coll tag_map (fl || is_flow m) m)
              (map (fun kv : ynode * ynode => let (k, v) := kv in (content_in (fl || is_flow m) k, content_in (fl || is_flow m) v)) es))
        with (content_in fl (YMap m es)).
      rewrite ysecret_content, is_flow_content_coll.
      replace (fl || (fl || is_flow m)) with (fl || is_flow m) by (destruct fl; reflexivity).
      rewrite content_coll_idem.
      destruct (ysecret (YMap m es)) as [[[m0 km] t]|] eqn:E.
      + now rewrite content_scalar_idem, hole_content.
      + f_equal. rewrite map_map. apply map_ext_in. intros [k v] Hx.
        rewrite Forall_forall in IH. destruct (IH _ Hx) as [IHk IHv]. cbn [fst snd] in *.
        unfold skel_pair. now rewrite IHk, IHv.
    - reflexivity.
  Qed.

  Corollary skeleton_of_content y y' : content y' = content y -> skeleton y' = skeleton y.
  Proof.
    intros H. unfold Crypt.skeleton. rewrite <- (skeleton_content y' false), <- (skeleton_content y false).
    unfold content in H. now rewrite H.
  Qed.

  (* ---------------- the codec as a collaborator ----------------
     yaml.v3's emitter [yenc] and parser [ydec] are section variables.  They are assumed to round trip (up to
     [content]) ONLY the trees the rewrite itself produces from a parsed document of the accepted subset, and only
     when such a tree is encodable - which [rewrite_encodable] (a theorem for encrypt_doc / decrypt_doc since fix
     9b9d633, see encrypt_doc_encodable below) says it always is.  Nothing is assumed about other trees: for a
     synthetic tree such as an untagged plain scalar "123" a real codec does NOT give back the content (it prints 123
     and reads an integer), which is why the hypothesis is not stated over all trees. *)
  Variable yenc : ynode -> option string.       (* yaml.v3 Encoder on a node tree *)
  Variable ydec : string -> option ynode.       (* yaml.v3 parser: the root content node of the one document *)
  Definition encodable (n : ynode) : bool := negb (codec_unsafe n).

  Variable rewrite : ynode -> result ynode.      (* encrypt_doc or decrypt_doc *)
  Hypothesis codec_round_trip :
    forall src y n s, ydec src = Some y -> std_tree y = true -> rewrite y = ROk n -> encodable n = true ->
                      yenc n = Some s -> exists n', ydec s = Some n' /\ content n' = content n.
  Hypothesis rewrite_skeleton : forall y y', std_tree y = true -> rewrite y = ROk y' -> skeleton y' = skeleton y.
  Hypothesis rewrite_encodable : forall y y', rewrite y = ROk y' -> encodable y' = true.

  (* rewriteYAML on texts *)
  Definition rewrite_text (src : string) : option string :=
    match ydec src with
    | Some y => match rewrite y with ROk y' => yenc y' | RErr _ => None end
    | None => None
    end.

  Theorem rewrite_text_skeleton src out y :
    ydec src = Some y -> std_tree y = true -> rewrite_text src = Some out ->
    exists y2, ydec out = Some y2 /\ skeleton y2 = skeleton y.
  Proof.
    unfold rewrite_text. intros Hd Hs H. rewrite Hd in H.
    destruct (rewrite y) as [y'|] eqn:Er; [|discriminate].
    destruct (codec_round_trip src y y' out Hd Hs Er (rewrite_encodable _ _ Er) H) as (y2 & Hy2 & Hc).
    exists y2. split; [exact Hy2|]. rewrite (skeleton_of_content _ _ Hc). now apply rewrite_skeleton.
  Qed.
End Codec.

(* ---------------- every tree EncryptSecrets / DecryptSecrets hand to the emitter is encodable ---------------- *)
Section DocEncodable.
  Variable P : env_params.
  Variable fn_secret key_ciphertext new_key : string.
  Variable enc dec : string -> option string.
  Variable null_words quote_words : list string.
  Variable pf : string -> bool.
  Hypothesis Hne : String.eqb fn_secret key_ciphertext = false.
  Hypothesis Hnew : new_key = key_ciphertext.
  Hypothesis Hguard : block_guard_ok = true.

  Theorem encrypt_doc_encodable y y' :
    encrypt_doc P fn_secret key_ciphertext new_key enc null_words quote_words pf y = ROk y' -> codec_unsafe y' = false.
  Proof.
    unfold Crypt.encrypt_doc, rewrite_doc. intros H.
    destruct (unmarshal y) as [s|] eqn:Eu; [|discriminate].
    change (walk (encrypt_visit P fn_secret key_ciphertext new_key enc) s)
      with (encrypt_tree P fn_secret key_ciphertext new_key enc s) in H.
    rewrite (encrypt_tree_top_down _ _ _ _ _ Hne) in H.
    destruct (enc_tree P fn_secret key_ciphertext new_key enc s) as [s'|] eqn:Ee; [|discriminate]. injection H as <-.
    destruct (enc_tree_skeleton P _ _ _ enc null_words quote_words pf Hne Hnew _ _ (std_unmarshal _ _ Eu) Ee) as [Hs' _].
    exact (marshal_encodable null_words quote_words pf Hguard s' Hs' false).
  Qed.

  Theorem decrypt_doc_encodable y y' :
    decrypt_doc P fn_secret key_ciphertext dec null_words quote_words pf y = ROk y' -> codec_unsafe y' = false.
  Proof.
    unfold Crypt.decrypt_doc, rewrite_doc. intros H.
    destruct (unmarshal y) as [s|] eqn:Eu; [|discriminate].
    change (walk (decrypt_visit P fn_secret key_ciphertext dec) s)
      with (decrypt_tree P fn_secret key_ciphertext dec s) in H.
    rewrite (decrypt_tree_top_down _ _ _ _ Hne) in H.
    destruct (dec_tree P fn_secret key_ciphertext dec s) as [s'|] eqn:Ee; [|discriminate]. injection H as <-.
    destruct (dec_tree_skeleton P _ _ dec null_words quote_words pf Hne _ _ (std_unmarshal _ _ Eu) Ee) as [Hs' _].
    exact (marshal_encodable null_words quote_words pf Hguard s' Hs' false).
  Qed.
End DocEncodable.

(* ---------------- toy codecs: a finite book of (text, tree) pairs ----------------
   [book_dec] looks a text up; [book_enc] answers with the first text of the book whose tree has the content of the
   tree to write (and which [book_dec] maps back to that very tree).  Every book is a codec in the sense of
   [codec_round_trip] - on ALL trees, not only on the image of a rewrite - so the hypothesis of the text-level theorems
   is satisfiable, and Properties/C12.v instantiates it on a book that holds a document and its encrypted form. *)
Lemma meta_eqb_sound a b : meta_eqb a b = true -> a = b.
Proof.
  destruct a as [t1 s1 v1 h1 l1 f1], b as [t2 s2 v2 h2 l2 f2]. unfold meta_eqb. cbn. intros H.
  apply Bool.andb_true_iff in H. destruct H as [H Hf].
  apply Bool.andb_true_iff in H. destruct H as [H Hl].
  apply Bool.andb_true_iff in H. destruct H as [H Hh].
  apply Bool.andb_true_iff in H. destruct H as [H Hv].
  apply Bool.andb_true_iff in H. destruct H as [Ht Hs].
  apply String.eqb_eq in Ht, Hv, Hh, Hl, Hf. apply N.eqb_eq in Hs. now subst.
Qed.

Lemma ynode_eqb_sound a : forall b, ynode_eqb a b = true -> a = b.
Proof.
  induction a as [m|m items IH|m es IH|k m] using ynode_ind'; intros [m'|m' items'|m' es'|k' m'] H;
    cbn [ynode_eqb] in H; try discriminate.
  - now rewrite (meta_eqb_sound _ _ H).
  - apply Bool.andb_true_iff in H. destruct H as [Hm Hl]. rewrite (meta_eqb_sound _ _ Hm). f_equal.
    revert items' Hl. induction items as [|x r IHr]; intros [|y t] Hl; cbn [list_eqb] in Hl; try discriminate; [reflexivity|].
    apply Bool.andb_true_iff in Hl. destruct Hl as [Hx Hr]. inversion_clear IH as [|? ? Px Pr].
    f_equal; [now apply Px|now apply IHr].
  - apply Bool.andb_true_iff in H. destruct H as [Hm Hl]. rewrite (meta_eqb_sound _ _ Hm). f_equal.
    revert es' Hl. induction es as [|[k v] r IHr]; intros [|[k' v'] t] Hl; cbn [list_eqb] in Hl; try discriminate; [reflexivity|].
    apply Bool.andb_true_iff in Hl. destruct Hl as [Hx Hr]. apply Bool.andb_true_iff in Hx. destruct Hx as [Hk Hv].
    inversion_clear IH as [|? ? [Pk Pv] Pr]. cbn [fst snd] in *.
    f_equal; [f_equal; [now apply Pk|now apply Pv]|now apply IHr].
  - apply Bool.andb_true_iff in H. destruct H as [Hk Hm]. apply N.eqb_eq in Hk. now rewrite Hk, (meta_eqb_sound _ _ Hm).
Qed.

Definition book := list (string * ynode).

Definition book_dec (b : book) (s : string) : option ynode :=
  option_map snd (find (fun e : string * ynode => String.eqb (fst e) s) b).

Definition book_enc (b : book) (n : ynode) : option string :=
  option_map fst
    (find (fun e : string * ynode =>
             ynode_eqb (content (snd e)) (content n)
             && match book_dec b (fst e) with Some t => ynode_eqb t (snd e) | None => false end) b).

Theorem book_codec_round_trip (b : book) n s :
  book_enc b n = Some s -> exists n', book_dec b s = Some n' /\ content n' = content n.
Proof.
  unfold book_enc. intros H.
  destruct (find _ b) as [[s0 t0]|] eqn:F; [|discriminate]. cbn in H. injection H as <-.
  apply find_some in F. destruct F as [_ F]. cbn [fst snd] in F.
  apply Bool.andb_true_iff in F. destruct F as [Hc Hd].
  destruct (book_dec b s0) as [t|] eqn:D; [|discriminate].
  exists t. split; [reflexivity|]. apply ynode_eqb_sound in Hd. subst t. now apply ynode_eqb_sound.
Qed.
