(* Proofs/SchemaSoundItem.v — C06, schema clause: schema.go [Item] (Model/Chain.v [sch_item]).
   For ALL schemas, indices, arrays and fuels: if a schema accepts a known array, the schema [Item] projects out for
   index i accepts the element at i — provided the schema says something about every index ([item_defined]: not
   `true`, not an array schema without items, and so for every oneOf alternative).  Witnesses for the excluded shapes. *)
From Verif Require Import Base.Bytes Base.Wire Model.Chain Model.GoText Model.Envelope Model.Eval Corr.EvalWire.
From Verif Require Corr.C06.
From Verif Require Import Proofs.NonInterferenceRel Proofs.NonInterferenceOps Proofs.CheckApproxExamples
     Proofs.SchemaSoundAccept Proofs.SchemaSoundUnion.
From Coq Require Import Lia ZifyN ZifyNat ZifyBool.

Lemma sch_item_S g i s :
  sch_item (S g) i s =
  match s with
  | ScArray prefix items => match nth_error prefix i with Some p => sch_union [p] | None => sch_union (opt_sch items) end
  | ScOneOf alts => sch_union (map (sch_item g i) alts ++ [ScNever])
  | _ => ScNever
  end.
Proof. reflexivity. Qed.

Fixpoint item_defined (g : nat) (s : sch) : bool :=
  match g with
  | O => false
  | S g' =>
    match s with
    | ScAlways => false
    | ScArray _ None => false
    | ScOneOf alts => forallb (item_defined g') alts
    | _ => true
    end
  end.

Theorem sch_item_sound : forall g n s i sec l v,
  item_defined g s = true ->
  sch_accepts n s (XArr sec false l) = true -> nth_error l i = Some v ->
  sch_accepts n (sch_item g i s) v = true.
Proof.
  intros g; induction g as [|g IH]; intros n s i sec l v HD H Hin; [discriminate|].
  destruct n as [|n]; [discriminate|]. rewrite sch_accepts_S in H. cbn [C06.x_unk] in H.
  rewrite sch_item_S. cbn [item_defined] in HD. destruct s; try discriminate.
  - (* array *)
    destruct items as [it|]; [|discriminate]. rewrite acc_items_spec in H. specialize (H _ _ Hin).
    unfold item_sch in H. destruct (nth_error prefix i) as [p|]; cbn [opt_acc] in H.
    + eapply sch_union_intro; [now left|exact H].
    + eapply sch_union_intro; [now left|exact H].
  - (* oneOf *)
    apply existsb_exists in H. destruct H as (a & Ha & Hv). rewrite forallb_forall in HD.
    eapply sch_union_intro; [apply in_or_app; left; apply in_map; exact Ha|].
    eapply IH; eauto.
Qed.

Corollary sch_item_accepts g s i sec l v :
  item_defined g s = true -> accepts s (XArr sec false l) -> nth_error l i = Some v -> accepts (sch_item g i s) v.
Proof. intros HD [n H] Hin. exists n. eapply sch_item_sound; eauto. Qed.

Example sch_item_open_array_unsound :
  sch_accepts 3 (ScArray [] None) (XArr false false [XScalar false false (SNum "1")]) = true /\
  sch_item (sch_depth (ScArray [] None)) 0 (ScArray [] None) = ScNever /\
  forall n, sch_accepts n (sch_item (sch_depth (ScArray [] None)) 0 (ScArray [] None)) (XScalar false false (SNum "1")) = false.
Proof. repeat split. intros [|n]; reflexivity. Qed.

Lemma sch_ok_item g : forall i s, sch_ok s = true -> sch_ok (sch_item g i s) = true.
Proof.
  induction g as [|g IH]; intros i s H; [reflexivity|]. rewrite sch_item_S. destruct s; try reflexivity.
  - cbn [sch_ok] in H. destruct items as [it|]; [|discriminate]. apply andb_prop in H. destruct H as [H1 H2].
    destruct (nth_error prefix i) as [p|] eqn:L.
    + apply sch_ok_union. intros s [<-|[]]. apply nth_error_In in L. rewrite forallb_forall in H1. apply (H1 _ L).
    + apply sch_ok_union. intros s [<-|[]]. exact H2.
  - cbn [sch_ok] in H. rewrite forallb_forall in H. apply sch_ok_union. intros s Hs. apply in_app_or in Hs.
    destruct Hs as [Hs|[<-|[]]]; [|reflexivity]. apply in_map_iff in Hs. destruct Hs as (a & <- & Ha). auto.
Qed.

Lemma sch_item_array i prefix items :
  sch_item (sch_depth (ScArray prefix items)) i (ScArray prefix items) =
  match item_sch prefix items i with Some p => sch_union [p] | None => ScNever end.
Proof. unfold item_sch. cbn. destruct (nth_error prefix i); [reflexivity|]. destruct items; reflexivity. Qed.
