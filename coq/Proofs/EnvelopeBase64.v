(* Proofs/EnvelopeBase64.v — base64 round trip and byte/string plumbing lemmas. *)
From Verif Require Import Base.Bytes Model.Envelope.
From Coq Require Import Lia ZifyN ZifyNat ZifyBool.
Ltac Zify.zify_post_hook ::= Z.div_mod_to_equations.

(* ---------- ascii / N ---------- *)
Lemma N_of_ascii_lt (c : ascii) : N_of_ascii c < 256.
Proof. apply N_ascii_bounded. Qed.

Lemma N_of_ascii_of_N (n : N) : n < 256 -> N_of_ascii (ascii_of_N n) = n.
Proof. apply N_ascii_embedding. Qed.

Lemma bytes_of_bounded (s : string) : Forall (fun b => b < 256) (bytes_of s).
Proof. induction s as [|c r IH]; simpl; constructor; auto using N_of_ascii_lt. Qed.

Lemma of_bytes_bytes_of (s : string) : of_bytes (bytes_of s) = s.
Proof. induction s as [|c r IH]; simpl; [reflexivity|]. now rewrite ascii_N_embedding, IH. Qed.

Lemma bytes_of_of_bytes (l : list N) : Forall (fun b => b < 256) l -> bytes_of (of_bytes l) = l.
Proof.
  induction 1 as [|b r Hb _ IH]; simpl; [reflexivity|]. now rewrite N_of_ascii_of_N, IH.
Qed.

Lemma chars_of_chars (l : list ascii) : chars (of_chars l) = l.
Proof. induction l as [|c r IH]; simpl; congruence. Qed.

Lemma bytes_of_app (a b : string) : bytes_of (a +++ b) = bytes_of a ++ bytes_of b.
Proof. induction a as [|c r IH]; simpl; [reflexivity|]. now rewrite IH. Qed.

Lemma length_bytes_of (s : string) : length (bytes_of s) = String.length s.
Proof. induction s; simpl; congruence. Qed.

(* ---------- the alphabet ---------- *)
Definition all64 : list N := map N.of_nat (seq 0 64).

Lemma in_all64 (n : N) : n < 64 -> In n all64.
Proof.
  intros H. unfold all64. apply in_map_iff. exists (N.to_nat n). split; [lia|].
  apply in_seq. lia.
Qed.

Lemma all64_check (P : N -> bool) : forallb P all64 = true -> forall n, n < 64 -> P n = true.
Proof. intros H n Hn. rewrite forallb_forall in H. apply H, in_all64, Hn. Qed.

Definition optN_eqb (a b : option N) : bool :=
  match a, b with Some x, Some y => x =? y | None, None => true | _, _ => false end.

Lemma b64val_b64char (n : N) : n < 64 -> b64val (b64char n) = Some n.
Proof.
  intros H.
  pose proof (all64_check (fun n => optN_eqb (b64val (b64char n)) (Some n)) eq_refl n H) as E.
  cbv beta in E. destruct (b64val (b64char n)) as [m|]; simpl in E; [|discriminate].
  apply N.eqb_eq in E. now subst.
Qed.

Lemma b64char_not_crlf (n : N) : n < 64 -> is_crlf (b64char n) = false.
Proof.
  intros H.
  pose proof (all64_check (fun n => negb (is_crlf (b64char n))) eq_refl n H) as E.
  cbv beta in E. now destruct (is_crlf (b64char n)).
Qed.

Lemma b64val_pad : b64val pad = None.
Proof. reflexivity. Qed.

Lemma pad_not_crlf : is_crlf pad = false.
Proof. reflexivity. Qed.

(* ---------- three-at-a-time induction ---------- *)
Lemma list_ind3 {A} (P : list A -> Prop) :
  P [] -> (forall a, P [a]) -> (forall a b, P [a; b]) ->
  (forall a b c r, P r -> P (a :: b :: c :: r)) -> forall l, P l.
Proof.
  intros H0 H1 H2 H3.
  assert (forall n l, (length l <= n)%nat -> P l) as Hn.
  { induction n as [|n IH]; intros l Hl.
    - destruct l; [exact H0|simpl in Hl; lia].
    - destruct l as [|a [|b [|c r]]]; auto.
      apply H3. apply IH. simpl in Hl. lia. }
  intros l. apply (Hn (length l)). lia.
Qed.

Lemma enc_no_crlf (l : list N) : Forall (fun b => b < 256) l ->
  filter (fun c => negb (is_crlf c)) (b64_encode_bytes l) = b64_encode_bytes l.
Proof.
  induction l as [|a|a b|a b c r IH] using list_ind3; intros HF.
  - reflexivity.
  - inversion_clear HF as [|? ? Ha _].
    cbn [b64_encode_bytes filter]. rewrite !b64char_not_crlf, pad_not_crlf by lia. reflexivity.
  - inversion_clear HF as [|? ? Ha HF']. inversion_clear HF' as [|? ? Hb _].
    cbn [b64_encode_bytes filter]. rewrite !b64char_not_crlf, pad_not_crlf by lia. reflexivity.
  - inversion_clear HF as [|? ? Ha HF']. inversion_clear HF' as [|? ? Hb HF''].
    inversion_clear HF'' as [|? ? Hc Hr].
    cbn [b64_encode_bytes filter]. rewrite !b64char_not_crlf by lia. cbn [negb]. now rewrite IH.
Qed.

Lemma length_enc (l : list N) : (length (b64_encode_bytes l) <= 4 + 2 * length l)%nat.
Proof.
  induction l as [|a|a b|a b c r IH] using list_ind3; cbn [b64_encode_bytes length]; lia.
Qed.

Lemma dec_enc_chars (l : list N) : Forall (fun b => b < 256) l ->
  forall fuel, (length l < fuel)%nat -> b64_decode_chars fuel (b64_encode_bytes l) = Some l.
Proof.
  induction l as [|a|a b|a b c r IH] using list_ind3; intros HF fuel Hf.
  - destruct fuel; [simpl in Hf; lia|reflexivity].
  - inversion_clear HF as [|? ? Ha _].
    destruct fuel; [simpl in Hf; lia|].
    cbn [b64_encode_bytes b64_decode_chars].
    rewrite !b64val_b64char, b64val_pad by lia. cbn. f_equal. f_equal. lia.
  - inversion_clear HF as [|? ? Ha HF']. inversion_clear HF' as [|? ? Hb _].
    destruct fuel; [simpl in Hf; lia|].
    cbn [b64_encode_bytes b64_decode_chars].
    rewrite !b64val_b64char, b64val_pad by lia. cbn. f_equal. f_equal; [lia|]. f_equal. lia.
  - inversion_clear HF as [|? ? Ha HF']. inversion_clear HF' as [|? ? Hb HF''].
    inversion_clear HF'' as [|? ? Hc Hr].
    destruct fuel; [simpl in Hf; lia|].
    cbn [b64_encode_bytes b64_decode_chars].
    rewrite !b64val_b64char by lia.
    rewrite IH by (auto; simpl in Hf; lia).
    f_equal. f_equal; [lia|]. f_equal; [lia|]. f_equal. lia.
Qed.

Theorem b64_decode_encode (s : string) : b64_decode (b64_encode s) = Some s.
Proof.
  unfold b64_decode, b64_encode. rewrite chars_of_chars.
  pose proof (bytes_of_bounded s) as HB.
  rewrite enc_no_crlf by exact HB.
  rewrite dec_enc_chars.
  - now rewrite of_bytes_bytes_of.
  - exact HB.
  - (* fuel: the encoding is at least as long as the input is in bytes, unless empty *)
    clear HB. generalize (bytes_of s) as l. intros l.
    induction l as [|a|a b|a b c r IH] using list_ind3; cbn [b64_encode_bytes length] in *; lia.
Qed.
