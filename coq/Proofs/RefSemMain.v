(* Proofs/RefSemMain.v — C02, first clause, final form: the theorems of Proofs/RefSem.v with the sortedness side
   condition discharged (Proofs/RefSemSorted.v), the JSON / oracle-claim form (Corr/C02.v [ClPath]). *)
From Verif Require Import Base.Bytes Model.Chain Model.GoText Model.Envelope Model.Eval Corr.EvalWire Corr.C01 Corr.C02
  Proofs.EvalTotalBase Proofs.EvalTotalInv Proofs.EvalTotalOrder Proofs.EvalTotalSyntax Proofs.EvalTotalFail
  Proofs.EvalTotalRecover Proofs.EvalTotalBound
  Proofs.ChainAlgebraSorted Proofs.ChainAlgebraExport Proofs.ChainAlgebra Proofs.RefSemAccess Proofs.RefSemWf Proofs.RefSemMemo
  Proofs.RefSem Proofs.RefSemSorted.
From Coq Require Import Lia.

Section MAIN.
Variable W : world.

(* the tables behind imports / context of an environment evaluated from the initial state are sorted *)
Lemma env_E_wf f root name d : Ewf (env_E W f root name d st0).
Proof.
  unfold env_E, env_base, env_my, env_imports_run.
  assert (Hs : Sst (enter name st0)).
  { unfold enter. apply (vs_imps_set name _); [cbn [is_value]; intros v [=]|apply Sst_st0]. }
  destruct (env_go_vs W (eval_env W f (env_root' root name)) (fun n d0 => eval_env_vs W f _ n d0)
              (ed_imports d) [] [] eq_refl (conj (Sorted.SSorted_nil _) (fun k c (H : In (k, c) []) => match H with end))
              (enter name st0) Hs) as [[Hb Hm] _].
  apply env_ectx_wf; assumption.
Qed.

(* THEOREM.  Routes (a) literal walk and (b) fall-through into the inherited base. *)
Theorem reference_denotes fuel root name d k p :
  let r := eval_env W fuel root name d st0 in
  nerr (snd r) = 0 -> oof (snd r) = false ->
  alookup k (ed_values d) = Some (ESym p) -> reserved k = false -> local_path p = true ->
  property k (tl (fst r)) = [] -> cknown (fst r) = true ->
  forall xv, export big_fuel (fst r) = Some xv ->
  exists xk, export big_fuel (property k (fst r)) = Some xk /\ x_access p xv = Some xk.
Proof.
  intros r Hn Ho Hk Hres Hloc Hpb Hkn xv Hx.
  apply (reference_denotes_final_value W fuel root name d st0 k p (untouched_st0 name) Hn Ho Hk Hres Hloc Hpb); [|exact Hx].
  apply cgood_of_known_sorted; [exact Hkn|apply eval_env_sorted].
Qed.

Theorem imports_reference f root name d k a0 rest :
  let E := env_E W f root name d st0 in
  let r := eval_env W (S f) root name d st0 in
  nerr (snd r) = 0 -> oof (snd r) = false ->
  alookup k (ed_values d) = Some (ESym (a0 :: rest)) -> reserved k = false ->
  object_key a0 = Some "imports" ->
  property k (tl (fst r)) = [] -> cknown (ec_imports E) = true ->
  forall xt, export big_fuel (ec_imports E) = Some xt ->
  exists xk, export big_fuel (property k (fst r)) = Some xk /\ x_access rest xt = Some xk.
Proof.
  intros E r Hn Ho Hk Hres Ha0 Hpb Hkn xt Hx.
  apply (imports_reference_denotes W f root name d st0 k a0 rest (untouched_st0 name) Hn Ho Hk Hres Ha0 Hpb); [|exact Hx].
  apply cgood_of_known_sorted; [exact Hkn|]. apply (env_E_wf f root name d).
Qed.

Theorem context_reference f root name d k a0 rest :
  let E := env_E W f root name d st0 in
  let r := eval_env W (S f) root name d st0 in
  nerr (snd r) = 0 -> oof (snd r) = false ->
  alookup k (ed_values d) = Some (ESym (a0 :: rest)) -> reserved k = false ->
  object_key a0 = Some "context" ->
  property k (tl (fst r)) = [] -> cknown (ec_context E) = true ->
  forall xt, export big_fuel (ec_context E) = Some xt ->
  exists xk, export big_fuel (property k (fst r)) = Some xk /\ x_access rest xt = Some xk.
Proof.
  intros E r Hn Ho Hk Hres Ha0 Hpb Hkn xt Hx.
  apply (context_reference_denotes W f root name d st0 k a0 rest (untouched_st0 name) Hn Ho Hk Hres Ha0 Hpb); [|exact Hx].
  apply cgood_of_known_sorted; [exact Hkn|]. apply (env_E_wf f root name d).
Qed.


(* ---------------- the oracle's claim [ClPath k p] of Corr/C02.v ---------------- *)
Lemma in_combine_same {A} (l : list A) p : In p (combine l l) -> fst p = snd p /\ In (fst p) l.
Proof.
  induction l as [|a r IH]; [contradiction|]. cbn [combine]. intros [<-|H]; [split; [reflexivity|left; reflexivity]|].
  destruct (IH H). split; [assumption|right; assumption].
Qed.

Lemma json_eqb_refl : forall f j, (jdepth j <= f)%nat -> json_eqb f j j = true.
Proof.
  induction f as [|f IH]; intros j Hj; [pose proof (jdepth_pos j); lia|].
  destruct j as [|b|t|t|l|m]; cbn [json_eqb].
  - reflexivity.
  - apply Bool.eqb_reflx.
  - apply String.eqb_refl.
  - apply String.eqb_refl.
  - rewrite Nat.eqb_refl. cbn [andb]. apply forallb_forall. intros q Hq.
    destruct (in_combine_same l q Hq) as [<- Hin]. apply IH.
    cbn [jdepth] in Hj. pose proof (proj2 (fold_max_le jdepth l 0%nat) _ Hin). lia.
  - rewrite Nat.eqb_refl. cbn [andb]. apply forallb_forall. intros q Hq.
    destruct (in_combine_same m q Hq) as [<- Hin]. rewrite String.eqb_refl. cbn [andb]. apply IH.
    pose proof (jdepth_obj_in m _ Hin). lia.
Qed.

Lemma jeq_refl j : jeq j j = true.
Proof. unfold jeq. apply json_eqb_refl. lia. Qed.

Lemma root_key_access fe s u sc props base xv k xk :
  export fe (LObj s u sc props :: base) = Some xv -> In k (map fst props) ->
  export fe (property k (LObj s u sc props :: base)) = Some xk ->
  x_access [AKey k] xv = Some xk.
Proof.
  intros Hx Hin Hk.
  assert (Hkeys : In k (keys (LObj s u sc props :: base))) by (cbn [keys]; apply In_sunion; right; exact Hin).
  destruct (export_obj_member fe s u sc props base xv k Hx Hkeys) as (fe' & m & xk1 & -> & -> & Hm & He).
  rewrite (export_fuel_mono _ (S fe') _ _ He) in Hk by lia. injection Hk as <-.
  cbn [x_access]. rewrite Hm. reflexivity.
Qed.

(* a diagnostic-free evaluation whose (known) result is rendered as JSON satisfies the claim the correspondence
   oracle checks for a bare reference: root[k] = value at path p of the root *)
Theorem ClPath_holds fuel root name d k p :
  let r := eval_env W fuel root name d st0 in
  nerr (snd r) = 0 -> oof (snd r) = false ->
  alookup k (ed_values d) = Some (ESym p) -> reserved k = false -> local_path p = true ->
  property k (tl (fst r)) = [] -> cknown (fst r) = true ->
  forall xv, export big_fuel (fst r) = Some xv -> xknown xv = true ->
  claim_fails (xj xv) (ClPath k p) = false.
Proof.
  intros r Hn Ho Hk Hres Hloc Hpb Hkn xv Hx Hxk. subst r.
  destruct (reference_denotes fuel root name d k p Hn Ho Hk Hres Hloc Hpb Hkn xv Hx) as (xk & He & Ha).
  destruct (declared_keys_present W fuel root name d st0 (untouched_st0 name) Ho) as (props & rest & Hc & Hkeys).
  unfold obj_layer in Hc.
  assert (Hin : In k (map fst props)).
  { rewrite Hkeys. apply (proj2 (proj2 (env_keys_spec d))). split; [|exact Hres].
    apply alookup_in in Hk. apply (in_map fst) in Hk. exact Hk. }
  rewrite Hc in Hx, He.
  pose proof (root_key_access _ _ _ _ _ _ _ _ _ Hx Hin He) as Hroot.
  unfold claim_fails.
  rewrite (x_access_jaccess_xj [AKey k] xv xk Hxk Hroot), (x_access_jaccess_xj p xv xk Hxk Ha), jeq_refl.
  reflexivity.
Qed.

End MAIN.

(* ---------------- the two side conditions are necessary (computed witnesses) ---------------- *)
Definition reference_denotes_hyps (with_known with_nobase : bool) : Prop :=
  forall W fuel root name d k p,
  let r := eval_env W fuel root name d st0 in
  nerr (snd r) = 0 -> oof (snd r) = false ->
  alookup k (ed_values d) = Some (ESym p) -> reserved k = false -> local_path p = true ->
  (with_nobase = true -> property k (tl (fst r)) = []) -> (with_known = true -> cknown (fst r) = true) ->
  forall xv, export big_fuel (fst r) = Some xv ->
  exists xk, export big_fuel (property k (fst r)) = Some xk /\ x_access p xv = Some xk.

(* with both conditions: the theorem *)
Theorem reference_denotes_hyps_proved : reference_denotes_hyps true true.
Proof.
  intros W fuel root name d k p r Hn Ho Hk Hres Hloc Hpb Hkn xv Hx.
  apply (reference_denotes W fuel root name d k p Hn Ho Hk Hres Hloc (Hpb eq_refl) (Hkn eq_refl) xv Hx).
Qed.

(* without "no unknown layer": in check mode a provider output is unknown, ${a.x} is unknown without any
   diagnostic, and the exported root has no a.x *)
Definition wit_world_check : world :=
  {| w_envs := []; w_provs := [("p", {| pv_in := InAlways; pv_out := ScAlways; pv_beh := PEcho |})];
     w_ctx := []; w_check := true; w_show := false; w_fault := None; w_decrypt := fun _ _ => None |}.
Definition wit_def_unknown : envdef :=
  {| ed_imports := []; ed_values := [("a", EOpen "p" (EObj [])); ("r", ESym [AName "a"; AName "x"])] |}.

Theorem reference_denotes_needs_known : ~ reference_denotes_hyps false true.
Proof.
  intro H.
  specialize (H wit_world_check 40%nat "" "e" wit_def_unknown "r" [AName "a"; AName "x"]).
  cbv zeta in H.
  assert (E1 : nerr (snd (eval_env wit_world_check 40 "" "e" wit_def_unknown st0)) = 0) by (vm_compute; reflexivity).
  assert (E2 : oof (snd (eval_env wit_world_check 40 "" "e" wit_def_unknown st0)) = false) by (vm_compute; reflexivity).
  assert (E3 : property "r" (tl (fst (eval_env wit_world_check 40 "" "e" wit_def_unknown st0))) = []) by (vm_compute; reflexivity).
  assert (E4 : export big_fuel (fst (eval_env wit_world_check 40 "" "e" wit_def_unknown st0))
               = Some (XObj false false [("a", XScalar false true SNull); ("r", XScalar false true SNull)]))
    by (vm_compute; reflexivity).
  destruct (H E1 E2 eq_refl eq_refl eq_refl (fun _ => E3) (fun X => match Bool.diff_false_true X with end) _ E4)
    as (xk & _ & Hx).
  discriminate Hx.
Qed.

(* without "the base has no property k": the reference's value is merged over the inherited r, so root.r is the
   merge, not the value of o *)
Definition wit_world_base : world :=
  {| w_envs := [("base", LoadOk {| ed_imports := []; ed_values := [("r", EObj [("q", ENum "1")])] |})];
     w_provs := []; w_ctx := []; w_check := false; w_show := false; w_fault := None; w_decrypt := fun _ _ => None |}.
Definition wit_def_base : envdef :=
  {| ed_imports := [("base", true)]; ed_values := [("o", EObj [("z", ENum "2")]); ("r", ESym [AName "o"])] |}.

Theorem reference_denotes_needs_nobase : ~ reference_denotes_hyps true false.
Proof.
  intro H.
  specialize (H wit_world_base 40%nat "" "e" wit_def_base "r" [AName "o"]).
  cbv zeta in H.
  assert (E1 : nerr (snd (eval_env wit_world_base 40 "" "e" wit_def_base st0)) = 0) by (vm_compute; reflexivity).
  assert (E2 : oof (snd (eval_env wit_world_base 40 "" "e" wit_def_base st0)) = false) by (vm_compute; reflexivity).
  assert (E3 : cknown (fst (eval_env wit_world_base 40 "" "e" wit_def_base st0)) = true) by (vm_compute; reflexivity).
  assert (E4 : export big_fuel (fst (eval_env wit_world_base 40 "" "e" wit_def_base st0))
               = Some (XObj false false
                   [("o", XObj false false [("z", XScalar false false (SNum "2"))]);
                    ("r", XObj false false [("q", XScalar false false (SNum "1")); ("z", XScalar false false (SNum "2"))])]))
    by (vm_compute; reflexivity).
  assert (E5 : export big_fuel (property "r" (fst (eval_env wit_world_base 40 "" "e" wit_def_base st0)))
               = Some (XObj false false [("q", XScalar false false (SNum "1")); ("z", XScalar false false (SNum "2"))]))
    by (vm_compute; reflexivity).
  destruct (H E1 E2 eq_refl eq_refl eq_refl (fun X => match Bool.diff_false_true X with end) (fun _ => E3) _ E4)
    as (xk & Hk & Hx).
  rewrite E5 in Hk. injection Hk as <-. discriminate Hx.
Qed.
