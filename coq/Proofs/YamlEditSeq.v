(* Proofs/YamlEditSeq.v — env set / env rm (the CLI routing through "values"), --secret, and sequences of
   operations: invariants and frame by induction over the sequence. *)
From Coq Require Import Lia ZifyNat ZifyBool.
From Verif Require Import Base.Bytes Model.YamlEdit Proofs.YamlEditBase Proofs.YamlEditProofs Proofs.YamlEditNorm
  Proofs.YamlEditRec.
Local Open Scope Z_scope.

(* ---------- Get composes ---------- *)
Lemma yget_app p q n :
  yget (p ++ q) n = match yget p n with GFound c => yget q c | r => r end.
Proof.
  revert n. induction p as [|a p IH]; intros n; [reflexivity|].
  cbn [app yget]. destruct (nkind n); auto.
  - destruct a; auto. destruct ((i <? 0) || (len (ncontent n) <=? i)); auto.
    destruct (nth_error (ncontent n) (Z.to_nat i)); auto.
  - destruct a; auto. destruct (find_val s (ncontent n)); auto.
Qed.

Lemma yget_cons a q n :
  yget (a :: q) n = match yget [a] n with GFound c => yget q c | r => r end.
Proof. exact (yget_app [a] q n). Qed.

Lemma yget_total p n : wf_root n = true -> yget p n <> GPanic.
Proof.
  revert n. induction p as [|a p IH]; intros n Hw; [discriminate|].
  destruct (wf_root_cases _ Hw) as [[Hz _]|Hwn]; [now rewrite (yget_zero_kind _ _ _ Hz)|].
  cbn [yget]. destruct (nkind n) eqn:Hk; try discriminate.
  - destruct a; [discriminate|]. destruct ((i <? 0) || (len (ncontent n) <=? i)); [discriminate|].
    destruct (nth_error (ncontent n) (Z.to_nat i)) eqn:E; [|discriminate].
    apply IH, wf_wf_root. eapply wf_seq_child; eauto.
  - destruct a; [|discriminate]. destruct (wf_map _ Hwn Hk) as (He & _).
    destruct (find_val s (ncontent n)) eqn:E; try discriminate.
    + apply IH, wf_wf_root. eapply wf_map_child; eauto.
    + exfalso. eapply find_val_not_panic; eauto.
Qed.

(* ---------- env set ---------- *)
Definition full_path (p : path) : path :=
  match p with
  | a :: _ => if is_imports a then p else AKey values_key :: p
  | [] => [AKey values_key]
  end.

Lemma env_get_full p root : env_get p root = yget (full_path p) root.
Proof. destruct p as [|a p]; [reflexivity|]. cbn. now destruct (is_imports a). Qed.

Lemma wf_empty_map : wf empty_map_node = true.
Proof. reflexivity. Qed.

(* ---------- the edit below "values" and the same edit from the root ---------- *)
Lemma yget_key_found_kind k q n m : yget (AKey k :: q) n = GFound m -> nkind n = KMap.
Proof. cbn [yget]. destruct (nkind n); try discriminate. reflexivity. Qed.

Lemma is_prefix_one q a r : is_prefix q [a] = true -> is_prefix q (a :: r) = true.
Proof.
  destruct q as [|b [|c q]]; cbn [is_prefix]; auto.
  rewrite andb_false_r. discriminate.
Qed.

(* the trees differ at most in where the line comment of the key "values" is: [r2] is what Set / Delete from the root
   of the definition give, [root'] what the commands give *)
Definition upto_values_key (r2 root' : node) : Prop :=
  r2 = root' \/ r2 = norm_path [AKey values_key] root'.

Lemma fix_key_at_upto pr n : nkind n = KMap -> upto_values_key (fix_key_at pr values_key n) n.
Proof.
  intros Hk. rewrite fix_key_at_norm by auto. unfold upto_values_key. destruct (p_key_lc pr); auto.
Qed.

Lemma upto_yget r2 root' q :
  upto_values_key r2 root' -> is_prefix q [AKey values_key] = false -> yget q root' = yget q r2.
Proof. intros [->| ->] Hq; [reflexivity|]. now rewrite yget_norm_other. Qed.

Lemma upto_wf r2 root' : upto_values_key r2 root' -> wf root' = wf r2.
Proof. intros [->| ->]; [reflexivity|]. now rewrite wf_norm. Qed.

Lemma upto_wf_root r2 root' : upto_values_key r2 root' -> wf_root root' = wf_root r2.
Proof. intros [->| ->]; [reflexivity|]. now rewrite wf_root_norm. Qed.

Lemma on_values_kind f root root' : on_values f root = Ok root' -> nkind root' = nkind root.
Proof. unfold on_values. intros H. apply rmap_ok in H. destruct H as (c & _ & ->). apply with_content_kind. Qed.

Lemma on_values_set pr p v root root' :
  nkind root = KMap -> on_values (yset pr p v) root = Ok root' ->
  exists r2, yset pr (AKey values_key :: p) v root = Ok r2 /\ upto_values_key r2 root'.
Proof.
  intros Hk H. rewrite yset_values, H by auto. cbn. eexists. split; [reflexivity|].
  apply fix_key_at_upto. now rewrite (on_values_kind _ _ _ H).
Qed.

Lemma on_values_delete pr p root root' vn :
  p <> [] -> yget [AKey values_key] root = GFound vn -> on_values (ydelete pr p) root = Ok root' ->
  exists r2, ydelete pr (AKey values_key :: p) root = Ok r2 /\ upto_values_key r2 root'.
Proof.
  intros Hp Hg H. rewrite (ydelete_values _ _ _ _ Hp Hg), H. cbn. eexists. split; [reflexivity|].
  apply fix_key_at_upto. rewrite (on_values_kind _ _ _ H). eapply yget_key_found_kind; eauto.
Qed.

Lemma on_values_total f root :
  wf_root root = true -> nkind root = KMap -> (forall v, wf_root v = true -> f v <> Panic) ->
  on_values f root <> Panic.
Proof.
  intros Hw Hk Hf. unfold on_values. apply rmap_not_panic.
  destruct (wf_root_cases _ Hw) as [[Hz _]|Hwn]; [congruence|].
  destruct (wf_map _ Hwn Hk) as (He & _ & _ & Hall).
  apply upd_key_not_panic; auto. intros v [Hin| ->]; apply Hf; [|reflexivity].
  apply wf_wf_root. eapply forallb_In; eauto. now apply vals_of_in.
Qed.

(* an edit that gives back the node it was given leaves the definition as it is *)
Lemma upd_key_id key f l v :
  find_val key l = GFound v -> f v = Ok v -> upd_key key f l = Ok l.
Proof.
  induction l as [| k0 | k0 v0 r IH] using pair_ind; cbn; try discriminate.
  destruct (String.eqb (nvalue k0) key).
  - intros H Hf. inversion H; subst. now rewrite Hf.
  - intros H Hf. now rewrite IH.
Qed.

(* env set ends with one Set of the full path on a well-formed root, up to the place of the line comment of the key
   "values" *)
Lemma env_set_last pr p v root root' :
  set_params_ok pr = true -> wf_root root = true -> env_set pr p v root = Ok root' ->
  exists r1 r2, wf_root r1 = true /\ yset pr (full_path p) v r1 = Ok r2 /\
             (r2 = root' \/ (upto_values_key r2 root' /\ exists a p', full_path p = AKey values_key :: a :: p')) /\
             (r1 = root \/ (yget [AKey values_key] root = GMissing /\
                            yset pr [AKey values_key] empty_map_node root = Ok r1 /\
                            full_path p = AKey values_key :: p)).
Proof.
  intros Hp Hw H. destruct p as [|a p]; [discriminate|]. unfold env_set in H. unfold full_path.
  destruct (is_imports a).
  - exists root, root'. split; [exact Hw|]. split; [exact H|]. split; now left.
  - destruct (yget [AKey values_key] root) eqn:Eg; try discriminate.
    + destruct (on_values_set _ _ _ _ _ (yget_key_found_kind _ _ _ _ Eg) H) as (r2 & H2 & Hu).
      exists root, r2. split; [exact Hw|]. split; [exact H2|]. split; [right; split; eauto|now left].
    + destruct (yset pr [AKey values_key] empty_map_node root) as [r1| |] eqn:E1; try discriminate.
      destruct (get_set_empty pr [AKey values_key] empty_map_node root r1 Hp (eq_refl : ncontent empty_map_node = []) E1)
        as (m & Hm & _).
      destruct (on_values_set _ _ _ _ _ (yget_key_found_kind _ _ _ _ Hm) H) as (r2 & H2 & Hu).
      exists r1, r2. split; [|split; [exact H2|split; [right; split; eauto|right; auto]]].
      apply wf_wf_root. eapply set_wf; eauto. reflexivity.
Qed.

Lemma not_prefix_of_values q a p' :
  is_prefix q (AKey values_key :: a :: p') = false -> is_prefix q [AKey values_key] = false.
Proof.
  intros H. destruct (is_prefix q [AKey values_key]) eqn:E; auto.
  now rewrite (is_prefix_one _ _ (a :: p') E) in H.
Qed.

Theorem env_get_set pr p v root root' :
  set_params_ok pr = true -> wf_root root = true -> env_set pr p v root = Ok root' ->
  exists m, env_get p root' = GFound m /\ denote m = denote v.
Proof.
  intros Hp Hw H. destruct (env_set_last _ _ _ _ _ Hp Hw H) as (r1 & r2 & _ & Hs & Hr2 & _).
  rewrite env_get_full. destruct (get_set _ _ _ _ _ Hp Hs) as (m & Hg & Hd). exists m. split; auto.
  destruct Hr2 as [->|(Hu & a & p' & Hf)]; auto.
  rewrite (upto_yget _ _ _ Hu); auto. rewrite Hf. cbn [is_prefix]. now rewrite andb_false_r.
Qed.

Theorem env_set_wf pr p v root root' :
  set_params_ok pr = true -> wf_root root = true -> wf v = true ->
  env_set pr p v root = Ok root' -> wf root' = true.
Proof.
  intros Hp Hw Hv H. destruct (env_set_last _ _ _ _ _ Hp Hw H) as (r1 & r2 & Hw1 & Hs & Hr2 & _).
  assert (Hw2 : wf r2 = true) by (eapply set_wf; eauto).
  destruct Hr2 as [->|(Hu & _)]; auto. now rewrite (upto_wf _ _ Hu).
Qed.

Lemma on_values_set_total pr p v root :
  wf_root root = true -> nkind root = KMap -> on_values (yset pr p v) root <> Panic.
Proof. intros Hw Hk. apply on_values_total; auto. intros x Hx. now apply set_total. Qed.

Theorem env_set_total pr p v root :
  set_params_ok pr = true -> wf_root root = true -> env_set pr p v root <> Panic.
Proof.
  intros Hp Hw. destruct p as [|a p]; [discriminate|]. unfold env_set.
  destruct (is_imports a); [now apply set_total|].
  destruct (yget [AKey values_key] root) eqn:Eg.
  - apply on_values_set_total; auto. eapply yget_key_found_kind; eauto.
  - destruct (yset pr [AKey values_key] empty_map_node root) as [r1| |] eqn:E1; try discriminate.
    + destruct (get_set_empty pr [AKey values_key] empty_map_node root r1 Hp (eq_refl : ncontent empty_map_node = []) E1)
        as (m & Hm & _).
      apply on_values_set_total; [|eapply yget_key_found_kind; eauto].
      apply wf_wf_root. eapply set_wf; eauto. reflexivity.
    + exfalso. eapply set_total; eauto.
  - exfalso. eapply yget_total; eauto.
Qed.

Lemma yget_missing_ext a q n : yget [a] n = GMissing -> yget (a :: q) n = GMissing.
Proof. intros H. now rewrite yget_cons, H. Qed.

Theorem env_set_frame pr p v root root' q :
  set_params_ok pr = true -> wf_root root = true -> env_set pr p v root = Ok root' ->
  related (full_path p) q = false -> yget q root' = yget q root.
Proof.
  intros Hp Hw H Hr. destruct (env_set_last _ _ _ _ _ Hp Hw H) as (r1 & r2 & Hw1 & Hs & Hr2 & Hcase).
  assert (Hq : yget q root' = yget q r2).
  { destruct Hr2 as [->|(Hu & a & p' & Hf)]; [reflexivity|]. apply (upto_yget _ _ _ Hu).
    apply (not_prefix_of_values q a p'). rewrite <- Hf. now apply unrelated_not_prefix. }
  rewrite Hq, (set_frame _ _ _ _ _ _ Hw1 Hs Hr).
  destruct Hcase as [->|(Hmiss & H1 & Hfull)]; [reflexivity|].
  destruct (related [AKey values_key] q) eqn:Er1.
  - (* q goes through "values", which did not exist *)
    rewrite Hfull in Hr.
    destruct q as [|b q]; [now rewrite related_nil_r in Hr|].
    rewrite related_cons in Hr, Er1.
    destruct (acc_eqb (AKey values_key) b) eqn:Eb; [|discriminate]. apply acc_eqb_eq in Eb. subst b.
    cbn [andb] in Hr.
    rewrite (yget_missing_ext _ q root Hmiss).
    destruct (get_set_empty pr [AKey values_key] empty_map_node root r1 Hp (eq_refl : ncontent empty_map_node = []) H1) as (m & Hm & Hkm & Hcm).
    rewrite yget_cons, Hm. assert (Hq' : q <> []) by (eapply unrelated_nonnil; eauto).
    destruct q as [|b q]; [congruence|]. cbn [yget]. rewrite Hkm, Hcm. cbn. now destruct b.
  - eapply set_frame; eauto.
Qed.

(* ---------- env rm ---------- *)
(* Delete(valuesNode, []) is refused or does nothing *)
Lemma on_values_delete_nil pr root root' vn :
  yget [AKey values_key] root = GFound vn -> on_values (ydelete pr []) root = Ok root' -> root' = root.
Proof.
  intros Eg H. unfold on_values in H. cbn [yget] in Eg.
  destruct (nkind root) eqn:Hk; try discriminate.
  destruct (find_val values_key (ncontent root)) eqn:Ef; try discriminate. inversion Eg; subst n.
  apply rmap_ok in H. destruct H as (c & Hc & ->).
  destruct (upd_key_ok _ _ _ _ Hc) as (v0 & v' & Hf & _ & [(Hv0 & _)|(Hm & _)]); [|congruence].
  rewrite Ef in Hv0. inversion Hv0; subst v0.
  assert (Hid : ydelete pr [] vn = Ok vn).
  { rewrite ydelete_nil in *. cbn in *. destruct (p_del_empty pr); cbn in *; congruence. }
  rewrite (upd_key_id _ _ _ _ Ef Hid) in Hc. inversion Hc; subst c. apply with_content_same.
Qed.

(* what env rm does below "values", in terms of Delete from the root: nothing, or Delete(root, "values" :: p) up to the
   place of the line comment of the key "values" *)
Lemma env_rm_values_cases pr p root root' :
  env_rm_values pr p root = Ok root' ->
  root' = root
  \/ exists r2, ydelete pr (AKey values_key :: p) root = Ok r2 /\
                (r2 = root' \/ (p <> [] /\ upto_values_key r2 root')).
Proof.
  unfold env_rm_values. intros H. destruct (yget [AKey values_key] root) as [vn| |] eqn:Eg; try discriminate.
  - destruct (p_rm_root pr); [right; eauto|].
    destruct p as [|a p].
    + left. eapply on_values_delete_nil; eauto.
    + right. destruct (on_values_delete pr (a :: p) root root' vn) as (r2 & H2 & Hu); auto; [discriminate|].
      exists r2. split; auto. right. split; [discriminate|auto].
  - left. congruence.
Qed.

Lemma env_rm_values_total pr p root :
  del_params_ok pr = true -> wf_root root = true -> env_rm_values pr p root <> Panic.
Proof.
  intros Hp Hw. unfold env_rm_values. destruct (yget [AKey values_key] root) eqn:Eg.
  - destruct (p_rm_root pr); [now apply delete_total|].
    apply on_values_total; auto; [eapply yget_key_found_kind; eauto|]. intros x Hx. now apply delete_total.
  - discriminate.
  - exfalso. eapply yget_total; eauto.
Qed.

Theorem env_rm_total pr p root :
  del_params_ok pr = true -> wf_root root = true -> env_rm pr p root <> Panic.
Proof.
  intros Hp Hw. unfold env_rm. destruct (p_rm_guard pr && is_nil p); [discriminate|].
  destruct (nkind root); try discriminate;
    (destruct (rm_from_root pr p); [now apply delete_total|now apply env_rm_values_total]).
Qed.

Lemma env_rm_values_wf pr p root root' :
  wf_root root = true -> env_rm_values pr p root = Ok root' -> wf_root root' = true.
Proof.
  intros Hw H. destruct (env_rm_values_cases _ _ _ _ H) as [->|(r2 & H2 & Hr2)]; auto.
  assert (Hw2 : wf_root r2 = true) by (eapply delete_wf; eauto).
  destruct Hr2 as [->|(_ & Hu)]; auto. now rewrite (upto_wf_root _ _ Hu).
Qed.

(* env rm works on [rm_path p]: below "values", or from the root for "imports" when the source does so *)
Lemma env_rm_cases pr p root root' :
  env_rm pr p root = Ok root' ->
  (nkind root = KZero /\ root' = root)
  \/ (rm_from_root pr p = true /\ ydelete pr p root = Ok root')
  \/ (rm_from_root pr p = false /\ env_rm_values pr p root = Ok root').
Proof.
  unfold env_rm. intros H. destruct (p_rm_guard pr && is_nil p); [discriminate|].
  destruct (nkind root) eqn:Hk.
  1: { left. split; congruence. }
  all: destruct (rm_from_root pr p); [right; left; auto|right; right; auto].
Qed.

Theorem env_rm_wf pr p root root' :
  wf_root root = true -> env_rm pr p root = Ok root' -> wf_root root' = true.
Proof.
  intros Hw H. destruct (env_rm_cases _ _ _ _ H) as [[_ ->]|[[_ Hd]|[_ Hv]]]; auto.
  - eapply delete_wf; eauto.
  - eapply env_rm_values_wf; eauto.
Qed.

Lemma longer_not_prefix_of_values (p : path) : p <> [] -> is_prefix (AKey values_key :: p) [AKey values_key] = false.
Proof. destruct p; [congruence|]. intros _. cbn [is_prefix]. now rewrite andb_false_r. Qed.

Theorem env_rm_removes_key pr p k root root' :
  wf_root root = true -> env_rm pr (p ++ [AKey k]) root = Ok root' ->
  yget (rm_path pr (p ++ [AKey k])) root' = GMissing.
Proof.
  intros Hw H. unfold rm_path.
  destruct (env_rm_cases _ _ _ _ H) as [[Hz ->]|[[Hr Hd]|[Hr Hv]]].
  - destruct (rm_from_root pr (p ++ [AKey k])); [|now apply yget_zero_kind].
    destruct (p ++ [AKey k]) eqn:E; [destruct p; discriminate|]. now apply yget_zero_kind.
  - rewrite Hr. eapply delete_removes_key; eauto.
  - rewrite Hr. destruct (env_rm_values_cases _ _ _ _ Hv) as [->|(r2 & H2 & Hr2)].
    + unfold env_rm_values in Hv. destruct (yget [AKey values_key] root) eqn:Eg; try discriminate.
      * (* "values" is there and nothing changed: the key was not there *)
        assert (Hnp : root = root) by reflexivity.
        destruct (p_rm_root pr) eqn:Er.
        -- change (AKey values_key :: p ++ [AKey k]) with ((AKey values_key :: p) ++ [AKey k]) in *.
           eapply delete_removes_key; eauto.
        -- destruct (on_values_delete pr (p ++ [AKey k]) root root n) as (r2 & H2 & Hu); auto.
           { destruct p; discriminate. }
           change (AKey values_key :: p ++ [AKey k]) with ((AKey values_key :: p) ++ [AKey k]) in *.
           rewrite (upto_yget _ _ _ Hu).
           ++ eapply delete_removes_key; eauto.
           ++ apply longer_not_prefix_of_values. destruct p; discriminate.
      * now apply yget_missing_ext.
    + change (AKey values_key :: p ++ [AKey k]) with ((AKey values_key :: p) ++ [AKey k]) in *.
      assert (Hm : yget ((AKey values_key :: p) ++ [AKey k]) r2 = GMissing) by (eapply delete_removes_key; eauto).
      destruct Hr2 as [->|(_ & Hu)]; auto.
      rewrite (upto_yget _ _ _ Hu); auto. apply (longer_not_prefix_of_values (p ++ [AKey k])). destruct p; discriminate.
Qed.

Theorem env_rm_frame pr p root root' q :
  p <> [] -> env_rm pr p root = Ok root' -> related (rm_path pr p) q = false ->
  yget (shift_del (rm_path pr p) q) root' = yget q root.
Proof.
  intros Hp H Hr. unfold rm_path in *.
  destruct (env_rm_cases _ _ _ _ H) as [[Hz ->]|[[Hf Hd]|[Hf Hv]]].
  - destruct q as [|b q]; [now rewrite related_nil_r in Hr|].
    rewrite (yget_zero_kind _ _ _ Hz).
    destruct (shift_del (if rm_from_root pr p then p else AKey values_key :: p) (b :: q)) eqn:E.
    + exfalso. destruct p as [|a p]; [congruence|]. clear - E.
      destruct (rm_from_root pr (a :: p)); cbn in E.
      * destruct p; destruct a; destruct b; cbn in E;
          repeat match type of E with context [if ?c then _ else _] => destruct c end; discriminate.
      * destruct b; cbn in E;
          repeat match type of E with context [if ?c then _ else _] => destruct c end; discriminate.
    + now apply yget_zero_kind.
  - rewrite Hf in *. eapply delete_frame; eauto.
  - rewrite Hf in *.
    assert (Hsame : ydelete pr (AKey values_key :: p) root = Ok root \/ yget [AKey values_key] root = GMissing ->
                    yget (shift_del (AKey values_key :: p) q) root = yget q root).
    { intros [Hd|Eg]; [eapply delete_frame; eauto|].
      destruct q as [|b q]; [reflexivity|].
      destruct (acc_eqb (AKey values_key) b) eqn:Eb.
      * apply acc_eqb_eq in Eb. subst b. rewrite shift_del_cons_same by auto.
        now rewrite !(yget_missing_ext _ _ _ Eg).
      * now rewrite shift_del_cons_diff. }
    destruct (env_rm_values_cases _ _ _ _ Hv) as [->|(r2 & H2 & Hr2)].
    + unfold env_rm_values in Hv. destruct (yget [AKey values_key] root) as [vn| |] eqn:Eg; try discriminate.
      * destruct (p_rm_root pr) eqn:Er.
        -- apply Hsame; auto.
        -- destruct (on_values_delete pr p root root vn) as (r2 & H2 & Hu); auto.
           rewrite (upto_yget _ _ _ Hu); [eapply delete_frame; eauto|].
           destruct (is_prefix (shift_del (AKey values_key :: p) q) [AKey values_key]) eqn:E; auto.
           pose proof (shift_not_prefix _ _ Hr) as Hn. rewrite removelast_cons in Hn by auto.
           now rewrite (is_prefix_one _ _ _ E) in Hn.
      * apply Hsame; auto.
    + assert (Hfr : yget (shift_del (AKey values_key :: p) q) r2 = yget q root) by (eapply delete_frame; eauto).
      destruct Hr2 as [->|(_ & Hu)]; auto.
      rewrite (upto_yget _ _ _ Hu); auto.
      destruct (is_prefix (shift_del (AKey values_key :: p) q) [AKey values_key]) eqn:E; auto.
      pose proof (shift_not_prefix _ _ Hr) as Hn. rewrite removelast_cons in Hn by auto.
      now rewrite (is_prefix_one _ _ _ E) in Hn.
Qed.

(* an empty path: env rm refuses it, or leaves the definition as it is — provided the command has its own guard when
   it deletes from the root (otherwise Delete(root, ["values"]) would remove every value) *)
Definition cli_params_ok (pr : params) : bool := implb (p_rm_root pr) (p_rm_guard pr).

Theorem env_rm_empty_path pr root root' :
  cli_params_ok pr = true -> env_rm pr [] root = Ok root' -> root' = root.
Proof.
  unfold cli_params_ok, env_rm. intros Hc H. cbn [is_nil] in H. rewrite andb_true_r in H.
  destruct (p_rm_guard pr) eqn:Eg; [discriminate|].
  destruct (p_rm_root pr) eqn:Er; [discriminate|].
  assert (Hv : env_rm_values pr [] root = Ok root' -> root' = root).
  { unfold env_rm_values. rewrite Er. destruct (yget [AKey values_key] root) as [vn| |] eqn:Eg'; try discriminate.
    - eapply on_values_delete_nil; eauto.
    - congruence. }
  destruct (nkind root); cbn [rm_from_root] in H; auto; congruence.
Qed.

(* with the repair, env rm addresses the same node as env get and env set *)
Lemma rm_path_full pr p : p_rm_imports pr = true -> p <> [] -> rm_path pr p = full_path p.
Proof.
  intros H Hp. destruct p as [|a p]; [congruence|]. unfold rm_path, rm_from_root, full_path. rewrite H.
  cbn [andb]. reflexivity.
Qed.

(* ---------- --secret ---------- *)
Definition secret_text (argtext : string) (v : node) : string :=
  if String.eqb (ntag v) str_tag then nvalue v else argtext.

Lemma denote_secret_scalar argtext v :
  nkind v = KScalar ->
  denote (prep_value true argtext v) = VMap [(secret_key, VScalar str_tag (secret_text argtext v))].
Proof.
  intros Hk. destruct v as [k tag st val h l f c]. cbn in Hk. subst k.
  unfold prep_value, secret_wrap, secret_arg, secret_text. cbn [nkind ntag nvalue kind_eqb andb].
  destruct (String.eqb tag str_tag) eqn:E; cbn [negb].
  - apply String.eqb_eq in E. subst tag. cbn. unfold eff_tag.
    now destruct (negb (st_tagged st) && st_quoted st).
  - reflexivity.
Qed.

Lemma denote_secret_other argtext v :
  nkind v <> KScalar -> denote (prep_value true argtext v) = VMap [(secret_key, denote v)].
Proof.
  intros Hk. unfold prep_value, secret_wrap, secret_arg.
  destruct v as [k tag st val h l f c]. cbn in Hk. destruct k; cbn; congruence.
Qed.

Lemma wf_prep_value secret argtext v : wf v = true -> wf (prep_value secret argtext v) = true.
Proof.
  intros Hw. destruct secret; [|exact Hw]. unfold prep_value, secret_wrap, secret_arg.
  destruct (kind_eqb (nkind v) KScalar && negb (String.eqb (ntag v) str_tag)); cbn; now rewrite ?Hw.
Qed.

Theorem secret_set pr p argtext v root root' :
  set_params_ok pr = true -> wf_root root = true -> nkind v = KScalar ->
  env_set pr p (prep_value true argtext v) root = Ok root' ->
  exists m, env_get p root' = GFound m /\
            denote m = VMap [(secret_key, VScalar str_tag (secret_text argtext v))].
Proof.
  intros Hp Hw Hk H. destruct (env_get_set _ _ _ _ _ Hp Hw H) as (m & Hg & Hd).
  exists m. split; auto. now rewrite Hd, denote_secret_scalar.
Qed.

(* ---------- sequences of operations ---------- *)
Section Run.
  Variable step : op -> node -> result node.
  Variable okop : op -> Prop.
  Variable indep : op -> path -> Prop.
  Hypothesis step_inv : forall o t t', wf_root t = true -> okop o -> step o t = Ok t' -> wf_root t' = true.
  Hypothesis step_total : forall o t, wf_root t = true -> okop o -> step o t <> Panic.
  Hypothesis step_frame : forall o t t' q,
      wf_root t = true -> okop o -> step o t = Ok t' -> indep o q -> yget q t' = yget q t.

  Lemma run_inv ops t t' :
    wf_root t = true -> Forall okop ops -> run step ops t = Some t' -> wf_root t' = true.
  Proof.
    revert t. induction ops as [|o r IH]; intros t Hw Hok H; cbn in H.
    - now inversion H; subst.
    - inversion Hok; subst. destruct (step o t) eqn:E; try discriminate; eauto.
  Qed.

  Lemma run_total ops t : wf_root t = true -> Forall okop ops -> run step ops t <> None.
  Proof.
    revert t. induction ops as [|o r IH]; intros t Hw Hok; cbn; [discriminate|].
    inversion Hok; subst. destruct (step o t) eqn:E; eauto. exfalso. eapply step_total; eauto.
  Qed.

  Lemma run_frame ops t t' q :
    wf_root t = true -> Forall okop ops -> run step ops t = Some t' ->
    Forall (fun o => indep o q) ops -> yget q t' = yget q t.
  Proof.
    revert t. induction ops as [|o r IH]; intros t Hw Hok H Hi; cbn in H.
    - now inversion H.
    - inversion Hok; subst. inversion Hi; subst. destruct (step o t) eqn:E; try discriminate.
      + rewrite (IH a); eauto.
      + eauto.
  Qed.
End Run.

Definition op_wf (o : op) : Prop := match o with OSet _ v => wf v = true | ORm _ => True end.

(* direct API sequences *)
Definition api_indep (o : op) (q : path) : Prop :=
  match o with
  | OSet p _ => related p q = false
  | ORm p => related p q = false /\ shift_del p q = q
  end.

Lemma api_step_inv pr o t t' :
  set_params_ok pr = true -> wf_root t = true -> op_wf o -> api_step pr o t = Ok t' -> wf_root t' = true.
Proof.
  intros Hp Hw Ho H. destruct o as [p v|p]; cbn in *.
  - apply wf_wf_root. eapply set_wf; eauto.
  - eapply delete_wf; eauto.
Qed.

Lemma api_step_total pr o t : params_ok pr = true -> wf_root t = true -> api_step pr o t <> Panic.
Proof.
  unfold params_ok. intros Hp Hw. apply andb_true_iff in Hp as [_ Hd]. destruct o as [p v|p]; cbn.
  - now apply set_total.
  - now apply delete_total.
Qed.

Lemma api_step_frame pr o t t' q :
  wf_root t = true -> api_step pr o t = Ok t' -> api_indep o q -> yget q t' = yget q t.
Proof.
  intros Hw H Hi. destruct o as [p v|p]; cbn in *.
  - eapply set_frame; eauto.
  - destruct Hi as [Hr Hs]. rewrite <- Hs at 1. eapply delete_frame; eauto.
Qed.

Theorem api_run_wf pr ops t t' :
  params_ok pr = true -> wf_root t = true -> Forall op_wf ops ->
  run (api_step pr) ops t = Some t' -> wf_root t' = true.
Proof.
  intros Hp. apply andb_true_iff in Hp as [Hs _].
  apply run_inv. intros o x x' Hw Ho. now apply api_step_inv.
Qed.

Theorem api_run_total pr ops t :
  params_ok pr = true -> wf_root t = true -> Forall op_wf ops -> run (api_step pr) ops t <> None.
Proof.
  intros Hp. pose proof Hp as Hp'. apply andb_true_iff in Hp' as [Hs _].
  apply run_total.
  - intros o x x' Hw Ho. now apply api_step_inv.
  - intros o x Hw _. now apply api_step_total.
Qed.

Theorem api_run_frame pr ops t t' q :
  params_ok pr = true -> wf_root t = true -> Forall op_wf ops ->
  run (api_step pr) ops t = Some t' -> Forall (fun o => api_indep o q) ops -> yget q t' = yget q t.
Proof.
  intros Hp. apply andb_true_iff in Hp as [Hs _].
  apply run_frame.
  - intros o x x' Hw Ho. now apply api_step_inv.
  - intros o x x' q' Hw _. now apply api_step_frame.
Qed.

(* the value set at p is still there after any later operations that do not touch p *)
Theorem api_run_get_set pr p v t1 t2 ops t3 :
  params_ok pr = true -> wf_root t1 = true -> wf v = true -> Forall op_wf ops ->
  yset pr p v t1 = Ok t2 -> run (api_step pr) ops t2 = Some t3 ->
  Forall (fun o => api_indep o p) ops ->
  exists m, yget p t3 = GFound m /\ denote m = denote v.
Proof.
  intros Hp Hw Hv Hops Hs Hr Hi. pose proof Hp as Hp'. apply andb_true_iff in Hp' as [Hsp _].
  destruct (get_set _ _ _ _ _ Hsp Hs) as (m & Hg & Hd). exists m. split; auto.
  rewrite <- Hg. eapply api_run_frame; eauto. apply wf_wf_root. eapply set_wf; eauto.
Qed.

(* CLI sequences *)
Definition cli_indep (pr : params) (o : op) (q : path) : Prop :=
  match o with
  | OSet p _ => related (full_path p) q = false
  | ORm p => related (rm_path pr p) q = false /\ shift_del (rm_path pr p) q = q
  end.

Lemma cli_step_inv pr o t t' :
  set_params_ok pr = true -> wf_root t = true -> op_wf o -> cli_step pr o t = Ok t' -> wf_root t' = true.
Proof.
  intros Hp Hw Ho H. destruct o as [p v|p]; cbn in *.
  - apply wf_wf_root. eapply env_set_wf; eauto.
  - eapply env_rm_wf; eauto.
Qed.

Lemma cli_step_total pr o t : params_ok pr = true -> wf_root t = true -> cli_step pr o t <> Panic.
Proof.
  unfold params_ok. intros Hp Hw. apply andb_true_iff in Hp as [Hs Hd]. destruct o as [p v|p]; cbn.
  - now apply env_set_total.
  - now apply env_rm_total.
Qed.

Lemma cli_step_frame pr o t t' q :
  set_params_ok pr = true -> cli_params_ok pr = true -> wf_root t = true -> cli_step pr o t = Ok t' ->
  cli_indep pr o q -> yget q t' = yget q t.
Proof.
  intros Hp Hc Hw H Hi. destruct o as [p v|p]; cbn in *.
  - eapply env_set_frame; eauto.
  - destruct Hi as [Hr Hs]. destruct p as [|a p].
    + now rewrite (env_rm_empty_path _ _ _ Hc H).
    + rewrite <- Hs at 1. eapply env_rm_frame; eauto. congruence.
Qed.

Theorem cli_run_wf pr ops t t' :
  params_ok pr = true -> wf_root t = true -> Forall op_wf ops ->
  run (cli_step pr) ops t = Some t' -> wf_root t' = true.
Proof.
  intros Hp. apply andb_true_iff in Hp as [Hs _].
  apply run_inv. intros o x x' Hw Ho. now apply cli_step_inv.
Qed.

Theorem cli_run_total pr ops t :
  params_ok pr = true -> wf_root t = true -> Forall op_wf ops -> run (cli_step pr) ops t <> None.
Proof.
  intros Hp. pose proof Hp as Hp'. apply andb_true_iff in Hp' as [Hs _].
  apply run_total.
  - intros o x x' Hw Ho. now apply cli_step_inv.
  - intros o x Hw _. now apply cli_step_total.
Qed.

Theorem cli_run_frame pr ops t t' q :
  params_ok pr = true -> cli_params_ok pr = true -> wf_root t = true -> Forall op_wf ops ->
  run (cli_step pr) ops t = Some t' -> Forall (fun o => cli_indep pr o q) ops -> yget q t' = yget q t.
Proof.
  intros Hp Hc. apply andb_true_iff in Hp as [Hs _].
  apply run_frame.
  - intros o x x' Hw Ho. now apply cli_step_inv.
  - intros o x x' q' Hw _. now apply cli_step_frame.
Qed.

Theorem cli_run_get_set pr p v t1 t2 ops t3 :
  params_ok pr = true -> cli_params_ok pr = true -> wf_root t1 = true -> wf v = true -> Forall op_wf ops ->
  env_set pr p v t1 = Ok t2 -> run (cli_step pr) ops t2 = Some t3 ->
  Forall (fun o => cli_indep pr o (full_path p)) ops ->
  exists m, env_get p t3 = GFound m /\ denote m = denote v.
Proof.
  intros Hp Hc Hw Hv Hops Hs Hr Hi. pose proof Hp as Hp'. apply andb_true_iff in Hp' as [Hsp _].
  destruct (env_get_set _ _ _ _ _ Hsp Hw Hs) as (m & Hg & Hd). exists m. split; auto.
  rewrite <- Hg. rewrite !env_get_full. eapply cli_run_frame; eauto.
  apply wf_wf_root. eapply env_set_wf; eauto.
Qed.
