(* Proofs/YamlEditSeq.v — env set / env rm (the CLI routing through "values"), --secret, and sequences of
   operations: invariants and frame by induction over the sequence. *)
From Coq Require Import Lia ZifyNat ZifyBool.
From Verif Require Import Base.Bytes Model.YamlEdit Proofs.YamlEditBase Proofs.YamlEditProofs Proofs.YamlEditNorm.
Local Open Scope Z_scope.

(* ---------- Get composes ---------- *)
Lemma yget_app p q n :
  yget (p ++ q) n = match yget p n with GFound c => yget q c | r => r end.
Proof.
  revert n. induction p as [|a p IH]; intros n; [reflexivity|].
  cbn [app yget]. destruct (nkind n); auto.
  - destruct a; auto. destruct ((i <? 0) || (len (ncontent n) <=? i)); auto.
    destruct (nth_error (ncontent n) (Z.to_nat i)); auto.
  - destruct a; auto. destruct (find_val s (ncontent n)); auto.
Qed.

Lemma yget_cons a q n :
  yget (a :: q) n = match yget [a] n with GFound c => yget q c | r => r end.
Proof. exact (yget_app [a] q n). Qed.

Lemma yget_total p n : wf_root n = true -> yget p n <> GPanic.
Proof.
  revert n. induction p as [|a p IH]; intros n Hw; [discriminate|].
  destruct (wf_root_cases _ Hw) as [[Hz _]|Hwn]; [now rewrite (yget_zero_kind _ _ _ Hz)|].
  cbn [yget]. destruct (nkind n) eqn:Hk; try discriminate.
  - destruct a; [discriminate|]. destruct ((i <? 0) || (len (ncontent n) <=? i)); [discriminate|].
    destruct (nth_error (ncontent n) (Z.to_nat i)) eqn:E; [|discriminate].
    apply IH, wf_wf_root. eapply wf_seq_child; eauto.
  - destruct a; [|discriminate]. destruct (wf_map _ Hwn Hk) as (He & _).
    destruct (find_val s (ncontent n)) eqn:E; try discriminate.
    + apply IH, wf_wf_root. eapply wf_map_child; eauto.
    + exfalso. eapply find_val_not_panic; eauto.
Qed.

(* ---------- env set ---------- *)
Definition full_path (p : path) : path :=
  match p with
  | a :: _ => if is_imports a then p else AKey values_key :: p
  | [] => [AKey values_key]
  end.

Lemma env_get_full p root : env_get p root = yget (full_path p) root.
Proof. destruct p as [|a p]; [reflexivity|]. cbn. now destruct (is_imports a). Qed.

Lemma wf_empty_map : wf empty_map_node = true.
Proof. reflexivity. Qed.

(* env set ends with one Set of the full path on a well-formed root *)
Lemma env_set_last pr p v root root' :
  set_params_ok pr = true -> wf_root root = true -> env_set pr p v root = Ok root' ->
  exists r1, wf_root r1 = true /\ yset pr (full_path p) v r1 = Ok root' /\
             (r1 = root \/ (yget [AKey values_key] root = GMissing /\
                            yset pr [AKey values_key] empty_map_node root = Ok r1 /\
                            full_path p = AKey values_key :: p)).
Proof.
  intros Hp Hw H. destruct p as [|a p]; [discriminate|]. unfold env_set in H. unfold full_path.
  destruct (is_imports a).
  - exists root. split; [exact Hw|]. split; [exact H|now left].
  - destruct (yget [AKey values_key] root) eqn:Eg; try discriminate.
    + exists root. split; [exact Hw|]. split; [exact H|now left].
    + destruct (yset pr [AKey values_key] empty_map_node root) as [r1| |] eqn:E1; try discriminate.
      exists r1. split; [|split; [exact H|right; auto]]. apply wf_wf_root. eapply set_wf; eauto. reflexivity.
Qed.

Theorem env_get_set pr p v root root' :
  set_params_ok pr = true -> wf_root root = true -> env_set pr p v root = Ok root' ->
  exists m, env_get p root' = GFound m /\ denote m = denote v.
Proof.
  intros Hp Hw H. destruct (env_set_last _ _ _ _ _ Hp Hw H) as (r1 & _ & Hs & _).
  rewrite env_get_full. eapply get_set; eauto.
Qed.

Theorem env_set_wf pr p v root root' :
  set_params_ok pr = true -> wf_root root = true -> wf v = true ->
  env_set pr p v root = Ok root' -> wf root' = true.
Proof.
  intros Hp Hw Hv H. destruct (env_set_last _ _ _ _ _ Hp Hw H) as (r1 & Hw1 & Hs & _).
  eapply set_wf; eauto.
Qed.

Theorem env_set_total pr p v root :
  set_params_ok pr = true -> wf_root root = true -> env_set pr p v root <> Panic.
Proof.
  intros Hp Hw. destruct p as [|a p]; [discriminate|]. unfold env_set.
  destruct (is_imports a); [now apply set_total|].
  destruct (yget [AKey values_key] root) eqn:Eg.
  - now apply set_total.
  - destruct (yset pr [AKey values_key] empty_map_node root) as [r1| |] eqn:E1; try discriminate.
    + apply set_total, wf_wf_root. eapply set_wf; eauto. reflexivity.
    + exfalso. eapply set_total; eauto.
  - exfalso. eapply yget_total; eauto.
Qed.

Lemma yget_missing_ext a q n : yget [a] n = GMissing -> yget (a :: q) n = GMissing.
Proof. intros H. now rewrite yget_cons, H. Qed.

Theorem env_set_frame pr p v root root' q :
  set_params_ok pr = true -> wf_root root = true -> env_set pr p v root = Ok root' ->
  related (full_path p) q = false -> yget q root' = yget q root.
Proof.
  intros Hp Hw H Hr. destruct (env_set_last _ _ _ _ _ Hp Hw H) as (r1 & Hw1 & Hs & Hcase).
  rewrite (set_frame _ _ _ _ _ _ Hw1 Hs Hr).
  destruct Hcase as [->|(Hmiss & H1 & Hfull)]; [reflexivity|].
  destruct (related [AKey values_key] q) eqn:Er1.
  - (* q goes through "values", which did not exist *)
    rewrite Hfull in Hr.
    destruct q as [|b q]; [now rewrite related_nil_r in Hr|].
    rewrite related_cons in Hr, Er1.
    destruct (acc_eqb (AKey values_key) b) eqn:Eb; [|discriminate]. apply acc_eqb_eq in Eb. subst b.
    cbn [andb] in Hr.
    rewrite (yget_missing_ext _ q root Hmiss).
    destruct (get_set_empty pr [AKey values_key] empty_map_node root r1 Hp (eq_refl : ncontent empty_map_node = []) H1) as (m & Hm & Hkm & Hcm).
    rewrite yget_cons, Hm. assert (Hq : q <> []) by (eapply unrelated_nonnil; eauto).
    destruct q as [|b q]; [congruence|]. cbn [yget]. rewrite Hkm, Hcm. cbn. now destruct b.
  - eapply set_frame; eauto.
Qed.

(* ---------- env rm ---------- *)
Lemma env_rm_values_total pr p root :
  del_params_ok pr = true -> wf_root root = true -> env_rm_values pr p root <> Panic.
Proof.
  intros Hp Hw. unfold env_rm_values. destruct (yget [AKey values_key] root) eqn:Eg.
  - destruct p as [|a p].
    + unfold del_params_ok in Hp. apply andb_true_iff in Hp as [Hg _].
      destruct (p_del_empty pr); cbn in *; congruence.
    + now apply delete_total.
  - discriminate.
  - exfalso. eapply yget_total; eauto.
Qed.

Theorem env_rm_total pr p root :
  del_params_ok pr = true -> wf_root root = true -> env_rm pr p root <> Panic.
Proof.
  intros Hp Hw. unfold env_rm. destruct (nkind root); try discriminate;
    (destruct (rm_from_root pr p); [now apply delete_total|now apply env_rm_values_total]).
Qed.

Lemma env_rm_values_wf pr p root root' :
  wf_root root = true -> env_rm_values pr p root = Ok root' -> wf_root root' = true.
Proof.
  intros Hw H. unfold env_rm_values in H. destruct (yget [AKey values_key] root) eqn:Eg; try discriminate.
  - destruct p as [|a p].
    + destruct (p_del_empty pr); cbn in H; try discriminate. congruence.
    + eapply delete_wf; eauto.
  - congruence.
Qed.

Theorem env_rm_wf pr p root root' :
  wf_root root = true -> env_rm pr p root = Ok root' -> wf_root root' = true.
Proof.
  intros Hw H. unfold env_rm in H. destruct (nkind root); try (inversion H; subst; exact Hw);
    (destruct (rm_from_root pr p); [eapply delete_wf; eauto|eapply env_rm_values_wf; eauto]).
Qed.

(* env rm works on [rm_path p]: below "values", or from the root for "imports" when the source does so *)
Lemma env_rm_cases pr p root root' :
  env_rm pr p root = Ok root' ->
  (nkind root = KZero /\ root' = root)
  \/ (rm_from_root pr p = true /\ ydelete pr p root = Ok root')
  \/ (rm_from_root pr p = false /\ env_rm_values pr p root = Ok root').
Proof.
  unfold env_rm. intros H. destruct (nkind root) eqn:Hk.
  1: { left. split; congruence. }
  all: destruct (rm_from_root pr p); [right; left; auto|right; right; auto].
Qed.

Theorem env_rm_removes_key pr p k root root' :
  wf_root root = true -> env_rm pr (p ++ [AKey k]) root = Ok root' ->
  yget (rm_path pr (p ++ [AKey k])) root' = GMissing.
Proof.
  intros Hw H. unfold rm_path.
  destruct (env_rm_cases _ _ _ _ H) as [[Hz ->]|[[Hr Hd]|[Hr Hv]]].
  - destruct (rm_from_root pr (p ++ [AKey k])); [|now apply yget_zero_kind].
    destruct (p ++ [AKey k]) eqn:E; [destruct p; discriminate|]. now apply yget_zero_kind.
  - rewrite Hr. eapply delete_removes_key; eauto.
  - rewrite Hr. unfold env_rm_values in Hv.
    destruct (yget [AKey values_key] root) eqn:Eg; try discriminate.
    + destruct (p ++ [AKey k]) as [|a p'] eqn:Ep; [destruct p; discriminate|]. rewrite <- Ep in *.
      change (AKey values_key :: p ++ [AKey k]) with ((AKey values_key :: p) ++ [AKey k]) in *.
      eapply delete_removes_key; eauto.
    + inversion Hv; subst root'. now apply yget_missing_ext.
Qed.

Theorem env_rm_frame pr p root root' q :
  p <> [] -> env_rm pr p root = Ok root' -> related (rm_path pr p) q = false ->
  yget (shift_del (rm_path pr p) q) root' = yget q root.
Proof.
  intros Hp H Hr. unfold rm_path in *.
  destruct (env_rm_cases _ _ _ _ H) as [[Hz ->]|[[Hf Hd]|[Hf Hv]]].
  - destruct q as [|b q]; [now rewrite related_nil_r in Hr|].
    rewrite (yget_zero_kind _ _ _ Hz).
    destruct (shift_del (if rm_from_root pr p then p else AKey values_key :: p) (b :: q)) eqn:E.
    + exfalso. destruct p as [|a p]; [congruence|]. clear - E.
      destruct (rm_from_root pr (a :: p)); cbn in E.
      * destruct p; destruct a; destruct b; cbn in E;
          repeat match type of E with context [if ?c then _ else _] => destruct c end; discriminate.
      * destruct b; cbn in E;
          repeat match type of E with context [if ?c then _ else _] => destruct c end; discriminate.
    + now apply yget_zero_kind.
  - rewrite Hf in *. eapply delete_frame; eauto.
  - rewrite Hf in *. unfold env_rm_values in Hv.
    destruct (yget [AKey values_key] root) eqn:Eg; try discriminate.
    + destruct p as [|a p]; [congruence|]. eapply delete_frame; eauto.
    + inversion Hv; subst root'. destruct q as [|b q]; [reflexivity|].
      destruct (acc_eqb (AKey values_key) b) eqn:Eb.
      * apply acc_eqb_eq in Eb. subst b. rewrite shift_del_cons_same by auto.
        now rewrite !(yget_missing_ext _ _ _ Eg).
      * now rewrite shift_del_cons_diff.
Qed.

(* with the repair, env rm addresses the same node as env get and env set *)
Lemma rm_path_full pr p : p_rm_imports pr = true -> p <> [] -> rm_path pr p = full_path p.
Proof.
  intros H Hp. destruct p as [|a p]; [congruence|]. unfold rm_path, rm_from_root, full_path. rewrite H.
  cbn [andb]. reflexivity.
Qed.

(* ---------- --secret ---------- *)
Definition secret_text (argtext : string) (v : node) : string :=
  if String.eqb (ntag v) str_tag then nvalue v else argtext.

Lemma denote_secret_scalar argtext v :
  nkind v = KScalar ->
  denote (prep_value true argtext v) = VMap [(secret_key, VScalar str_tag (secret_text argtext v))].
Proof.
  intros Hk. destruct v as [k tag st val h l f c]. cbn in Hk. subst k.
  unfold prep_value, secret_wrap, secret_arg, secret_text. cbn [nkind ntag nvalue kind_eqb andb].
  destruct (String.eqb tag str_tag) eqn:E; cbn [negb].
  - apply String.eqb_eq in E. subst tag. cbn. unfold eff_tag.
    now destruct (negb (st_tagged st) && st_quoted st).
  - reflexivity.
Qed.

Lemma denote_secret_other argtext v :
  nkind v <> KScalar -> denote (prep_value true argtext v) = VMap [(secret_key, denote v)].
Proof.
  intros Hk. unfold prep_value, secret_wrap, secret_arg.
  destruct v as [k tag st val h l f c]. cbn in Hk. destruct k; cbn; congruence.
Qed.

Lemma wf_prep_value secret argtext v : wf v = true -> wf (prep_value secret argtext v) = true.
Proof.
  intros Hw. destruct secret; [|exact Hw]. unfold prep_value, secret_wrap, secret_arg.
  destruct (kind_eqb (nkind v) KScalar && negb (String.eqb (ntag v) str_tag)); cbn; now rewrite ?Hw.
Qed.

Theorem secret_set pr p argtext v root root' :
  set_params_ok pr = true -> wf_root root = true -> nkind v = KScalar ->
  env_set pr p (prep_value true argtext v) root = Ok root' ->
  exists m, env_get p root' = GFound m /\
            denote m = VMap [(secret_key, VScalar str_tag (secret_text argtext v))].
Proof.
  intros Hp Hw Hk H. destruct (env_get_set _ _ _ _ _ Hp Hw H) as (m & Hg & Hd).
  exists m. split; auto. now rewrite Hd, denote_secret_scalar.
Qed.

(* ---------- sequences of operations ---------- *)
Section Run.
  Variable step : op -> node -> result node.
  Variable okop : op -> Prop.
  Variable indep : op -> path -> Prop.
  Hypothesis step_inv : forall o t t', wf_root t = true -> okop o -> step o t = Ok t' -> wf_root t' = true.
  Hypothesis step_total : forall o t, wf_root t = true -> okop o -> step o t <> Panic.
  Hypothesis step_frame : forall o t t' q,
      wf_root t = true -> okop o -> step o t = Ok t' -> indep o q -> yget q t' = yget q t.

  Lemma run_inv ops t t' :
    wf_root t = true -> Forall okop ops -> run step ops t = Some t' -> wf_root t' = true.
  Proof.
    revert t. induction ops as [|o r IH]; intros t Hw Hok H; cbn in H.
    - now inversion H; subst.
    - inversion Hok; subst. destruct (step o t) eqn:E; try discriminate; eauto.
  Qed.

  Lemma run_total ops t : wf_root t = true -> Forall okop ops -> run step ops t <> None.
  Proof.
    revert t. induction ops as [|o r IH]; intros t Hw Hok; cbn; [discriminate|].
    inversion Hok; subst. destruct (step o t) eqn:E; eauto. exfalso. eapply step_total; eauto.
  Qed.

  Lemma run_frame ops t t' q :
    wf_root t = true -> Forall okop ops -> run step ops t = Some t' ->
    Forall (fun o => indep o q) ops -> yget q t' = yget q t.
  Proof.
    revert t. induction ops as [|o r IH]; intros t Hw Hok H Hi; cbn in H.
    - now inversion H.
    - inversion Hok; subst. inversion Hi; subst. destruct (step o t) eqn:E; try discriminate.
      + rewrite (IH a); eauto.
      + eauto.
  Qed.
End Run.

Definition op_wf (o : op) : Prop := match o with OSet _ v => wf v = true | ORm _ => True end.

(* direct API sequences *)
Definition api_indep (o : op) (q : path) : Prop :=
  match o with
  | OSet p _ => related p q = false
  | ORm p => related p q = false /\ shift_del p q = q
  end.

Lemma api_step_inv pr o t t' :
  set_params_ok pr = true -> wf_root t = true -> op_wf o -> api_step pr o t = Ok t' -> wf_root t' = true.
Proof.
  intros Hp Hw Ho H. destruct o as [p v|p]; cbn in *.
  - apply wf_wf_root. eapply set_wf; eauto.
  - eapply delete_wf; eauto.
Qed.

Lemma api_step_total pr o t : params_ok pr = true -> wf_root t = true -> api_step pr o t <> Panic.
Proof.
  unfold params_ok. intros Hp Hw. apply andb_true_iff in Hp as [_ Hd]. destruct o as [p v|p]; cbn.
  - now apply set_total.
  - now apply delete_total.
Qed.

Lemma api_step_frame pr o t t' q :
  wf_root t = true -> api_step pr o t = Ok t' -> api_indep o q -> yget q t' = yget q t.
Proof.
  intros Hw H Hi. destruct o as [p v|p]; cbn in *.
  - eapply set_frame; eauto.
  - destruct Hi as [Hr Hs]. rewrite <- Hs at 1. eapply delete_frame; eauto.
Qed.

Theorem api_run_wf pr ops t t' :
  params_ok pr = true -> wf_root t = true -> Forall op_wf ops ->
  run (api_step pr) ops t = Some t' -> wf_root t' = true.
Proof.
  intros Hp. apply andb_true_iff in Hp as [Hs _].
  apply run_inv. intros o x x' Hw Ho. now apply api_step_inv.
Qed.

Theorem api_run_total pr ops t :
  params_ok pr = true -> wf_root t = true -> Forall op_wf ops -> run (api_step pr) ops t <> None.
Proof.
  intros Hp. pose proof Hp as Hp'. apply andb_true_iff in Hp' as [Hs _].
  apply run_total.
  - intros o x x' Hw Ho. now apply api_step_inv.
  - intros o x Hw _. now apply api_step_total.
Qed.

Theorem api_run_frame pr ops t t' q :
  params_ok pr = true -> wf_root t = true -> Forall op_wf ops ->
  run (api_step pr) ops t = Some t' -> Forall (fun o => api_indep o q) ops -> yget q t' = yget q t.
Proof.
  intros Hp. apply andb_true_iff in Hp as [Hs _].
  apply run_frame.
  - intros o x x' Hw Ho. now apply api_step_inv.
  - intros o x x' q' Hw _. now apply api_step_frame.
Qed.

(* the value set at p is still there after any later operations that do not touch p *)
Theorem api_run_get_set pr p v t1 t2 ops t3 :
  params_ok pr = true -> wf_root t1 = true -> wf v = true -> Forall op_wf ops ->
  yset pr p v t1 = Ok t2 -> run (api_step pr) ops t2 = Some t3 ->
  Forall (fun o => api_indep o p) ops ->
  exists m, yget p t3 = GFound m /\ denote m = denote v.
Proof.
  intros Hp Hw Hv Hops Hs Hr Hi. pose proof Hp as Hp'. apply andb_true_iff in Hp' as [Hsp _].
  destruct (get_set _ _ _ _ _ Hsp Hs) as (m & Hg & Hd). exists m. split; auto.
  rewrite <- Hg. eapply api_run_frame; eauto. apply wf_wf_root. eapply set_wf; eauto.
Qed.

(* CLI sequences *)
Definition cli_indep (pr : params) (o : op) (q : path) : Prop :=
  match o with
  | OSet p _ => related (full_path p) q = false
  | ORm p => related (rm_path pr p) q = false /\ shift_del (rm_path pr p) q = q
  end.

Lemma cli_step_inv pr o t t' :
  set_params_ok pr = true -> wf_root t = true -> op_wf o -> cli_step pr o t = Ok t' -> wf_root t' = true.
Proof.
  intros Hp Hw Ho H. destruct o as [p v|p]; cbn in *.
  - apply wf_wf_root. eapply env_set_wf; eauto.
  - eapply env_rm_wf; eauto.
Qed.

Lemma cli_step_total pr o t : params_ok pr = true -> wf_root t = true -> cli_step pr o t <> Panic.
Proof.
  unfold params_ok. intros Hp Hw. apply andb_true_iff in Hp as [Hs Hd]. destruct o as [p v|p]; cbn.
  - now apply env_set_total.
  - now apply env_rm_total.
Qed.

Lemma cli_step_frame pr o t t' q :
  set_params_ok pr = true -> wf_root t = true -> cli_step pr o t = Ok t' -> cli_indep pr o q ->
  yget q t' = yget q t.
Proof.
  intros Hp Hw H Hi. destruct o as [p v|p]; cbn in *.
  - eapply env_set_frame; eauto.
  - destruct Hi as [Hr Hs]. destruct p as [|a p].
    + unfold env_rm, rm_from_root, env_rm_values in H. destruct (nkind t); try congruence;
        (destruct (yget [AKey values_key] t); try discriminate; [|congruence];
         destruct (p_del_empty pr); cbn in H; try discriminate; congruence).
    + rewrite <- Hs at 1. eapply env_rm_frame; eauto. congruence.
Qed.

Theorem cli_run_wf pr ops t t' :
  params_ok pr = true -> wf_root t = true -> Forall op_wf ops ->
  run (cli_step pr) ops t = Some t' -> wf_root t' = true.
Proof.
  intros Hp. apply andb_true_iff in Hp as [Hs _].
  apply run_inv. intros o x x' Hw Ho. now apply cli_step_inv.
Qed.

Theorem cli_run_total pr ops t :
  params_ok pr = true -> wf_root t = true -> Forall op_wf ops -> run (cli_step pr) ops t <> None.
Proof.
  intros Hp. pose proof Hp as Hp'. apply andb_true_iff in Hp' as [Hs _].
  apply run_total.
  - intros o x x' Hw Ho. now apply cli_step_inv.
  - intros o x Hw _. now apply cli_step_total.
Qed.

Theorem cli_run_frame pr ops t t' q :
  params_ok pr = true -> wf_root t = true -> Forall op_wf ops ->
  run (cli_step pr) ops t = Some t' -> Forall (fun o => cli_indep pr o q) ops -> yget q t' = yget q t.
Proof.
  intros Hp. apply andb_true_iff in Hp as [Hs _].
  apply run_frame.
  - intros o x x' Hw Ho. now apply cli_step_inv.
  - intros o x x' q' Hw _. now apply cli_step_frame.
Qed.

Theorem cli_run_get_set pr p v t1 t2 ops t3 :
  params_ok pr = true -> wf_root t1 = true -> wf v = true -> Forall op_wf ops ->
  env_set pr p v t1 = Ok t2 -> run (cli_step pr) ops t2 = Some t3 ->
  Forall (fun o => cli_indep pr o (full_path p)) ops ->
  exists m, env_get p t3 = GFound m /\ denote m = denote v.
Proof.
  intros Hp Hw Hv Hops Hs Hr Hi. pose proof Hp as Hp'. apply andb_true_iff in Hp' as [Hsp _].
  destruct (env_get_set _ _ _ _ _ Hsp Hw Hs) as (m & Hg & Hd). exists m. split; auto.
  rewrite <- Hg. rewrite !env_get_full. eapply cli_run_frame; eauto.
  apply wf_wf_root. eapply env_set_wf; eauto.
Qed.
