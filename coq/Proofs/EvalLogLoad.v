(* Proofs/EvalLogLoad.v — the load discipline of eval_env, for EVERY fault plan.
   A load that succeeds (the call is not the faulted one and the loader returns a parsed definition) gets an
   [imps] entry, entries are never removed, and a name with an entry is never loaded again: successful loads are
   pairwise distinct ([load_at_most_once]) and NO load of a name follows a successful load of it ([retry_ok]).
   A load that FAILS (loader error, unparsable definition, faulted call) registers nothing — eval.evaluateImport
   returns before the name reaches e.imports — so the next listing of the same name loads it again: the property's
   "each imported environment is loaded at most once" is false of the model and of the code
   ([load_at_most_once_refuted], known finding C05-failed-load-retried) and holds exactly outside the decidable
   class [retried_failed] ([loads_once_outside_class]).
   Whether the k-th call was the faulted one is read off the log position, which is sound because
   [calls = length log] is part of the invariant. *)
From Coq Require Import Lia ZifyN ZifyNat ZifyBool.
From Verif Require Import Base.Bytes Model.Chain Model.GoText Model.Envelope Model.Eval.
From Verif Require Import Proofs.EvalLogKit Proofs.EvalLogInd Proofs.EvalLog.

Definition ok_load (W : world) (n : string) : bool :=
  match alookup n (w_envs W) with Some (LoadOk _) => true | _ => false end.

Definition fault_at (W : world) (k : N) : bool :=
  match w_fault W with Some j => j =? k | None => false end.

(* names of the loads in the log that succeeded; the event at position i from the OLDEST end is call number i *)
Fixpoint succ_loads (W : world) (l : list ev) : list string :=
  match l with
  | [] => []
  | EvLoad n :: r =>
      if ok_load W n && negb (fault_at W (N.of_nat (length r))) then n :: succ_loads W r else succ_loads W r
  | _ :: r => succ_loads W r
  end.

Lemma succ_loads_not_load W e l : is_load e = false -> succ_loads W (e :: l) = succ_loads W l.
Proof. destruct e; cbn; intros H; try reflexivity; discriminate. Qed.

(* names of ALL loads in the log, and of those that failed *)
Fixpoint all_loads (l : list ev) : list string :=
  match l with
  | [] => []
  | EvLoad n :: r => n :: all_loads r
  | _ :: r => all_loads r
  end.

Fixpoint failed_loads (W : world) (l : list ev) : list string :=
  match l with
  | [] => []
  | EvLoad n :: r =>
      if ok_load W n && negb (fault_at W (N.of_nat (length r))) then failed_loads W r else n :: failed_loads W r
  | _ :: r => failed_loads W r
  end.

(* the retry discipline: when a name is loaded, no EARLIER load of it succeeded (the log is newest first) *)
Fixpoint retry_ok (W : world) (l : list ev) : Prop :=
  match l with
  | [] => True
  | EvLoad n :: r => ~ In n (succ_loads W r) /\ retry_ok W r
  | _ :: r => retry_ok W r
  end.

Lemma retry_ok_not_load W e l : is_load e = false -> retry_ok W (e :: l) = retry_ok W l.
Proof. destruct e; cbn; intros H; try reflexivity; discriminate. Qed.

Definition hasI (s : st) (n : string) : Prop := alookup n (imps s) <> None.

Lemma hasI_cons (m : list (string * imp_state)) n k v : alookup n m <> None -> alookup n ((k, v) :: m) <> None.
Proof. intros H. cbn. destruct (String.eqb n k); [discriminate|exact H]. Qed.

Lemma hasI_self (m : list (string * imp_state)) n v : alookup n ((n, v) :: m) <> None.
Proof. cbn. rewrite String.eqb_refl. discriminate. Qed.

Section Load.
Variable W : world.
Notation sl := (succ_loads W).

Definition load_inv (s : st) : Prop :=
  calls s = N.of_nat (length (log s)) /\ NoDup (sl (log s)) /\ (forall n, In n (sl (log s)) -> hasI s n)
  /\ retry_ok W (log s).

(* the invariant while environment [name] has been loaded but is not yet registered in [imps] *)
Definition load_inv_x (name : string) (s : st) : Prop :=
  calls s = N.of_nat (length (log s)) /\ NoDup (sl (log s)) /\ (forall n, In n (sl (log s)) -> n = name \/ hasI s n)
  /\ retry_ok W (log s).

Definition lframe (g s : st) : Prop :=
  (forall n, hasI g n -> hasI s n) /\ (forall n, hasI g n -> In n (sl (log s)) -> In n (sl (log g))).

Definition RL (g s : st) : Prop := lframe g s /\ (load_inv g -> load_inv s).

Lemma lframe_refl s : lframe s s.
Proof. split; auto. Qed.
Lemma lframe_trans g s s' : lframe g s -> lframe s s' -> lframe g s'.
Proof. intros [A1 B1] [A2 B2]. split; auto. Qed.
Lemma RL_refl s : RL s s.
Proof. split; [apply lframe_refl|auto]. Qed.
Lemma RL_trans g s s' : RL g s -> RL s s' -> RL g s'.
Proof. intros [F1 C1] [F2 C2]. split; [eapply lframe_trans; eassumption|auto]. Qed.

Lemma load_inv_weaken name s : load_inv s -> load_inv_x name s.
Proof. intros (C & ND & H & RT). split; [exact C|]. split; [exact ND|]. split; [|exact RT]. intros n Hn. right. exact (H n Hn). Qed.

(* operations that change neither imps, log nor calls *)
Lemma RL_same g s s' : imps s' = imps s -> log s' = log s -> calls s' = calls s -> RL g s -> RL g s'.
Proof.
  intros Hi Hl Hc [[A B] C]. unfold RL, lframe, load_inv, hasI in *. rewrite Hi, Hl, Hc. auto.
Qed.

Lemma lframe_same g s s' : imps s' = imps s -> log s' = log s -> lframe g s -> lframe g s'.
Proof. intros Hi Hl [A B]. unfold lframe, hasI in *. rewrite Hi, Hl. auto. Qed.

Lemma RL_event g e s : is_load e = false -> RL g s -> RL g (snd (emit e (snd (call W s)))).
Proof.
  intros He [[A B] C]. split; [split|].
  - exact A.
  - intros n Hn. cbn [emit call snd log]. rewrite succ_loads_not_load by exact He. exact (B n Hn).
  - intros Hg. destruct (C Hg) as (Hc & ND & H & RT). unfold load_inv, hasI. cbn [emit call snd log calls imps].
    rewrite succ_loads_not_load by exact He. rewrite retry_ok_not_load by exact He.
    split; [cbn [length]; lia|]. split; [exact ND|]. split; [exact H|exact RT].
Qed.

Lemma ev_ok_not_load IdOK E e : ev_ok W IdOK E e -> is_load e = false.
Proof. destruct e; cbn; [intros []|reflexivity..]. Qed.

Lemma RL_imps_set g n v s : RL g s -> RL g (snd (imps_set n v s)).
Proof.
  intros [[A B] C]. split; [split|].
  - intros n' Hn'. unfold hasI. cbn. apply hasI_cons. exact (A n' Hn').
  - exact B.
  - intros Hg. destruct (C Hg) as (Hc & ND & H & RT). split; [exact Hc|]. split; [exact ND|]. split; [|exact RT].
    intros n' Hn'. unfold hasI. cbn. apply hasI_cons. exact (H n' Hn').
Qed.

(* ---- expression level: instance of the generic induction ---- *)
Let R (_ : ectx) := RL.
Let T (_ : ectx) (_ : eid) := RL.

Theorem eval_load : forall fuel E x xsec xbase id g, preserves (RL g) (eval_expr W fuel E x xsec xbase id).
Proof.
  intros fuel E x xsec xbase id g.
  refine (proj1 (eval_ind_pres W Id_any id_closed_any R _ _ _ _ (fun _ _ => True) T _ _ _ _ fuel) E x xsec xbase id g I).
  - intros E0 s. apply RL_refl.
  - intros E0 g0 n s Hs. eapply RL_same; [| | |exact Hs]; reflexivity.
  - intros E0 g0 s Hs. eapply RL_same; [| | |exact Hs]; reflexivity.
  - intros E0 g0 e s He _ Hs. apply RL_event; [exact (ev_ok_not_load _ _ _ He)|exact Hs].
  - intros E0 id0 s s' _ H. exact H.
  - intros E0 id0 s n s' Hs. eapply RL_same; [| | |exact Hs]; reflexivity.
  - intros E0 id0 s s1 p xin _ Hr _. apply RL_event; [reflexivity|exact Hr].
  - intros E0 id0 g0 s0 Hr _. split; [exact I|]. intros s2 v H2.
    eapply RL_same with (s := s2); try reflexivity.
    eapply RL_trans; [|exact H2]. eapply RL_same; [| | |exact Hr]; reflexivity.
Qed.

(* ---- one import whose name has no [imps] entry: the load event ---- *)
Lemma lframe_load g n s :
  lframe g s -> alookup n (imps s) = None -> lframe g (snd (emit (EvLoad n) (snd (call W s)))).
Proof.
  intros [A B] Hnone. split.
  - exact A.
  - intros n' Hn' Hin. cbn [emit call snd log succ_loads] in Hin.
    destruct (ok_load W n && negb (fault_at W (N.of_nat (length (log s))))); [|exact (B n' Hn' Hin)].
    destruct Hin as [<-|Hin]; [|exact (B n' Hn' Hin)]. exfalso. exact (A n Hn' Hnone).
Qed.

Lemma call_failed s : calls s = N.of_nat (length (log s)) -> fst (call W s) = fault_at W (N.of_nat (length (log s))).
Proof. intros H. unfold call, fault_at. cbn. rewrite H. reflexivity. Qed.

(* the load did not succeed: the invariant simply continues *)
Lemma load_inv_failed n s :
  load_inv s -> alookup n (imps s) = None -> ok_load W n && negb (fst (call W s)) = false ->
  load_inv (snd (emit (EvLoad n) (snd (call W s)))).
Proof.
  intros (Hc & ND & H & RT) Hnone Hf. rewrite (call_failed s Hc) in Hf.
  unfold load_inv, hasI. cbn [emit call snd log calls imps succ_loads retry_ok]. rewrite Hf.
  split; [cbn [length]; lia|]. split; [exact ND|]. split; [exact H|].
  split; [|exact RT]. intros Hin. exact (H n Hin Hnone).
Qed.

(* the load succeeded: [n] is pending until it is registered *)
Lemma load_inv_succeeded n s :
  load_inv s -> alookup n (imps s) = None ->
  load_inv_x n (snd (emit (EvLoad n) (snd (call W s)))).
Proof.
  intros (Hc & ND & H & RT) Hnone.
  assert (RT' : ~ In n (sl (log s)) /\ retry_ok W (log s)).
  { split; [|exact RT]. intros Hin. exact (H n Hin Hnone). }
  unfold load_inv_x, hasI. cbn [emit call snd log calls imps succ_loads retry_ok].
  split; [cbn [length]; lia|].
  destruct (ok_load W n && negb (fault_at W (N.of_nat (length (log s))))).
  - split; [|split; [|exact RT']].
    + constructor; [|exact ND]. intros Hin. exact (H n Hin Hnone).
    + intros n' [<-|Hin]; [now left|right; exact (H n' Hin)].
  - split; [exact ND|]. split; [|exact RT']. intros n' Hin. right. exact (H n' Hin).
Qed.

Lemma load_inv_register n v s : load_inv_x n s -> load_inv (snd (imps_set n v s)).
Proof.
  intros (Hc & ND & H & RT). split; [exact Hc|]. split; [exact ND|]. split; [|exact RT].
  intros n' Hin. unfold hasI. cbn. destruct (H n' Hin) as [->|Hh]; [apply hasI_self|apply hasI_cons, Hh].
Qed.

(* ---- environment level ---- *)
Definition spec_env (fuel : nat) : Prop :=
  forall root name d s,
    lframe s (snd (eval_env W fuel root name d s))
    /\ (load_inv_x name s -> load_inv_x name (snd (eval_env W fuel root name d s))).

Lemma import_loop_RL f root' :
  spec_env f -> forall is base my g, preserves (RL g) (import_loop W f root' is base my).
Proof.
  intros IH. induction is as [|[n merge] rest IHl]; intros base my g; [apply pres_ret|].
  change (preserves (RL g)
    (s <- imps_get n ;;
     match s with
     | Some i =>
         if is_evaluating i then err ;;; import_loop W f root' rest base my
         else import_loop W f root' rest
                (if merge then (match is_value i with Some v => v | None => [] end) ++ base else base)
                (ainsert n (match is_value i with Some v => v | None => [] end) my)
     | None =>
         failed <- call W ;;
         emit (EvLoad n) ;;;
         match (if failed then LoadFail
                else match alookup n (w_envs W) with Some l => l | None => LoadFail end) with
         | LoadFail => err ;;; import_loop W f root' rest base my
         | LoadNoParse => err ;;; import_loop W f root' rest base my
         | LoadOk d' =>
             v <- eval_env W f root' n d' ;;
             imps_set n {| is_evaluating := false; is_value := Some v |} ;;;
             import_loop W f root' rest (if merge then v ++ base else base) (ainsert n v my)
         end
     end)).
  assert (forall g', preserves (RL g') (err ;;; import_loop W f root' rest base my)) as Lerr.
  { intros g'. apply pres_bind; [|intros _; apply IHl].
    intros s Hs. eapply RL_same; [| | |exact Hs]; reflexivity. }
  intros s Hs. rewrite bind_run.
  change (snd (imps_get n s)) with s. change (fst (imps_get n s)) with (alookup n (imps s)).
  destruct (alookup n (imps s)) as [i|] eqn:Hnone.
  - destruct (is_evaluating i); [apply Lerr, Hs|apply IHl, Hs].
  - rewrite bind_run, bind_run.
    set (s1 := snd (emit (EvLoad n) (snd (call W s)))).
    change (snd (call W s)) with (snd (call W s)) in *.
    destruct Hs as [Hf Hinv].
    assert (lframe g s1) as Hf1 by (apply lframe_load; assumption).
    assert (ok_load W n && negb (fst (call W s)) = false -> RL g s1) as Hfail.
    { intros Hno. split; [exact Hf1|]. intros Hg. apply load_inv_failed; auto. }
    unfold ok_load in Hfail.
    destruct (fst (call W s)) eqn:Hfailed.
    { apply Lerr. apply Hfail. apply andb_false_r. }
    destruct (alookup n (w_envs W)) as [[| |d']|] eqn:Hlk;
      try (apply Lerr; apply Hfail; reflexivity).
    rewrite bind_run, bind_run.
    destruct (IH root' n d' s1) as [Hf2 Hx2].
    set (s2 := snd (eval_env W f root' n d' s1)) in *.
    apply IHl. split.
    + apply lframe_trans with (s := s2).
      * eapply lframe_trans; [exact Hf1|exact Hf2].
      * split; [|auto]. intros n' Hn'. unfold hasI. cbn. apply hasI_cons. exact Hn'.
    + intros Hg. apply load_inv_register. apply Hx2. apply load_inv_succeeded; auto.
Qed.

Theorem eval_env_load : forall fuel, spec_env fuel.
Proof.
  induction fuel as [|f IH]; intros root name d s.
  { rewrite eval_env_O, bind_run, snd_ret. split.
    - eapply lframe_same; [| |apply lframe_refl]; reflexivity.
    - intros H. exact H. }
  rewrite eval_env_S.
  rewrite bind_run.
  set (sa := snd (imps_set name {| is_evaluating := true; is_value := None |} s)).
  assert (RL sa (snd ((r <- import_loop W f (eff_root root name) (ed_imports d) [] [] ;;
     let '(base, my) := r in
     imps_set name {| is_evaluating := false; is_value := None |} ;;;
     add_err (N.of_nat (length (filter (fun kv => reserved (fst kv)) (ed_values d)))) ;;;
     let E := env_ctx W (eff_root root name) name d base my in
     eval_expr W f E (EObj (ec_values E)) false base (name, [])) sa))) as Hrest.
  { apply (pres_bind (RL sa)); [apply import_loop_RL, IH| |apply RL_refl].
    intros [base my]. apply pres_bind; [intros s0 Hs0; apply RL_imps_set, Hs0|]. intros _.
    apply pres_bind; [intros s0 Hs0; eapply RL_same; [| | |exact Hs0]; reflexivity|]. intros _.
    cbv zeta. apply eval_load. }
  destruct Hrest as [Hf Hinv]. split.
  - eapply lframe_trans; [|exact Hf]. split; [|auto].
    intros n' Hn'. unfold hasI. cbn. apply hasI_cons. exact Hn'.
  - intros Hx. apply load_inv_weaken. apply Hinv. apply load_inv_register. exact Hx.
Qed.

End Load.

(* ------------------------------------------------------------------------------------------- *)
(** * load_at_most_once *)

Theorem load_at_most_once W fuel root name d :
  NoDup (succ_loads W (log (snd (eval_env W fuel root name d st0)))).
Proof.
  destruct (eval_env_load W fuel root name d st0) as [_ H].
  apply H. split; [reflexivity|]. split; [constructor|]. split; [intros n []|exact I].
Qed.

(* without a fault plan, the successful loads are exactly the loads of names the loader knows *)
Fixpoint ok_loads (W : world) (l : list ev) : list string :=
  match l with
  | [] => []
  | EvLoad n :: r => if ok_load W n then n :: ok_loads W r else ok_loads W r
  | _ :: r => ok_loads W r
  end.

Lemma succ_loads_no_fault W l : w_fault W = None -> succ_loads W l = ok_loads W l.
Proof.
  intros Hf. induction l as [|e l IH]; [reflexivity|].
  destruct e; cbn; try exact IH. unfold fault_at. rewrite Hf. cbn. rewrite andb_true_r, IH. reflexivity.
Qed.

Theorem load_at_most_once_no_fault W fuel root name d :
  w_fault W = None -> NoDup (ok_loads W (log (snd (eval_env W fuel root name d st0)))).
Proof. intros Hf. rewrite <- succ_loads_no_fault by exact Hf. apply load_at_most_once. Qed.

(* a name that already has an [imps] entry is not loaded (successfully) by the evaluation *)
Theorem registered_not_loaded W fuel root name d s n :
  alookup n (imps s) <> None ->
  In n (succ_loads W (log (snd (eval_env W fuel root name d s)))) -> In n (succ_loads W (log s)).
Proof. intros Hh. exact (proj2 (proj1 (eval_env_load W fuel root name d s)) n Hh). Qed.

(* about the observable log of [run] (oldest event first) *)
Lemma ok_loads_app W a b : ok_loads W (a ++ b) = ok_loads W a ++ ok_loads W b.
Proof.
  induction a as [|e a IH]; [reflexivity|]. destruct e; cbn; try exact IH.
  destruct (ok_load W name); [cbn; now rewrite IH|exact IH].
Qed.

Lemma ok_loads_rev W l : ok_loads W (rev l) = rev (ok_loads W l).
Proof.
  induction l as [|e l IH]; [reflexivity|]. cbn [rev]. rewrite ok_loads_app, IH.
  destruct e; cbn; rewrite ?app_nil_r; try reflexivity.
  destruct (ok_load W name); cbn; [reflexivity|now rewrite app_nil_r].
Qed.

Theorem run_load_at_most_once_no_fault fuel W name d :
  w_fault W = None -> NoDup (ok_loads W (ob_log (run fuel W name d))).
Proof. intros Hf. rewrite run_log, ok_loads_rev. apply NoDup_rev, load_at_most_once_no_fault, Hf. Qed.

(* ------------------------------------------------------------------------------------------- *)
(** * ALL loads: the retry discipline, the refutation of "every environment is loaded at most once", and the
      exact class outside which it holds *)

Theorem load_retry_ok W fuel root name d : retry_ok W (log (snd (eval_env W fuel root name d st0))).
Proof.
  destruct (eval_env_load W fuel root name d st0) as [_ H].
  apply H. split; [reflexivity|]. split; [constructor|]. split; [intros n []|exact I].
Qed.

Lemma all_loads_split W l n : In n (all_loads l) -> In n (succ_loads W l) \/ In n (failed_loads W l).
Proof.
  induction l as [|e l IH]; [intros []|]. destruct e; cbn; try exact IH.
  destruct (ok_load W name && negb (fault_at W (N.of_nat (length l)))); cbn; intros [<-|H]; auto;
    destruct (IH H); auto.
Qed.

Lemma failed_loads_sub W l n : In n (failed_loads W l) -> In n (all_loads l).
Proof.
  induction l as [|e l IH]; [intros []|]. destruct e; cbn; try exact IH.
  destruct (ok_load W name && negb (fault_at W (N.of_nat (length l)))); cbn; [auto|]. intros [<-|H]; auto.
Qed.

Definition count_name (n : string) (l : list string) : nat := count_occ string_dec l n.

(* a name that is loaded twice has a failed load *)
Lemma retry_dup_failed W l : retry_ok W l -> forall n, (2 <= count_name n (all_loads l))%nat -> In n (failed_loads W l).
Proof.
  unfold count_name. induction l as [|e l IH]; intros RT n Hc; [cbn in Hc; lia|].
  destruct e; cbn in RT, Hc |- *; try exact (IH RT n Hc).
  destruct RT as [Hno RT].
  assert (forall X : bool, In n (failed_loads W l) ->
          In n (if X then failed_loads W l else name :: failed_loads W l)) as Hw.
  { intros [|] H; [exact H|right; exact H]. }
  destruct (string_dec name n) as [->|Hne].
  - assert (In n (all_loads l)) as Hin by (apply (count_occ_In string_dec); lia).
    apply Hw. destruct (all_loads_split W l n Hin) as [Hs|Hf]; [contradiction|exact Hf].
  - apply Hw. apply IH; [exact RT|exact Hc].
Qed.

(* the decidable class of the known finding C05-failed-load-retried: some FAILED load's name is loaded more than once *)
Definition retried_failed (W : world) (l : list ev) : bool :=
  existsb (fun n => Nat.ltb 1 (count_name n (all_loads l))) (failed_loads W l).

Theorem loads_once_outside_class W l : retry_ok W l -> retried_failed W l = false -> NoDup (all_loads l).
Proof.
  intros RT Hc. apply (NoDup_count_occ string_dec). intros n.
  destruct (Nat.leb_spec 2 (count_occ string_dec (all_loads l) n)) as [H2|H2]; [|lia].
  exfalso. pose proof (retry_dup_failed W l RT n H2) as Hf.
  assert (retried_failed W l = true) as Ht.
  { unfold retried_failed. apply existsb_exists. exists n. split; [exact Hf|]. apply Nat.ltb_lt. exact H2. }
  rewrite Ht in Hc. discriminate.
Qed.

(* inside the class the statement is false, trivially: the class says a name occurs twice *)
Lemma class_not_once W l : retried_failed W l = true -> ~ NoDup (all_loads l).
Proof.
  intros Hc ND. unfold retried_failed in Hc. apply existsb_exists in Hc. destruct Hc as (n & _ & Hn).
  apply Nat.ltb_lt in Hn. pose proof (proj1 (NoDup_count_occ string_dec _) ND n). unfold count_name in Hn. lia.
Qed.

Theorem load_at_most_once_partial W fuel root name d :
  retried_failed W (log (snd (eval_env W fuel root name d st0))) = false ->
  NoDup (all_loads (log (snd (eval_env W fuel root name d st0)))).
Proof. apply loads_once_outside_class, load_retry_ok. Qed.

(* a load that is followed by another load of the same name was a failed one (newest-first log: [a] is later) *)
Theorem reload_only_after_failure W fuel root name d a n b :
  log (snd (eval_env W fuel root name d st0)) = a ++ EvLoad n :: b ->
  In n (all_loads a) ->
  (ok_load W n && negb (fault_at W (N.of_nat (length b)))) = false.
Proof.
  intros Hl Hin. pose proof (load_retry_ok W fuel root name d) as RT. rewrite Hl in RT. clear Hl.
  induction a as [|e a IH]; [destruct Hin|].
  destruct e; cbn in RT, Hin; try exact (IH Hin RT).
  destruct RT as [Hno RT]. destruct Hin as [->|Hin]; [|exact (IH Hin RT)].
  destruct (ok_load W n && negb (fault_at W (N.of_nat (length b)))) eqn:E; [|reflexivity].
  exfalso. apply Hno. clear -E. induction a as [|e a IH]; cbn.
  - rewrite E. now left.
  - destruct e; cbn; try exact IH.
    destruct (ok_load W name && negb (fault_at W (N.of_nat (length (a ++ EvLoad n :: b))))); [right|]; exact IH.
Qed.

(* ---- the witness: an import that cannot be parsed, listed three times; no fault plan ---- *)
Definition W_badimport : world :=
  {| w_envs := [("bad", LoadNoParse)]; w_provs := []; w_ctx := []; w_check := false; w_show := false;
     w_fault := None; w_decrypt := fun _ _ => None |}.
Definition d_triple_bad : envdef :=
  {| ed_imports := [("bad", true); ("bad", true); ("bad", true)]; ed_values := [("z", ENull)] |}.
(* the same through two import paths: root -> a -> bad, root -> b -> bad; here the loader fails *)
Definition W_twopaths : world :=
  {| w_envs := [("a", LoadOk {| ed_imports := [("bad", true)]; ed_values := [("x", ENum "1")] |});
                ("b", LoadOk {| ed_imports := [("bad", true)]; ed_values := [("y", ENum "1")] |});
                ("bad", LoadFail)];
     w_provs := []; w_ctx := []; w_check := false; w_show := false; w_fault := None; w_decrypt := fun _ _ => None |}.
Definition d_twopaths : envdef := {| ed_imports := [("a", true); ("b", true)]; ed_values := [("z", ENull)] |}.

Example retried_load_logs :
  ob_log (run 30 W_badimport "root" d_triple_bad) = [EvLoad "bad"; EvLoad "bad"; EvLoad "bad"]
  /\ ob_log (run 30 W_twopaths "root" d_twopaths) = [EvLoad "a"; EvLoad "bad"; EvLoad "b"; EvLoad "bad"]
  /\ retried_failed W_badimport (log (snd (eval_env W_badimport 30 "" "root" d_triple_bad st0))) = true
  /\ retried_failed W_twopaths (log (snd (eval_env W_twopaths 30 "" "root" d_twopaths st0))) = true.
Proof. vm_compute. repeat split. Qed.

(* the property's load clause, as written ("each imported environment is loaded at most once per evaluation"),
   is false of the model — and of eval.evaluateImport, see known finding C05-failed-load-retried *)
Theorem load_at_most_once_refuted :
  ~ (forall W fuel root name d, NoDup (all_loads (log (snd (eval_env W fuel root name d st0))))).
Proof.
  intros H. specialize (H W_badimport 30%nat "" "root" d_triple_bad).
  assert (E : all_loads (log (snd (eval_env W_badimport 30 "" "root" d_triple_bad st0))) = ["bad"; "bad"; "bad"])
    by (vm_compute; reflexivity).
  rewrite E in H. inversion H as [|x l Hn _]. apply Hn. now left.
Qed.

(* chronological log of [run] *)
Lemma all_loads_app a b : all_loads (a ++ b) = all_loads a ++ all_loads b.
Proof. induction a as [|e a IH]; [reflexivity|]. destruct e; cbn; try exact IH. now rewrite IH. Qed.

Lemma all_loads_rev l : all_loads (rev l) = rev (all_loads l).
Proof.
  induction l as [|e l IH]; [reflexivity|]. cbn [rev]. rewrite all_loads_app, IH.
  destruct e; cbn; rewrite ?app_nil_r; reflexivity.
Qed.

Theorem run_load_at_most_once_partial fuel W name d :
  retried_failed W (log (snd (eval_env W fuel "" name d st0))) = false ->
  NoDup (all_loads (ob_log (run fuel W name d))).
Proof. intros H. rewrite run_log, all_loads_rev. apply NoDup_rev, load_at_most_once_partial, H. Qed.
