(* Proofs/EvalLogLoad.v — the load discipline of eval_env, for EVERY fault plan.
   EVERY load gets an [imps] entry: a load that succeeds registers its value, a load that FAILS (loader error,
   unparsable definition, faulted call) registers the failure (eval.evaluateImport: `imported{failed: true}` - the
   repair of the former known finding C05-failed-load-retried); entries are never removed, and a name with an entry
   is never loaded again.  Hence the names of ALL loads of an evaluation are pairwise distinct
   ([load_at_most_once_all] = the property's "each imported environment is loaded at most once").  The statements
   that were the provable part before the repair (successful loads, the retry discipline, the class
   [retried_failed]) are kept as corollaries; the class is empty on the model's logs ([retried_failed_never]). *)
From Coq Require Import Lia ZifyN ZifyNat ZifyBool.
From Verif Require Import Base.Bytes Model.Chain Model.GoText Model.Envelope Model.Eval.
From Verif Require Import Proofs.EvalLogKit Proofs.EvalLogInd Proofs.EvalLog.

Definition ok_load (W : world) (n : string) : bool :=
  match alookup n (w_envs W) with Some (LoadOk _) => true | _ => false end.

Definition fault_at (W : world) (k : N) : bool :=
  match w_fault W with Some j => j =? k | None => false end.

(* names of the loads in the log that succeeded; the event at position i from the OLDEST end is call number i *)
Fixpoint succ_loads (W : world) (l : list ev) : list string :=
  match l with
  | [] => []
  | EvLoad n :: r =>
      if ok_load W n && negb (fault_at W (N.of_nat (length r))) then n :: succ_loads W r else succ_loads W r
  | _ :: r => succ_loads W r
  end.

Lemma succ_loads_not_load W e l : is_load e = false -> succ_loads W (e :: l) = succ_loads W l.
Proof. destruct e; cbn; intros H; try reflexivity; discriminate. Qed.

(* names of ALL loads in the log, and of those that failed *)
Fixpoint all_loads (l : list ev) : list string :=
  match l with
  | [] => []
  | EvLoad n :: r => n :: all_loads r
  | _ :: r => all_loads r
  end.

Fixpoint failed_loads (W : world) (l : list ev) : list string :=
  match l with
  | [] => []
  | EvLoad n :: r =>
      if ok_load W n && negb (fault_at W (N.of_nat (length r))) then failed_loads W r else n :: failed_loads W r
  | _ :: r => failed_loads W r
  end.

(* the retry discipline: when a name is loaded, no EARLIER load of it succeeded (the log is newest first) *)
Fixpoint retry_ok (W : world) (l : list ev) : Prop :=
  match l with
  | [] => True
  | EvLoad n :: r => ~ In n (succ_loads W r) /\ retry_ok W r
  | _ :: r => retry_ok W r
  end.

Lemma retry_ok_not_load W e l : is_load e = false -> retry_ok W (e :: l) = retry_ok W l.
Proof. destruct e; cbn; intros H; try reflexivity; discriminate. Qed.

Definition hasI (s : st) (n : string) : Prop := alookup n (imps s) <> None.

Lemma hasI_cons (m : list (string * imp_state)) n k v : alookup n m <> None -> alookup n ((k, v) :: m) <> None.
Proof. intros H. cbn. destruct (String.eqb n k); [discriminate|exact H]. Qed.

Lemma hasI_self (m : list (string * imp_state)) n v : alookup n ((n, v) :: m) <> None.
Proof. cbn. rewrite String.eqb_refl. discriminate. Qed.

Section Load.
Variable W : world.
Notation al := all_loads.

Lemma all_loads_not_load e l : is_load e = false -> all_loads (e :: l) = all_loads l.
Proof. destruct e; cbn; intros H; try reflexivity; discriminate. Qed.

(* EVERY load (successful or not) leaves an [imps] entry: the names of all loads are pairwise distinct *)
Definition load_inv (s : st) : Prop :=
  NoDup (al (log s)) /\ (forall n, In n (al (log s)) -> hasI s n).

(* the invariant while environment [name] has been loaded but is not yet registered in [imps] *)
Definition load_inv_x (name : string) (s : st) : Prop :=
  NoDup (al (log s)) /\ (forall n, In n (al (log s)) -> n = name \/ hasI s n).

Definition lframe (g s : st) : Prop :=
  (forall n, hasI g n -> hasI s n) /\ (forall n, hasI g n -> In n (al (log s)) -> In n (al (log g))).

Definition RL (g s : st) : Prop := lframe g s /\ (load_inv g -> load_inv s).

Lemma lframe_refl s : lframe s s.
Proof. split; auto. Qed.
Lemma lframe_trans g s s' : lframe g s -> lframe s s' -> lframe g s'.
Proof. intros [A1 B1] [A2 B2]. split; auto. Qed.
Lemma RL_refl s : RL s s.
Proof. split; [apply lframe_refl|auto]. Qed.
Lemma RL_trans g s s' : RL g s -> RL s s' -> RL g s'.
Proof. intros [F1 C1] [F2 C2]. split; [eapply lframe_trans; eassumption|auto]. Qed.

Lemma load_inv_weaken name s : load_inv s -> load_inv_x name s.
Proof. intros (ND & H). split; [exact ND|]. intros n Hn. right. exact (H n Hn). Qed.

(* operations that change neither imps nor log *)
Lemma RL_same g s s' : imps s' = imps s -> log s' = log s -> calls s' = calls s -> RL g s -> RL g s'.
Proof.
  intros Hi Hl _ [[A B] C]. unfold RL, lframe, load_inv, hasI in *. rewrite Hi, Hl. auto.
Qed.

Lemma lframe_same g s s' : imps s' = imps s -> log s' = log s -> lframe g s -> lframe g s'.
Proof. intros Hi Hl [A B]. unfold lframe, hasI in *. rewrite Hi, Hl. auto. Qed.

Lemma load_inv_x_same n s s' : imps s' = imps s -> log s' = log s -> load_inv_x n s -> load_inv_x n s'.
Proof. intros Hi Hl [A B]. unfold load_inv_x, hasI in *. rewrite Hi, Hl. auto. Qed.

Lemma RL_event g e s : is_load e = false -> RL g s -> RL g (snd (emit e (snd (call W s)))).
Proof.
  intros He [[A B] C]. split; [split|].
  - exact A.
  - intros n Hn. cbn [emit call snd log]. rewrite all_loads_not_load by exact He. exact (B n Hn).
  - intros Hg. destruct (C Hg) as (ND & H). unfold load_inv, hasI. cbn [emit call snd log calls imps].
    rewrite all_loads_not_load by exact He. split; [exact ND|exact H].
Qed.

Lemma ev_ok_not_load IdOK E e : ev_ok W IdOK E e -> is_load e = false.
Proof. destruct e; cbn; [intros []|reflexivity..]. Qed.

Lemma RL_imps_set g n v s : RL g s -> RL g (snd (imps_set n v s)).
Proof.
  intros [[A B] C]. split; [split|].
  - intros n' Hn'. unfold hasI. cbn. apply hasI_cons. exact (A n' Hn').
  - exact B.
  - intros Hg. destruct (C Hg) as (ND & H). split; [exact ND|].
    intros n' Hn'. unfold hasI. cbn. apply hasI_cons. exact (H n' Hn').
Qed.

(* ---- expression level: instance of the generic induction ---- *)
Let R (_ : ectx) := RL.
Let T (_ : ectx) (_ : eid) := RL.

Theorem eval_load : forall fuel E x xsec xbase id g, preserves (RL g) (eval_expr W fuel E x xsec xbase id).
Proof.
  intros fuel E x xsec xbase id g.
  refine (proj1 (eval_ind_pres W Id_any id_closed_any R _ _ _ _ (fun _ _ => True) T _ _ _ _ fuel) E x xsec xbase id g I).
  - intros E0 s. apply RL_refl.
  - intros E0 g0 n s Hs. eapply RL_same; [| | |exact Hs]; reflexivity.
  - intros E0 g0 s Hs. eapply RL_same; [| | |exact Hs]; reflexivity.
  - intros E0 g0 e s He _ Hs. apply RL_event; [exact (ev_ok_not_load _ _ _ He)|exact Hs].
  - intros E0 id0 s s' _ H. exact H.
  - intros E0 id0 s n s' Hs. eapply RL_same; [| | |exact Hs]; reflexivity.
  - intros E0 id0 s s1 p xin _ Hr _. apply RL_event; [reflexivity|exact Hr].
  - intros E0 id0 g0 s0 Hr _. split; [exact I|]. intros s2 v H2.
    eapply RL_same with (s := s2); try reflexivity.
    eapply RL_trans; [|exact H2]. eapply RL_same; [| | |exact Hr]; reflexivity.
Qed.

(* ---- one import whose name has no [imps] entry: the load event ---- *)
Lemma lframe_load g n s :
  lframe g s -> alookup n (imps s) = None -> lframe g (snd (emit (EvLoad n) (snd (call W s)))).
Proof.
  intros [A B] Hnone. split.
  - exact A.
  - intros n' Hn' Hin. cbn [emit call snd log all_loads] in Hin.
    destruct Hin as [<-|Hin]; [|exact (B n' Hn' Hin)]. exfalso. exact (A n Hn' Hnone).
Qed.

(* the load happened (whatever its outcome): [n] is pending until it is registered *)
Lemma load_inv_loaded n s :
  load_inv s -> alookup n (imps s) = None ->
  load_inv_x n (snd (emit (EvLoad n) (snd (call W s)))).
Proof.
  intros (ND & H) Hnone.
  unfold load_inv_x, hasI. cbn [emit call snd log calls imps all_loads]. split.
  - constructor; [|exact ND]. intros Hin. exact (H n Hin Hnone).
  - intros n' [<-|Hin]; [now left|right; exact (H n' Hin)].
Qed.

Lemma load_inv_register n v s : load_inv_x n s -> load_inv (snd (imps_set n v s)).
Proof.
  intros (ND & H). split; [exact ND|].
  intros n' Hin. unfold hasI. cbn. destruct (H n' Hin) as [->|Hh]; [apply hasI_self|apply hasI_cons, Hh].
Qed.

(* ---- environment level ---- *)
Definition spec_env (fuel : nat) : Prop :=
  forall root name d s,
    lframe s (snd (eval_env W fuel root name d s))
    /\ (load_inv_x name s -> load_inv_x name (snd (eval_env W fuel root name d s))).

Lemma import_loop_RL f root' :
  spec_env f -> forall is base my g, preserves (RL g) (import_loop W f root' is base my).
Proof.
  intros IH. induction is as [|[n merge] rest IHl]; intros base my g; [apply pres_ret|].
  rewrite import_loop_cons.
  assert (forall g', preserves (RL g') (err ;;; import_loop W f root' rest base my)) as Lerr.
  { intros g'. apply pres_bind; [|intros _; apply IHl].
    intros s Hs. eapply RL_same; [| | |exact Hs]; reflexivity. }
  intros s Hs. rewrite bind_run.
  change (snd (imps_get n s)) with s. change (fst (imps_get n s)) with (alookup n (imps s)).
  destruct (alookup n (imps s)) as [i|] eqn:Hnone.
  - destruct (is_evaluating i); [apply Lerr, Hs|]. destruct (is_value i); apply IHl, Hs.
  - rewrite bind_run, bind_run.
    set (s1 := snd (emit (EvLoad n) (snd (call W s)))).
    destruct Hs as [Hf Hinv].
    assert (lframe g s1) as Hf1 by (apply lframe_load; assumption).
    (* the load failed: the failure is registered *)
    assert (RL g (snd ((err ;;; imps_set n {| is_evaluating := false; is_value := None |} ;;;
                        import_loop W f root' rest base my) s1))) as Lfail.
    { rewrite bind_run, bind_run. apply IHl. split.
      - apply lframe_trans with (s := s1); [exact Hf1|]. split; [|auto].
        intros n' Hn'. unfold hasI. cbn. apply hasI_cons. exact Hn'.
      - intros Hg. apply load_inv_register.
        apply (load_inv_x_same n s1); [reflexivity|reflexivity|]. apply load_inv_loaded; auto. }
    destruct (fst (call W s)) eqn:Hfailed; [exact Lfail|].
    destruct (alookup n (w_envs W)) as [[| |d']|] eqn:Hlk; try exact Lfail.
    clear Lfail. rewrite bind_run, bind_run.
    destruct (IH root' n d' s1) as [Hf2 Hx2].
    set (s2 := snd (eval_env W f root' n d' s1)) in *.
    apply IHl. split.
    + apply lframe_trans with (s := s2).
      * eapply lframe_trans; [exact Hf1|exact Hf2].
      * split; [|auto]. intros n' Hn'. unfold hasI. cbn. apply hasI_cons. exact Hn'.
    + intros Hg. apply load_inv_register. apply Hx2. apply load_inv_loaded; auto.
Qed.

Theorem eval_env_load : forall fuel, spec_env fuel.
Proof.
  induction fuel as [|f IH]; intros root name d s.
  { rewrite eval_env_O, bind_run, snd_ret. split.
    - eapply lframe_same; [| |apply lframe_refl]; reflexivity.
    - intros H. exact H. }
  rewrite eval_env_S.
  rewrite bind_run.
  set (sa := snd (imps_set name {| is_evaluating := true; is_value := None |} s)).
  assert (RL sa (snd ((r <- import_loop W f (eff_root root name) (ed_imports d) [] [] ;;
     let '(base, my) := r in
     imps_set name {| is_evaluating := false; is_value := None |} ;;;
     add_err (N.of_nat (length (filter (fun kv => reserved (fst kv)) (ed_values d)))) ;;;
     let E := env_ctx W (eff_root root name) name d base my in
     eval_expr W f E (EObj (ec_values E)) false base (name, [])) sa))) as Hrest.
  { apply (pres_bind (RL sa)); [apply import_loop_RL, IH| |apply RL_refl].
    intros [base my]. apply pres_bind; [intros s0 Hs0; apply RL_imps_set, Hs0|]. intros _.
    apply pres_bind; [intros s0 Hs0; eapply RL_same; [| | |exact Hs0]; reflexivity|]. intros _.
    cbv zeta. apply eval_load. }
  destruct Hrest as [Hf Hinv]. split.
  - eapply lframe_trans; [|exact Hf]. split; [|auto].
    intros n' Hn'. unfold hasI. cbn. apply hasI_cons. exact Hn'.
  - intros Hx. apply load_inv_weaken. apply Hinv. apply load_inv_register. exact Hx.
Qed.

End Load.

(* ------------------------------------------------------------------------------------------- *)
(** * load_at_most_once: the names of ALL LoadEnvironment calls of an evaluation are pairwise distinct *)

Theorem load_at_most_once_all W fuel root name d :
  NoDup (all_loads (log (snd (eval_env W fuel root name d st0)))).
Proof.
  destruct (eval_env_load W fuel root name d st0) as [_ H].
  apply H. split; [constructor|intros n []].
Qed.

(* a name that already has an [imps] entry is not loaded by the evaluation *)
Theorem registered_not_loaded W fuel root name d s n :
  alookup n (imps s) <> None ->
  In n (all_loads (log (snd (eval_env W fuel root name d s)))) -> In n (all_loads (log s)).
Proof. intros Hh. exact (proj2 (proj1 (eval_env_load W fuel root name d s)) n Hh). Qed.

(* ---- corollaries: the statements that were the provable part while failed loads were retried ---- *)
Lemma succ_loads_sub W l n : In n (succ_loads W l) -> In n (all_loads l).
Proof.
  induction l as [|e l IH]; [intros []|]. destruct e; cbn; try exact IH.
  destruct (ok_load W name && negb (fault_at W (N.of_nat (length l)))); cbn; [intros [<-|H]; auto|auto].
Qed.

Lemma NoDup_succ_loads W l : NoDup (all_loads l) -> NoDup (succ_loads W l).
Proof.
  induction l as [|e l IH]; [intros _; constructor|]. destruct e; cbn; try exact IH.
  intros ND. inversion ND as [|x r Hn ND']. subst.
  destruct (ok_load W name && negb (fault_at W (N.of_nat (length l)))); [|exact (IH ND')].
  constructor; [|exact (IH ND')]. intros Hin. apply Hn. exact (succ_loads_sub W l name Hin).
Qed.

Lemma NoDup_retry_ok W l : NoDup (all_loads l) -> retry_ok W l.
Proof.
  induction l as [|e l IH]; [intros _; exact I|]. destruct e; cbn; try exact IH.
  intros ND. inversion ND as [|x r Hn ND']. subst. split; [|exact (IH ND')].
  intros Hin. apply Hn. exact (succ_loads_sub W l name Hin).
Qed.

Theorem load_at_most_once W fuel root name d :
  NoDup (succ_loads W (log (snd (eval_env W fuel root name d st0)))).
Proof. apply NoDup_succ_loads, load_at_most_once_all. Qed.

(* without a fault plan, the successful loads are exactly the loads of names the loader knows *)
Fixpoint ok_loads (W : world) (l : list ev) : list string :=
  match l with
  | [] => []
  | EvLoad n :: r => if ok_load W n then n :: ok_loads W r else ok_loads W r
  | _ :: r => ok_loads W r
  end.

Lemma succ_loads_no_fault W l : w_fault W = None -> succ_loads W l = ok_loads W l.
Proof.
  intros Hf. induction l as [|e l IH]; [reflexivity|].
  destruct e; cbn; try exact IH. unfold fault_at. rewrite Hf. cbn. rewrite andb_true_r, IH. reflexivity.
Qed.

Theorem load_at_most_once_no_fault W fuel root name d :
  w_fault W = None -> NoDup (ok_loads W (log (snd (eval_env W fuel root name d st0)))).
Proof. intros Hf. rewrite <- succ_loads_no_fault by exact Hf. apply load_at_most_once. Qed.

(* about the observable log of [run] (oldest event first) *)
Lemma ok_loads_app W a b : ok_loads W (a ++ b) = ok_loads W a ++ ok_loads W b.
Proof.
  induction a as [|e a IH]; [reflexivity|]. destruct e; cbn; try exact IH.
  destruct (ok_load W name); [cbn; now rewrite IH|exact IH].
Qed.

Lemma ok_loads_rev W l : ok_loads W (rev l) = rev (ok_loads W l).
Proof.
  induction l as [|e l IH]; [reflexivity|]. cbn [rev]. rewrite ok_loads_app, IH.
  destruct e; cbn; rewrite ?app_nil_r; try reflexivity.
  destruct (ok_load W name); cbn; [reflexivity|now rewrite app_nil_r].
Qed.

Theorem run_load_at_most_once_no_fault fuel W name d :
  w_fault W = None -> NoDup (ok_loads W (ob_log (run fuel W name d))).
Proof. intros Hf. rewrite run_log, ok_loads_rev. apply NoDup_rev, load_at_most_once_no_fault, Hf. Qed.

(* the retry discipline (now a consequence: nothing is ever loaded twice) *)
Theorem load_retry_ok W fuel root name d : retry_ok W (log (snd (eval_env W fuel root name d st0))).
Proof. apply NoDup_retry_ok, load_at_most_once_all. Qed.

Lemma all_loads_split W l n : In n (all_loads l) -> In n (succ_loads W l) \/ In n (failed_loads W l).
Proof.
  induction l as [|e l IH]; [intros []|]. destruct e; cbn; try exact IH.
  destruct (ok_load W name && negb (fault_at W (N.of_nat (length l)))); cbn; intros [<-|H]; auto;
    destruct (IH H); auto.
Qed.

Lemma failed_loads_sub W l n : In n (failed_loads W l) -> In n (all_loads l).
Proof.
  induction l as [|e l IH]; [intros []|]. destruct e; cbn; try exact IH.
  destruct (ok_load W name && negb (fault_at W (N.of_nat (length l)))); cbn; [auto|]. intros [<-|H]; auto.
Qed.

Definition count_name (n : string) (l : list string) : nat := count_occ string_dec l n.

(* a name that is loaded twice has a failed load *)
Lemma retry_dup_failed W l : retry_ok W l -> forall n, (2 <= count_name n (all_loads l))%nat -> In n (failed_loads W l).
Proof.
  unfold count_name. induction l as [|e l IH]; intros RT n Hc; [cbn in Hc; lia|].
  destruct e; cbn in RT, Hc |- *; try exact (IH RT n Hc).
  destruct RT as [Hno RT].
  assert (forall X : bool, In n (failed_loads W l) ->
          In n (if X then failed_loads W l else name :: failed_loads W l)) as Hw.
  { intros [|] H; [exact H|right; exact H]. }
  destruct (string_dec name n) as [->|Hne].
  - assert (In n (all_loads l)) as Hin by (apply (count_occ_In string_dec); lia).
    apply Hw. destruct (all_loads_split W l n Hin) as [Hs|Hf]; [contradiction|exact Hf].
  - apply Hw. apply IH; [exact RT|exact Hc].
Qed.

(* the decidable class of the former known finding C05-failed-load-retried (fixed: a failed import is remembered):
   some FAILED load's name is loaded more than once.  It is EMPTY on the model's logs ([retried_failed_never]). *)
Definition retried_failed (W : world) (l : list ev) : bool :=
  existsb (fun n => Nat.ltb 1 (count_name n (all_loads l))) (failed_loads W l).

Theorem loads_once_outside_class W l : retry_ok W l -> retried_failed W l = false -> NoDup (all_loads l).
Proof.
  intros RT Hc. apply (NoDup_count_occ string_dec). intros n.
  destruct (Nat.leb_spec 2 (count_occ string_dec (all_loads l) n)) as [H2|H2]; [|lia].
  exfalso. pose proof (retry_dup_failed W l RT n H2) as Hf.
  assert (retried_failed W l = true) as Ht.
  { unfold retried_failed. apply existsb_exists. exists n. split; [exact Hf|]. apply Nat.ltb_lt. exact H2. }
  rewrite Ht in Hc. discriminate.
Qed.

(* inside the class the statement is false, trivially: the class says a name occurs twice *)
Lemma class_not_once W l : retried_failed W l = true -> ~ NoDup (all_loads l).
Proof.
  intros Hc ND. unfold retried_failed in Hc. apply existsb_exists in Hc. destruct Hc as (n & _ & Hn).
  apply Nat.ltb_lt in Hn. pose proof (proj1 (NoDup_count_occ string_dec _) ND n). unfold count_name in Hn. lia.
Qed.

(* the class never occurs on a log of the evaluator *)
Theorem retried_failed_never W fuel root name d :
  retried_failed W (log (snd (eval_env W fuel root name d st0))) = false.
Proof.
  destruct (retried_failed W _) eqn:E; [|reflexivity].
  exfalso. exact (class_not_once W _ E (load_at_most_once_all W fuel root name d)).
Qed.

Theorem load_at_most_once_partial W fuel root name d :
  retried_failed W (log (snd (eval_env W fuel root name d st0))) = false ->
  NoDup (all_loads (log (snd (eval_env W fuel root name d st0)))).
Proof. intros _. apply load_at_most_once_all. Qed.

(* no load is followed by another load of the same name (newest-first log: [a] is later) *)
Theorem never_reloaded W fuel root name d a n b :
  log (snd (eval_env W fuel root name d st0)) = a ++ EvLoad n :: b -> ~ In n (all_loads a).
Proof.
  intros Hl Hin. pose proof (load_at_most_once_all W fuel root name d) as ND. rewrite Hl in ND. clear Hl.
  induction a as [|e a IH]; [destruct Hin|].
  destruct e; cbn in ND, Hin; try exact (IH Hin ND).
  inversion ND as [|x r Hn ND']. subst. destruct Hin as [->|Hin]; [|exact (IH Hin ND')].
  apply Hn. clear. induction a as [|e a IH]; cbn; [now left|]. destruct e; cbn; auto.
Qed.

Theorem reload_only_after_failure W fuel root name d a n b :
  log (snd (eval_env W fuel root name d st0)) = a ++ EvLoad n :: b ->
  In n (all_loads a) ->
  (ok_load W n && negb (fault_at W (N.of_nat (length b)))) = false.
Proof. intros Hl Hin. exfalso. exact (never_reloaded W fuel root name d a n b Hl Hin). Qed.

(* ---- the former witnesses: an import that cannot be parsed, listed three times; no fault plan ---- *)
Definition W_badimport : world :=
  {| w_envs := [("bad", LoadNoParse)]; w_provs := []; w_ctx := []; w_check := false; w_show := false;
     w_fault := None; w_decrypt := fun _ _ => None |}.
Definition d_triple_bad : envdef :=
  {| ed_imports := [("bad", true); ("bad", true); ("bad", true)]; ed_values := [("z", ENull)] |}.
(* the same through two import paths: root -> a -> bad, root -> b -> bad; here the loader fails *)
Definition W_twopaths : world :=
  {| w_envs := [("a", LoadOk {| ed_imports := [("bad", true)]; ed_values := [("x", ENum "1")] |});
                ("b", LoadOk {| ed_imports := [("bad", true)]; ed_values := [("y", ENum "1")] |});
                ("bad", LoadFail)];
     w_provs := []; w_ctx := []; w_check := false; w_show := false; w_fault := None; w_decrypt := fun _ _ => None |}.
Definition d_twopaths : envdef := {| ed_imports := [("a", true); ("b", true)]; ed_values := [("z", ENull)] |}.

(* a failing import is loaded ONCE and reported once, however often and through however many paths it is listed *)
Example failed_load_remembered_logs :
  ob_log (run 30 W_badimport "root" d_triple_bad) = [EvLoad "bad"]
  /\ nerr (snd (eval_env W_badimport 30 "" "root" d_triple_bad st0)) = 1%N
  /\ ob_log (run 30 W_twopaths "root" d_twopaths) = [EvLoad "a"; EvLoad "bad"; EvLoad "b"]
  /\ nerr (snd (eval_env W_twopaths 30 "" "root" d_twopaths st0)) = 1%N
  /\ retried_failed W_badimport (log (snd (eval_env W_badimport 30 "" "root" d_triple_bad st0))) = false
  /\ retried_failed W_twopaths (log (snd (eval_env W_twopaths 30 "" "root" d_twopaths st0))) = false.
Proof. vm_compute. repeat split. Qed.

(* chronological log of [run] *)
Lemma all_loads_app a b : all_loads (a ++ b) = all_loads a ++ all_loads b.
Proof. induction a as [|e a IH]; [reflexivity|]. destruct e; cbn; try exact IH. now rewrite IH. Qed.

Lemma all_loads_rev l : all_loads (rev l) = rev (all_loads l).
Proof.
  induction l as [|e l IH]; [reflexivity|]. cbn [rev]. rewrite all_loads_app, IH.
  destruct e; cbn; rewrite ?app_nil_r; reflexivity.
Qed.

Theorem run_load_at_most_once fuel W name d : NoDup (all_loads (ob_log (run fuel W name d))).
Proof. rewrite run_log, all_loads_rev. apply NoDup_rev, load_at_most_once_all. Qed.

Theorem run_load_at_most_once_partial fuel W name d :
  retried_failed W (log (snd (eval_env W fuel "" name d st0))) = false ->
  NoDup (all_loads (ob_log (run fuel W name d))).
Proof. intros _. apply run_load_at_most_once. Qed.
