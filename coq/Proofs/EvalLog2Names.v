(* Proofs/EvalLog2Names.v — from per-id to per-provider-NAME uniqueness of Open calls, under the generator's
   hypothesis that provider names are unique per fn::open site; the oracle-side validity of the inputs of
   every Open; transfer of both to the clauses of Corr/C05.spec_fail for a matching implementation log. *)
From Coq Require Import Lia ZifyN ZifyNat ZifyBool.
From Verif Require Import Base.Bytes Model.Chain Model.GoText Model.Envelope Model.Eval Corr.EvalWire.
From Verif Require Import Proofs.EvalLogKit Proofs.EvalLogInd Proofs.EvalLog Proofs.EvalLogOnce Proofs.EvalLogCorr.
From Verif Require Import Proofs.EvalTotalSyntax Proofs.EvalLog2Ind Proofs.EvalLog2 Proofs.EvalLog2Valid.
From Verif Require Corr.C05.

(* [id] designates an [EOpen p _] sub-expression of the definition of environment [fst id] *)
Definition open_at (W : world) (name : string) (d : envdef) (id : eid) (p : string) : Prop :=
  exists dn inputs, env_def W name d (fst id) dn /\ sub_at (EObj (vals_of2 dn)) (snd id) = Some (EOpen p inputs).

(* the generator's hypothesis: no two distinct ids carry an [EOpen] with the same provider name *)
Definition unique_provider_sites (W : world) (name : string) (d : envdef) : Prop :=
  forall id1 id2 p, open_at W name d id1 p -> open_at W name d id2 p -> id1 = id2.

Fixpoint open_provs (l : list ev) : list string :=
  match l with
  | [] => []
  | EvOpen _ p _ _ _ :: r => p :: open_provs r
  | _ :: r => open_provs r
  end.

Lemma open_provs_In p l : In p (open_provs l) -> exists id xin r c, In (EvOpen id p xin r c) l.
Proof.
  induction l as [|e l IH]; [intros []|]. destruct e; cbn.
  1,2,4: intros H; destruct (IH H) as (id & x & r & c & Hin); exists id, x, r, c; now right.
  intros [<-|H]; [exists id, inputs, root, cur; now left|].
  destruct (IH H) as (id' & x & r & c & Hin). exists id', x, r, c. now right.
Qed.

Lemma NoDup_provs_of_ids (Q : eid -> string -> Prop) l :
  (forall id1 id2 p, Q id1 p -> Q id2 p -> id1 = id2) ->
  (forall id p xin r c, In (EvOpen id p xin r c) l -> Q id p) ->
  NoDup (open_ids l) -> NoDup (open_provs l).
Proof.
  intros Hinj. induction l as [|e l IH]; intros HQ ND; [constructor|].
  assert (forall id p xin r c, In (EvOpen id p xin r c) l -> Q id p) as HQ' by (intros; eapply HQ; right; eassumption).
  destruct e; cbn in *; try (apply IH; assumption).
  inversion ND as [|? ? Hnot ND']; subst. constructor; [|apply IH; assumption].
  intros Hin. destruct (open_provs_In _ _ Hin) as (id2 & x & r & c & Hin2).
  assert (id2 = id) as -> by (apply (Hinj id2 id prov); [eapply HQ'; eassumption|eapply HQ; left; reflexivity]).
  apply Hnot. apply open_ids_In. exists prov, x, r, c. exact Hin2.
Qed.

(* every Open in the log sits at an fn::open site with that provider name *)
Lemma logged_open_at W fuel root name d id p xin r c :
  In (EvOpen id p xin r c) (log (snd (eval_env W fuel root name d st0))) -> open_at W name d id p.
Proof.
  intros Hin. destruct (open_inputs_exact W fuel root name d id p xin r c Hin) as (dn & inp & _ & _ & Hd & Hs & _).
  exists dn, inp. split; assumption.
Qed.

(** ** per-provider-name uniqueness *)
Theorem open_provider_names_once W fuel root name d :
  unique_provider_sites W name d ->
  NoDup (open_provs (log (snd (eval_env W fuel root name d st0)))).
Proof.
  intros Hu. apply (NoDup_provs_of_ids (open_at W name d)); [exact Hu| |apply open_at_most_once].
  intros id p xin r c. apply logged_open_at.
Qed.

(** ** the oracle accepts the inputs of every Open *)
Theorem open_inputs_oracle_valid W fuel root name d id p xin r c :
  In (EvOpen id p xin r c) (log (snd (eval_env W fuel root name d st0))) ->
  exists pv, alookup p (w_provs W) = Some pv /\ C05.x_valid (pv_in pv) xin = true.
Proof.
  intros Hin. destruct (open_inputs_exact W fuel root name d id p xin r c Hin)
    as (dn & inp & pv & iv & _ & _ & _ & _ & Hx & Hp & _ & Hxu & Hv & _).
  exists pv. split; [exact Hp|]. exact (gate_implies_oracle_valid _ _ _ Hv Hx Hxu).
Qed.

(* ---- transfer to Corr/C05.spec_fail ---- *)
Fixpoint open_tuples (l : list ev) : list (string * xval * string * string) :=
  match l with
  | [] => []
  | EvOpen _ p i r c :: t => (p, i, r, c) :: open_tuples t
  | _ :: t => open_tuples t
  end.

Lemma opens_forget l : C05.opens (map forget l) = open_tuples l.
Proof.
  unfold C05.opens. induction l as [|e l IH]; [reflexivity|]. cbn [map concat].
  rewrite IH. destruct e; reflexivity.
Qed.

Lemma open_tuples_provs l : map (fun o : string * xval * string * string => fst (fst (fst o))) (open_tuples l) = open_provs l.
Proof. induction l as [|e l IH]; [reflexivity|]. destruct e; cbn; rewrite ?IH; reflexivity. Qed.

Lemma open_tuples_In p i r c l : In (p, i, r, c) (open_tuples l) -> exists id, In (EvOpen id p i r c) l.
Proof.
  induction l as [|e l IH]; [intros []|]. destruct e; cbn.
  1,2,4: intros H; destruct (IH H) as (id & Hin); exists id; now right.
  intros [H|H]; [inversion H; subst; exists id; now left|]. destruct (IH H) as (id' & Hin). exists id'. now right.
Qed.

Lemma open_provs_app a b : open_provs (a ++ b) = open_provs a ++ open_provs b.
Proof. induction a as [|e a IH]; [reflexivity|]. destruct e; cbn; rewrite ?IH; reflexivity. Qed.

Lemma open_provs_rev l : open_provs (rev l) = rev (open_provs l).
Proof.
  induction l as [|e l IH]; [reflexivity|]. cbn [rev]. rewrite open_provs_app, IH.
  destruct e; cbn; rewrite ?app_nil_r; reflexivity.
Qed.

(* for an implementation log that matches the model's: each Open the implementation made has inputs without
   unknowns that the ORACLE accepts for the provider's declared input schema, the right root, and (provider
   names unique per site) its provider name occurs exactly once among the Opens *)
Theorem matched_open_oracle_clauses fuel W name d lg p i r c :
  name <> "" -> name <> "<yaml>" -> unique_provider_sites W name d ->
  log_matches (ob_log (run fuel W name d)) lg = true ->
  In (p, i, r, c) (C05.opens lg) ->
  x_has_unknown i = false
  /\ match alookup p (w_provs W) with Some pv => negb (C05.x_valid (pv_in pv) i) | None => true end = false
  /\ negb (String.eqb r name) = false
  /\ negb (Nat.eqb (C05.count_str p (map (fun o : string * xval * string * string => fst (fst (fst o))) (C05.opens lg))) 1) = false.
Proof.
  intros Hname Hyaml Hu Hm Hin. rewrite (log_matches_map _ _ Hm) in *. rewrite opens_forget in *.
  rewrite open_tuples_provs. destruct (open_tuples_In _ _ _ _ _ Hin) as (id & Hev).
  rewrite run_log in *. pose proof Hev as Hev'. rewrite <- in_rev in Hev'.
  destruct (open_inputs_ok W fuel "" name d id p i r c Hev') as (_ & _ & Hr & _ & _ & _ & _ & _ & _ & Hxu & _).
  destruct (open_inputs_oracle_valid W fuel "" name d id p i r c Hev') as (pv & Hp & Hval).
  split; [exact Hxu|]. split; [rewrite Hp, Hval; reflexivity|]. split.
  - rewrite (Hr Hname Hyaml). cbn. rewrite String.eqb_refl. reflexivity.
  - rewrite open_provs_rev. unfold C05.count_str. rewrite NoDup_count_one; [reflexivity| |].
    + apply NoDup_rev. apply open_provider_names_once, Hu.
    + rewrite <- in_rev. clear -Hev'. induction (log (snd (eval_env W fuel "" name d st0))) as [|e l IH]; [destruct Hev'|].
      destruct Hev' as [->|H]; [now left|]. destruct e; cbn; try (apply IH, H). right. apply IH, H.
Qed.

(* ------------------------------------------------------------------------------------------- *)
(** * A checker for the hypothesis (sufficient): enumerate all fn::open sites of all definitions *)

Definition loadok_defs (W : world) : list (string * envdef) :=
  flat_map (fun ne => match snd ne with LoadOk dn => [(fst ne, dn)] | _ => [] end) (w_envs W).

Definition sites_of (n : string) (dn : envdef) : list (eid * string) :=
  flat_map (fun path => match sub_at (EObj (vals_of2 dn)) path with
                        | Some (EOpen p _) => [((n, path), p)]
                        | _ => []
                        end) (all_paths (EObj (vals_of2 dn))).

Definition site_list (W : world) (name : string) (d : envdef) : list (eid * string) :=
  flat_map (fun nd => sites_of (fst nd) (snd nd)) ((name, d) :: loadok_defs W).

Fixpoint nodup_str (l : list string) : bool :=
  match l with [] => true | a :: r => negb (existsb (String.eqb a) r) && nodup_str r end.

Definition unique_sites_b (W : world) (name : string) (d : envdef) : bool :=
  nodup_str (map snd (site_list W name d)).

Lemma open_at_in_sites W name d id p : open_at W name d id p -> In (id, p) (site_list W name d).
Proof.
  intros (dn & inp & Hd & Hs). unfold site_list. apply in_flat_map. exists (fst id, dn). split.
  - destruct Hd as [[-> ->]|Hl]; [now left|right].
    unfold loadok_defs. apply in_flat_map. exists (fst id, LoadOk dn). split; [|now left].
    apply EvalTotalOrder.alookup_in, Hl.
  - cbn [fst snd]. unfold sites_of. apply in_flat_map. exists (snd id). split; [eapply sub_at_in_paths, Hs|].
    rewrite Hs. destruct id; now left.
Qed.

Lemma nodup_str_inj {A} (l : list (A * string)) :
  nodup_str (map snd l) = true -> forall a b p, In (a, p) l -> In (b, p) l -> a = b.
Proof.
  induction l as [|[x q] l IH]; intros H a b p Ha Hb; [destruct Ha|]. cbn in H.
  apply andb_true_iff in H. destruct H as [Hn H]. apply negb_true_iff in Hn.
  assert (forall c, In (c, q) l -> False) as Hq.
  { intros c Hc. assert (existsb (String.eqb q) (map snd l) = true) as E; [|rewrite E in Hn; discriminate].
    apply existsb_exists. exists q. split; [|apply String.eqb_refl]. apply in_map_iff. exists (c, q). split; [reflexivity|exact Hc]. }
  destruct Ha as [Ha|Ha], Hb as [Hb|Hb].
  - congruence.
  - inversion Ha; subst. destruct (Hq _ Hb).
  - inversion Hb; subst. destruct (Hq _ Ha).
  - exact (IH H a b p Ha Hb).
Qed.

Theorem unique_sites_b_sound W name d : unique_sites_b W name d = true -> unique_provider_sites W name d.
Proof.
  intros H id1 id2 p H1 H2. apply (nodup_str_inj _ H id1 id2 p); apply open_at_in_sites; assumption.
Qed.
