(* Proofs/ShellProofs.v — the shell rendering evaluates, under the POSIX semantics of Model/Shell.v, to exactly
   the exports of the environment; the old (strconv.Quote) rendering does not; redacted renderings do not depend
   on secret values. *)
From Coq Require Import Lia ZifyN ZifyNat ZifyBool.
From Verif Require Import Base.Bytes Model.Shell.

(* ---- strings ---- *)
Lemma sapp_assoc a b c : (a +++ b) +++ c = a +++ (b +++ c).
Proof. induction a as [|x a IH]; cbn [String.append]; congruence. Qed.

Lemma of_chars_chars s : of_chars (chars s) = s.
Proof. induction s as [|c s IH]; cbn [chars of_chars]; congruence. Qed.

Lemma emit_rev k v : emit (rev (chars k)) (rev_append (chars v) []) = (k, v).
Proof.
  unfold emit. rewrite !rev_append_rev, !app_nil_r, !rev_involutive, !of_chars_chars. reflexivity.
Qed.

(* ---- the state machine ---- *)
Definition mk (d : list (string * string)) (f : phase) : shst := {| done := d; ph := f |}.

Lemma run_app st a b : run st (a +++ b) = match run st a with Some st' => run st' b | None => None end.
Proof.
  revert st. induction a as [|c a IH]; intros st; cbn [run String.append]; [reflexivity|].
  destruct (step st c); auto.
Qed.

Lemma run_kw d : run (mk d (PKw kw_export)) kw_export = Some (mk d (PName [])).
Proof. reflexivity. Qed.

Lemma name_start_char n : is_name_start n = true -> is_name_char n = true.
Proof. unfold is_name_char. intros ->. reflexivity. Qed.

Lemma run_name_rest d : forall r nm, nm <> [] -> forallb is_name_char (bytes_of r) = true ->
  run (mk d (PName nm)) r = Some (mk d (PName (rev_append (chars r) nm))).
Proof.
  induction r as [|c r IH]; intros nm Hnm Hall; [reflexivity|].
  cbn [bytes_of forallb] in Hall. apply andb_prop in Hall. destruct Hall as [Hc Hr].
  cbn [run chars rev_append]. unfold step at 1. cbn [ph done mk].
  rewrite Hc. destruct nm as [|x nm]; [contradiction|]. cbn [andb].
  apply IH; [discriminate|exact Hr].
Qed.

Lemma run_name d k : valid_name k = true ->
  run (mk d (PName [])) k = Some (mk d (PName (rev (chars k)))) /\ rev (chars k) <> [].
Proof.
  unfold valid_name. destruct k as [|c r]; cbn [bytes_of]; [discriminate|].
  intros H. apply andb_prop in H. destruct H as [Hs Hr]. split.
  - cbn [run]. unfold step at 1. cbn [ph done mk]. rewrite (name_start_char _ Hs), Hs. cbn [andb].
    rewrite run_name_rest; [|discriminate|exact Hr].
    cbn [chars]. rewrite rev_append_rev. reflexivity.
  - cbn [chars rev]. intros E. apply app_eq_nil in E. destruct E as [_ E]. discriminate.
Qed.

Lemma step_eq d nm : nm <> [] ->
  step (mk d (PName nm)) (ascii_of_N 61) = Some (mk d (PWord WU nm [])).
Proof. destruct nm; [contradiction|reflexivity]. Qed.

Lemma step_U_dq d nm acc : step (mk d (PWord WU nm acc)) (ascii_of_N 34) = Some (mk d (PWord WD nm acc)).
Proof. reflexivity. Qed.

Lemma step_D_dq d nm acc : step (mk d (PWord WD nm acc)) (ascii_of_N 34) = Some (mk d (PWord WU nm acc)).
Proof. reflexivity. Qed.

Lemma step_U_lf d nm acc :
  step (mk d (PWord WU nm acc)) (ascii_of_N 10) = Some (mk (emit nm acc :: d) (PKw kw_export)).
Proof. reflexivity. Qed.

Lemma step_D_bs d nm acc : step (mk d (PWord WD nm acc)) (ascii_of_N 92) = Some (mk d (PWord WDb nm acc)).
Proof. reflexivity. Qed.

Lemma step_Db_special d nm acc c : dq_special (N_of_ascii c) = true ->
  step (mk d (PWord WDb nm acc)) c = Some (mk d (PWord WD nm (c :: acc))).
Proof. intros H. unfold step. cbn [ph done mk]. rewrite H. reflexivity. Qed.

Lemma dq_special_false n : dq_special n = false ->
  (n =? 36) = false /\ (n =? 96) = false /\ (n =? 34) = false /\ (n =? 92) = false.
Proof.
  unfold dq_special. intros H.
  apply orb_false_elim in H. destruct H as [H H4].
  apply orb_false_elim in H. destruct H as [H H3].
  apply orb_false_elim in H. destruct H as [H1 H2]. auto.
Qed.

Lemma step_D_plain d nm acc c : dq_special (N_of_ascii c) = false -> (N_of_ascii c =? 0) = false ->
  step (mk d (PWord WD nm acc)) c = Some (mk d (PWord WD nm (c :: acc))).
Proof.
  intros H H0. apply dq_special_false in H. destruct H as (H1 & H2 & H3 & H4).
  unfold step. cbn [ph done mk]. rewrite H1, H2, H3, H4, H0. reflexivity.
Qed.

Definition esc_spec (esc : list N) : Prop :=
  forall c : ascii, memN (N_of_ascii c) esc = dq_special (N_of_ascii c).

Lemma run_body esc d nm : esc_spec esc ->
  forall v acc, no_nul v = true ->
  run (mk d (PWord WD nm acc)) (sh_body esc v) = Some (mk d (PWord WD nm (rev_append (chars v) acc))).
Proof.
  intros Hesc. induction v as [|c v IH]; intros acc Hv; [reflexivity|].
  unfold no_nul in Hv. cbn [bytes_of forallb] in Hv. apply andb_prop in Hv. destruct Hv as [Hc Hv].
  apply negb_true_iff in Hc.
  cbn [sh_body chars rev_append]. rewrite Hesc.
  destruct (dq_special (N_of_ascii c)) eqn:E.
  - cbn [run]. rewrite step_D_bs, (step_Db_special _ _ _ _ E). apply IH. exact Hv.
  - cbn [run]. rewrite (step_D_plain _ _ _ _ E Hc). apply IH. exact Hv.
Qed.

(* ---- constants from the sources ---- *)
Lemma bytes_upto_in m : forall n, (N.to_nat n < m)%nat -> In n (bytes_upto m).
Proof.
  induction m as [|m IH]; intros n H; [lia|]. cbn [bytes_upto].
  destruct (Nat.eq_dec (N.to_nat n) m) as [E|E].
  - left. rewrite <- E. apply N2Nat.id.
  - right. apply IH. lia.
Qed.

Lemma params_ok_elim p : params_ok p = true ->
  sp_prefix p = kw_export /\ sp_suffix p = lf /\ sp_sep p = "=" /\ esc_spec (sp_escaped p)
  /\ no_nul (sp_secret p) = true /\ no_nul (sp_unknown_path p) = true /\ no_nul (sp_unknown_value p) = true.
Proof.
  unfold params_ok. intros H.
  apply andb_prop in H. destruct H as [H H7]. apply andb_prop in H. destruct H as [H H6].
  apply andb_prop in H. destruct H as [H H5]. apply andb_prop in H. destruct H as [H H4].
  apply andb_prop in H. destruct H as [H H3]. apply andb_prop in H. destruct H as [H1 H2].
  apply String.eqb_eq in H1. apply String.eqb_eq in H2. apply String.eqb_eq in H3.
  repeat split; auto.
  intros c. rewrite forallb_forall in H4.
  specialize (H4 (N_of_ascii c)). apply Bool.eqb_prop. apply H4.
  apply bytes_upto_in. pose proof (N_ascii_bounded c). lia.
Qed.

(* ---- one line, many lines ---- *)
Lemma run_line p d kv : params_ok p = true -> pair_ok kv = true ->
  run (mk d (PKw kw_export)) (shell_line p (sh_quote (sp_escaped p)) kv) = Some (mk (kv :: d) (PKw kw_export)).
Proof.
  intros Hp Hkv. destruct (params_ok_elim p Hp) as (Epre & Esuf & Esep & Hesc & _).
  destruct kv as [k v]. unfold pair_ok in Hkv. cbn [fst snd] in Hkv.
  apply andb_prop in Hkv. destruct Hkv as [Hk Hv].
  destruct (run_name d k Hk) as [Hname Hne].
  unfold shell_line, sh_quote. cbn [fst snd]. rewrite Epre, Esuf, Esep.
  rewrite run_app, run_kw. rewrite run_app, Hname.
  cbn [String.append]. cbn [run]. change "="%char with (ascii_of_N 61). rewrite (step_eq _ _ Hne).
  rewrite !sapp_assoc. unfold dq at 1. cbn [String.append]. cbn [run]. rewrite step_U_dq.
  rewrite run_app, (run_body _ _ _ Hesc v [] Hv).
  unfold dq, lf. cbn [String.append run]. rewrite step_D_dq, step_U_lf.
  rewrite emit_rev. reflexivity.
Qed.

Lemma run_lines p : params_ok p = true -> forall l d, forallb pair_ok l = true ->
  run (mk d (PKw kw_export)) (render_shell p l) = Some (mk (rev l ++ d) (PKw kw_export)).
Proof.
  intros Hp. induction l as [|kv l IH]; intros d Hl; [reflexivity|].
  cbn [forallb] in Hl. apply andb_prop in Hl. destruct Hl as [Hkv Hl].
  unfold render_shell, render_shell_with in *. cbn [concat_lines].
  rewrite run_app, (run_line p d kv Hp Hkv), (IH _ Hl).
  cbn [rev]. rewrite <- app_assoc. reflexivity.
Qed.

(* the shell rendering of any list of pairs with valid names and NUL-free values evaluates to exactly these
   exports, in this order, and nothing else *)
Theorem shell_faithful_list p : params_ok p = true ->
  forall l, forallb pair_ok l = true -> sh_eval (render_shell p l) = Exports l.
Proof.
  intros Hp l Hl. unfold sh_eval, sh_init. change {| done := []; ph := PKw kw_export |} with (mk [] (PKw kw_export)).
  rewrite (run_lines p Hp l [] Hl). unfold finish. cbn [ph done mk].
  rewrite String.eqb_refl, app_nil_r, rev_involutive. reflexivity.
Qed.

Theorem shell_faithful p : params_ok p = true ->
  forall k v, valid_name k = true -> no_nul v = true -> sh_eval (render_shell p [(k, v)]) = Exports [(k, v)].
Proof.
  intros Hp k v Hk Hv. apply shell_faithful_list; [exact Hp|].
  cbn [forallb]. unfold pair_ok. cbn [fst snd]. rewrite Hk, Hv. reflexivity.
Qed.

(* ---- from entries to pairs ---- *)
Definition entry_ok (e : entry) : bool :=
  match e_kind e with KOther => true | _ => valid_name (e_key e) && no_nul (e_text e) end.

Lemma Forall_insert {A} (P : string * A -> Prop) kx l : P kx -> Forall P l -> Forall P (insert_by_key kx l).
Proof.
  intros Hx Hl. induction Hl as [|ky r Hy Hr IH]; cbn [insert_by_key]; [auto|].
  destruct (String.leb (fst kx) (fst ky)); auto.
Qed.

Lemma Forall_sort {A} (P : string * A -> Prop) l : Forall P l -> Forall P (sort_by_key l).
Proof. induction 1; cbn [sort_by_key]; [constructor|]. apply Forall_insert; auto. Qed.

Lemma scalar_text_ok p e t : params_ok p = true -> entry_ok e = true -> scalar_text p e = Some t ->
  valid_name (e_key e) = true /\ no_nul t = true.
Proof.
  intros Hp He Ht. destruct (params_ok_elim p Hp) as (_ & _ & _ & _ & _ & _ & Hu).
  unfold entry_ok in He. unfold scalar_text in Ht.
  destruct (e_kind e); try discriminate; apply andb_prop in He; destruct He as [Hk Hv]; split; auto;
    injection Ht as <-; destruct (e_unknown e); auto.
  destruct (String.eqb (e_text e) "true"); reflexivity.
Qed.

Lemma scalars_ok p es : params_ok p = true -> forallb entry_ok es = true ->
  Forall (fun kv => valid_name (fst kv) = true /\ no_nul (fst (snd kv)) = true) (scalars p es).
Proof.
  intros Hp. induction es as [|e es IH]; intros H; cbn [scalars]; [constructor|].
  cbn [forallb] in H. apply andb_prop in H. destruct H as [He Hes].
  destruct (scalar_text p e) as [t|] eqn:Et; [|auto].
  constructor; [|auto]. cbn [fst snd]. eapply scalar_text_ok; eauto.
Qed.

Lemma var_pairs_ok p redact vars : params_ok p = true -> forallb entry_ok vars = true ->
  forallb pair_ok (var_pairs p redact vars) = true.
Proof.
  intros Hp Hv. destruct (params_ok_elim p Hp) as (_ & _ & _ & _ & Hs & _ & _).
  pose proof (Forall_sort _ _ (scalars_ok p vars Hp Hv)) as HF.
  unfold var_pairs. induction HF as [|kv r [Hk Ht] Hr IH]; [reflexivity|].
  cbn [map forallb]. rewrite IH, andb_true_r. unfold pair_ok. cbn [fst snd]. rewrite Hk. cbn [andb].
  destruct (snd (snd kv) && redact); auto.
Qed.

Lemma number_paths_ok pretend u path_of : no_nul u = true -> (forall i, no_nul (path_of i) = true) ->
  forall (l : list (string * (string * bool))) i, Forall (fun kv => valid_name (fst kv) = true) l ->
  forallb pair_ok (number_paths pretend u path_of i l) = true.
Proof.
  intros Hu Hp. induction l as [|kv r IH]; intros i Hl; [reflexivity|].
  inversion Hl as [|? ? Hk Hr]; subst. cbn [number_paths forallb]. rewrite (IH _ Hr), andb_true_r.
  unfold pair_ok. cbn [fst snd]. rewrite Hk. cbn [andb]. destruct pretend; auto.
Qed.

Lemma file_pairs_ok p pretend path_of files : params_ok p = true -> forallb entry_ok files = true ->
  (forall i, no_nul (path_of i) = true) -> forallb pair_ok (file_pairs p pretend path_of files) = true.
Proof.
  intros Hp Hf Hpath. destruct (params_ok_elim p Hp) as (_ & _ & _ & _ & _ & Hu & _).
  unfold file_pairs. apply number_paths_ok; auto.
  eapply Forall_impl; [|apply Forall_sort, (scalars_ok p files Hp Hf)]. intros kv [H _]. exact H.
Qed.

(* `esc open --format shell` / `esc env get --value shell`: the script evaluates to exactly the exports of the
   scalar environment variables (secrets replaced when hidden) followed by those of the temporary files *)
Theorem shell_script_faithful p redact pretend path_of vars files :
  params_ok p = true -> forallb entry_ok vars = true -> forallb entry_ok files = true ->
  (forall i, no_nul (path_of i) = true) ->
  sh_eval (shell_script p redact pretend path_of vars files)
  = Exports (env_pairs p redact pretend path_of vars files).
Proof.
  intros Hp Hv Hf Hpath. unfold shell_script. apply shell_faithful_list; [exact Hp|].
  unfold env_pairs. rewrite forallb_app, var_pairs_ok, file_pairs_ok; auto.
Qed.

(* ---- the resulting environment ---- *)
Lemma sh_lookup_in k l : forall v, sh_lookup k l = Some v -> In k (map fst l).
Proof.
  induction l as [|kv r IH]; intros v; cbn [sh_lookup map]; [discriminate|].
  destruct (sh_lookup k r) as [v'|].
  - intros _. right. apply (IH v'). reflexivity.
  - destruct (String.eqb k (fst kv)) eqn:E; [|discriminate]. apply String.eqb_eq in E. intros _. left. auto.
Qed.

Lemma sh_lookup_not_in k l : ~ In k (map fst l) -> sh_lookup k l = None.
Proof.
  intros H. destruct (sh_lookup k l) as [v|] eqn:E; [|reflexivity]. elim H. eapply sh_lookup_in; eauto.
Qed.

Lemma sh_lookup_nodup l : NoDup (map fst l) -> forall k v, In (k, v) l -> sh_lookup k l = Some v.
Proof.
  induction l as [|kv r IH]; intros Hnd k v Hin; [destruct Hin|].
  cbn [map] in Hnd. inversion Hnd as [|? ? Hnotin Hnd']; subst. cbn [sh_lookup].
  destruct Hin as [->|Hin].
  - cbn [fst snd]. rewrite (sh_lookup_not_in k r Hnotin), String.eqb_refl. reflexivity.
  - rewrite (IH Hnd' k v Hin). reflexivity.
Qed.

Lemma sh_lookup_app_left k a b : ~ In k (map fst b) -> sh_lookup k (a ++ b) = sh_lookup k a.
Proof.
  intros H. induction a as [|kv r IH]; cbn [app sh_lookup]; [apply sh_lookup_not_in; exact H|].
  rewrite IH. reflexivity.
Qed.

Lemma insert_in {A} (x kx : string * A) l : In x (insert_by_key kx l) <-> x = kx \/ In x l.
Proof.
  induction l as [|ky r IH]; cbn [insert_by_key].
  - cbn. intuition.
  - destruct (String.leb (fst kx) (fst ky)); cbn [In]; [intuition|]. rewrite IH. intuition.
Qed.

Lemma sort_in {A} (x : string * A) l : In x (sort_by_key l) <-> In x l.
Proof.
  induction l as [|kx r IH]; cbn [sort_by_key]; [tauto|]. rewrite insert_in, IH. cbn [In]. intuition.
Qed.

Lemma insert_keys_in {A} k (kx : string * A) l :
  In k (map fst (insert_by_key kx l)) <-> k = fst kx \/ In k (map fst l).
Proof.
  induction l as [|ky r IH]; cbn [insert_by_key].
  - cbn. intuition.
  - destruct (String.leb (fst kx) (fst ky)); cbn [map In]; [intuition|]. rewrite IH. intuition.
Qed.

Lemma sort_keys_in {A} k (l : list (string * A)) : In k (map fst (sort_by_key l)) <-> In k (map fst l).
Proof.
  induction l as [|kx r IH]; cbn [sort_by_key]; [tauto|]. rewrite insert_keys_in, IH. cbn [map In]. intuition.
Qed.

Lemma insert_nodup {A} (kx : string * A) l :
  NoDup (map fst l) -> ~ In (fst kx) (map fst l) -> NoDup (map fst (insert_by_key kx l)).
Proof.
  induction l as [|ky r IH]; intros Hnd Hnot; cbn [insert_by_key].
  - cbn. constructor; [intros []|constructor].
  - destruct (String.leb (fst kx) (fst ky)).
    + cbn [map]. constructor; assumption.
    + cbn [map] in *. inversion Hnd as [|? ? Hy Hr]; subst. constructor.
      * rewrite insert_keys_in. intros [E|Hin]; [|contradiction]. apply Hnot. left. auto.
      * apply IH; [assumption|]. intros Hin. apply Hnot. right. assumption.
Qed.

Lemma sort_nodup {A} (l : list (string * A)) : NoDup (map fst l) -> NoDup (map fst (sort_by_key l)).
Proof.
  induction l as [|kx r IH]; intros Hnd; cbn [sort_by_key]; [constructor|].
  cbn [map] in Hnd. inversion Hnd as [|? ? Hx Hr]; subst.
  apply insert_nodup; [auto|]. rewrite sort_keys_in. assumption.
Qed.

Lemma scalars_keys_in p k es : In k (map fst (scalars p es)) -> In k (map e_key es).
Proof.
  induction es as [|e es IH]; cbn [scalars map]; [auto|].
  destruct (scalar_text p e); cbn [map In fst]; intuition.
Qed.

Lemma scalars_nodup p es : NoDup (map e_key es) -> NoDup (map fst (scalars p es)).
Proof.
  induction es as [|e es IH]; intros Hnd; cbn [scalars]; [constructor|].
  cbn [map] in Hnd. inversion Hnd as [|? ? Hx Hr]; subst.
  destruct (scalar_text p e); [|auto]. cbn [map fst]. constructor; [|auto].
  intros Hin. apply Hx. eapply scalars_keys_in; eauto.
Qed.

Lemma scalars_in p e t es : In e es -> scalar_text p e = Some t -> In (e_key e, (t, e_secret e)) (scalars p es).
Proof.
  induction es as [|e' es IH]; intros Hin Ht; [destruct Hin|]. cbn [scalars].
  destruct Hin as [->|Hin].
  - rewrite Ht. left. reflexivity.
  - destruct (scalar_text p e'); [right|]; auto.
Qed.

Lemma map_fst_var_pairs p redact vars :
  map fst (var_pairs p redact vars) = map fst (sort_by_key (scalars p vars)).
Proof. unfold var_pairs. rewrite map_map. reflexivity. Qed.

Lemma map_fst_number_paths pretend u path_of : forall (l : list (string * (string * bool))) i,
  map fst (number_paths pretend u path_of i l) = map fst l.
Proof. induction l as [|kv r IH]; intros i; cbn [number_paths map fst]; [reflexivity|]. rewrite IH. reflexivity. Qed.

(* every scalar entry of environmentVariables ends up exported with exactly its value (its placeholder when it is
   a secret and secrets are hidden), provided no other variable or file uses the same name *)
Theorem shell_exports_each_var p redact pretend path_of vars files e t :
  params_ok p = true -> forallb entry_ok vars = true -> forallb entry_ok files = true ->
  (forall i, no_nul (path_of i) = true) ->
  NoDup (map e_key vars) -> ~ In (e_key e) (map e_key files) ->
  In e vars -> scalar_text p e = Some t ->
  exists l, sh_eval (shell_script p redact pretend path_of vars files) = Exports l
            /\ sh_lookup (e_key e) l = Some (if e_secret e && redact then sp_secret p else t).
Proof.
  intros Hp Hv Hf Hpath Hnd Hnf Hin Ht.
  exists (env_pairs p redact pretend path_of vars files). split; [apply shell_script_faithful; auto|].
  unfold env_pairs. rewrite sh_lookup_app_left.
  - apply sh_lookup_nodup.
    + rewrite map_fst_var_pairs. apply sort_nodup, scalars_nodup, Hnd.
    + unfold var_pairs.
      change (e_key e, if e_secret e && redact then sp_secret p else t)
        with ((fun kv : string * (string * bool) =>
                 (fst kv, if snd (snd kv) && redact then sp_secret p else fst (snd kv))) (e_key e, (t, e_secret e))).
      apply in_map. rewrite sort_in. apply scalars_in; assumption.
  - unfold file_pairs. rewrite map_fst_number_paths, sort_keys_in. intros H. apply Hnf.
    eapply scalars_keys_in; eauto.
Qed.

(* ---- redaction: the rendering with secrets hidden does not depend on secret values ---- *)
Definition public_eq (e1 e2 : entry) : Prop :=
  e_key e1 = e_key e2 /\ e_kind e1 = e_kind e2 /\ e_secret e1 = e_secret e2 /\ e_unknown e1 = e_unknown e2
  /\ (e_secret e1 = false -> e_text e1 = e_text e2).

Definition same_shape (e1 e2 : entry) : Prop := e_key e1 = e_key e2 /\ e_kind e1 = e_kind e2.

Definition on_payload {A B} (f : A -> B) (kv : string * A) : string * B := (fst kv, f (snd kv)).

Lemma insert_map {A B} (f : A -> B) kx l :
  insert_by_key (on_payload f kx) (map (on_payload f) l) = map (on_payload f) (insert_by_key kx l).
Proof.
  induction l as [|ky r IH]; cbn [map insert_by_key]; [reflexivity|]. cbn [on_payload fst].
  destruct (String.leb (fst kx) (fst ky)); cbn [map]; [reflexivity|]. rewrite <- IH. reflexivity.
Qed.

Lemma sort_map {A B} (f : A -> B) l :
  sort_by_key (map (on_payload f) l) = map (on_payload f) (sort_by_key l).
Proof. induction l as [|kx r IH]; cbn [map sort_by_key]; [reflexivity|]. rewrite IH. apply insert_map. Qed.

Definition redact_payload (p : shell_params) (redact : bool) (ts : string * bool) : string :=
  if snd ts && redact then sp_secret p else fst ts.

Lemma var_pairs_alt p redact vars :
  var_pairs p redact vars = sort_by_key (map (on_payload (redact_payload p redact)) (scalars p vars)).
Proof. rewrite (sort_map (redact_payload p redact)). reflexivity. Qed.

Lemma redacted_scalars_eq p vs1 vs2 : Forall2 public_eq vs1 vs2 ->
  map (on_payload (redact_payload p true)) (scalars p vs1) = map (on_payload (redact_payload p true)) (scalars p vs2).
Proof.
  induction 1 as [|e1 e2 r1 r2 (Hk & Hkind & Hs & Hu & Ht) Hr IH]; [reflexivity|].
  cbn [scalars]. unfold scalar_text. rewrite <- Hkind, <- Hu.
  destruct (e_kind e1); cbn [map]; rewrite ?IH; try reflexivity;
    unfold on_payload, redact_payload; cbn [fst snd]; rewrite <- Hk, <- Hs;
    destruct (e_secret e1); cbn [andb]; try reflexivity; rewrite <- (Ht eq_refl); reflexivity.
Qed.

Lemma number_paths_pretend u path_of : forall (l : list (string * (string * bool))) i,
  number_paths true u path_of i l = map (on_payload (fun _ => u)) l.
Proof. induction l as [|kv r IH]; intros i; cbn [number_paths map]; [reflexivity|]. rewrite IH. reflexivity. Qed.

Lemma shapes_scalars_eq p (u : string) fs1 fs2 : Forall2 same_shape fs1 fs2 ->
  map (on_payload (fun _ : string * bool => u)) (scalars p fs1)
  = map (on_payload (fun _ : string * bool => u)) (scalars p fs2).
Proof.
  induction 1 as [|e1 e2 r1 r2 (Hk & Hkind) Hr IH]; [reflexivity|].
  cbn [scalars]. unfold scalar_text. rewrite <- Hkind.
  destruct (e_kind e1); cbn [map]; rewrite ?IH; try reflexivity; unfold on_payload; cbn [fst snd]; rewrite <- Hk;
    reflexivity.
Qed.

Theorem redacted_pairs_independent p path1 path2 vars1 vars2 files1 files2 :
  Forall2 public_eq vars1 vars2 -> Forall2 same_shape files1 files2 ->
  env_pairs p true true path1 vars1 files1 = env_pairs p true true path2 vars2 files2.
Proof.
  intros Hv Hf. unfold env_pairs. f_equal.
  - rewrite !var_pairs_alt, (redacted_scalars_eq p _ _ Hv). reflexivity.
  - unfold file_pairs. rewrite !number_paths_pretend, <- !sort_map, (shapes_scalars_eq p _ _ _ Hf). reflexivity.
Qed.

(* both renderings (and any other function of the pairs) are therefore equal *)
Theorem redacted_independent_of_secret p path1 path2 vars1 vars2 files1 files2 :
  Forall2 public_eq vars1 vars2 -> Forall2 same_shape files1 files2 ->
  shell_script p true true path1 vars1 files1 = shell_script p true true path2 vars2 files2
  /\ dotenv_text p true true path1 vars1 files1 = dotenv_text p true true path2 vars2 files2.
Proof.
  intros Hv Hf. unfold shell_script, dotenv_text.
  rewrite (redacted_pairs_independent p path1 path2 _ _ _ _ Hv Hf). split; reflexivity.
Qed.

(* a hidden secret is rendered as the placeholder *)
Theorem redacted_shows_placeholder p vars e t : In e vars -> e_secret e = true -> scalar_text p e = Some t ->
  In (e_key e, sp_secret p) (var_pairs p true vars).
Proof.
  intros Hin Hs Ht. unfold var_pairs.
  change (e_key e, sp_secret p)
    with ((fun kv : string * (string * bool) =>
             (fst kv, if snd (snd kv) && true then sp_secret p else fst (snd kv))) (e_key e, (t, true))).
  apply in_map. rewrite sort_in, <- Hs. apply scalars_in; assumption.
Qed.

(* ---- the rendering before the repair is not faithful ---- *)
Lemma params_ok_line p : params_ok p = true ->
  forall q kv, shell_line p q kv = kw_export +++ fst kv +++ "=" +++ q (snd kv) +++ lf.
Proof.
  intros Hp q kv. destruct (params_ok_elim p Hp) as (E1 & E2 & E3 & _). unfold shell_line. rewrite E1, E2, E3.
  reflexivity.
Qed.

Lemma old_script_one p k v : params_ok p = true ->
  old_shell_script p [(k, v)]
  = match go_quote v with Some q => Some (kw_export +++ k +++ "=" +++ q +++ lf +++ "") | None => None end.
Proof.
  intros Hp. unfold old_shell_script, render_shell_with. cbn [render_dotenv concat_lines snd fst].
  rewrite (params_ok_line p Hp). cbn [fst snd].
  destruct (go_quote v); [|reflexivity]. rewrite !sapp_assoc. reflexivity.
Qed.

(* $HOME between Go quotes is a parameter expansion for the shell *)
Theorem old_quoting_expands p : params_ok p = true ->
  exists s, old_shell_script p [("K", "$HOME")] = Some s /\ sh_eval s = OtherEffect.
Proof.
  intros Hp. rewrite (old_script_one p _ _ Hp). eexists. split; [reflexivity|]. vm_compute. reflexivity.
Qed.

(* a newline is written as backslash-n by strconv.Quote; inside double quotes the shell keeps both characters *)
Theorem old_quoting_changes_value p : params_ok p = true ->
  exists s, old_shell_script p [("K", "a" +++ lf +++ "b")] = Some s /\ sh_eval s = Exports [("K", "a\nb")].
Proof.
  intros Hp. rewrite (old_script_one p _ _ Hp). eexists. split; [reflexivity|]. vm_compute. reflexivity.
Qed.

Theorem old_quoting_refuted p : params_ok p = true ->
  exists k v s, valid_name k = true /\ no_nul v = true /\ old_shell_script p [(k, v)] = Some s
                /\ sh_eval s <> Exports [(k, v)].
Proof.
  intros Hp. destruct (old_quoting_changes_value p Hp) as (s & Hs & He).
  exists "K", ("a" +++ lf +++ "b"), s. repeat split; auto. rewrite He. intros H. discriminate H.
Qed.

(* ---- values that the golden files pin keep their rendering ---- *)
Definition benign_byte (n : N) : bool := (32 <=? n) && (n <=? 126) && negb (n =? 36) && negb (n =? 96).
Definition benign (v : string) : bool := forallb benign_byte (bytes_of v).

Lemma go_quote_byte_benign esc c : esc_spec esc -> benign_byte (N_of_ascii c) = true ->
  go_quote_byte (N_of_ascii c)
  = (if memN (N_of_ascii c) esc then String (ascii_of_N 92) (String c EmptyString) else String c EmptyString)
  /\ (N_of_ascii c <? 128) = true.
Proof.
  intros Hesc Hb. rewrite Hesc. unfold benign_byte in Hb. pose proof (ascii_N_embedding c) as Hc.
  set (n := N_of_ascii c) in *. split; [|lia].
  unfold go_quote_byte, dq_special.
  destruct (n =? 34) eqn:E34.
  - assert (n = 34) as E by lia. rewrite E in *. rewrite <- Hc. reflexivity.
  - destruct (n =? 92) eqn:E92.
    + assert (n = 92) as E by lia. rewrite E in *. rewrite <- Hc. reflexivity.
    + assert ((n =? 7) = false) as -> by lia. assert ((n =? 8) = false) as -> by lia.
      assert ((n =? 12) = false) as -> by lia. assert ((n =? 10) = false) as -> by lia.
      assert ((n =? 13) = false) as -> by lia. assert ((n =? 9) = false) as -> by lia.
      assert ((n =? 11) = false) as -> by lia. assert ((32 <=? n) && (n <=? 126) = true) as -> by lia.
      assert ((n =? 36) = false) as -> by lia. assert ((n =? 96) = false) as -> by lia.
      cbn [orb]. rewrite Hc. reflexivity.
Qed.

Lemma go_body_benign esc v : esc_spec esc -> benign v = true -> go_body v = Some (sh_body esc v).
Proof.
  intros Hesc. induction v as [|c v IH]; intros Hb; [reflexivity|].
  unfold benign in Hb. cbn [bytes_of forallb] in Hb. apply andb_prop in Hb. destruct Hb as [Hc Hv].
  destruct (go_quote_byte_benign esc c Hesc Hc) as [Hq Hlt].
  cbn [go_body sh_body]. rewrite Hlt, (IH Hv), Hq.
  destruct (memN (N_of_ascii c) esc); reflexivity.
Qed.

(* printable ASCII values without dollar and backquote are rendered exactly as before the repair *)
Theorem benign_rendering_unchanged p v : params_ok p = true -> benign v = true ->
  go_quote v = Some (sh_quote (sp_escaped p) v).
Proof.
  intros Hp Hb. destruct (params_ok_elim p Hp) as (_ & _ & _ & Hesc & _).
  unfold go_quote, sh_quote. rewrite (go_body_benign _ _ Hesc Hb). reflexivity.
Qed.

(* ---- a concrete instance of the redaction hypotheses (used by the non-vacuity example) ---- *)
Definition ex_var (secret_text : string) : list entry :=
  [ {| e_key := "TOKEN"; e_kind := KStr; e_text := secret_text; e_secret := true; e_unknown := false |};
    {| e_key := "REGION"; e_kind := KStr; e_text := "eu-west-1"; e_secret := false; e_unknown := false |} ].

Lemma ex_var_public_eq a b : Forall2 public_eq (ex_var a) (ex_var b).
Proof.
  unfold ex_var. repeat constructor; cbn; intros; try discriminate; reflexivity.
Qed.

(* ---------------------------------------------------------------------------------------------------------
   real interpreters (names they treat specially) and the known finding C17-file-shadows-variable
   --------------------------------------------------------------------------------------------------------- *)
Lemma mem_str_false_not_in k l : mem_str k l = false -> ~ In k l.
Proof.
  unfold mem_str. intros H Hin. assert (existsb (String.eqb k) l = true) as E; [|congruence].
  apply existsb_exists. exists k. split; [exact Hin|apply String.eqb_refl].
Qed.

Lemma mem_str_true_in k l : mem_str k l = true -> In k l.
Proof.
  unfold mem_str. intros H. apply existsb_exists in H. destruct H as (x & Hin & E).
  apply String.eqb_eq in E. subst. exact Hin.
Qed.

Lemma pair_ok_in_split sp l : forallb (pair_ok_in sp) l = true ->
  forallb pair_ok l = true /\ exports_special sp l = false.
Proof.
  induction l as [|kv l IH]; intros H; [split; reflexivity|].
  cbn [forallb] in H. apply andb_prop in H. destruct H as [Hkv Hl].
  unfold pair_ok_in in Hkv. apply andb_prop in Hkv. destruct Hkv as [Hok Hns].
  destruct (IH Hl) as [IH1 IH2]. split.
  - cbn [forallb]. rewrite Hok, IH1. reflexivity.
  - unfold exports_special in *. cbn [existsb]. rewrite IH2. apply negb_true_iff in Hns. rewrite Hns. reflexivity.
Qed.

(* outside the interpreter's special names the rendering is faithful in that interpreter *)
Theorem shell_faithful_list_in p sp : params_ok p = true ->
  forall l, forallb (pair_ok_in sp) l = true -> sh_eval_in sp (render_shell p l) = Exports l.
Proof.
  intros Hp l Hl. destruct (pair_ok_in_split sp l Hl) as [Hok Hns].
  unfold sh_eval_in. rewrite (shell_faithful_list p Hp l Hok), Hns. reflexivity.
Qed.

Theorem shell_faithful_in p sp : params_ok p = true ->
  forall k v, valid_name k = true -> mem_str k sp = false -> no_nul v = true ->
  sh_eval_in sp (render_shell p [(k, v)]) = Exports [(k, v)].
Proof.
  intros Hp k v Hk Hs Hv. apply shell_faithful_list_in; [exact Hp|].
  cbn [forallb]. unfold pair_ok_in, pair_ok. cbn [fst snd]. rewrite Hk, Hv, Hs. reflexivity.
Qed.

(* ... and for a special name it is not: bash refuses to assign UID *)
Theorem shell_faithful_refuted p : params_ok p = true ->
  exists sp k v, In sp interpreters /\ valid_name k = true /\ no_nul v = true
                 /\ sh_eval_in sp (render_shell p [(k, v)]) <> Exports [(k, v)].
Proof.
  intros Hp. exists bash_special, "UID", "1000".
  split; [right; left; reflexivity|]. split; [reflexivity|]. split; [reflexivity|].
  unfold sh_eval_in. rewrite (shell_faithful p Hp "UID" "1000" eq_refl eq_refl).
  cbn. intros H. discriminate H.
Qed.

(* entries *)
Definition entry_ok_in (sp : list string) (e : entry) : bool :=
  entry_ok e && match e_kind e with KOther => true | _ => negb (mem_str (e_key e) sp) end.

Lemma entry_ok_in_ok sp es : forallb (entry_ok_in sp) es = true -> forallb entry_ok es = true.
Proof.
  induction es as [|e es IH]; intros H; [reflexivity|]. cbn [forallb] in *.
  apply andb_prop in H. destruct H as [He Hes]. unfold entry_ok_in in He. apply andb_prop in He.
  destruct He as [He _]. rewrite He, (IH Hes). reflexivity.
Qed.

Lemma scalars_not_special p sp es : forallb (entry_ok_in sp) es = true ->
  Forall (fun kv : string * (string * bool) => mem_str (fst kv) sp = false) (scalars p es).
Proof.
  induction es as [|e es IH]; intros H; cbn [scalars]; [constructor|].
  cbn [forallb] in H. apply andb_prop in H. destruct H as [He Hes].
  unfold entry_ok_in in He. apply andb_prop in He. destruct He as [_ He].
  unfold scalar_text. destruct (e_kind e); auto; constructor; auto; cbn [fst]; apply negb_true_iff; exact He.
Qed.

Lemma exports_special_keys sp (l : list (string * string)) :
  Forall (fun k => mem_str k sp = false) (map fst l) -> exports_special sp l = false.
Proof.
  unfold exports_special. induction l as [|kv l IH]; intros H; [reflexivity|].
  cbn [map] in H. inversion H as [|? ? Hk Hl]; subst. cbn [existsb]. rewrite Hk, (IH Hl). reflexivity.
Qed.

Lemma Forall_map_fst {A} (P : string -> Prop) (l : list (string * A)) :
  Forall (fun kv => P (fst kv)) l -> Forall P (map fst l).
Proof. induction 1; cbn [map]; constructor; auto. Qed.

Lemma env_pairs_not_special p sp redact pretend path_of vars files :
  forallb (entry_ok_in sp) vars = true -> forallb (entry_ok_in sp) files = true ->
  exports_special sp (env_pairs p redact pretend path_of vars files) = false.
Proof.
  intros Hv Hf. apply exports_special_keys. unfold env_pairs. rewrite map_app. apply Forall_app. split.
  - rewrite map_fst_var_pairs. apply Forall_map_fst, Forall_sort, (scalars_not_special p sp vars Hv).
  - unfold file_pairs. rewrite map_fst_number_paths. apply Forall_map_fst, Forall_sort, (scalars_not_special p sp files Hf).
Qed.

Theorem shell_script_faithful_in p sp redact pretend path_of vars files :
  params_ok p = true -> forallb (entry_ok_in sp) vars = true -> forallb (entry_ok_in sp) files = true ->
  (forall i, no_nul (path_of i) = true) ->
  sh_eval_in sp (shell_script p redact pretend path_of vars files)
  = Exports (env_pairs p redact pretend path_of vars files).
Proof.
  intros Hp Hv Hf Hpath. unfold sh_eval_in.
  rewrite (shell_script_faithful p redact pretend path_of vars files Hp (entry_ok_in_ok sp vars Hv)
             (entry_ok_in_ok sp files Hf) Hpath).
  rewrite (env_pairs_not_special p sp redact pretend path_of vars files Hv Hf). reflexivity.
Qed.

Definition uid_var : list entry :=
  [ {| e_key := "UID"; e_kind := KStr; e_text := "1000"; e_secret := false; e_unknown := false |} ].

Theorem shell_script_faithful_refuted p : params_ok p = true ->
  exists sp vars, In sp interpreters /\ forallb entry_ok vars = true
    /\ sh_eval_in sp (shell_script p false false (fun _ => "") vars [])
       <> Exports (env_pairs p false false (fun _ => "") vars []).
Proof.
  intros Hp. exists bash_special, uid_var. split; [right; left; reflexivity|]. split; [reflexivity|].
  unfold sh_eval_in.
  rewrite (shell_script_faithful p false false (fun _ => "") uid_var [] Hp eq_refl eq_refl (fun _ => eq_refl)).
  cbn. intros H. discriminate H.
Qed.

(* every scalar entry of environmentVariables that no scalar entry of `files` shadows ends up exported with exactly
   its value (its placeholder when it is a hidden secret) *)
Theorem shell_exports_each_var_partial p sp redact pretend path_of vars files e t :
  params_ok p = true -> forallb (entry_ok_in sp) vars = true -> forallb (entry_ok_in sp) files = true ->
  (forall i, no_nul (path_of i) = true) ->
  NoDup (map e_key vars) -> shadowed p files (e_key e) = false ->
  In e vars -> scalar_text p e = Some t ->
  exists l, sh_eval_in sp (shell_script p redact pretend path_of vars files) = Exports l
            /\ sh_lookup (e_key e) l = Some (if e_secret e && redact then sp_secret p else t).
Proof.
  intros Hp Hv Hf Hpath Hnd Hsh Hin Ht.
  exists (env_pairs p redact pretend path_of vars files). split; [apply shell_script_faithful_in; auto|].
  unfold env_pairs. rewrite sh_lookup_app_left.
  - apply sh_lookup_nodup.
    + rewrite map_fst_var_pairs. apply sort_nodup, scalars_nodup, Hnd.
    + unfold var_pairs.
      change (e_key e, if e_secret e && redact then sp_secret p else t)
        with ((fun kv : string * (string * bool) =>
                 (fst kv, if snd (snd kv) && redact then sp_secret p else fst (snd kv))) (e_key e, (t, e_secret e))).
      apply in_map. rewrite sort_in. apply scalars_in; assumption.
  - unfold file_pairs. rewrite map_fst_number_paths, sort_keys_in. apply mem_str_false_not_in. exact Hsh.
Qed.

(* the shadowed case: the same key as a scalar entry of `files` — the variable gets the temporary file's path *)
Definition shadow_vars : list entry :=
  [ {| e_key := "K"; e_kind := KStr; e_text := "value"; e_secret := false; e_unknown := false |} ].
Definition shadow_files : list entry :=
  [ {| e_key := "K"; e_kind := KStr; e_text := "content"; e_secret := false; e_unknown := false |} ].
Definition shadow_entry : entry :=
  {| e_key := "K"; e_kind := KStr; e_text := "value"; e_secret := false; e_unknown := false |}.

Theorem shell_exports_each_var_refuted p : params_ok p = true ->
  exists redact pretend path_of vars files e t,
    forallb entry_ok vars = true /\ forallb entry_ok files = true /\ (forall i, no_nul (path_of i) = true)
    /\ NoDup (map e_key vars) /\ NoDup (map e_key files) /\ In e vars /\ scalar_text p e = Some t
    /\ kf_file_shadows p vars files = true
    /\ ~ (exists l, sh_eval (shell_script p redact pretend path_of vars files) = Exports l
                    /\ sh_lookup (e_key e) l = Some (if e_secret e && redact then sp_secret p else t)).
Proof.
  intros Hp. exists false, false, (fun _ => "/tmp/esc-0"), shadow_vars, shadow_files, shadow_entry, "value".
  split; [reflexivity|]. split; [reflexivity|]. split; [intros; reflexivity|].
  split; [repeat constructor; intros []|]. split; [repeat constructor; intros []|].
  split; [left; reflexivity|]. split; [reflexivity|]. split; [reflexivity|].
  intros (l & Hl & Hlook).
  rewrite (shell_script_faithful p false false (fun _ => "/tmp/esc-0") shadow_vars shadow_files Hp eq_refl eq_refl
             (fun _ => eq_refl)) in Hl.
  injection Hl as <-. cbn in Hlook. discriminate Hlook.
Qed.
