(* Proofs/EvalTotalBase.v — open-recursion view of the evaluator (Model/Eval.v), state preorder, and
   fuel monotonicity.

   The five mutually recursive functions of the model are shown equal (by conversion) to NON-recursive "bodies"
   applied to the functions at the predecessor fuel.  Every later proof is an induction on fuel that only ever
   looks at these bodies. *)
From Verif Require Import Base.Bytes Model.Chain Model.GoText Model.Envelope Model.Eval.
From Coq Require Import Lia ZifyN ZifyNat ZifyBool.

(* ------------------------------------------------------------------------------------------------ *)
(* 1. bodies                                                                                          *)
(* ------------------------------------------------------------------------------------------------ *)
Section BODIES.
Variable W : world.

Definition fail_oof {A} (a : A) : M A := out_of_fuel ;;; ret a.

Definition expr_body (er : expr -> chain -> eid -> M chain)
  (x : expr) (xsec : bool) (xbase : chain) (id : eid) : M chain :=
  m <- get_memo id ;;
  match m with
  | Some (Some v) => ret v
  | Some None => err ;;; ret [unknown_layer false ScAlways]
  | None =>
      memo_set id None ;;;
      v <- er x xbase id ;;
      let v1 := if xsec then opt_top_sec v else v in
      let v2 := v1 ++ xbase in
      memo_set id (Some v2) ;;; ret v2
  end.

Definition interp_go (ea : path -> M chain) : list (string * option path) -> string -> bool -> bool -> M chain :=
  fix go (ps : list (string * option path)) (acc : string) (unk sec : bool) : M chain :=
    match ps with
    | [] => ret [str_layer sec unk (if unk then "[unknown]" else acc)]
    | (text, None) :: r => go r (acc +++ text) unk sec
    | (text, Some p) :: r =>
        pv <- ea p ;;
        let '(s, u, sc) := to_string (ts_need pv) pv in
        go r (if u then acc +++ text else acc +++ text +++ s) (unk || u) (sec || sc)
    end.

Definition arr_go (ee : expr -> bool -> chain -> eid -> M chain) (id : eid) : list expr -> nat -> list chain -> M chain :=
  fix go (es : list expr) (i : nat) (acc : list chain) : M chain :=
    match es with
    | [] => let cs := rev acc in ret [LArr false false (ScArray (map top_sch cs) (Some ScNever)) cs]
    | e :: r => v <- ee e false [] (fst id, snd id ++ [IIdx i]) ;; go r (S i) (v :: acc)
    end.

Definition obj_go (ee : expr -> bool -> chain -> eid -> M chain) (xbase : chain) (id : eid)
  : list (nat * string * expr) -> list (string * chain) -> M chain :=
  fix go (ds : list (nat * string * expr)) (acc : list (string * chain)) : M chain :=
    match ds with
    | [] => let props := rev acc in
            ret [LObj false false (ScObject (map (fun kc => (fst kc, top_sch (snd kc))) props) None) props]
    | (i, k, e) :: r =>
        v <- ee e false (property k xbase) (fst id, snd id ++ [IKey k]) ;;
        go r ((k, v) :: acc)
    end.

Definition repr_body
  (ee : expr -> bool -> chain -> eid -> M chain)
  (et : expr -> accept -> eid -> M (chain * bool))
  (ea : path -> M chain)
  (E : ectx) (x : expr) (xbase : chain) (id : eid) : M chain :=
    match x with
    | EMissing => ret [unknown_layer false ScAlways]
    | ENull => ret [LScalar false false (ScType "null") SNull]
    | EBool b => ret [LScalar false false (ScType "boolean") (SBool b)]
    | ENum t => ret [LScalar false false (ScType "number") (SNum t)]
    | EStr s => ret [str_layer false false s]
    | EInterp parts => interp_go ea parts EmptyString false false
    | ESym p => ea p
    | EArr elems => arr_go ee id elems O []
    | EObj entries =>
        let '(decl, dups) := declared entries O [] in
        add_err dups ;;;
        obj_go ee xbase id (sort_entries decl) []
    | EJoin d vs =>
        dr <- et d AccString (fst id, snd id ++ [IIdx 0]) ;;
        vr <- et vs AccArrString (fst id, snd id ++ [IIdx 1]) ;;
        let '(dv, dok) := dr in let '(vv, vok) := vr in
        if negb dok || negb vok then ret [unknown_layer false (ScType "string")]
        else
          let '(unk, sec) := combine2 dv vv in
          if unk then ret [LScalar sec true (ScType "string") SNull]
          else
            let strs := match vv with
                        | LArr _ _ _ elems :: _ =>
                            map (fun e => match e with LScalar _ _ _ (SStr s) :: _ => s | _ => "" end) elems
                        | _ => []
                        end in
            let dl := match dv with LScalar _ _ _ (SStr s) :: _ => s | _ => "" end in
            ret [str_layer sec false (sjoin dl strs)]
    | EFromB64 e =>
        r <- et e AccString (fst id, snd id ++ [IIdx 0]) ;;
        let '(v, ok) := r in
        if negb ok then ret [unknown_layer false (ScType "string")]
        else
          let unk := contains_unknowns v in let sec := contains_secrets v in
          if unk then ret [LScalar sec true (ScType "string") SNull]
          else match v with
               | LScalar _ _ _ (SStr s) :: _ =>
                   match b64_decode s with
                   | Some b => ret [str_layer sec false b]
                   | None => err ;;; ret [LScalar sec true (ScType "string") SNull]
                   end
               | _ => ret [LScalar sec true (ScType "string") SNull]
               end
    | EToB64 e =>
        r <- et e AccString (fst id, snd id ++ [IIdx 0]) ;;
        let '(v, ok) := r in
        if negb ok then ret [unknown_layer false (ScType "string")]
        else
          let unk := contains_unknowns v in let sec := contains_secrets v in
          if unk then ret [LScalar sec true (ScType "string") SNull]
          else match v with
               | LScalar _ _ _ (SStr s) :: _ => ret [str_layer sec false (b64_encode s)]
               | _ => ret [LScalar sec true (ScType "string") SNull]
               end
    | EFromJSON e =>
        r <- et e AccString (fst id, snd id ++ [IIdx 0]) ;;
        let '(v, ok) := r in
        if negb ok then ret [unknown_layer false ScAlways]
        else
          let unk := contains_unknowns v in let sec := contains_secrets v in
          if unk then ret [LScalar sec true ScAlways SNull]
          else match v with
               | LScalar _ _ _ (SStr s) :: _ =>
                   match json_parse s with
                   | JPOk j => ret (unexport (S (x_depth (json_to_x (S (json_depth j)) sec j))) false (json_to_x (S (json_depth j)) sec j))
                   | JPErr => err ;;; ret [LScalar sec true ScAlways SNull]
                   | JPUnsupported => out_of_fuel ;;; ret invalid_access
                   end
               | _ => ret [LScalar sec true ScAlways SNull]
               end
    | EToJSON e =>
        v <- ee e false [] (fst id, snd id ++ [IIdx 0]) ;;
        let unk := contains_unknowns v in let sec := contains_secrets v in
        if unk then ret [LScalar sec true (ScType "string") SNull]
        else match export big_fuel v with
             | Some xv => let j := x_to_json (S (x_depth xv)) xv in
                          if json_all_ascii (S (json_depth j)) j
                          then ret [str_layer sec false (json_print (S (json_depth j)) j)]
                          else out_of_fuel ;;; ret invalid_access
             | None => out_of_fuel ;;; ret invalid_access
             end
    | EToString e =>
        v <- ee e false [] (fst id, snd id ++ [IIdx 0]) ;;
        let '(s, unk, sec) := to_string (ts_need v) v in
        if unk then ret [LScalar sec true (ScType "string") SNull] else ret [str_layer sec false s]
    | ESecretPlain s =>
        ee (EStr s) true [] (fst id, snd id ++ [IIdx 0])
    | ESecretCipher repr =>
        match decode_ct {| ep_magic := "escx"; ep_version := 1; ep_min_len := 12 |} repr with
        | DOk ct =>
            if w_check W && negb (w_show W) then ret [LScalar true true (ScType "string") SNull]
            else
              failed <- call W ;;
              emit (EvDecrypt (ec_name E) ct) ;;;
              match (if failed then None else w_decrypt W (ec_name E) ct) with
              | Some pt => ret [str_layer true false pt]
              | None => err ;;; ret [LScalar true true (ScType "string") SNull]
              end
        | _ => err ;;; ret [LScalar true true (ScType "string") SNull]
        end
    | EOpen pname inputs =>
        failed <- call W ;;
        emit (EvLoadProvider pname) ;;;
        let prov := if failed then None else alookup pname (w_provs W) in
        (match prov with None => err | Some _ => ret tt end) ;;;
        let in_s := match prov with Some p => pv_in p | None => InAlways end in
        let out_s := match prov with Some p => pv_out p | None => ScAlways end in
        r <- et inputs (AccIn in_s) (fst id, snd id ++ [IIdx 0]) ;;
        let '(iv, ok) := r in
        match prov with
        | None => ret [unknown_layer false out_s]
        | Some p =>
            if negb ok || contains_unknowns iv || w_check W then ret [unknown_layer false out_s]
            else match export_t iv with
                 | Some (XObj s u m as xin) =>
                     failed2 <- call W ;;
                     emit (EvOpen id pname xin (ec_root E) (ec_name E)) ;;;
                     let out := if failed2 then None
                                else match pv_beh p with PEcho => Some xin | PConst v => Some v | PFail => None end in
                     match out with
                     | Some o => ret (unexport (S (x_depth o)) false o)
                     | None => err ;;; ret [unknown_layer false out_s]
                     end
                 | Some _ => err ;;; ret [unknown_layer false out_s]
                 | None => out_of_fuel ;;; ret invalid_access
                 end
        end
    end.

Definition typed_body (ee : expr -> bool -> chain -> eid -> M chain) (x : expr) (a : accept) (id : eid)
  : M (chain * bool) :=
    v <- ee x false [] id ;;
    let '(ok, n) := validate a v in
    add_err n ;;; ret (v, ok).

Definition access_body (wk : expr -> bool -> chain -> eid -> path -> M chain) (E : ectx) (p : path) : M chain :=
    match p with
    | [] => ret invalid_access
    | a0 :: rest =>
        let k0 := object_key a0 in
        match k0 with
        | Some "imports" => let '(c, n) := value_access (va_need (ec_imports E) rest) (ec_imports E) rest in add_err n ;;; ret c
        | Some "context" => let '(c, n) := value_access (va_need (ec_context E) rest) (ec_context E) rest in add_err n ;;; ret c
        | _ => wk (EObj (ec_values E)) false (ec_base E) (ec_name E, []) p
        end
    end.

Definition walk_body
  (ee : expr -> bool -> chain -> eid -> M chain)
  (wk : expr -> bool -> chain -> eid -> path -> M chain)
  (rx : expr) (rsec : bool) (rbase : chain) (rid : eid) (accs : path) : M chain :=
    match accs with
    | [] => ee rx rsec rbase rid
    | a :: rest =>
        match rx with
        | EArr elems =>
            match array_index a (Z.of_nat (length elems)) with
            | Some i => wk (nth i elems EMissing) false [] (fst rid, snd rid ++ [IIdx i]) rest
            | None => err ;;; ret invalid_access
            end
        | EObj entries =>
            match object_key a with
            | None => err ;;; ret invalid_access
            | Some k =>
                match find_entry k entries O with
                | Some (_, px) => wk px false (property k rbase) (fst rid, snd rid ++ [IKey k]) rest
                | None =>
                    if is_object rbase then let '(c, n) := value_access (va_need rbase accs) rbase accs in add_err n ;;; ret c
                    else err ;;; ret invalid_access
                end
            end
        | ESecretPlain s => wk (EStr s) true [] (fst rid, snd rid ++ [IIdx 0]) accs
        | ESecretCipher _ => err ;;; ret invalid_access
        | _ =>
            v <- ee rx rsec rbase rid ;;
            let '(c, n) := value_access (va_need v accs) v accs in add_err n ;;; ret c
        end
    end.

Definition load_result (failed : bool) (n : string) : env_load :=
  if failed then LoadFail else match alookup n (w_envs W) with Some l => l | None => LoadFail end.

Definition env_go (ev : string -> envdef -> M chain)
  : list (string * bool) -> chain -> list (string * chain) -> M (chain * list (string * chain)) :=
  fix go (is : list (string * bool)) (base : chain) (my : list (string * chain)) : M (chain * list (string * chain)) :=
    match is with
    | [] => ret (base, my)
    | (n, merge) :: rest =>
        let proceed (val : chain) :=
          go rest (if merge then val ++ base else base) (ainsert n val my) in
        s <- imps_get n ;;
        match s with
        | Some i =>
            if is_evaluating i then err ;;; go rest base my
            else match is_value i with
                 | Some v => proceed v
                 | None => go rest base my
                 end
        | None =>
            failed <- call W ;;
            emit (EvLoad n) ;;;
            let remember_failure := imps_set n {| is_evaluating := false; is_value := None |} in
            match (if failed then LoadFail
                   else match alookup n (w_envs W) with Some l => l | None => LoadFail end) with
            | LoadFail => err ;;; remember_failure ;;; go rest base my
            | LoadNoParse => err ;;; remember_failure ;;; go rest base my
            | LoadOk d' =>
                v <- ev n d' ;;
                imps_set n {| is_evaluating := false; is_value := Some v |} ;;;
                proceed v
            end
        end
    end.

Definition env_ectx (root' name : string) (d : envdef) (base : chain) (my : list (string * chain)) : ectx :=
  {| ec_name := name; ec_root := root';
     ec_values := filter (fun kv => negb (reserved (fst kv))) (ed_values d);
     ec_base := base; ec_imports := imports_value my;
     ec_context := context_chain W root' name |}.

Definition env_body
  (ev : string -> string -> envdef -> M chain)                       (* root', name, def *)
  (ee : ectx -> expr -> bool -> chain -> eid -> M chain)
  (root name : string) (d : envdef) : M chain :=
    let root' := if String.eqb root "" || String.eqb root "<yaml>" then name else root in
    imps_set name {| is_evaluating := true; is_value := None |} ;;;
    r <- env_go (ev root') (ed_imports d) [] [] ;;
    let '(base, my) := r in
    imps_set name {| is_evaluating := false; is_value := None |} ;;;
    let nres := N.of_nat (length (filter (fun kv => reserved (fst kv)) (ed_values d))) in
    add_err nres ;;;
    let E := env_ectx root' name d base my in
    ee E (EObj (ec_values E)) false base (name, []).

(* ---- unfolding lemmas: all by conversion ---- *)
Lemma eval_expr_0 E x xsec xbase id : eval_expr W 0 E x xsec xbase id = fail_oof invalid_access.
Proof. reflexivity. Qed.
Lemma eval_repr_0 E x xbase id : eval_repr W 0 E x xbase id = fail_oof invalid_access.
Proof. reflexivity. Qed.
Lemma eval_typed_0 E x a id : eval_typed W 0 E x a id = fail_oof (invalid_access, false).
Proof. reflexivity. Qed.
Lemma eval_access_0 E p : eval_access W 0 E p = fail_oof invalid_access.
Proof. reflexivity. Qed.
Lemma walk_0 E rx rsec rbase rid accs : walk W 0 E rx rsec rbase rid accs = fail_oof invalid_access.
Proof. reflexivity. Qed.
Lemma eval_env_0 root name d : eval_env W 0 root name d = fail_oof invalid_access.
Proof. reflexivity. Qed.

Lemma eval_expr_S f E x xsec xbase id :
  eval_expr W (S f) E x xsec xbase id = expr_body (eval_repr W f E) x xsec xbase id.
Proof. reflexivity. Qed.
Lemma eval_repr_S f E x xbase id :
  eval_repr W (S f) E x xbase id
  = repr_body (eval_expr W f E) (eval_typed W f E) (eval_access W f E) E x xbase id.
Proof. destruct x; reflexivity. Qed.
Lemma eval_typed_S f E x a id :
  eval_typed W (S f) E x a id = typed_body (eval_expr W f E) x a id.
Proof. reflexivity. Qed.
Lemma eval_access_S f E p :
  eval_access W (S f) E p = access_body (walk W f E) E p.
Proof. reflexivity. Qed.
Lemma walk_S f E rx rsec rbase rid accs :
  walk W (S f) E rx rsec rbase rid accs = walk_body (eval_expr W f E) (walk W f E) rx rsec rbase rid accs.
Proof. reflexivity. Qed.
Lemma eval_env_S f root name d :
  eval_env W (S f) root name d = env_body (eval_env W f) (eval_expr W f) root name d.
Proof. reflexivity. Qed.

(* ---- unfolding lemmas of the list loops ---- *)
Lemma interp_go_nil ea acc unk sec :
  interp_go ea [] acc unk sec = ret [str_layer sec unk (if unk then "[unknown]" else acc)].
Proof. reflexivity. Qed.
Lemma interp_go_text ea text r acc unk sec :
  interp_go ea ((text, None) :: r) acc unk sec = interp_go ea r (acc +++ text) unk sec.
Proof. reflexivity. Qed.
Lemma interp_go_ref ea text p r acc unk sec :
  interp_go ea ((text, Some p) :: r) acc unk sec =
  (pv <- ea p ;;
   let '(s, u, sc) := to_string (ts_need pv) pv in
   interp_go ea r (if u then acc +++ text else acc +++ text +++ s) (unk || u) (sec || sc)).
Proof. reflexivity. Qed.
Lemma arr_go_nil ee id i acc :
  arr_go ee id [] i acc = ret [LArr false false (ScArray (map top_sch (rev acc)) (Some ScNever)) (rev acc)].
Proof. reflexivity. Qed.
Lemma arr_go_cons ee id e r i acc :
  arr_go ee id (e :: r) i acc = (v <- ee e false [] (fst id, snd id ++ [IIdx i]) ;; arr_go ee id r (S i) (v :: acc)).
Proof. reflexivity. Qed.
Definition obj_layer (props : list (string * chain)) : layer :=
  LObj false false (ScObject (map (fun kc => (fst kc, top_sch (snd kc))) props) None) props.
Lemma obj_go_nil ee xbase id acc : obj_go ee xbase id [] acc = ret [obj_layer (rev acc)].
Proof. reflexivity. Qed.
Lemma obj_go_cons ee xbase id i k e r acc :
  obj_go ee xbase id ((i, k, e) :: r) acc =
  (v <- ee e false (property k xbase) (fst id, snd id ++ [IKey k]) ;; obj_go ee xbase id r ((k, v) :: acc)).
Proof. reflexivity. Qed.
Lemma env_go_nil ev base my : env_go ev [] base my = ret (base, my).
Proof. reflexivity. Qed.
Lemma env_go_cons ev n merge rest base my :
  env_go ev ((n, merge) :: rest) base my =
  (s <- imps_get n ;;
   match s with
   | Some i =>
       if is_evaluating i then err ;;; env_go ev rest base my
       else match is_value i with
            | Some v => env_go ev rest (if merge then v ++ base else base) (ainsert n v my)
            | None => env_go ev rest base my
            end
   | None =>
       failed <- call W ;;
       emit (EvLoad n) ;;;
       match load_result failed n with
       | LoadFail => err ;;; imps_set n {| is_evaluating := false; is_value := None |} ;;; env_go ev rest base my
       | LoadNoParse => err ;;; imps_set n {| is_evaluating := false; is_value := None |} ;;; env_go ev rest base my
       | LoadOk d' =>
           v <- ev n d' ;;
           imps_set n {| is_evaluating := false; is_value := Some v |} ;;;
           env_go ev rest (if merge then v ++ base else base) (ainsert n v my)
       end
   end).
Proof. reflexivity. Qed.

End BODIES.

(* ------------------------------------------------------------------------------------------------ *)
(* 2. the state preorder: what no computation of the evaluator ever undoes                          *)
(* ------------------------------------------------------------------------------------------------ *)
Record st_le (s s' : st) : Prop := {
  le_oof : oof s = true -> oof s' = true;
  le_nerr : nerr s <= nerr s';
  le_calls : calls s <= calls s';
  le_memo : forall id, memo_get id (memo s) <> None -> memo_get id (memo s') <> None;
  le_imps : forall n, alookup n (imps s) <> None -> alookup n (imps s') <> None }.

Lemma st_le_refl s : st_le s s.
Proof. constructor; auto; lia. Qed.

Lemma st_le_trans s1 s2 s3 : st_le s1 s2 -> st_le s2 s3 -> st_le s1 s3.
Proof. intros [a b c d e] [a' b' c' d' e']. constructor; auto; lia. Qed.

Definition mono {A} (m : M A) : Prop := forall s, st_le s (snd (m s)).

Lemma mono_ret {A} (a : A) : mono (ret a).
Proof. intro s. apply st_le_refl. Qed.

Lemma mono_bind {A B} (m : M A) (k : A -> M B) : mono m -> (forall a, mono (k a)) -> mono (bind m k).
Proof.
  intros Hm Hk s. unfold bind. specialize (Hm s). destruct (m s) as [a s1]. simpl in Hm.
  eapply st_le_trans; [exact Hm|apply Hk].
Qed.

Lemma mono_add_err n : mono (add_err n).
Proof. intro s. constructor; simpl; auto; lia. Qed.
Lemma mono_err : mono err.
Proof. apply mono_add_err. Qed.
Lemma mono_emit e : mono (emit e).
Proof. intro s. constructor; simpl; auto; lia. Qed.
Lemma mono_oof : mono out_of_fuel.
Proof. intro s. constructor; simpl; auto; lia. Qed.
Lemma mono_call W : mono (call W).
Proof. intro s. constructor; simpl; auto; lia. Qed.
Lemma mono_get_memo id : mono (get_memo id).
Proof. intro s. apply st_le_refl. Qed.
Lemma mono_imps_get n : mono (imps_get n).
Proof. intro s. apply st_le_refl. Qed.
Lemma mono_memo_set id v : mono (memo_set id v).
Proof.
  intro s. constructor; simpl; auto; try lia.
  intros id' H. destruct (eid_eqb id' id); [discriminate|exact H].
Qed.
Lemma mono_imps_set n v : mono (imps_set n v).
Proof.
  intro s. constructor; simpl; auto; try lia.
  intros n' H. destruct (String.eqb n' n); [discriminate|exact H].
Qed.
Lemma mono_fail_oof {A} (a : A) : mono (fail_oof a).
Proof. apply mono_bind; [apply mono_oof|intro; apply mono_ret]. Qed.

Ltac mono_step :=
  first
  [ assumption
  | apply mono_ret | apply mono_err | apply mono_add_err | apply mono_emit | apply mono_oof | apply mono_call
  | apply mono_get_memo | apply mono_imps_get | apply mono_memo_set | apply mono_imps_set | apply mono_fail_oof
  | apply mono_bind; [ | intro ]
  | match goal with H : forall _, _ |- mono _ => apply H end
  | match goal with |- mono (match ?x with _ => _ end) => destruct x end
  | progress cbv beta zeta ].
Ltac mono_tac := repeat mono_step.

(* ------------------------------------------------------------------------------------------------ *)
(* 3. "more fuel changes nothing unless fuel ran out"                                               *)
(* ------------------------------------------------------------------------------------------------ *)
Definition fle {A} (m m' : M A) : Prop :=
  forall s, oof s = false -> oof (snd (m s)) = false -> m' s = m s.

Definition R {A} (m m' : M A) : Prop := mono m /\ fle m m'.

Lemma R_refl {A} (m : M A) : mono m -> R m m.
Proof. intro H. split; [exact H|]. intros s _ _. reflexivity. Qed.

Lemma R_bind {A B} (m m' : M A) (k k' : A -> M B) :
  R m m' -> (forall a, R (k a) (k' a)) -> R (bind m k) (bind m' k').
Proof.
  intros [Hm Hf] Hk. split.
  - apply mono_bind; [exact Hm|]. intro a. apply Hk.
  - intros s H0 H1. unfold bind in *.
    specialize (Hf s H0). destruct (m s) as [a s1] eqn:E. simpl in Hf.
    assert (H2 : oof s1 = false).
    { destruct (oof s1) eqn:E1; [|reflexivity].
      pose proof (le_oof _ _ (proj1 (Hk a) s1) E1) as H3. congruence. }
    rewrite (Hf H2). apply (proj2 (Hk a)); assumption.
Qed.

Lemma R_fail_oof {A} (a : A) (m' : M A) : R (fail_oof a) m'.
Proof. split; [apply mono_fail_oof|]. intros s _ H. discriminate H. Qed.

Ltac r_step :=
  first
  [ assumption
  | match goal with |- R ?a ?b => constr_eq a b; apply R_refl; solve [mono_tac] end
  | apply R_bind; [ | intro ]
  | match goal with H : forall _, _ |- R _ _ => apply H end
  | match goal with |- R (match ?x with _ => _ end) (match ?x with _ => _ end) => destruct x end
  | progress cbv beta zeta ].
Ltac r_tac := repeat r_step.
Ltac split5 := split; [|split; [|split; [|split]]].

Section REL.
Variable W : world.

Lemma interp_go_R (ea ea' : path -> M chain) :
  (forall p, R (ea p) (ea' p)) ->
  forall ps acc unk sec, R (interp_go ea ps acc unk sec) (interp_go ea' ps acc unk sec).
Proof.
  intros H. induction ps as [|[text [p|]] r IH]; intros acc unk sec.
  - rewrite !interp_go_nil. r_tac.
  - rewrite !interp_go_ref. apply R_bind; [apply H|]. intro pv. destruct (to_string (ts_need pv) pv) as [[s u] sc]. apply IH.
  - rewrite !interp_go_text. apply IH.
Qed.

Lemma arr_go_R (ee ee' : expr -> bool -> chain -> eid -> M chain) id :
  (forall x b c i, R (ee x b c i) (ee' x b c i)) ->
  forall es i acc, R (arr_go ee id es i acc) (arr_go ee' id es i acc).
Proof.
  intros H. induction es as [|e r IH]; intros i acc.
  - rewrite !arr_go_nil. r_tac.
  - rewrite !arr_go_cons. apply R_bind; [apply H|]. intro v. apply IH.
Qed.

Lemma obj_go_R (ee ee' : expr -> bool -> chain -> eid -> M chain) xbase id :
  (forall x b c i, R (ee x b c i) (ee' x b c i)) ->
  forall ds acc, R (obj_go ee xbase id ds acc) (obj_go ee' xbase id ds acc).
Proof.
  intros H. induction ds as [|[[i k] e] r IH]; intros acc.
  - rewrite !obj_go_nil. r_tac.
  - rewrite !obj_go_cons. apply R_bind; [apply H|]. intro v. apply IH.
Qed.

Lemma expr_body_R er er' x xsec xbase id :
  (forall x b i, R (er x b i) (er' x b i)) ->
  R (expr_body er x xsec xbase id) (expr_body er' x xsec xbase id).
Proof. intros H. unfold expr_body. r_tac. Qed.

Lemma typed_body_R ee ee' x a id :
  (forall x b c i, R (ee x b c i) (ee' x b c i)) ->
  R (typed_body ee x a id) (typed_body ee' x a id).
Proof. intros H. unfold typed_body. r_tac. Qed.

Lemma access_body_R wk wk' E p :
  (forall x b c i a, R (wk x b c i a) (wk' x b c i a)) ->
  R (access_body wk E p) (access_body wk' E p).
Proof. intros H. unfold access_body. r_tac. Qed.

Lemma walk_body_R ee ee' wk wk' rx rsec rbase rid accs :
  (forall x b c i, R (ee x b c i) (ee' x b c i)) ->
  (forall x b c i a, R (wk x b c i a) (wk' x b c i a)) ->
  R (walk_body ee wk rx rsec rbase rid accs) (walk_body ee' wk' rx rsec rbase rid accs).
Proof. intros H1 H2. unfold walk_body. r_tac. Qed.

Lemma repr_body_R ee ee' et et' ea ea' E x xbase id :
  (forall x b c i, R (ee x b c i) (ee' x b c i)) ->
  (forall x a i, R (et x a i) (et' x a i)) ->
  (forall p, R (ea p) (ea' p)) ->
  R (repr_body W ee et ea E x xbase id) (repr_body W ee' et' ea' E x xbase id).
Proof.
  intros H1 H2 H3. destruct x; unfold repr_body.
  all: try solve [r_tac].
  - apply interp_go_R; assumption.
  - apply arr_go_R; assumption.
  - destruct (declared l 0%nat []) as [decl dups]. apply R_bind; [r_tac|]. intro. apply obj_go_R; assumption.
Qed.


Lemma env_go_R (ev ev' : string -> envdef -> M chain) :
  (forall n d, R (ev n d) (ev' n d)) ->
  forall is base my, R (env_go W ev is base my) (env_go W ev' is base my).
Proof.
  intros H. induction is as [|[n merge] rest IH]; intros base my.
  - rewrite !env_go_nil. r_tac.
  - rewrite !env_go_cons. r_tac.
Qed.

Lemma env_body_R ev ev' ee ee' root name d :
  (forall r n d, R (ev r n d) (ev' r n d)) ->
  (forall E x b c i, R (ee E x b c i) (ee' E x b c i)) ->
  R (env_body W ev ee root name d) (env_body W ev' ee' root name d).
Proof.
  intros H1 H2. unfold env_body. cbv zeta.
  apply R_bind; [r_tac|]. intros _.
  apply R_bind; [apply env_go_R; intros; apply H1|]. intros [base my].
  apply R_bind; [r_tac|]. intros _.
  apply R_bind; [r_tac|]. intros _. apply H2.
Qed.

(* the five functions at fuel f and f' *)
Definition R5 (f f' : nat) : Prop :=
  (forall E x xsec xbase id, R (eval_expr W f E x xsec xbase id) (eval_expr W f' E x xsec xbase id)) /\
  (forall E x xbase id, R (eval_repr W f E x xbase id) (eval_repr W f' E x xbase id)) /\
  (forall E x a id, R (eval_typed W f E x a id) (eval_typed W f' E x a id)) /\
  (forall E p, R (eval_access W f E p) (eval_access W f' E p)) /\
  (forall E rx rsec rbase rid accs, R (walk W f E rx rsec rbase rid accs) (walk W f' E rx rsec rbase rid accs)).

Lemma R5_le : forall f f', (f <= f')%nat -> R5 f f'.
Proof.
  induction f as [|f IH]; intros f' Hle.
  - unfold R5; split5; intros; apply R_fail_oof.
  - destruct f' as [|f']; [lia|]. assert (Hle' : (f <= f')%nat) by lia.
    destruct (IH f' Hle') as (He & Hr & Ht & Ha & Hw).
    unfold R5. split5; intros.
    + rewrite !eval_expr_S. apply expr_body_R. intros; apply Hr.
    + rewrite !eval_repr_S. apply repr_body_R; intros; auto.
    + rewrite !eval_typed_S. apply typed_body_R. intros; apply He.
    + rewrite !eval_access_S. apply access_body_R. intros; apply Hw.
    + rewrite !walk_S. apply walk_body_R; intros; auto.
Qed.

Lemma eval_env_R : forall f f', (f <= f')%nat ->
  forall root name d, R (eval_env W f root name d) (eval_env W f' root name d).
Proof.
  induction f as [|f IH]; intros f' Hle root name d.
  - apply R_fail_oof.
  - destruct f' as [|f']; [lia|]. assert (Hle' : (f <= f')%nat) by lia.
    rewrite !eval_env_S. apply env_body_R.
    + intros; apply IH; assumption.
    + intros. apply (R5_le f f' Hle').
Qed.

(* ---------------- Theorem 2: oof is sticky, nerr / calls never decrease, memo and import tables only grow ---------------- *)
Theorem eval_expr_mono f E x xsec xbase id : mono (eval_expr W f E x xsec xbase id).
Proof. apply (R5_le f f (le_n f)). Qed.
Theorem eval_repr_mono f E x xbase id : mono (eval_repr W f E x xbase id).
Proof. apply (R5_le f f (le_n f)). Qed.
Theorem eval_typed_mono f E x a id : mono (eval_typed W f E x a id).
Proof. apply (R5_le f f (le_n f)). Qed.
Theorem eval_access_mono f E p : mono (eval_access W f E p).
Proof. apply (R5_le f f (le_n f)). Qed.
Theorem walk_mono f E rx rsec rbase rid accs : mono (walk W f E rx rsec rbase rid accs).
Proof. apply (R5_le f f (le_n f)). Qed.
Theorem eval_env_mono f root name d : mono (eval_env W f root name d).
Proof. apply (eval_env_R f f (le_n f)). Qed.

(* ---------------- Theorem 1: fuel monotonicity ---------------- *)
Theorem fuel_monotone_expr f f' E x xsec xbase id s :
  (f <= f')%nat -> oof s = false -> oof (snd (eval_expr W f E x xsec xbase id s)) = false ->
  eval_expr W f' E x xsec xbase id s = eval_expr W f E x xsec xbase id s.
Proof. intros H. apply (R5_le f f' H). Qed.
Theorem fuel_monotone_repr f f' E x xbase id s :
  (f <= f')%nat -> oof s = false -> oof (snd (eval_repr W f E x xbase id s)) = false ->
  eval_repr W f' E x xbase id s = eval_repr W f E x xbase id s.
Proof. intros H. apply (R5_le f f' H). Qed.
Theorem fuel_monotone_typed f f' E x a id s :
  (f <= f')%nat -> oof s = false -> oof (snd (eval_typed W f E x a id s)) = false ->
  eval_typed W f' E x a id s = eval_typed W f E x a id s.
Proof. intros H. apply (R5_le f f' H). Qed.
Theorem fuel_monotone_access f f' E p s :
  (f <= f')%nat -> oof s = false -> oof (snd (eval_access W f E p s)) = false ->
  eval_access W f' E p s = eval_access W f E p s.
Proof. intros H. apply (R5_le f f' H). Qed.
Theorem fuel_monotone_walk f f' E rx rsec rbase rid accs s :
  (f <= f')%nat -> oof s = false -> oof (snd (walk W f E rx rsec rbase rid accs s)) = false ->
  walk W f' E rx rsec rbase rid accs s = walk W f E rx rsec rbase rid accs s.
Proof. intros H. apply (R5_le f f' H). Qed.
Theorem fuel_monotone_env f f' root name d s :
  (f <= f')%nat -> oof s = false -> oof (snd (eval_env W f root name d s)) = false ->
  eval_env W f' root name d s = eval_env W f root name d s.
Proof. intros H. apply (eval_env_R f f' H). Qed.

End REL.

Theorem run_fuel_irrelevant f f' W n d :
  ob_oof (run f W n d) = false -> (f <= f')%nat -> run f' W n d = run f W n d.
Proof.
  intros H Hle. unfold run in *.
  pose proof (fuel_monotone_env W f f' "" n d st0 Hle eq_refl) as Hm.
  destruct (eval_env W f "" n d st0) as [c s] eqn:E. cbn [snd] in Hm.
  assert (Hs : oof s = false).
  { cbn [ob_oof] in H. apply orb_false_iff in H. apply H. }
  rewrite (Hm Hs). reflexivity.
Qed.
