(* Proofs/SchemaSoundRel.v — C06, schema clause: the invariant.
   [h1 o]      : the open-mode chain [o] has at most one layer, hereditarily below known composites.
   [accC s o]  : schema [s] accepts (the value of) the single-layer chain [o].
   [sa b c o]  : check-mode chain [c] describes open-mode chain [o]: an unknown check layer carries a schema of
                 class [good b] that accepts [o]; a known check layer carries the CANONICAL schema of its value
                 (type of the scalar / tuple of the children's schemas / record of the children's schemas) and
                 faces a layer of the same constructor, flags, payload / keys, with related children.
   Consequences: [sa] implies the approximation relation of CheckApproxRel.v; the schema of [c] accepts the export
   of [o] ([sa_export]); with [b = true] the schema of [c] contains no oneOf. *)
From Verif Require Import Base.Bytes Base.Wire Model.Chain Model.GoText Model.Envelope Model.Eval Corr.EvalWire.
From Verif Require Corr.C06.
From Verif Require Import Proofs.NonInterferenceRel Proofs.NonInterferenceOps Proofs.NonInterferenceBuiltins
     Proofs.CheckApproxRel Proofs.CheckApproxEval Proofs.CheckApproxExamples
     Proofs.SchemaSoundAccept Proofs.SchemaSoundUnion.
From Coq Require Import Lia ZifyN ZifyNat ZifyBool.

Notation ap_c := (chain_ap ap_l).

Inductive h1 : chain -> Prop :=
| h1_nil : h1 []
| h1_unk l : l_unk l = true -> h1 [l]
| h1_scalar s c x : h1 [LScalar s false c x]
| h1_arr s c e : (forall ch, In ch e -> h1 ch) -> h1 [LArr s false c e]
| h1_obj s c p : (forall k ch, In (k, ch) p -> h1 ch) -> h1 [LObj s false c p].

Definition osch (o : option sch) : sch := match o with Some s => s | None => ScAlways end.

Inductive accC : sch -> chain -> Prop :=
| ac_nil s : accC s []
| ac_unk s l r : l_unk l = true -> accC s (l :: r)
| ac_always o : accC ScAlways o
| ac_type sec c x : accC (ScType (scalar_type x)) [LScalar sec false c x]
| ac_arr sec c e prefix items :
    (forall i ch, nth_error e i = Some ch -> accC (osch (item_sch prefix items i)) ch) ->
    accC (ScArray prefix items) [LArr sec false c e]
| ac_obj sec c p props addl :
    (forall k ch, In (k, ch) p -> accC (osch (prop_sch props addl k)) ch) ->
    accC (ScObject props addl) [LObj sec false c p]
| ac_oneof alts a o : In a alts -> accC a o -> accC (ScOneOf alts) o.

Definition canon_arr (e : list chain) : sch := ScArray (map top_sch e) (Some ScNever).
Definition canon_obj (p : list (string * chain)) : sch := ScObject (map (fun kc => (fst kc, top_sch (snd kc))) p) None.

Inductive sa (b : bool) : chain -> chain -> Prop :=
| sa_nil : sa b [] []
| sa_unk s sc x o : good b sc = true -> h1 o -> accC sc o -> sa b [LScalar s true sc x] o
| sa_scalar s x c' : sa b [LScalar s false (ScType (scalar_type x)) x] [LScalar s false c' x]
| sa_arr s c' e e' : Forall2 (sa b) e e' -> sa b [LArr s false (canon_arr e) e] [LArr s false c' e']
| sa_obj s c' p p' : Forall2 (kv_rel (sa b)) p p' -> sa b [LObj s false (canon_obj p) p] [LObj s false c' p'].

Lemma top_sch_single l : top_sch [l] = l_sch l.
Proof. destruct l as [? ? sc ?|? ? sc ?|? ? sc ?]; cbn [top_sch chain_sch l_sch]; destruct sc; reflexivity. Qed.

Lemma top_sch_nil : top_sch [] = ScAlways.
Proof. reflexivity. Qed.

(* ---------------- sa implies the approximation relation ---------------- *)
Lemma sa_len b c o : sa b c o -> c = [] \/ exists l, c = [l].
Proof. destruct 1; eauto. Qed.

Lemma sa_ap_layer b : forall l o, sa b [l] o -> ap_c [l] o.
Proof.
  intros l. induction l as [s u c sc|s u c e IH|s u c p IH] using layer_ind2; intros o H.
  - inversion H; subst; [constructor|]. constructor; constructor.
  - inversion H as [| | |s0 c' e0 e' He|]; subst. constructor; [|constructor]. constructor.
    clear H. induction He as [|ch ch' e e' Hc He IHe]; [constructor|]. inversion IH as [|? ? P1 P2]; subst.
    constructor; [|auto]. destruct (sa_len _ _ _ Hc) as [->|[l ->]].
    + inversion Hc; subst. constructor.
    + inversion P1; subst. auto.
  - inversion H as [| | | |s0 c' p0 p' Hp]; subst. constructor; [|constructor]. constructor.
    clear H. induction Hp as [|[k ch] [k' ch'] p p' [Ek Hc] Hp IHp]; [constructor|]. inversion IH as [|? ? P1 P2]; subst.
    cbn [fst snd] in *. constructor; [|auto]. split; [exact Ek|]. cbn [snd].
    destruct (sa_len _ _ _ Hc) as [->|[l ->]].
    + inversion Hc; subst. constructor.
    + inversion P1; subst. auto.
Qed.

Theorem sa_ap b c o : sa b c o -> ap_c c o.
Proof.
  intros H. destruct (sa_len _ _ _ H) as [->|[l ->]]; [inversion H; constructor|]. eapply sa_ap_layer; eauto.
Qed.

Lemma sa_F2_ap b l l' : Forall2 (sa b) l l' -> Forall2 ap_c l l'.
Proof. apply Forall2_impl. apply sa_ap. Qed.

Lemma sa_kv_ap b l l' : Forall2 (kv_rel (sa b)) l l' -> Forall2 (kv_rel ap_c) l l'.
Proof. apply Forall2_impl. intros x y [E H]. split; [exact E|]. eapply sa_ap; eauto. Qed.

(* ---------------- association lists built by insertion ---------------- *)
Lemma ainsert_In {A} k0 (v0 : A) m k c : In (k, c) (ainsert k0 v0 m) -> (k = k0 /\ c = v0) \/ In (k, c) m.
Proof.
  induction m as [|[k' v'] m IH]; simpl.
  - intros [E|[]]. injection E as <- <-. now left.
  - destruct (String.eqb k0 k'); [|destruct (String.ltb k0 k')]; simpl.
    + intros [E|H]; [injection E as <- <-; now left|right; now right].
    + intros [E|H]; [injection E as <- <-; now left|right; exact H].
    + intros [E|H]; [right; now left|]. destruct (IH H) as [?|?]; [now left|right; now right].
Qed.

Lemma fold_ainsert_In {X A} (fk : X -> string) (fv : X -> A) l : forall acc k c,
  In (k, c) (fold_left (fun acc x => ainsert (fk x) (fv x) acc) l acc) ->
  In (k, c) acc \/ exists x, In x l /\ k = fk x /\ c = fv x.
Proof.
  induction l as [|x l IH]; simpl; intros acc k c H; [now left|].
  destruct (IH _ _ _ H) as [H1|(y & Hy & E1 & E2)].
  - destruct (ainsert_In _ _ _ _ _ H1) as [[-> ->]|H2]; [right; exists x; auto|now left].
  - right. exists y. auto.
Qed.

(* ---------------- unexport ---------------- *)
Lemma unexport_S g xs v :
  unexport (S g) xs v =
  match v with
  | XScalar s u sc =>
      [LScalar (s || xs) u
         (match sc with SNull => ScType "null" | SBool _ => ScType "boolean" | SNum _ => ScType "number" | SStr _ => ScType "string" end) sc]
  | XArr s u l => let cs := map (unexport g (s || xs)) l in [LArr (s || xs) u (ScArray (map top_sch cs) (Some ScNever)) cs]
  | XObj s u m =>
      let cm := fold_left (fun acc kv => ainsert (fst kv) (unexport g (s || xs) (snd kv)) acc) m [] in
      [LObj (s || xs) u (ScObject (map (fun kc => (fst kc, top_sch (snd kc))) cm) None) cm]
  end.
Proof. reflexivity. Qed.

Lemma scalar_sch_eq sc :
  match sc with SNull => ScType "null" | SBool _ => ScType "boolean" | SNum _ => ScType "number" | SStr _ => ScType "string" end
  = ScType (scalar_type sc).
Proof. destruct sc; reflexivity. Qed.

Theorem unexport_h1 : forall g xs v, h1 (unexport g xs v).
Proof.
  induction g as [|g IH]; intros xs v; [constructor|]. rewrite unexport_S. destruct v as [s u sc|s u l|s u m]; cbv zeta.
  - destruct u; [now apply h1_unk|apply h1_scalar].
  - destruct u; [now apply h1_unk|]. apply h1_arr. intros ch Hin. apply in_map_iff in Hin. destruct Hin as (x & <- & _). apply IH.
  - destruct u; [now apply h1_unk|]. apply h1_obj. intros k ch Hin.
    apply (fold_ainsert_In (fun kv : string * xval => fst kv) (fun kv => unexport g (s || xs) (snd kv))) in Hin.
    destruct Hin as [[]|(x & _ & _ & ->)]. apply IH.
Qed.

(* a value accepted by a schema, turned into a chain, is accepted as a chain *)
Theorem acc_unexport : forall n s v g xs, sch_accepts n s v = true -> accC s (unexport g xs v).
Proof.
  induction n as [|n IH]; intros s v g xs H; [discriminate|].
  destruct g as [|g]; [constructor|]. rewrite sch_accepts_S in H. rewrite unexport_S.
  destruct (C06.x_unk v) eqn:EU.
  { destruct v; simpl in EU; subst; cbv zeta; now apply ac_unk. }
  destruct s.
  - apply ac_always.
  - discriminate.
  - destruct v as [s u sc| |]; try discriminate. simpl in EU. subst u. apply String.eqb_eq in H. subst ty.
    rewrite scalar_sch_eq. apply ac_type.
  - destruct v as [|s u l|]; try discriminate. simpl in EU. subst u. cbv zeta. apply ac_arr.
    intros i ch E. rewrite nth_error_map in E. destruct (nth_error l i) as [x|] eqn:N; [|discriminate].
    injection E as <-. rewrite acc_items_spec in H. specialize (H _ _ N).
    destruct (item_sch prefix items i); cbn [opt_acc osch] in *; [now apply IH|apply ac_always].
  - destruct v as [| |s u m]; try discriminate. simpl in EU. subst u. cbv zeta. apply ac_obj.
    intros k ch Hin.
    apply (fold_ainsert_In (fun kv : string * xval => fst kv) (fun kv => unexport g (s || xs) (snd kv))) in Hin.
    destruct Hin as [[]|(x & Hx & -> & ->)]. rewrite forallb_forall in H. specialize (H _ Hx).
    rewrite acc_props_eq in H. destruct (prop_sch props addl (fst x)); cbn [opt_acc osch] in *; [now apply IH|apply ac_always].
  - apply existsb_exists in H. destruct H as (a & Ha & Hv). eapply ac_oneof; [exact Ha|].
    rewrite <- unexport_S. now apply IH.
Qed.

(* fully known exported values *)
Fixpoint x_known (v : xval) : bool :=
  match v with
  | XScalar _ u _ => negb u
  | XArr _ u l => negb u && forallb x_known l
  | XObj _ u m => negb u && forallb (fun kv => x_known (snd kv)) m
  end.

Theorem sa_unexport_known b : forall g xs v, x_known v = true -> sa b (unexport g xs v) (unexport g xs v).
Proof.
  induction g as [|g IH]; intros xs v H; [constructor|]. rewrite unexport_S. destruct v as [s u sc|s u l|s u m]; cbv zeta.
  - simpl in H. destruct u; [discriminate|]. rewrite scalar_sch_eq. constructor.
  - simpl in H. destruct u; [discriminate|]. simpl in H. apply sa_arr. apply Forall2_refl. apply Forall_forall.
    intros ch Hin. apply in_map_iff in Hin. destruct Hin as (x & <- & Hx). apply IH. rewrite forallb_forall in H. auto.
  - simpl in H. destruct u; [discriminate|]. simpl in H. apply sa_obj.
    apply (fold_ainsert_rel (sa b) (fun kv : string * xval => unexport g (s || xs) (snd kv))
                            (fun kv : string * xval => unexport g (s || xs) (snd kv)) fst fst); [|constructor].
    apply Forall2_refl. apply Forall_forall. intros kv Hkv. split; [reflexivity|]. apply IH.
    rewrite forallb_forall in H. apply (H _ Hkv).
Qed.

Lemma json_to_x_known : forall f sec j, x_known (json_to_x f sec j) = true.
Proof.
  induction f as [|f IH]; intros sec j; [reflexivity|]. destruct j; try reflexivity; cbn [json_to_x x_known negb andb].
  - apply forallb_forall. intros x Hx. apply in_map_iff in Hx. destruct Hx as (y & <- & _). apply IH.
  - apply forallb_forall. intros x Hx. apply in_map_iff in Hx. destruct Hx as (y & <- & _). apply IH.
Qed.

(* ---------------- the schema of a chain accepts the exported value ---------------- *)
Lemma accepts_all_nth (F : nat -> sch) l :
  (forall i x, nth_error l i = Some x -> accepts (F i) x) ->
  exists n, forall i x, nth_error l i = Some x -> sch_accepts n (F i) x = true.
Proof.
  revert F. induction l as [|y l IH]; intros F H; [exists O; intros [|i] x E; discriminate|].
  destruct (IH (fun i => F (S i))) as [n Hn]; [intros i x E; apply (H (S i) x E)|].
  destruct (H O y eq_refl) as [m Hm]. exists (Nat.max n m). intros [|i] x E; simpl in E.
  - injection E as <-. eapply sch_accepts_le; [|exact Hm]. lia.
  - eapply sch_accepts_le; [|apply (Hn i x E)]. lia.
Qed.

Lemma F2_nth_error_r {A B} (R : A -> B -> Prop) l l' i b :
  Forall2 R l l' -> nth_error l' i = Some b -> exists a, nth_error l i = Some a /\ R a b.
Proof. intros H; revert i; induction H; intros [|i] E; simpl in *; try discriminate; [injection E as <-; eauto|eauto]. Qed.

Lemma keys_single s u c p : keys [LObj s u c p] = sunion [] (map fst p).
Proof. reflexivity. Qed.

Lemma In_fst_alookup {A} k (m : list (string * A)) : In k (map fst m) -> exists v, alookup k m = Some v.
Proof.
  induction m as [|[k' v'] m IH]; simpl; [contradiction|]. destruct (String.eqb k k') eqn:E; [eauto|].
  intros [->|H]; [rewrite String.eqb_refl in E; discriminate|auto].
Qed.

Lemma property_single k s u c p :
  property k [LObj s u c p] = match alookup k p with Some ch => ch ++ [] | None => [] end.
Proof. cbn [property]. destruct (alookup k p); reflexivity. Qed.

Theorem accC_export s o : accC s o -> forall f x, export f o = Some x -> accepts s x.
Proof.
  induction 1 as [s|s l r Hu|o|sec c x0|sec c e prefix items H IH|sec c p props addl H IH|alts a o Ha H IH]; intros f x E.
  - destruct f; [discriminate|]. rewrite export_S_nil in E. injection E as <-. now apply accepts_unk.
  - destruct f; [discriminate|]. apply accepts_unk. eapply export_unk_top; eauto.
  - apply accepts_always.
  - destruct f; [discriminate|]. rewrite export_S_scalar in E. injection E as <-. exists 1%nat.
    rewrite sch_accepts_S. cbn. apply String.eqb_refl.
  - destruct f; [discriminate|]. rewrite export_S_arr in E. destruct (mapM (export f) e) as [xl|] eqn:M; [|discriminate].
    injection E as <-. apply mapM_Some_inv in M.
    destruct (accepts_all_nth (fun i => osch (item_sch prefix items i)) xl) as [n Hn].
    { intros i y Ey. destruct (F2_nth_error_r _ _ _ _ _ M Ey) as (ch & Ec & Ex). eapply IH; eauto. }
    exists (S n). rewrite sch_accepts_S. cbn [C06.x_unk]. apply acc_items_spec. intros i y Ey. specialize (Hn i y Ey).
    destruct (item_sch prefix items i); [exact Hn|reflexivity].
  - destruct f; [discriminate|]. rewrite export_S_obj in E.
    destruct (mapM _ (keys [LObj sec false c p])) as [m|] eqn:M; [|discriminate]. injection E as <-.
    pose proof (mapM_kv_all (fun k => export f (property k [LObj sec false c p])) _ _ M) as HA.
    rewrite Forall_forall in HA.
    destruct (accepts_all (fun kv : string * xval => osch (prop_sch props addl (fst kv))) snd m) as [n Hn].
    { intros kv Hkv. destruct (HA kv Hkv) as [Hk Ek]. rewrite keys_single in Hk. apply In_sunion' in Hk.
      destruct Hk as [[]|Hk]. destruct (In_fst_alookup _ _ Hk) as [ch L]. rewrite property_single, L in Ek.
      rewrite app_nil_r in Ek. eapply IH; [apply alookup_In'; exact L|exact Ek]. }
    exists (S n). rewrite sch_accepts_S. cbn [C06.x_unk]. apply forallb_forall. intros kv Hkv. rewrite acc_props_eq.
    specialize (Hn kv Hkv). destruct (prop_sch props addl (fst kv)); [exact Hn|reflexivity].
  - destruct (IH f x E) as [n Hn]. exists (S n). rewrite sch_accepts_S. destruct (C06.x_unk x); [reflexivity|].
    apply existsb_exists. eauto.
Qed.

Lemma alookup_map_sch k (p : list (string * chain)) :
  alookup k (map (fun kc => (fst kc, top_sch (snd kc))) p) = option_map top_sch (alookup k p).
Proof. induction p as [|[k' v] p IH]; simpl; [reflexivity|]. destruct (String.eqb k k'); [reflexivity|exact IH]. Qed.

Theorem sa_export b : forall f c o x, sa b c o -> export f o = Some x -> accepts (top_sch c) x.
Proof.
  induction f as [|f IH]; intros c o x H E; [discriminate|].
  destruct H as [|s sc x0 o Hg Hh Ha|s x0 c'|s c' e e' He|s c' p p' Hp].
  - apply accepts_always.
  - rewrite top_sch_single. cbn [l_sch]. eapply accC_export; eauto.
  - rewrite top_sch_single. cbn [l_sch]. rewrite export_S_scalar in E. injection E as <-. exists 1%nat.
    rewrite sch_accepts_S. cbn. apply String.eqb_refl.
  - rewrite top_sch_single. cbn [l_sch]. rewrite export_S_arr in E.
    destruct (mapM (export f) e') as [xl|] eqn:M; [|discriminate]. injection E as <-. apply mapM_Some_inv in M.
    unfold canon_arr.
    destruct (accepts_all_nth (fun i => osch (item_sch (map top_sch e) (Some ScNever) i)) xl) as [n Hn].
    { intros i y Ey. destruct (F2_nth_error_r _ _ _ _ _ M Ey) as (ch' & Ec' & Ex).
      destruct (F2_nth_error_r _ _ _ _ _ He Ec') as (ch & Ec & Hs).
      unfold item_sch. rewrite nth_error_map, Ec. cbn [option_map osch]. eapply IH; eauto. }
    exists (S n). rewrite sch_accepts_S. cbn [C06.x_unk]. apply acc_items_spec. intros i y Ey. specialize (Hn i y Ey).
    destruct (item_sch (map top_sch e) (Some ScNever) i); [exact Hn|reflexivity].
  - rewrite top_sch_single. cbn [l_sch]. rewrite export_S_obj in E.
    destruct (mapM _ (keys [LObj s false c' p'])) as [m|] eqn:M; [|discriminate]. injection E as <-.
    pose proof (mapM_kv_all (fun k => export f (property k [LObj s false c' p'])) _ _ M) as HA.
    rewrite Forall_forall in HA. unfold canon_obj.
    set (props := map (fun kc : string * chain => (fst kc, top_sch (snd kc))) p).
    destruct (accepts_all (fun kv : string * xval => osch (prop_sch props None (fst kv))) snd m) as [n Hn].
    { intros kv Hkv. destruct (HA kv Hkv) as [Hk Ek]. rewrite keys_single in Hk. apply In_sunion' in Hk.
      destruct Hk as [[]|Hk]. destruct (In_fst_alookup _ _ Hk) as [ch' L']. rewrite property_single, L' in Ek.
      pose proof (alookup_rel _ (fst kv) _ _ Hp) as HL. rewrite L' in HL.
      destruct (alookup (fst kv) p) as [ch|] eqn:L; simpl in HL; [|contradiction].
      unfold prop_sch, props. rewrite alookup_map_sch, L. cbn [option_map osch].
      rewrite app_nil_r in Ek. eapply IH; eauto. }
    exists (S n). rewrite sch_accepts_S. cbn [C06.x_unk]. apply forallb_forall. intros kv Hkv. rewrite acc_props_eq.
    specialize (Hn kv Hkv). destruct (prop_sch props None (fst kv)); [exact Hn|reflexivity].
Qed.

(* ---------------- with b = true the schema of the check chain has no oneOf ---------------- *)
Lemma good_of_free s : good true s = true -> of_free s = true.
Proof. unfold good. intros H. apply andb_prop in H. destruct H as [_ H]. exact H. Qed.

Lemma Forall2_In_l {A B} (R : A -> B -> Prop) l l' a :
  Forall2 R l l' -> In a l -> exists b, In b l' /\ R a b.
Proof.
  induction 1 as [|x y l l' Hxy _ IH]; simpl; [contradiction|]. intros [<-|H]; [eauto|].
  destruct (IH H) as (b & Hb & Hr). eauto.
Qed.

Lemma sa_of_free_layer : forall l o, sa true [l] o -> of_free (l_sch l) = true.
Proof.
  intros l. induction l as [s u c sc|s u c e IH|s u c p IH] using layer_ind2; intros o H.
  - inversion H; subst; cbn [l_sch]; [now apply good_of_free|reflexivity].
  - inversion H as [| | |s0 c' e0 e' He|]; subst. cbn [l_sch]. unfold canon_arr. cbn [of_free].
    rewrite Bool.andb_true_r. apply forallb_forall. intros x Hx. apply in_map_iff in Hx. destruct Hx as (ch & <- & Hch).
    destruct (Forall2_In_l _ _ _ _ He Hch) as (ch' & _ & Hs). rewrite Forall_forall in IH. specialize (IH _ Hch).
    destruct (sa_len _ _ _ Hs) as [->|[l ->]]; [reflexivity|]. inversion IH; subst. rewrite top_sch_single. eauto.
  - inversion H as [| | | |s0 c' p0 p' Hp]; subst. cbn [l_sch]. unfold canon_obj. cbn [of_free].
    rewrite Bool.andb_true_r. apply forallb_forall. intros x Hx. apply in_map_iff in Hx. destruct Hx as ([k ch] & <- & Hch).
    cbn [fst snd]. destruct (Forall2_In_l _ _ _ _ Hp Hch) as ([k' ch'] & _ & [_ Hs]). cbn [snd] in Hs.
    rewrite Forall_forall in IH. specialize (IH _ Hch). cbn [snd] in IH.
    destruct (sa_len _ _ _ Hs) as [->|[l ->]]; [reflexivity|]. inversion IH; subst. rewrite top_sch_single. eauto.
Qed.

Theorem sa_of_free c o : sa true c o -> of_free (top_sch c) = true.
Proof.
  intros H. destruct (sa_len _ _ _ H) as [->|[l ->]]; [reflexivity|]. rewrite top_sch_single. eapply sa_of_free_layer; eauto.
Qed.

(* ---------------- a check value without unknowns IS the open value ---------------- *)
Lemma x_any_mono p f : forall v, x_any p f v = true -> x_any p (S f) v = true.
Proof.
  induction f as [|f IH]; intros v H; [discriminate|]. cbn [x_any] in *. destruct v as [s u x|s u l|s u m]; [exact H| |].
  - apply Bool.orb_true_iff in H. apply Bool.orb_true_iff. destruct H as [H|H]; [now left|right].
    apply existsb_exists in H. destruct H as (x & Hx & H). apply existsb_exists. exists x. split; auto.
  - apply Bool.orb_true_iff in H. apply Bool.orb_true_iff. destruct H as [H|H]; [now left|right].
    apply existsb_exists in H. destruct H as (x & Hx & H). apply existsb_exists. exists x. split; auto.
Qed.

Lemma x_any_down p f f' v : (f <= f')%nat -> x_any p f' v = false -> x_any p f v = false.
Proof.
  induction 1 as [|f' _ IH]; [auto|]. intros H. apply IH. destruct (x_any p f' v) eqn:E; [|reflexivity].
  apply x_any_mono in E. congruence.
Qed.

Lemma x_any_S_arr p f s u l : x_any p (S f) (XArr s u l) = p s u || existsb (x_any p f) l.
Proof. reflexivity. Qed.
Lemma x_any_S_obj p f s u m : x_any p (S f) (XObj s u m) = p s u || existsb (fun kv => x_any p f (snd kv)) m.
Proof. reflexivity. Qed.

Lemma xhu_arr_elems s l x : x_has_unknown (XArr s false l) = false -> In x l -> x_has_unknown x = false.
Proof.
  unfold x_has_unknown. intros H Hin. rewrite x_any_S_arr in H. cbn [orb] in H.
  assert (H' : x_any (fun _ u => u) (x_depth (XArr s false l)) x = false).
  { destruct (x_any _ _ x) eqn:E; [|reflexivity]. rewrite <- H. symmetry. apply existsb_exists. eauto. }
  eapply x_any_down; [|exact H']. cbn [x_depth]. pose proof (foldmax_in x_depth l O x Hin). lia.
Qed.

Lemma xhu_obj_elems s m kv : x_has_unknown (XObj s false m) = false -> In kv m -> x_has_unknown (snd kv) = false.
Proof.
  unfold x_has_unknown. intros H Hin. rewrite x_any_S_obj in H. cbn [orb] in H.
  assert (H' : x_any (fun _ u => u) (x_depth (XObj s false m)) (snd kv) = false).
  { destruct (x_any _ _ (snd kv)) eqn:E; [|reflexivity]. rewrite <- H. symmetry. apply existsb_exists. eauto. }
  eapply x_any_down; [|exact H']. cbn [x_depth]. pose proof (foldmax_in (fun kv => x_depth (snd kv)) m O kv Hin). simpl in H0. lia.
Qed.

Lemma mapM_ext_In {A B} (g g' : A -> option B) ks : forall m,
  mapM g ks = Some m -> (forall a y, In a ks -> g a = Some y -> In y m -> g' a = Some y) -> mapM g' ks = Some m.
Proof.
  induction ks as [|a ks IH]; simpl; intros m E H; [exact E|].
  destruct (g a) as [y|] eqn:Ea; [|discriminate]. destruct (mapM g ks) as [t|] eqn:Et; [|discriminate].
  injection E as <-. rewrite (H a y (or_introl eq_refl) Ea (or_introl eq_refl)).
  rewrite (IH t eq_refl); [reflexivity|]. intros a' y' Hin Ey Hy. apply H; auto. now right.
Qed.

Lemma mapM_F2_ext {A A' B} (R : A -> A' -> Prop) (g : A -> option B) (g' : A' -> option B) l l' :
  Forall2 R l l' -> forall m, mapM g l = Some m ->
  (forall a a' y, R a a' -> g a = Some y -> In y m -> g' a' = Some y) -> mapM g' l' = Some m.
Proof.
  induction 1 as [|a a' l l' Ha _ IH]; simpl; intros m E H; [exact E|].
  destruct (g a) as [y|] eqn:Ea; [|discriminate]. destruct (mapM g l) as [t|] eqn:Et; [|discriminate].
  injection E as <-. rewrite (H a a' y Ha Ea (or_introl eq_refl)).
  rewrite (IH t eq_refl); [reflexivity|]. intros x x' y' Hx Ey Hy. eapply H; eauto. now right.
Qed.

Theorem sa_export_known b : forall f c o xc,
  sa b c o -> export f c = Some xc -> x_has_unknown xc = false -> export f o = Some xc.
Proof.
  induction f as [|f IH]; intros c o xc H E HU; [discriminate|].
  destruct H as [|s sc x0 o Hg Hh Ha|s x0 c'|s c' e e' He|s c' p p' Hp].
  - rewrite export_S_nil in E. injection E as <-. discriminate.
  - rewrite export_S_scalar in E. injection E as <-. discriminate.
  - rewrite export_S_scalar in *. exact E.
  - rewrite export_S_arr in *. destruct (mapM (export f) e) as [xl|] eqn:M; [|discriminate]. injection E as <-.
    rewrite (mapM_F2_ext _ _ _ _ _ He xl M); [reflexivity|].
    intros a a' y Hs Ey Hy. eapply IH; eauto. eapply xhu_arr_elems; eauto.
  - rewrite export_S_obj in *. rewrite !keys_single in *. rewrite <- (kv_keys _ _ _ Hp).
    destruct (mapM _ (sunion [] (map fst p))) as [m|] eqn:M; [|discriminate]. injection E as <-.
    erewrite mapM_ext_In; [reflexivity|exact M|].
    intros k kv Hk Ek Hkv. cbv beta in *.
    destruct (export f (property k [LObj s false (canon_obj p) p])) as [v|] eqn:Ev; [|discriminate]. injection Ek as <-.
    rewrite property_single in *. pose proof (alookup_rel _ k _ _ Hp) as HL.
    destruct (alookup k p) as [ch|], (alookup k p') as [ch'|]; simpl in HL; try contradiction.
    + rewrite app_nil_r in *. erewrite IH; [reflexivity|exact HL|exact Ev|].
      apply (xhu_obj_elems _ _ _ HU Hkv).
    + rewrite Ev. reflexivity.
Qed.
