(* Proofs/EvalLogKit.v — a small Hoare / invariant toolkit for the state monad [M] of Model/Eval.v,
   proof-friendly unfoldings of the five mutually recursive evaluator functions and of [eval_env]
   (the anonymous local [fix] loops get names), and basic facts about logs and expression ids. *)
From Coq Require Import Lia ZifyN ZifyNat ZifyBool.
From Verif Require Import Base.Bytes Model.Chain Model.GoText Model.Envelope Model.Eval.

(* ------------------------------------------------------------------------------------------- *)
(** * 1. Hoare triples over [M] *)

Definition hoare {A} (P : st -> Prop) (m : M A) (Q : A -> st -> Prop) : Prop :=
  forall s, P s -> Q (fst (m s)) (snd (m s)).

(* running [m] from a state satisfying [I] ends in a state satisfying [I] *)
Definition preserves {A} (I : st -> Prop) (m : M A) : Prop := hoare I m (fun _ => I).

Lemma bind_run {A B} (m : M A) (k : A -> M B) s : bind m k s = k (fst (m s)) (snd (m s)).
Proof. unfold bind. destruct (m s); reflexivity. Qed.

Lemma hoare_ret {A} (P : st -> Prop) (a : A) (Q : A -> st -> Prop) :
  (forall s, P s -> Q a s) -> hoare P (ret a) Q.
Proof. intros H s Hs. exact (H s Hs). Qed.

Lemma hoare_bind {A B} (P : st -> Prop) (m : M A) (Q : A -> st -> Prop) (k : A -> M B) (R : B -> st -> Prop) :
  hoare P m Q -> (forall a, hoare (Q a) (k a) R) -> hoare P (bind m k) R.
Proof. intros Hm Hk s Hs. rewrite bind_run. apply Hk. apply Hm. exact Hs. Qed.

Lemma hoare_conseq {A} (P P' : st -> Prop) (m : M A) (Q Q' : A -> st -> Prop) :
  hoare P' m Q' -> (forall s, P s -> P' s) -> (forall a s, Q' a s -> Q a s) -> hoare P m Q.
Proof. intros H HP HQ s Hs. apply HQ, H, HP, Hs. Qed.

Lemma hoare_pre_pure {A} (I : st -> Prop) (phi : Prop) (m : M A) (Q : A -> st -> Prop) :
  (phi -> hoare I m Q) -> hoare (fun s => I s /\ phi) m Q.
Proof. intros H s [Hs Hphi]. exact (H Hphi s Hs). Qed.

Lemma hoare_pre_ex {A X} (P : X -> st -> Prop) (m : M A) (Q : A -> st -> Prop) :
  (forall x, hoare (P x) m Q) -> hoare (fun s => exists x, P x s) m Q.
Proof. intros H s [x Hx]. exact (H x s Hx). Qed.

Lemma pres_ret {A} (I : st -> Prop) (a : A) : preserves I (ret a).
Proof. intros s Hs. exact Hs. Qed.

Lemma pres_bind {A B} (I : st -> Prop) (m : M A) (k : A -> M B) :
  preserves I m -> (forall a, preserves I (k a)) -> preserves I (bind m k).
Proof. intros Hm Hk. eapply hoare_bind; [exact Hm|exact Hk]. Qed.

(* bind after a computation that also establishes a pure fact [phi] about its result *)
Lemma pres_bind_post {A B} (I : st -> Prop) (phi : A -> Prop) (m : M A) (k : A -> M B) :
  hoare I m (fun a s => I s /\ phi a) -> (forall a, phi a -> preserves I (k a)) -> preserves I (bind m k).
Proof.
  intros Hm Hk. eapply hoare_bind; [exact Hm|]. intros a. apply hoare_pre_pure. exact (Hk a).
Qed.

(* operations that only read the state preserve everything *)
Lemma pres_get_memo (I : st -> Prop) id : preserves I (get_memo id).
Proof. intros s Hs. exact Hs. Qed.
Lemma pres_imps_get (I : st -> Prop) n : preserves I (imps_get n).
Proof. intros s Hs. exact Hs. Qed.

Lemma hoare_get_memo (P : st -> Prop) id :
  hoare P (get_memo id) (fun r s => P s /\ r = memo_get id (memo s)).
Proof. intros s Hs. split; [exact Hs|reflexivity]. Qed.
Lemma hoare_imps_get (P : st -> Prop) n :
  hoare P (imps_get n) (fun r s => P s /\ r = alookup n (imps s)).
Proof. intros s Hs. split; [exact Hs|reflexivity]. Qed.

(* ------------------------------------------------------------------------------------------- *)
(** * 2. Invariants that look only at [log], [calls] and (monotonically) [nerr] *)

Definition lcn_stable (I : st -> Prop) : Prop :=
  forall s s', log s' = log s -> calls s' = calls s -> nerr s <= nerr s' -> I s -> I s'.

Section LCN.
Variable I : st -> Prop.
Hypothesis HI : lcn_stable I.

Lemma pres_add_err n : preserves I (add_err n).
Proof. intros s Hs. apply (HI s); cbn; try reflexivity; try lia; exact Hs. Qed.
Lemma pres_err : preserves I err.
Proof. apply pres_add_err. Qed.
Lemma pres_out_of_fuel : preserves I out_of_fuel.
Proof. intros s Hs. apply (HI s); cbn; try reflexivity; try lia; exact Hs. Qed.
Lemma pres_memo_set id v : preserves I (memo_set id v).
Proof. intros s Hs. apply (HI s); cbn; try reflexivity; try lia; exact Hs. Qed.
Lemma pres_imps_set n v : preserves I (imps_set n v).
Proof. intros s Hs. apply (HI s); cbn; try reflexivity; try lia; exact Hs. Qed.

(* [call] immediately followed by [emit]: the only way events are produced by the evaluator *)
Lemma pres_call_emit (W : world) (e : ev) {A} (k : bool -> M A) :
  (forall s, I s -> I (snd (emit e (snd (call W s))))) ->
  (forall b, preserves I (k b)) ->
  preserves I (bind (call W) (fun failed => bind (emit e) (fun _ => k failed))).
Proof.
  intros He Hk s Hs. rewrite bind_run, bind_run. apply Hk. apply He. exact Hs.
Qed.
End LCN.

(* invariants of the form "every logged event satisfies P": [emit] needs the event to satisfy P, everything
   else keeps the log *)
Definition log_all (P : ev -> Prop) (s : st) : Prop := Forall P (log s).

Lemma pres_emit_log_all (P : ev -> Prop) e : P e -> preserves (log_all P) (emit e).
Proof. intros He s Hs. constructor; assumption. Qed.
Lemma pres_call_log_all (P : ev -> Prop) W : preserves (log_all P) (call W).
Proof. intros s Hs. exact Hs. Qed.
Lemma pres_add_err_log_all (P : ev -> Prop) n : preserves (log_all P) (add_err n).
Proof. intros s Hs. exact Hs. Qed.
Lemma pres_err_log_all (P : ev -> Prop) : preserves (log_all P) err.
Proof. intros s Hs. exact Hs. Qed.
Lemma pres_out_of_fuel_log_all (P : ev -> Prop) : preserves (log_all P) out_of_fuel.
Proof. intros s Hs. exact Hs. Qed.
Lemma pres_memo_set_log_all (P : ev -> Prop) id v : preserves (log_all P) (memo_set id v).
Proof. intros s Hs. exact Hs. Qed.
Lemma pres_imps_set_log_all (P : ev -> Prop) n v : preserves (log_all P) (imps_set n v).
Proof. intros s Hs. exact Hs. Qed.

(* the individual effects of [call] and [emit], as Hoare triples *)
Lemma hoare_call (W : world) (P : st -> Prop) :
  hoare P (call W)
        (fun _ s => exists s0, P s0 /\ memo s = memo s0 /\ imps s = imps s0 /\ log s = log s0
                               /\ nerr s = nerr s0 /\ calls s = calls s0 + 1 /\ oof s = oof s0).
Proof. intros s Hs. exists s. cbn. repeat split; try reflexivity. exact Hs. Qed.

Lemma hoare_emit (e : ev) (P : st -> Prop) :
  hoare P (emit e)
        (fun _ s => exists s0, P s0 /\ memo s = memo s0 /\ imps s = imps s0 /\ log s = e :: log s0
                               /\ nerr s = nerr s0 /\ calls s = calls s0 /\ oof s = oof s0).
Proof. intros s Hs. exists s. cbn. repeat split; try reflexivity. exact Hs. Qed.

(* ------------------------------------------------------------------------------------------- *)
(** * 3. The evaluator with named local loops, and unfolding equations *)

Definition interp_loop (W : world) (f : nat) (E : ectx) :=
  fix go (ps : list (string * option path)) (acc : string) (unk sec : bool) : M chain :=
    match ps with
    | [] => ret [str_layer sec unk (if unk then "[unknown]" else acc)]
    | (text, None) :: r => go r (acc +++ text) unk sec
    | (text, Some p) :: r =>
        pv <- eval_access W f E p ;;
        let '(s, u, sc) := to_string (ts_need pv) pv in
        go r (if u then acc +++ text else acc +++ text +++ s) (unk || u) (sec || sc)
    end.

Definition arr_loop (W : world) (f : nat) (E : ectx) (id : eid) :=
  fix go (es : list expr) (i : nat) (acc : list chain) : M chain :=
    match es with
    | [] => let cs := rev acc in ret [LArr false false (ScArray (map top_sch cs) (Some ScNever)) cs]
    | e :: r => v <- eval_expr W f E e false [] (fst id, snd id ++ [IIdx i]) ;; go r (S i) (v :: acc)
    end.

Definition obj_loop (W : world) (f : nat) (E : ectx) (xbase : chain) (id : eid) :=
  fix go (ds : list (nat * string * expr)) (acc : list (string * chain)) : M chain :=
    match ds with
    | [] => let props := rev acc in
            ret [LObj false false (ScObject (map (fun kc => (fst kc, top_sch (snd kc))) props) None) props]
    | (i, k, e) :: r =>
        v <- eval_expr W f E e false (property k xbase) (fst id, snd id ++ [IKey k]) ;;
        go r ((k, v) :: acc)
    end.

Definition std_params : env_params := {| ep_magic := "escx"; ep_version := 1; ep_min_len := 12 |}.

Lemma eval_expr_O W E x xsec xbase id : eval_expr W O E x xsec xbase id = (out_of_fuel ;;; ret invalid_access).
Proof. reflexivity. Qed.
Lemma eval_repr_O W E x xbase id : eval_repr W O E x xbase id = (out_of_fuel ;;; ret invalid_access).
Proof. reflexivity. Qed.
Lemma eval_typed_O W E x a id : eval_typed W O E x a id = (out_of_fuel ;;; ret (invalid_access, false)).
Proof. reflexivity. Qed.
Lemma eval_access_O W E p : eval_access W O E p = (out_of_fuel ;;; ret invalid_access).
Proof. reflexivity. Qed.
Lemma walk_O W E rx rsec rbase rid accs : walk W O E rx rsec rbase rid accs = (out_of_fuel ;;; ret invalid_access).
Proof. reflexivity. Qed.

Lemma eval_expr_S W f E x xsec xbase id :
  eval_expr W (S f) E x xsec xbase id =
    (m <- get_memo id ;;
     match m with
     | Some (Some v) => ret v
     | Some None => err ;;; ret [unknown_layer false ScAlways]
     | None =>
         memo_set id None ;;;
         v <- eval_repr W f E x xbase id ;;
         let v1 := if xsec then opt_top_sec v else v in
         let v2 := v1 ++ xbase in
         memo_set id (Some v2) ;;; ret v2
     end).
Proof. reflexivity. Qed.

Lemma eval_typed_S W f E x a id :
  eval_typed W (S f) E x a id =
    (v <- eval_expr W f E x false [] id ;;
     let '(ok, n) := validate a v in
     add_err n ;;; ret (v, ok)).
Proof. reflexivity. Qed.

Lemma eval_access_S W f E p :
  eval_access W (S f) E p =
    match p with
    | [] => ret invalid_access
    | a0 :: rest =>
        let k0 := object_key a0 in
        match k0 with
        | Some "imports" => let '(c, n) := value_access (va_need (ec_imports E) rest) (ec_imports E) rest in add_err n ;;; ret c
        | Some "context" => let '(c, n) := value_access (va_need (ec_context E) rest) (ec_context E) rest in add_err n ;;; ret c
        | _ => walk W f E (EObj (ec_values E)) false (ec_base E) (ec_name E, []) p
        end
    end.
Proof. reflexivity. Qed.

Lemma walk_S W f E rx rsec rbase rid accs :
  walk W (S f) E rx rsec rbase rid accs =
    match accs with
    | [] => eval_expr W f E rx rsec rbase rid
    | a :: rest =>
        match rx with
        | EArr elems =>
            match array_index a (Z.of_nat (length elems)) with
            | Some i => walk W f E (nth i elems EMissing) false [] (fst rid, snd rid ++ [IIdx i]) rest
            | None => err ;;; ret invalid_access
            end
        | EObj entries =>
            match object_key a with
            | None => err ;;; ret invalid_access
            | Some k =>
                match find_entry k entries O with
                | Some (_, px) => walk W f E px false (property k rbase) (fst rid, snd rid ++ [IKey k]) rest
                | None =>
                    if is_object rbase then let '(c, n) := value_access (va_need rbase accs) rbase accs in add_err n ;;; ret c
                    else err ;;; ret invalid_access
                end
            end
        | ESecretPlain s => walk W f E (EStr s) true [] (fst rid, snd rid ++ [IIdx 0]) accs
        | ESecretCipher _ => err ;;; ret invalid_access
        | _ =>
            v <- eval_expr W f E rx rsec rbase rid ;;
            let '(c, n) := value_access (va_need v accs) v accs in add_err n ;;; ret c
        end
    end.
Proof. reflexivity. Qed.

(* the [fn::open] case of [eval_repr], as a function of its own *)
Definition open_body (W : world) (f : nat) (E : ectx) (pname : string) (inputs : expr) (id : eid) : M chain :=
  failed <- call W ;;
  emit (EvLoadProvider pname) ;;;
  let prov := if failed then None else alookup pname (w_provs W) in
  (match prov with None => err | Some _ => ret tt end) ;;;
  let in_s := match prov with Some p => pv_in p | None => InAlways end in
  let out_s := match prov with Some p => pv_out p | None => ScAlways end in
  r <- eval_typed W f E inputs (AccIn in_s) (fst id, snd id ++ [IIdx 0]) ;;
  let '(iv, ok) := r in
  match prov with
  | None => ret [unknown_layer false out_s]
  | Some p =>
      if negb ok || contains_unknowns iv || w_check W then ret [unknown_layer false out_s]
      else match export_t iv with
           | Some (XObj s u m as xin) =>
               failed2 <- call W ;;
               emit (EvOpen id pname xin (ec_root E) (ec_name E)) ;;;
               let out := if failed2 then None
                          else match pv_beh p with PEcho => Some xin | PConst v => Some v | PFail => None end in
               match out with
               | Some o => ret (unexport (S (x_depth o)) false o)
               | None => err ;;; ret [unknown_layer false out_s]
               end
           | Some _ => err ;;; ret [unknown_layer false out_s]
           | None => out_of_fuel ;;; ret invalid_access
           end
  end.

(* the ciphertext-secret case *)
Definition cipher_body (W : world) (E : ectx) (repr : string) : M chain :=
  match decode_ct std_params repr with
  | DOk ct =>
      if w_check W && negb (w_show W) then ret [LScalar true true (ScType "string") SNull]
      else
        failed <- call W ;;
        emit (EvDecrypt (ec_name E) ct) ;;;
        match (if failed then None else w_decrypt W (ec_name E) ct) with
        | Some pt => ret [str_layer true false pt]
        | None => err ;;; ret [LScalar true true (ScType "string") SNull]
        end
  | _ => err ;;; ret [LScalar true true (ScType "string") SNull]
  end.

Lemma eval_repr_S W f E x xbase id :
  eval_repr W (S f) E x xbase id =
    match x with
    | EMissing => ret [unknown_layer false ScAlways]
    | ENull => ret [LScalar false false (ScType "null") SNull]
    | EBool b => ret [LScalar false false (ScType "boolean") (SBool b)]
    | ENum t => ret [LScalar false false (ScType "number") (SNum t)]
    | EStr s => ret [str_layer false false s]
    | EInterp parts => interp_loop W f E parts EmptyString false false
    | ESym p => eval_access W f E p
    | EArr elems => arr_loop W f E id elems O []
    | EObj entries =>
        let '(decl, dups) := declared entries O [] in
        add_err dups ;;; obj_loop W f E xbase id (sort_entries decl) []
    | EJoin d vs =>
        dr <- eval_typed W f E d AccString (fst id, snd id ++ [IIdx 0]) ;;
        vr <- eval_typed W f E vs AccArrString (fst id, snd id ++ [IIdx 1]) ;;
        let '(dv, dok) := dr in let '(vv, vok) := vr in
        if negb dok || negb vok then ret [unknown_layer false (ScType "string")]
        else
          let '(unk, sec) := combine2 dv vv in
          if unk then ret [LScalar sec true (ScType "string") SNull]
          else
            let strs := match vv with
                        | LArr _ _ _ elems :: _ =>
                            map (fun e => match e with LScalar _ _ _ (SStr s) :: _ => s | _ => "" end) elems
                        | _ => []
                        end in
            let dl := match dv with LScalar _ _ _ (SStr s) :: _ => s | _ => "" end in
            ret [str_layer sec false (sjoin dl strs)]
    | EFromB64 e =>
        r <- eval_typed W f E e AccString (fst id, snd id ++ [IIdx 0]) ;;
        let '(v, ok) := r in
        if negb ok then ret [unknown_layer false (ScType "string")]
        else
          let unk := contains_unknowns v in let sec := contains_secrets v in
          if unk then ret [LScalar sec true (ScType "string") SNull]
          else match v with
               | LScalar _ _ _ (SStr s) :: _ =>
                   match b64_decode s with
                   | Some b => ret [str_layer sec false b]
                   | None => err ;;; ret [LScalar sec true (ScType "string") SNull]
                   end
               | _ => ret [LScalar sec true (ScType "string") SNull]
               end
    | EToB64 e =>
        r <- eval_typed W f E e AccString (fst id, snd id ++ [IIdx 0]) ;;
        let '(v, ok) := r in
        if negb ok then ret [unknown_layer false (ScType "string")]
        else
          let unk := contains_unknowns v in let sec := contains_secrets v in
          if unk then ret [LScalar sec true (ScType "string") SNull]
          else match v with
               | LScalar _ _ _ (SStr s) :: _ => ret [str_layer sec false (b64_encode s)]
               | _ => ret [LScalar sec true (ScType "string") SNull]
               end
    | EFromJSON e =>
        r <- eval_typed W f E e AccString (fst id, snd id ++ [IIdx 0]) ;;
        let '(v, ok) := r in
        if negb ok then ret [unknown_layer false ScAlways]
        else
          let unk := contains_unknowns v in let sec := contains_secrets v in
          if unk then ret [LScalar sec true ScAlways SNull]
          else match v with
               | LScalar _ _ _ (SStr s) :: _ =>
                   match json_parse s with
                   | JPOk j => ret (unexport (S (x_depth (json_to_x (S (json_depth j)) sec j))) false (json_to_x (S (json_depth j)) sec j))
                   | JPErr => err ;;; ret [LScalar sec true ScAlways SNull]
                   | JPUnsupported => out_of_fuel ;;; ret invalid_access
                   end
               | _ => ret [LScalar sec true ScAlways SNull]
               end
    | EToJSON e =>
        v <- eval_expr W f E e false [] (fst id, snd id ++ [IIdx 0]) ;;
        let unk := contains_unknowns v in let sec := contains_secrets v in
        if unk then ret [LScalar sec true (ScType "string") SNull]
        else match export big_fuel v with
             | Some xv => let j := x_to_json (S (x_depth xv)) xv in
                          if json_all_ascii (S (json_depth j)) j
                          then ret [str_layer sec false (json_print (S (json_depth j)) j)]
                          else out_of_fuel ;;; ret invalid_access
             | None => out_of_fuel ;;; ret invalid_access
             end
    | EToString e =>
        v <- eval_expr W f E e false [] (fst id, snd id ++ [IIdx 0]) ;;
        let '(s, unk, sec) := to_string (ts_need v) v in
        if unk then ret [LScalar sec true (ScType "string") SNull] else ret [str_layer sec false s]
    | ESecretPlain s => eval_expr W f E (EStr s) true [] (fst id, snd id ++ [IIdx 0])
    | ESecretCipher repr => cipher_body W E repr
    | EOpen pname inputs => open_body W f E pname inputs id
    end.
Proof. destruct x; reflexivity. Qed.

(* ---- environments ---- *)
(* environment.go CopyForEnv: the root name is replaced when it is "" or esc.AnonymousEnvironmentName *)
Definition anon_root (r : string) : bool := String.eqb r "" || String.eqb r "<yaml>".
Definition eff_root (root name : string) : string := if String.eqb root "" || String.eqb root "<yaml>" then name else root.

Lemma anon_root_false r : anon_root r = false <-> r <> "" /\ r <> "<yaml>".
Proof.
  unfold anon_root. rewrite Bool.orb_false_iff. split.
  - intros [A B]. split; intros ->; [rewrite String.eqb_refl in A|rewrite String.eqb_refl in B]; discriminate.
  - intros [A B]. split; apply String.eqb_neq; assumption.
Qed.

Lemma eff_root_anon root name : eff_root root name = if anon_root root then name else root.
Proof. reflexivity. Qed.

Definition import_loop (W : world) (f : nat) (root' : string) :=
  fix go (is : list (string * bool)) (base : chain) (my : list (string * chain)) : M (chain * list (string * chain)) :=
    match is with
    | [] => ret (base, my)
    | (n, merge) :: rest =>
        let proceed (val : chain) :=
          go rest (if merge then val ++ base else base) (ainsert n val my) in
        s <- imps_get n ;;
        match s with
        | Some i =>
            if is_evaluating i then err ;;; go rest base my
            else match is_value i with
                 | Some v => proceed v
                 | None => go rest base my
                 end
        | None =>
            failed <- call W ;;
            emit (EvLoad n) ;;;
            let remember_failure := imps_set n {| is_evaluating := false; is_value := None |} in
            match (if failed then LoadFail
                   else match alookup n (w_envs W) with Some l => l | None => LoadFail end) with
            | LoadFail => err ;;; remember_failure ;;; go rest base my
            | LoadNoParse => err ;;; remember_failure ;;; go rest base my
            | LoadOk d' =>
                v <- eval_env W f root' n d' ;;
                imps_set n {| is_evaluating := false; is_value := Some v |} ;;;
                proceed v
            end
        end
    end.

Lemma import_loop_nil W f root' base my : import_loop W f root' [] base my = ret (base, my).
Proof. reflexivity. Qed.

Lemma import_loop_cons W f root' n merge rest base my :
  import_loop W f root' ((n, merge) :: rest) base my =
  (s <- imps_get n ;;
   match s with
   | Some i =>
       if is_evaluating i then err ;;; import_loop W f root' rest base my
       else match is_value i with
            | Some v => import_loop W f root' rest (if merge then v ++ base else base) (ainsert n v my)
            | None => import_loop W f root' rest base my      (* a remembered failure *)
            end
   | None =>
       failed <- call W ;;
       emit (EvLoad n) ;;;
       match (if failed then LoadFail
              else match alookup n (w_envs W) with Some l => l | None => LoadFail end) with
       | LoadFail => err ;;; imps_set n {| is_evaluating := false; is_value := None |} ;;; import_loop W f root' rest base my
       | LoadNoParse => err ;;; imps_set n {| is_evaluating := false; is_value := None |} ;;; import_loop W f root' rest base my
       | LoadOk d' =>
           v <- eval_env W f root' n d' ;;
           imps_set n {| is_evaluating := false; is_value := Some v |} ;;;
           import_loop W f root' rest (if merge then v ++ base else base) (ainsert n v my)
       end
   end).
Proof. reflexivity. Qed.

Definition env_ctx (W : world) (root' name : string) (d : envdef) (base : chain) (my : list (string * chain)) : ectx :=
  {| ec_name := name; ec_root := root';
     ec_values := filter (fun kv => negb (reserved (fst kv))) (ed_values d);
     ec_base := base; ec_imports := imports_value my;
     ec_context := context_chain W root' name |}.

Lemma eval_env_O W root name d : eval_env W O root name d = (out_of_fuel ;;; ret invalid_access).
Proof. reflexivity. Qed.

Lemma eval_env_S W f root name d :
  eval_env W (S f) root name d =
    (imps_set name {| is_evaluating := true; is_value := None |} ;;;
     r <- import_loop W f (eff_root root name) (ed_imports d) [] [] ;;
     let '(base, my) := r in
     imps_set name {| is_evaluating := false; is_value := None |} ;;;
     add_err (N.of_nat (length (filter (fun kv => reserved (fst kv)) (ed_values d)))) ;;;
     let E := env_ctx W (eff_root root name) name d base my in
     eval_expr W f E (EObj (ec_values E)) false base (name, [])).
Proof. reflexivity. Qed.

(* NB: never [unfold contains_unknowns in H] -- the conversion check at Qed can diverge on [export big_fuel];
   rewrite with this equation instead *)
Lemma contains_unknowns_eq iv :
  contains_unknowns iv = (match export_t iv with Some v => x_has_unknown v | None => true end).
Proof. reflexivity. Qed.

Lemma no_unknown_export iv x : contains_unknowns iv = false -> export_t iv = Some x -> x_has_unknown x = false.
Proof. intros H Hx. rewrite contains_unknowns_eq in H. rewrite Hx in H. exact H. Qed.

(* ------------------------------------------------------------------------------------------- *)
(** * 4. Lists: suffixes; expression ids: decidable equality *)

Definition suffix_of {A} (old new : list A) : Prop := exists d, new = d ++ old.

Lemma suffix_refl {A} (l : list A) : suffix_of l l.
Proof. exists []. reflexivity. Qed.
Lemma suffix_trans {A} (a b c : list A) : suffix_of a b -> suffix_of b c -> suffix_of a c.
Proof. intros [d1 ->] [d2 ->]. exists (d2 ++ d1). now rewrite app_assoc. Qed.
Lemma suffix_cons {A} (a : list A) x : suffix_of a (x :: a).
Proof. exists [x]. reflexivity. Qed.
Lemma suffix_Forall {A} (P : A -> Prop) old new : suffix_of old new -> Forall P new -> Forall P old.
Proof. intros [d ->] H. apply Forall_app in H. tauto. Qed.
Lemma suffix_In {A} (x : A) old new : suffix_of old new -> In x old -> In x new.
Proof. intros [d ->] H. apply in_or_app. now right. Qed.

Lemma idstep_eqb_eq a b : idstep_eqb a b = true <-> a = b.
Proof.
  destruct a, b; cbn; try (split; [discriminate|congruence]).
  - rewrite String.eqb_eq. split; congruence.
  - rewrite Nat.eqb_eq. split; congruence.
Qed.

Lemma idpath_eqb_eq x y : idpath_eqb x y = true <-> x = y.
Proof.
  revert y. induction x as [|a x IH]; intros [|b y]; cbn; try (split; [discriminate|congruence]).
  - tauto.
  - rewrite andb_true_iff, idstep_eqb_eq, IH. split; [intros [-> ->]; reflexivity|intros H; inversion H; auto].
Qed.

Lemma eid_eqb_eq (a b : eid) : eid_eqb a b = true <-> a = b.
Proof.
  destruct a as [a1 a2], b as [b1 b2]. unfold eid_eqb. cbn [fst snd].
  rewrite andb_true_iff, String.eqb_eq, idpath_eqb_eq. split; [intros [-> ->]; reflexivity|intros H; inversion H; auto].
Qed.

Lemma eid_eqb_refl a : eid_eqb a a = true.
Proof. now apply eid_eqb_eq. Qed.

Lemma eid_eq_dec (a b : eid) : {a = b} + {a <> b}.
Proof.
  destruct (eid_eqb a b) eqn:H; [left; now apply eid_eqb_eq|right]. intros ->. rewrite eid_eqb_refl in H. discriminate.
Qed.

Lemma memo_get_cons id k v m :
  memo_get id ((k, v) :: m) = if eid_eqb id k then Some v else memo_get id m.
Proof. reflexivity. Qed.

(* ids of sub-expressions properly extend the id of their parent: they are never equal to it *)
Lemma id_extend_neq (id : eid) (st : idstep) : (fst id, snd id ++ [st]) <> id.
Proof.
  destruct id as [n p]. cbn. intros H. inversion H as [H1].
  assert (length (p ++ [st]) = length p) as L by now rewrite H1.
  rewrite app_length in L. cbn in L. lia.
Qed.

(* two different steps below the same parent give different ids *)
Lemma id_extend_inj (id : eid) (a b : idstep) : (fst id, snd id ++ [a]) = (fst id, snd id ++ [b]) -> a = b.
Proof. intros H. inversion H as [H1]. apply app_inv_head in H1. now inversion H1. Qed.
