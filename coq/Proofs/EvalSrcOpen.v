(* Proofs/EvalSrcOpen.v -- decides [eval_src_open_ok] (defined in Proofs/EvalSrc.v) on today's coq/Src/SrcEval.v.
   The [same_*] lemmas come first so that a failing build names the table and prints the entries that differ. *)
From Verif Require Import Base.Bytes Model.Chain Model.GoText Model.Eval Src.SrcEval Proofs.EvalSrc.

Lemma same_builtin_open : table_diff ev_builtin_open exp_builtin_open = [].
Proof. vm_compute. reflexivity. Qed.
Lemma same_open_guard : table_diff ev_open_guard exp_open_guard = [].
Proof. vm_compute. reflexivity. Qed.
Lemma same_typed_expr : table_diff ev_typed_expr exp_typed_expr = [].
Proof. vm_compute. reflexivity. Qed.

Lemma eval_src_open_ok_true : eval_src_open_ok = true.
Proof. vm_compute. reflexivity. Qed.
