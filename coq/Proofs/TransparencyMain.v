(* Proofs/TransparencyMain.v — C04, last clause, at the level of the evaluator: opening (or checking with showSecrets)
   the encrypted program with the matching decrypter gives the same values, flags, diagnostics and — up to the extra
   Decrypt events — the same collaborator log as evaluating the plaintext program. *)
From Verif Require Import Base.Bytes Model.Chain Model.GoText Model.Envelope Model.Eval.
From Verif Require Import Proofs.EnvelopeProofs.
From Verif Require Import Proofs.NonInterferenceRel Proofs.NonInterferenceOps Proofs.NonInterferenceTwins
     Proofs.NonInterferenceEval Proofs.CheckApproxMono Proofs.TransparencySyntax Proofs.TransparencyKit Proofs.TransparencyEval.
From Coq Require Import Lia ZifyN ZifyNat ZifyBool.

(* ------------------------------------------------------------------------------------------------ *)
(* the hypotheses, at user level                                                                    *)
(* ------------------------------------------------------------------------------------------------ *)
Definition load_u (dec : string -> string -> option string) (n : string) (lp le : option env_load) : Prop :=
  match lp, le with
  | None, None => True
  | Some LoadFail, Some LoadFail => True
  | Some LoadNoParse, Some LoadNoParse => True
  | Some (LoadOk dp), Some (LoadOk de) => enc_env dec n dp de
  | _, _ => False
  end.

(* the plaintext world and the encrypted world; [name], [dp], [de]: the root environment in both forms *)
Record transp_hyp (Wp We : world) (name : string) (dp de : envdef) : Prop := {
  th_provs : w_provs Wp = w_provs We;
  th_ctx : w_ctx Wp = w_ctx We;
  th_check : w_check Wp = w_check We;
  th_show : w_show Wp = w_show We;
  th_fault_p : w_fault Wp = None;
  th_fault_e : w_fault We = None;
  th_dec : forall e c, w_decrypt Wp e c = w_decrypt We e c;
  (* opening, or checking with showSecrets *)
  th_mode : w_check We && negb (w_show We) = false;
  (* every loadable environment is related to its encrypted form, under the decrypter of ITS OWN name *)
  th_envs : forall n, load_u (w_decrypt We) n (alookup n (w_envs Wp)) (alookup n (w_envs We));
  th_root : enc_env (w_decrypt We) name dp de;
  (* if the store has an entry under the root's name, it is the root document *)
  th_self : (alookup name (w_envs Wp) = None /\ alookup name (w_envs We) = None) \/
            (alookup name (w_envs Wp) = Some (LoadOk dp) /\ alookup name (w_envs We) = Some (LoadOk de))
}.

Definition root_of (name : string) (d : envdef) (envs : list (string * env_load)) (n : string) : option expr :=
  match (if String.eqb n name then Some (LoadOk d) else alookup n envs) with
  | Some (LoadOk d') => Some (EObj (filter nonres (ed_values d')))
  | _ => None
  end.

Section MAIN.
Variables Wp We : world.
Variables (name : string) (dp de : envdef).
Hypothesis H : transp_hyp Wp We name dp de.

Let rootp := root_of name dp (w_envs Wp).
Let roote := root_of name de (w_envs We).
Let G := G_of rootp roote.

Lemma enc_env_t n d1 d2 :
  rootp n = Some (EObj (filter nonres (ed_values d1))) -> roote n = Some (EObj (filter nonres (ed_values d2))) ->
  enc_env (w_decrypt We) n d1 d2 -> env_t We G n d1 d2.
Proof.
  intros Rp Re [HI HV]. split; [exact HI|]. split; [eapply kv_keys; exact HV|].
  eapply enc_rel_at; [exact Rp|exact Re| |reflexivity|reflexivity|reflexivity].
  constructor. eapply filter_rel; [|exact HV]. intros a b [E _]. unfold nonres. now rewrite E.
Qed.

Lemma main_W_t : W_t Wp We G.
Proof.
  destruct H. constructor; auto. intros n. specialize (th_envs0 n). unfold load_u in th_envs0. unfold load_t.
  destruct (alookup n (w_envs Wp)) as [[| |d1]|] eqn:L1, (alookup n (w_envs We)) as [[| |d2]|] eqn:L2; auto.
  apply enc_env_t; [| |exact th_envs0]; unfold rootp, roote, root_of.
  - destruct (String.eqb n name) eqn:E; [|now rewrite L1]. apply String.eqb_eq in E. subst n.
    destruct th_self0 as [[A _]|[A _]]; congruence.
  - destruct (String.eqb n name) eqn:E; [|now rewrite L2]. apply String.eqb_eq in E. subst n.
    destruct th_self0 as [[_ A]|[_ A]]; congruence.
Qed.

Lemma main_root_t : env_t We G name dp de.
Proof.
  apply enc_env_t; [| |apply H]; unfold rootp, roote, root_of; now rewrite String.eqb_refl.
Qed.

Lemma srel_t_st0 : srel_t G (w_decrypt We) st0 st0.
Proof. constructor; simpl; auto; constructor. Qed.

Lemma run_nof fuel W d :
  ob_oof (run fuel W name d) = false -> nof (snd (eval_env W fuel "" name d st0)).
Proof.
  unfold run. destruct (eval_env W fuel "" name d st0) as [c s]. cbn [ob_oof snd].
  intros Ho. apply Bool.orb_false_elim in Ho. apply Ho.
Qed.

(* equal values (with their secret and unknown flags: the chains themselves are equal), equal diagnostics, and the
   encrypted log is the plaintext log with successful Decrypt events inserted *)
Theorem transparency fuel :
  ob_oof (run fuel Wp name dp) = false -> ob_oof (run fuel We name de) = false ->
  ob_value (run fuel Wp name dp) = ob_value (run fuel We name de) /\
  ob_errors (run fuel Wp name dp) = ob_errors (run fuel We name de) /\
  log_tr (w_decrypt We) (ob_log (run fuel Wp name dp)) (ob_log (run fuel We name de)) /\
  fst (eval_env Wp fuel "" name dp st0) = fst (eval_env We fuel "" name de st0).
Proof.
  intros Op Oe. pose proof (run_nof _ _ _ Op) as Np. pose proof (run_nof _ _ _ Oe) as Ne.
  destruct (transp_env Wp We G main_W_t fuel "" name dp de main_root_t st0 st0 srel_t_st0 Np Ne) as [Ec Hs].
  unfold run. destruct (eval_env Wp fuel "" name dp st0) as [c1 s1], (eval_env We fuel "" name de st0) as [c2 s2].
  cbn [fst snd ob_value ob_errors ob_log] in *. subst c2. destruct Hs as [_ _ HL HN].
  repeat split; [now rewrite HN|now apply log_tr_rev].
Qed.

End MAIN.

(* if the plaintext run decrypts nothing (the plaintext document has no envelopes), deleting the Decrypt events of the
   encrypted log gives the plaintext log *)
Definition is_dec (e : ev) : bool := match e with EvDecrypt _ _ => true | _ => false end.

Lemma log_tr_filter dec lp le : log_tr dec lp le -> Forall (fun e => is_dec e = false) lp ->
  filter (fun e => negb (is_dec e)) le = lp.
Proof.
  induction 1 as [|e lp le _ IH|env ct lp le _ _ IH]; intros HF; simpl; [reflexivity| |auto].
  inversion HF; subst. rewrite H1. simpl. f_equal. auto.
Qed.

(* ------------------------------------------------------------------------------------------------ *)
(* encrypting a program                                                                             *)
(* ------------------------------------------------------------------------------------------------ *)
Lemma std_wf : wf_params std.
Proof. repeat split; vm_compute; try reflexivity; discriminate. Qed.

(* composing with the envelope round trip (C11): an envelope around [c] is opened to [s] whenever the decrypter maps
   [c] to [s] *)
Lemma enc_rel_roundtrip dec env s c : dec env c = Some s ->
  enc_rel dec env (ESecretPlain s) (ESecretCipher (encode_ct std c)).
Proof. intros Hd. eapply er_secret; [apply envelope_roundtrip, std_wf|exact Hd]. Qed.

(* the encrypted form of a program under a cipher [enc] *)
Fixpoint enc_expr (enc : string -> string) (x : expr) : expr :=
  match x with
  | ESecretPlain s => ESecretCipher (encode_ct std (enc s))
  | EArr l => EArr (map (enc_expr enc) l)
  | EObj l => EObj (map (fun kv => (fst kv, enc_expr enc (snd kv))) l)
  | EJoin d v => EJoin (enc_expr enc d) (enc_expr enc v)
  | EToJSON e => EToJSON (enc_expr enc e)
  | EFromJSON e => EFromJSON (enc_expr enc e)
  | EToString e => EToString (enc_expr enc e)
  | EToB64 e => EToB64 (enc_expr enc e)
  | EFromB64 e => EFromB64 (enc_expr enc e)
  | EOpen p i => EOpen p (enc_expr enc i)
  | _ => x
  end.

Definition enc_envdef (enc : string -> string) (d : envdef) : envdef :=
  {| ed_imports := ed_imports d; ed_values := map (fun kv => (fst kv, enc_expr enc (snd kv))) (ed_values d) |}.

Lemma enc_expr_rel dec env enc : (forall s, dec env (enc s) = Some s) ->
  forall x, enc_rel dec env x (enc_expr enc x).
Proof.
  intros Hinv. induction x using expr_ind2; simpl; try (now constructor).
  - constructor. induction H; simpl; constructor; auto.
  - constructor. induction H; simpl; constructor; auto. split; auto.
  - now apply enc_rel_roundtrip.
Qed.

Lemma enc_envdef_rel dec env enc d : (forall s, dec env (enc s) = Some s) -> enc_env dec env d (enc_envdef enc d).
Proof.
  intros Hinv. split; [reflexivity|]. simpl. induction (ed_values d) as [|kv l IH]; simpl; constructor; auto.
  split; [reflexivity|]. now apply enc_expr_rel.
Qed.
