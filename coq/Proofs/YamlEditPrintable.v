(* Proofs/YamlEditPrintable.v — Set and Delete keep the tree inside the class of trees that yaml.v3 writes back
   with every comment in place: no line comment on a block collection. *)
From Coq Require Import Lia ZifyNat ZifyBool.
From Verif Require Import Base.Bytes Model.YamlEdit Proofs.YamlEditBase Proofs.YamlEditProofs Proofs.YamlEditNorm
  Proofs.YamlEditSeq.
Local Open Scope Z_scope.

Lemma printable_unfold n : printable n = lc_ok n && forallb printable (ncontent n).
Proof. now destruct n. Qed.

Lemma lc_ok_with_content n c : lc_ok (with_content n c) = lc_ok n.
Proof. now destruct n. Qed.

Lemma lc_ok_promote a n : lc_ok (promote a n) = lc_ok n.
Proof. destruct n as [[] ? ? ? ? ? ? ?]; destruct a; reflexivity. Qed.

Lemma printable_set_hc h n : printable (set_hc h n) = printable n.
Proof. now destruct n. Qed.

Lemma printable_hc_first h c : forallb printable (hc_first h c) = forallb printable c.
Proof.
  destruct c as [|c0 r]; [reflexivity|]. cbn [hc_first].
  destruct (String.eqb (nhc c0) ""); [|reflexivity]. cbn [forallb]. now rewrite printable_set_hc.
Qed.

Lemma testbit_flow_lor st : st_flow (N.lor st 32) = true.
Proof. unfold st_flow. rewrite N.lor_spec. replace (N.testbit 32 5) with true by reflexivity. apply orb_true_r. Qed.

Lemma st_flow_ldiff st : st_flow (N.ldiff st 1) = st_flow st.
Proof. unfold st_flow. rewrite N.ldiff_spec. replace (N.testbit 1 5) with false by reflexivity. apply andb_true_r. Qed.

Lemma printable_overwrite pr old new :
  set_params_ok pr = true -> p_lc_move pr = true -> printable new = true ->
  printable (overwrite pr old new) = true.
Proof.
  unfold set_params_ok. intros H Hm Hn.
  apply andb_true_iff in H as [H Hst]. apply andb_true_iff in H as [H Hv].
  apply andb_true_iff in H as [H Ht]. apply andb_true_iff in H as [Hc Hk].
  rewrite printable_unfold in Hn. apply andb_true_iff in Hn as [_ Hkids].
  unfold overwrite. rewrite Hc, Hk, Ht, Hv, Hm. cbv zeta. cbn [andb].
  set (st := new_style pr old new).
  rewrite printable_unfold. cbn [ncontent].
  apply andb_true_iff. split.
  - unfold lc_ok. cbn [nkind nstyle nlc].
    destruct (nkind new) eqn:Ekn; cbn [kind_eqb negb andb]; try reflexivity;
      (destruct (st_flow st) eqn:Ef; cbn [negb andb orb];
       [now rewrite Ef|];
       destruct (String.eqb (nlc old) "") eqn:El; cbn [negb andb];
       [now rewrite Ef, El|];
       destruct (is_nil (ncontent new)); cbn [negb];
       [now rewrite testbit_flow_lor|now rewrite Ef]).
  - match goal with |- forallb printable (if ?b then _ else _) = true => destruct b end;
      [now rewrite printable_hc_first|exact Hkids].
Qed.

Lemma upd_key_forallb (P : node -> bool) key f l l' :
  forallb P l = true -> P (key_node key) = true ->
  (forall v v', In v l \/ v = zero_node -> f v = Ok v' -> P v' = true) ->
  upd_key key f l = Ok l' -> forallb P l' = true.
Proof.
  intros Hl Hkn. revert l' Hl. induction l as [| k0 | k0 v0 r IH] using pair_ind; intros l' Hl Hf H; cbn in H.
  - apply rmap_ok in H. destruct H as (v' & Hfv & ->). cbn. rewrite Hkn, (Hf zero_node v'); auto.
  - discriminate.
  - cbn in Hl. apply andb_true_iff in Hl as [H1 Hl]. apply andb_true_iff in Hl as [H2 H3].
    destruct (String.eqb (nvalue k0) key); apply rmap_ok in H.
    + destruct H as (v' & Hfv & ->). cbn. rewrite H1, H3, (Hf v0 v'); auto. left. right. now left.
    + destruct H as (r' & Hr & ->). cbn. rewrite H1, H2. cbn. apply IH; auto.
      intros v v' [Hin|Hz]; apply Hf; auto. left. right. now right.
Qed.

Lemma del_key_forallb (P : node -> bool) pr key last f l l' :
  forallb P l = true -> (forall v v', In v l -> f v = Ok v' -> P v' = true) ->
  del_key pr key last f l = Ok l' -> forallb P l' = true.
Proof.
  revert l'. induction l as [| k0 | k0 v0 r IH] using pair_ind; intros l' Hl Hf H; cbn in H.
  - destruct last; [now inversion H|]. destruct (p_del_missing pr); cbn in H; try discriminate. now inversion H.
  - discriminate.
  - cbn in Hl. apply andb_true_iff in Hl as [H1 Hl]. apply andb_true_iff in Hl as [H2 H3].
    destruct (String.eqb (nvalue k0) key).
    + destruct last; [now inversion H; subst|]. apply rmap_ok in H. destruct H as (v' & Hfv & ->).
      cbn. rewrite H1, H3, (Hf v0 v'); auto. right. now left.
    + apply rmap_ok in H. destruct H as (r' & Hr & ->). cbn. rewrite H1, H2. cbn. apply IH; auto.
      intros v v' Hin. apply Hf. right. now right.
Qed.

Lemma set_printable_core pr p new n n' :
  set_params_ok pr = true -> p_lc_move pr = true -> printable n = true -> printable new = true ->
  yset0 pr p new n = Ok n' -> printable n' = true.
Proof.
  intros Hp Hm. revert n n'. induction p as [|a p IH]; intros n n' Hn Hnew H; cbn [yset0] in H.
  - inversion H. now apply printable_overwrite.
  - cbv zeta in H. rewrite printable_unfold in Hn. apply andb_true_iff in Hn as [Hlc Hkids].
    assert (Hz : printable zero_node = true) by reflexivity.
    destruct (nkind (promote a n)) eqn:Hk; try discriminate.
    + destruct a as [key|i]; [discriminate|].
      destruct ((i <? 0) || (len (ncontent (promote (AIdx i) n)) <? i)) eqn:Hb; [discriminate|].
      apply rmap_ok in H. destruct H as (c2 & Hu & ->).
      rewrite printable_unfold, lc_ok_with_content, lc_ok_promote, Hlc, with_content_content. cbn [andb].
      rewrite promote_content in Hu.
      eapply upd_nth_forallb; [| |exact Hu].
      * destruct (i =? len (ncontent n)); auto. now rewrite forallb_app, Hkids.
      * intros c c' Hin Hf. eapply IH; [| |exact Hf]; auto.
        destruct (i =? len (ncontent n)).
        -- apply in_app_or in Hin. destruct Hin as [Hin|[<-|[]]]; auto. eapply forallb_In; eauto.
        -- eapply forallb_In; eauto.
    + destruct a as [key|i]; [|discriminate].
      apply rmap_ok in H. destruct H as (c2 & Hu & ->).
      rewrite printable_unfold, lc_ok_with_content, lc_ok_promote, Hlc, with_content_content. cbn [andb].
      rewrite promote_content in Hu.
      eapply upd_key_forallb; [exact Hkids|reflexivity| |exact Hu].
      intros v v' [Hin| ->] Hf; (eapply IH; [| |exact Hf]; auto). eapply forallb_In; eauto.
Qed.

Lemma delete_printable_core pr p n n' :
  printable n = true -> ydelete0 pr p n = Ok n' -> printable n' = true.
Proof.
  revert n n'. induction p as [|a p IH]; intros n n' Hn H; cbn [ydelete0] in H.
  - destruct (p_del_empty pr); cbn in H; try discriminate. congruence.
  - pose proof Hn as Hn'. rewrite printable_unfold in Hn. apply andb_true_iff in Hn as [Hlc Hkids].
    destruct (nkind n) eqn:Hk; try discriminate.
    + destruct a as [key|i]; [discriminate|].
      destruct ((i <? 0) || (len (ncontent n) <=? i)) eqn:Hb; [discriminate|].
      destruct (is_nil p).
      * inversion H. rewrite printable_unfold, lc_ok_with_content, Hlc, with_content_content.
        now apply forallb_del_nth.
      * apply rmap_ok in H. destruct H as (c2 & Hu & ->).
        rewrite printable_unfold, lc_ok_with_content, Hlc, with_content_content. cbn [andb].
        eapply upd_nth_forallb; [exact Hkids| |exact Hu].
        intros c c' Hin Hf. eapply IH; [|exact Hf]. eapply forallb_In; eauto.
    + destruct a as [key|i]; [|discriminate].
      apply rmap_ok in H. destruct H as (c2 & Hu & ->).
      rewrite printable_unfold, lc_ok_with_content, Hlc, with_content_content. cbn [andb].
      eapply del_key_forallb; [exact Hkids| |exact Hu].
      intros v v' Hin Hf. eapply IH; [|exact Hf]. eapply forallb_In; eauto.
Qed.

(* the pass over the keys of the path keeps a well-formed tree printable: a line comment lands on a scalar, on a
   flow collection, or on an empty collection that is marked flow *)
Lemma printable_fix_key_lc k v :
  printable k = true -> printable v = true -> nkind v <> KZero -> nkind v <> KDoc ->
  printable (fst (fix_key_lc k v)) = true /\ printable (snd (fix_key_lc k v)) = true.
Proof.
  intros Hk Hv Hz Hd. unfold fix_key_lc.
  destruct (String.eqb (nlc k) ""); [cbn; auto|].
  destruct (is_coll v && negb (is_nil (ncontent v)) && negb (st_flow (nstyle v))) eqn:Eb; [cbn; auto|].
  cbn [fst snd]. split.
  - destruct k as [kk t s x h l f c]. rewrite printable_unfold in *. cbn [ncontent set_lc] in *.
    apply andb_true_iff in Hk as [_ Hk]. rewrite Hk, andb_true_r.
    unfold lc_ok. cbn. destruct kk; auto; apply orb_true_r.
  - destruct v as [kv t s x h l f c]. rewrite printable_unfold in Hv. cbn [ncontent] in Hv.
    apply andb_true_iff in Hv as [Hlc Hkids].
    unfold is_coll in *. cbn [nkind ncontent nstyle] in *.
    destruct kv; try congruence; cbn [andb] in *.
    + (* sequence *)
      destruct c as [|c0 r]; cbn [is_nil negb andb] in *.
      * cbn. rewrite Bool.orb_true_r || idtac.
        match goal with |- printable (if ?b then _ else _) = true => destruct b end; cbn;
          unfold lc_ok; cbn; now rewrite ?testbit_flow_lor.
      * destruct (st_flow s) eqn:Ef; cbn [negb] in Eb; [|discriminate].
        match goal with |- printable (if ?b then _ else _) = true => destruct b end;
          rewrite printable_unfold; cbn [ncontent set_lc]; rewrite Hkids, andb_true_r; unfold lc_ok; cbn;
          now rewrite Ef.
    + destruct c as [|c0 r]; cbn [is_nil negb andb] in *.
      * match goal with |- printable (if ?b then _ else _) = true => destruct b end; cbn;
          unfold lc_ok; cbn; now rewrite ?testbit_flow_lor.
      * destruct (st_flow s) eqn:Ef; cbn [negb] in Eb; [|discriminate].
        match goal with |- printable (if ?b then _ else _) = true => destruct b end;
          rewrite printable_unfold; cbn [ncontent set_lc]; rewrite Hkids, andb_true_r; unfold lc_ok; cbn;
          now rewrite Ef.
    + match goal with |- printable (if ?b then _ else _) = true => destruct b end;
        rewrite printable_unfold; cbn [ncontent set_lc]; rewrite Hkids, andb_true_r; reflexivity.
    + match goal with |- printable (if ?b then _ else _) = true => destruct b end;
        rewrite printable_unfold; cbn [ncontent set_lc]; rewrite Hkids, andb_true_r; reflexivity.
Qed.

Lemma printable_norm p n : wf n = true -> printable n = true -> printable (norm_path p n) = true.
Proof.
  revert n. induction p as [|a p IH]; intros n Hw Hn; [exact Hn|]. cbn [norm_path].
  rewrite printable_unfold in Hn. apply andb_true_iff in Hn as [Hlc Hkids].
  pose proof (wf_content_all _ Hw) as Hall.
  destruct (nkind n) eqn:Hk; try (now rewrite printable_unfold, Hlc, Hkids);
    destruct a as [key|i]; try (now rewrite printable_unfold, Hlc, Hkids).
  - destruct ((i <? 0) || (len (ncontent n) <=? i)); [now rewrite printable_unfold, Hlc, Hkids|].
    rewrite printable_unfold, lc_ok_with_content, Hlc, with_content_content. cbn [andb].
    generalize (Z.to_nat i) as j. intros j. revert j Hall Hkids.
    induction (ncontent n) as [|c r IHl]; intros [|j] Hall Hkids; cbn in *; auto;
      apply andb_true_iff in Hall as [Hwc Hall]; apply andb_true_iff in Hkids as [Hpc Hkids].
    + now rewrite IH, Hkids.
    + now rewrite Hpc, IHl.
  - rewrite printable_unfold, lc_ok_with_content, Hlc, with_content_content. cbn [andb].
    revert Hall Hkids. induction (ncontent n) as [| k0 | k0 v0 r IHl] using pair_ind; intros Hall Hkids; cbn; auto.
    cbn in Hall, Hkids.
    apply andb_true_iff in Hall as [Hwk Hall]. apply andb_true_iff in Hall as [Hwv Hall].
    apply andb_true_iff in Hkids as [Hpk Hkids]. apply andb_true_iff in Hkids as [Hpv Hkids].
    destruct (String.eqb (nvalue k0) key).
    + destruct (fix_key_lc k0 (norm_path p v0)) as [k' v'] eqn:Ef.
      assert (Hwn : wf (norm_path p v0) = true) by now rewrite wf_norm.
      destruct (wf_not_zero _ Hwn) as [Hz Hd].
      destruct (printable_fix_key_lc k0 (norm_path p v0) Hpk (IH _ Hwv Hpv) Hz Hd) as [P1 P2].
      rewrite Ef in P1, P2. cbn in P1, P2. cbn. now rewrite P1, P2, Hkids.
    + cbn. now rewrite Hpk, Hpv, IHl.
Qed.

Theorem set_printable pr p new n n' :
  set_params_ok pr = true -> p_lc_move pr = true -> wf_root n = true -> wf new = true ->
  printable n = true -> printable new = true -> yset pr p new n = Ok n' -> printable n' = true.
Proof.
  intros Hp Hm Hw Hwn Hn Hnew H. destruct (yset_cases _ _ _ _ _ H) as (n0 & H0 & [->| ->]).
  - exact (set_printable_core pr p new n n0 Hp Hm Hn Hnew H0).
  - apply printable_norm; [exact (set_wf_core pr p new n n0 Hp Hw Hwn H0)|
                           exact (set_printable_core pr p new n n0 Hp Hm Hn Hnew H0)].
Qed.

Theorem delete_printable pr p n n' :
  wf_root n = true -> printable n = true -> ydelete pr p n = Ok n' -> printable n' = true.
Proof.
  intros Hw Hn H. destruct (ydelete_cases _ _ _ _ H) as (n0 & H0 & [->| ->]).
  - exact (delete_printable_core pr p n n0 Hn H0).
  - assert (Hw0 : wf_root n0 = true) by exact (delete_wf_core pr p n n0 Hw H0).
    assert (Hp0 : printable n0 = true) by exact (delete_printable_core pr p n n0 Hn H0).
    destruct (wf_root_cases _ Hw0) as [[Hz _]|Hwf]; [|now apply printable_norm].
    destruct (removelast p) as [|a q]; [exact Hp0|]. cbn [norm_path]. now rewrite Hz.
Qed.

Lemma printable_prep_value secret argtext v :
  printable v = true -> printable (prep_value secret argtext v) = true.
Proof.
  intros Hv. destruct secret; [|exact Hv]. unfold prep_value, secret_wrap, secret_arg.
  destruct (kind_eqb (nkind v) KScalar && negb (String.eqb (ntag v) str_tag)); cbn; now rewrite ?Hv.
Qed.

Theorem env_set_printable pr p v root root' :
  set_params_ok pr = true -> p_lc_move pr = true -> wf_root root = true -> wf v = true ->
  printable root = true -> printable v = true ->
  env_set pr p v root = Ok root' -> printable root' = true.
Proof.
  intros Hp Hm Hw Hwv Hr Hv H. destruct p as [|a p]; [discriminate|]. unfold env_set in H.
  destruct (is_imports a); [exact (set_printable pr _ _ _ _ Hp Hm Hw Hwv Hr Hv H)|].
  destruct (yget [AKey values_key] root); try discriminate; [exact (set_printable pr _ _ _ _ Hp Hm Hw Hwv Hr Hv H)|].
  destruct (yset pr [AKey values_key] empty_map_node root) as [r1| |] eqn:E1; try discriminate.
  assert (Hr1 : printable r1 = true)
    by exact (set_printable pr [AKey values_key] empty_map_node root r1 Hp Hm Hw (eq_refl : wf empty_map_node = true)
                Hr (eq_refl : printable empty_map_node = true) E1).
  assert (Hw1 : wf_root r1 = true)
    by (apply wf_wf_root; exact (set_wf pr _ _ _ _ Hp Hw (eq_refl : wf empty_map_node = true) E1)).
  exact (set_printable pr _ _ _ _ Hp Hm Hw1 Hwv Hr1 Hv H).
Qed.

Theorem env_rm_printable pr p root root' :
  wf_root root = true -> printable root = true -> env_rm pr p root = Ok root' -> printable root' = true.
Proof.
  intros Hw Hr H. destruct (env_rm_cases _ _ _ _ H) as [[_ ->]|[[_ Hd]|[_ Hv]]]; auto.
  - exact (delete_printable pr _ _ _ Hw Hr Hd).
  - unfold env_rm_values in Hv. destruct (yget [AKey values_key] root); try discriminate; [|congruence].
    destruct p as [|a p].
    + destruct (p_del_empty pr); cbn in Hv; try discriminate. congruence.
    + exact (delete_printable pr _ _ _ Hw Hr Hv).
Qed.

Definition op_printable (o : op) : Prop :=
  match o with OSet _ v => wf v = true /\ printable v = true | ORm _ => True end.

Theorem cli_run_printable pr ops t t' :
  set_params_ok pr = true -> p_lc_move pr = true -> wf_root t = true -> printable t = true ->
  Forall op_printable ops -> run (cli_step pr) ops t = Some t' -> printable t' = true.
Proof.
  intros Hp Hm. revert t. induction ops as [|o r IH]; intros t Hw Ht Hok H; cbn in H.
  - now inversion H; subst.
  - inversion Hok as [|? ? Ho Hrest]; subst. destruct (cli_step pr o t) eqn:E; try discriminate; eauto.
    destruct o as [p v|p]; cbn in E, Ho.
    + destruct Ho as [Hwv Hpv]. apply (IH a); auto.
      * apply wf_wf_root. exact (env_set_wf pr _ _ _ _ Hp Hw Hwv E).
      * exact (env_set_printable pr _ _ _ _ Hp Hm Hw Hwv Ht Hpv E).
    + apply (IH a); auto.
      * exact (env_rm_wf pr _ _ _ Hw E).
      * exact (env_rm_printable pr _ _ _ Hw Ht E).
Qed.

Theorem api_run_printable pr ops t t' :
  set_params_ok pr = true -> p_lc_move pr = true -> wf_root t = true -> printable t = true ->
  Forall op_printable ops -> run (api_step pr) ops t = Some t' -> printable t' = true.
Proof.
  intros Hp Hm. revert t. induction ops as [|o r IH]; intros t Hw Ht Hok H; cbn in H.
  - now inversion H; subst.
  - inversion Hok as [|? ? Ho Hrest]; subst. destruct (api_step pr o t) eqn:E; try discriminate; eauto.
    destruct o as [p v|p]; cbn in E, Ho.
    + destruct Ho as [Hwv Hpv]. apply (IH a); auto.
      * apply wf_wf_root. exact (set_wf pr _ _ _ _ Hp Hw Hwv E).
      * exact (set_printable pr _ _ _ _ Hp Hm Hw Hwv Ht Hpv E).
    + apply (IH a); auto.
      * exact (delete_wf pr _ _ _ Hw E).
      * exact (delete_printable pr _ _ _ Hw Ht E).
Qed.
