(* Proofs/YamlEditPrintable.v — Set and Delete keep the tree inside the class of trees that yaml.v3 writes back
   with every comment on its line ([printable]: no line comment on a block collection; a key carries a line comment
   only if its value is a scalar or a non-empty block collection).  `env set` keeps it too; `env rm` keeps it when it
   deletes from the root of the definition, and breaks it when it deletes on the node under "values" (witness at the
   end: the last value below `values: # comment` is removed). *)
From Coq Require Import Lia ZifyNat ZifyBool.
From Verif Require Import Base.Bytes Model.YamlEdit Proofs.YamlEditBase Proofs.YamlEditProofs Proofs.YamlEditNorm
  Proofs.YamlEditRec Proofs.YamlEditSeq.
Local Open Scope Z_scope.

Lemma lc_ok_shell n : lc_ok (with_content n []) = lc_ok n.
Proof. now destruct n. Qed.

Lemma printable_unfold n : printable n = lc_ok n && keys_lc_ok n && forallb printable (ncontent n).
Proof. destruct n as [k t s v h l f c]. cbn [printable ncontent]. now rewrite <- (lc_ok_shell (Node k t s v h l f c)). Qed.

Lemma printable_parts n :
  printable n = true -> lc_ok n = true /\ keys_lc_ok n = true /\ forallb printable (ncontent n) = true.
Proof.
  rewrite printable_unfold. intros H. apply andb_true_iff in H as [H H3]. apply andb_true_iff in H as [H1 H2]. auto.
Qed.

Lemma printable_intro n :
  lc_ok n = true -> keys_lc_ok n = true -> forallb printable (ncontent n) = true -> printable n = true.
Proof. intros H1 H2 H3. now rewrite printable_unfold, H1, H2, H3. Qed.

Lemma lc_ok_with_content n c : lc_ok (with_content n c) = lc_ok n.
Proof. now destruct n. Qed.

Lemma lc_ok_promote a n : lc_ok n = true -> lc_ok (promote a n) = true.
Proof.
  destruct n as [[] ? s ? ? l ? ?]; destruct a; auto; unfold lc_ok; cbn; intros H; rewrite H; apply orb_true_r.
Qed.

Lemma keys_lc_ok_with_content n c :
  keys_lc_ok (with_content n c) = match nkind n with KMap => entries_ok c | _ => true end.
Proof. now destruct n. Qed.

(* a node that differs from a printable one only in tag, style, value and comments is printable when its own line
   comment is in order *)
Lemma printable_same_content n m :
  nkind m = nkind n -> ncontent m = ncontent n -> lc_ok m = true -> printable n = true -> printable m = true.
Proof.
  intros Hk Hc Hl Hn. destruct (printable_parts _ Hn) as (_ & H2 & H3).
  apply printable_intro; auto.
  - unfold keys_lc_ok in *. now rewrite Hk, Hc.
  - now rewrite Hc.
Qed.

Lemma testbit_flow_lor st : st_flow (N.lor st 32) = true.
Proof. unfold st_flow. rewrite N.lor_spec. replace (N.testbit 32 5) with true by reflexivity. apply orb_true_r. Qed.

Lemma st_flow_ldiff st : st_flow (N.ldiff st 1) = st_flow st.
Proof. unfold st_flow. rewrite N.ldiff_spec. replace (N.testbit 1 5) with false by reflexivity. apply andb_true_r. Qed.

Lemma key_lc_ok_set_hc h k v : key_lc_ok (set_hc h k) v = key_lc_ok k v.
Proof. now destruct k. Qed.

Lemma printable_set_hc h n : printable (set_hc h n) = printable n.
Proof. now destruct n. Qed.

Lemma entries_ok_hc_first h c : entries_ok (hc_first h c) = entries_ok c.
Proof.
  destruct c as [|c0 [|v r]]; try reflexivity; cbn [hc_first]; destruct (String.eqb (nhc c0) ""); try reflexivity.
  cbn [entries_ok]. now rewrite key_lc_ok_set_hc.
Qed.

Lemma printable_hc_first h c : forallb printable (hc_first h c) = forallb printable c.
Proof.
  destruct c as [|c0 r]; [reflexivity|]. cbn [hc_first].
  destruct (String.eqb (nhc c0) ""); [|reflexivity]. cbn [forallb]. now rewrite printable_set_hc.
Qed.

(* ---------------- the addressed node ---------------- *)
Lemma printable_overwrite pr old new :
  set_params_ok pr = true -> p_lc_move pr = true -> nkind new <> KZero -> printable new = true ->
  printable (overwrite pr old new) = true.
Proof.
  unfold set_params_ok. intros H Hm Hnz Hn.
  apply andb_true_iff in H as [H Hst]. apply andb_true_iff in H as [H Hv].
  apply andb_true_iff in H as [H Ht]. apply andb_true_iff in H as [Hc Hk].
  destruct (printable_parts _ Hn) as (_ & Hkeys & Hkids).
  unfold overwrite. rewrite Hc, Hk, Ht, Hv, Hm. cbv zeta. cbn [andb].
  set (st := new_style pr old new).
  apply printable_intro.
  - destruct (printable_parts _ Hn) as (Hlcn & _ & _).
    unfold lc_ok in *. cbn [nkind nstyle nlc].
    destruct (nkind new) eqn:Ekn; cbn [kind_eqb negb andb orb]; try reflexivity.
    + congruence.
    + destruct (st_flow st) eqn:Ef; cbn [negb andb orb]; [now rewrite Ef|].
      destruct (String.eqb (nlc old) "") eqn:El; cbn [negb andb]; [now rewrite Ef, El|].
      destruct (is_nil (ncontent new)); cbn [negb]; [now rewrite testbit_flow_lor|now rewrite Ef].
    + destruct (st_flow st) eqn:Ef; cbn [negb andb orb]; [now rewrite Ef|].
      destruct (String.eqb (nlc old) "") eqn:El; cbn [negb andb]; [now rewrite Ef, El|].
      destruct (is_nil (ncontent new)); cbn [negb]; [now rewrite testbit_flow_lor|now rewrite Ef].
  - unfold keys_lc_ok in *. cbn [nkind ncontent].
    destruct (nkind new); auto.
    match goal with |- entries_ok (if ?b then _ else _) = true => destruct b end;
      [now rewrite entries_ok_hc_first|exact Hkeys].
  - cbn [ncontent].
    match goal with |- forallb printable (if ?b then _ else _) = true => destruct b end;
      [now rewrite printable_hc_first|exact Hkids].
Qed.

(* ---------------- the repair of one key ---------------- *)
Lemma lc_ok_set_lc_nil n : lc_ok (set_lc "" n) = true.
Proof. destruct n as [[] ? ? ? ? ? ? ?]; unfold lc_ok; cbn; auto using orb_true_r. Qed.

Lemma fix_key_lc_printable k v :
  printable k = true -> printable v = true -> nkind v <> KZero ->
  key_lc_ok (fst (fix_key_lc k v)) (snd (fix_key_lc k v)) = true
  /\ printable (fst (fix_key_lc k v)) = true /\ printable (snd (fix_key_lc k v)) = true.
Proof.
  intros Hk Hv Hz. unfold fix_key_lc.
  destruct (String.eqb (nlc k) "") eqn:El.
  { cbn [fst snd]. unfold key_lc_ok. rewrite El. auto. }
  destruct (is_coll v && negb (is_nil (ncontent v)) && negb (st_flow (nstyle v))) eqn:Eb.
  { cbn [fst snd]. unfold key_lc_ok. rewrite Eb. rewrite !orb_true_r. auto. }
  cbn [fst snd]. split; [|split].
  - unfold key_lc_ok. now destruct k.
  - apply (printable_same_content k); auto; try (now destruct k). apply lc_ok_set_lc_nil.
  - set (v1 := if is_coll v && is_nil (ncontent v) then set_style (N.lor (nstyle v) 32) v else v).
    assert (H1 : nkind v1 = nkind v /\ ncontent v1 = ncontent v /\
                 (is_coll v = true -> st_flow (nstyle v1) = true)).
    { subst v1. destruct (is_coll v && is_nil (ncontent v)) eqn:E.
      - destruct v as [kv t s x h l f c]. cbn. repeat split; auto. intros _. apply testbit_flow_lor.
      - repeat split; auto. intros Hc. rewrite Hc in *. cbn [andb] in *.
        destruct (is_nil (ncontent v)); [discriminate|]. cbn [negb andb] in Eb.
        now destruct (st_flow (nstyle v)). }
    destruct H1 as (K1 & C1 & F1).
    assert (Hlc : forall m, nkind m = nkind v -> nstyle m = nstyle v1 -> lc_ok m = true).
    { intros m Hkm Hsm. unfold lc_ok. rewrite Hkm, Hsm. unfold is_coll in F1.
      destruct (nkind v); try congruence; auto; now rewrite F1. }
    match goal with |- printable (if ?b then _ else _) = true => destruct b end.
    + apply (printable_same_content v); auto; try (destruct v1; cbn in *; congruence).
      apply Hlc; destruct v1; cbn in *; congruence.
    + apply (printable_same_content v); auto.
Qed.

(* the entries of a mapping after the repair of the entry of [key], given that every other entry was in order *)
Lemma fix_entry_printable_found key k v r :
  String.eqb (nvalue k) key = true -> printable k = true -> printable v = true -> nkind v <> KZero ->
  entries_ok r = true -> forallb printable r = true ->
  entries_ok (fix_entry key (k :: v :: r)) = true /\ forallb printable (fix_entry key (k :: v :: r)) = true.
Proof.
  intros E Hk Hv Hz Hr Hpr. unfold fix_entry. cbn [norm_entry]. rewrite E.
  destruct (fix_key_lc_printable k v Hk Hv Hz) as (A & B & C).
  destruct (fix_key_lc k v) as [k' v']. cbn [fst snd] in *. cbn. now rewrite A, B, C, Hr, Hpr.
Qed.

Lemma fix_entry_other key k v r :
  String.eqb (nvalue k) key = false -> fix_entry key (k :: v :: r) = k :: v :: fix_entry key r.
Proof. intros E. unfold fix_entry. cbn [norm_entry]. now rewrite E. Qed.

Lemma upd_key_printable key f l l' :
  entries_ok l = true -> forallb printable l = true ->
  (forall v v', In v (vals_of l) \/ v = zero_node -> f v = Ok v' -> printable v' = true /\ nkind v' <> KZero) ->
  upd_key key f l = Ok l' ->
  entries_ok (fix_entry key l') = true /\ forallb printable (fix_entry key l') = true.
Proof.
  revert l'. induction l as [| k0 | k0 v0 r IH] using pair_ind; intros l' He Hp Hf H; cbn [upd_key] in H.
  - apply rmap_ok in H. destruct H as (v' & Hfv & ->).
    destruct (Hf zero_node v') as [P1 P2]; auto.
    apply fix_entry_printable_found; auto. cbn. apply String.eqb_refl.
  - discriminate.
  - cbn in He, Hp. apply andb_true_iff in He as [He1 He2].
    apply andb_true_iff in Hp as [Hp1 Hp]. apply andb_true_iff in Hp as [Hp2 Hp3].
    destruct (String.eqb (nvalue k0) key) eqn:E; apply rmap_ok in H.
    + destruct H as (v' & Hfv & ->). destruct (Hf v0 v') as [P1 P2]; auto. { left. now left. }
      apply fix_entry_printable_found; auto.
    + destruct H as (r' & Hr & ->). rewrite fix_entry_other by auto.
      destruct (IH r' He2 Hp3) as [A B]; auto.
      { intros v v' [Hin| ->]; apply Hf; auto. left. now right. }
      cbn. now rewrite He1, Hp1, Hp2, A, B.
Qed.

Lemma del_key_printable pr key f l l' :
  entries_ok l = true -> forallb printable l = true ->
  (forall v v', In v (vals_of l) -> f v = Ok v' -> printable v' = true /\ nkind v' <> KZero) ->
  del_key pr key false f l = Ok l' ->
  entries_ok (fix_entry key l') = true /\ forallb printable (fix_entry key l') = true.
Proof.
  revert l'. induction l as [| k0 | k0 v0 r IH] using pair_ind; intros l' He Hp Hf H; cbn [del_key] in H.
  - destruct (p_del_missing pr); cbn in H; try discriminate. inversion H. auto.
  - discriminate.
  - cbn in He, Hp. apply andb_true_iff in He as [He1 He2].
    apply andb_true_iff in Hp as [Hp1 Hp]. apply andb_true_iff in Hp as [Hp2 Hp3].
    destruct (String.eqb (nvalue k0) key) eqn:E; apply rmap_ok in H.
    + destruct H as (v' & Hfv & ->). destruct (Hf v0 v') as [P1 P2]; auto. { now left. }
      apply fix_entry_printable_found; auto.
    + destruct H as (r' & Hr & ->). rewrite fix_entry_other by auto.
      destruct (IH r' He2 Hp3) as [A B]; auto.
      { intros v v' Hin. apply Hf. now right. }
      cbn. now rewrite He1, Hp1, Hp2, A, B.
Qed.

Lemma entries_ok_del_pair key l : entries_ok l = true -> entries_ok (del_pair key l) = true.
Proof.
  induction l as [| k0 | k0 v0 r IH] using pair_ind; cbn; auto.
  intros H. apply andb_true_iff in H as [H1 H2]. destruct (String.eqb (nvalue k0) key); auto.
  cbn. now rewrite H1, IH.
Qed.

Lemma printable_del_pair key l : forallb printable l = true -> forallb printable (del_pair key l) = true.
Proof.
  induction l as [| k0 | k0 v0 r IH] using pair_ind; cbn; auto.
  intros H. apply andb_true_iff in H as [H1 H]. apply andb_true_iff in H as [H2 H3].
  destruct (String.eqb (nvalue k0) key); auto. cbn. now rewrite H1, H2, IH.
Qed.

(* the children of a well-formed root are well-formed roots; a zero root has none *)
Lemma wf_root_children n c : wf_root n = true -> In c (ncontent n) -> wf_root c = true.
Proof.
  intros Hw Hin. destruct (wf_root_cases _ Hw) as [[_ Hnil]|Hwn]; [rewrite Hnil in Hin; contradiction|].
  apply wf_wf_root. eapply forallb_In; [apply wf_content_all|]; eauto.
Qed.

Lemma wf_root_entries n : wf_root n = true -> nkind (n) <> KMap -> nkind n <> KZero \/ ncontent n = [].
Proof. intros Hw _. destruct (wf_root_cases _ Hw) as [[_ Hnil]|Hwn]; auto. left. now destruct (wf_not_zero _ Hwn). Qed.

(* the entries of the mapping Set / Delete continue in: those of the node itself, or none for a zero node *)
Lemma promoted_entries a n :
  wf_root n = true -> printable n = true -> nkind (promote a n) = KMap -> entries_ok (ncontent n) = true.
Proof.
  intros Hw Hp Hk. destruct (wf_root_cases _ Hw) as [[_ Hnil]|Hwn]; [now rewrite Hnil|].
  destruct (wf_not_zero _ Hwn) as [Hz _]. rewrite promote_kind in Hk by auto.
  destruct (printable_parts _ Hp) as (_ & H2 & _). unfold keys_lc_ok in H2. now rewrite Hk in H2.
Qed.

(* ---------------- Set ---------------- *)
Lemma yset_ok_kind pr a p new n n' :
  yset pr (a :: p) new n = Ok n' ->
  (exists key, a = AKey key /\ nkind (promote a n) = KMap) \/ (exists i, a = AIdx i /\ nkind (promote a n) = KSeq).
Proof.
  intros H. destruct (yset_cases _ _ _ _ _ H) as (n0 & H0 & _). cbn [yset0] in H0. cbv zeta in H0.
  destruct (nkind (promote a n)); try discriminate; destruct a; try discriminate; eauto.
Qed.

Theorem set_printable pr p new n n' :
  set_params_ok pr = true -> p_lc_move pr = true -> p_key_lc pr = true -> wf_root n = true -> wf new = true ->
  printable n = true -> printable new = true -> yset pr p new n = Ok n' -> printable n' = true.
Proof.
  intros Hp Hm Hkl. revert n n'. induction p as [|a p IH]; intros n n' Hw Hwn Hn Hnew H.
  - rewrite yset_nil in H. inversion H. apply printable_overwrite; auto. now destruct (wf_not_zero _ Hwn).
  - destruct (printable_parts _ Hn) as (Hlc & Hkeys & Hkids).
    assert (Hchild : forall c c', In c (ncontent n) \/ c = zero_node -> yset pr p new c = Ok c' ->
                                  printable c' = true /\ nkind c' <> KZero).
    { intros c c' Hc0 Hc.
      assert (Hwc : wf_root c = true) by (destruct Hc0 as [Hin| ->]; [eapply wf_root_children; eauto|reflexivity]).
      split.
      - destruct Hc0 as [Hin| ->]; eapply IH; try exact Hc; auto. eapply forallb_In; eauto.
      - now destruct (wf_not_zero _ (set_wf pr p new c c' Hp Hwc Hwn Hc)). }
    destruct (yset_ok_kind _ _ _ _ _ _ H) as [(key & -> & Hk)|(i & -> & Hk)].
    + rewrite yset_cons_map in H by auto. apply rmap_ok in H. destruct H as (c' & Hu & ->).
      unfold fix_key_at. rewrite Hkl, with_content_content, with_content_twice.
      destruct (upd_key_printable key (yset pr p new) (ncontent n) c') as [A B]; auto.
      * eapply promoted_entries; eauto.
      * intros v v' [Hin| ->]; apply Hchild; auto. left. now apply vals_of_in.
      * apply printable_intro.
        -- rewrite lc_ok_with_content. now apply lc_ok_promote.
        -- now rewrite keys_lc_ok_with_content, Hk.
        -- now rewrite with_content_content.
    + rewrite yset_cons_seq in H by auto.
      destruct ((i <? 0) || (len (ncontent n) <? i)); [discriminate|].
      apply rmap_ok in H. destruct H as (c2 & Hu & ->).
      apply printable_intro.
      * rewrite lc_ok_with_content. now apply lc_ok_promote.
      * now rewrite keys_lc_ok_with_content, Hk.
      * rewrite with_content_content. eapply upd_nth_forallb; [| |exact Hu].
        -- destruct (i =? len (ncontent n)); auto. now rewrite forallb_app, Hkids.
        -- intros c c' Hin Hc. eapply Hchild; [|exact Hc].
           destruct (i =? len (ncontent n)); auto.
           apply in_app_or in Hin. destruct Hin as [Hin|[<-|[]]]; auto.
Qed.

(* ---------------- Delete ---------------- *)
Lemma ydelete_ok_kind pr a p n n' :
  ydelete pr (a :: p) n = Ok n' ->
  (exists key, a = AKey key /\ nkind n = KMap) \/ (exists i, a = AIdx i /\ nkind n = KSeq).
Proof.
  intros H. destruct (ydelete_cases _ _ _ _ H) as (n0 & H0 & _). cbn [ydelete0] in H0.
  destruct (nkind n); try discriminate; destruct a; try discriminate; eauto.
Qed.

Lemma ydelete_kind pr p n n' : ydelete pr p n = Ok n' -> nkind n' = nkind n.
Proof.
  intros H. destruct (ydelete_cases _ _ _ _ H) as (n0 & H0 & Hn').
  assert (Hk0 : nkind n0 = nkind n).
  { destruct p as [|a p]; cbn [ydelete0] in H0.
    - destruct (p_del_empty pr); cbn in H0; try discriminate. congruence.
    - destruct (nkind n) eqn:Hk; try discriminate; destruct a; try discriminate.
      + destruct ((i <? 0) || (len (ncontent n) <=? i)); [discriminate|].
        destruct (is_nil p); [inversion H0; now rewrite with_content_kind|].
        apply rmap_ok in H0. destruct H0 as (c & _ & ->). now rewrite with_content_kind.
      + apply rmap_ok in H0. destruct H0 as (c & _ & ->). now rewrite with_content_kind. }
  destruct Hn' as [->| ->]; [exact Hk0|]. now rewrite norm_path_kind.
Qed.

Theorem delete_printable pr p n n' :
  p_key_lc pr = true -> wf_root n = true -> printable n = true -> ydelete pr p n = Ok n' -> printable n' = true.
Proof.
  intros Hkl. revert n n'. induction p as [|a p IH]; intros n n' Hw Hn H.
  - rewrite ydelete_nil in H. cbn in H. destruct (p_del_empty pr); cbn in H; try discriminate. congruence.
  - destruct (printable_parts _ Hn) as (Hlc & Hkeys & Hkids).
    destruct p as [|b p].
    + (* the level that removes the entry *)
      rewrite ydelete_one in H. cbn [ydelete0] in H.
      destruct (nkind n) eqn:Hk; try discriminate.
      * destruct a as [key|i]; [discriminate|].
        destruct ((i <? 0) || (len (ncontent n) <=? i)); [discriminate|]. cbn [is_nil] in H. inversion H.
        apply printable_intro.
        -- now rewrite lc_ok_with_content.
        -- now rewrite keys_lc_ok_with_content, Hk.
        -- rewrite with_content_content. now apply forallb_del_nth.
      * destruct a as [key|i]; [|discriminate]. cbn [is_nil] in H.
        apply rmap_ok in H. destruct H as (c' & Hd & ->). apply del_key_last_eq in Hd. subst c'.
        unfold keys_lc_ok in Hkeys. rewrite Hk in Hkeys.
        apply printable_intro.
        -- now rewrite lc_ok_with_content.
        -- rewrite keys_lc_ok_with_content, Hk. now apply entries_ok_del_pair.
        -- rewrite with_content_content. now apply printable_del_pair.
    + assert (Hne : b :: p <> []) by discriminate.
      assert (Hchild : forall c c', In c (ncontent n) -> ydelete pr (b :: p) c = Ok c' ->
                                    printable c' = true /\ nkind c' <> KZero).
      { intros c c' Hin Hc. split.
        - eapply IH; try exact Hc.
          + eapply wf_root_children; eauto.
          + eapply forallb_In; eauto.
        - rewrite (ydelete_kind _ _ _ _ Hc).
          destruct (wf_root_cases _ Hw) as [[_ Hnil]|Hwn]; [rewrite Hnil in Hin; contradiction|].
          apply (wf_not_zero c). eapply forallb_In; [apply wf_content_all|]; eauto. }
      destruct (ydelete_ok_kind _ _ _ _ _ H) as [(key & -> & Hk)|(i & -> & Hk)].
      * rewrite ydelete_cons_map in H by auto. apply rmap_ok in H. destruct H as (c' & Hu & ->).
        unfold fix_key_at. rewrite Hkl, with_content_content, with_content_twice.
        unfold keys_lc_ok in Hkeys. rewrite Hk in Hkeys.
        destruct (del_key_printable pr key (ydelete pr (b :: p)) (ncontent n) c') as [A B]; auto.
        { intros v v' Hin. apply Hchild. now apply vals_of_in. }
        apply printable_intro.
        -- now rewrite lc_ok_with_content.
        -- now rewrite keys_lc_ok_with_content, Hk.
        -- now rewrite with_content_content.
      * rewrite ydelete_cons_seq in H by auto.
        destruct ((i <? 0) || (len (ncontent n) <=? i)); [discriminate|].
        apply rmap_ok in H. destruct H as (c2 & Hu & ->).
        apply printable_intro.
        -- now rewrite lc_ok_with_content.
        -- now rewrite keys_lc_ok_with_content, Hk.
        -- rewrite with_content_content. eapply upd_nth_forallb; [exact Hkids| |exact Hu].
           intros c c' Hin Hc. now apply (Hchild c c').
Qed.

(* ---------------- env set ---------------- *)
Lemma printable_prep_value secret argtext v :
  printable v = true -> printable (prep_value secret argtext v) = true.
Proof.
  intros Hv. destruct secret; [|exact Hv]. unfold prep_value, secret_wrap, secret_arg.
  destruct (kind_eqb (nkind v) KScalar && negb (String.eqb (ntag v) str_tag)); cbn; [reflexivity|].
  unfold key_lc_ok. cbn. now rewrite Hv.
Qed.

(* Set below a node gives a non-empty collection of the style the node had *)
Lemma yset_below_nonempty pr a p new v v' :
  yset pr (a :: p) new v = Ok v' ->
  is_coll v' = true /\ ncontent v' <> [] /\ nstyle v' = nstyle (promote a v).
Proof.
  intros H. destruct (yset_ok_kind _ _ _ _ _ _ H) as [(key & -> & Hk)|(i & -> & Hk)].
  - rewrite yset_cons_map in H by auto. apply rmap_ok in H. destruct H as (c' & Hu & ->).
    unfold fix_key_at. set (n1 := promote (AKey key) v) in *.
    assert (Hc' : c' <> []).
    { destruct (upd_key_ok _ _ _ _ Hu) as (v0 & w & _ & Hf & _). intros ->. discriminate. }
    destruct (p_key_lc pr).
    + rewrite with_content_content, with_content_twice. split; [|split].
      * unfold is_coll. now rewrite with_content_kind, Hk.
      * rewrite with_content_content. unfold fix_entry. intros E.
        apply (f_equal (@length node)) in E. rewrite norm_entry_length in E. destruct c'; [congruence|discriminate].
      * now destruct n1.
    + split; [|split].
      * unfold is_coll. now rewrite with_content_kind, Hk.
      * now rewrite with_content_content.
      * now destruct n1.
  - rewrite yset_cons_seq in H by auto.
    destruct ((i <? 0) || (len (ncontent v) <? i)); [discriminate|].
    apply rmap_ok in H. destruct H as (c2 & Hu & ->). set (n1 := promote (AIdx i) v) in *.
    destruct (upd_nth_length _ _ _ _ Hu) as [Hl Hi]. split; [|split].
    + unfold is_coll. now rewrite with_content_kind, Hk.
    + rewrite with_content_content. intros ->. cbn in Hl. lia.
    + now destruct n1.
Qed.

Lemma yset_below_key_ok pr a p new k v v' :
  wf v = true -> yset pr (a :: p) new v = Ok v' -> key_lc_ok k v = true -> key_lc_ok k v' = true.
Proof.
  intros Hw H Hk. destruct (yset_below_nonempty _ _ _ _ _ _ H) as (Hc & Hne & Hst).
  destruct (wf_not_zero _ Hw) as [Hz _]. rewrite promote_kind in Hst by auto.
  unfold key_lc_ok in *. destruct (String.eqb (nlc k) ""); [reflexivity|]. cbn [orb] in *.
  apply orb_true_iff in Hk as [Hs|Hb].
  - (* Set does not continue below a scalar *)
    exfalso. destruct (yset_ok_kind _ _ _ _ _ _ H) as [(key & _ & Hk')|(i & _ & Hk')];
      rewrite promote_kind in Hk' by auto; unfold is_scalar in Hs; rewrite Hk' in Hs; discriminate.
  - apply andb_true_iff in Hb as [Hb Hfl]. rewrite Hc, Hst, Hfl.
    destruct (ncontent v'); [congruence|]. cbn. apply orb_true_r.
Qed.

Lemma upd_key_entries_keep key f l l' :
  entries_ok l = true -> forallb wf l = true ->
  (forall k v v', wf v = true -> f v = Ok v' -> key_lc_ok k v = true -> key_lc_ok k v' = true) ->
  upd_key key f l = Ok l' -> entries_ok l' = true.
Proof.
  revert l'. induction l as [| k0 | k0 v0 r IH] using pair_ind; intros l' He Hw Hf H; cbn [upd_key] in H.
  - apply rmap_ok in H. destruct H as (v' & _ & ->). reflexivity.
  - discriminate.
  - cbn in He, Hw. apply andb_true_iff in He as [He1 He2].
    apply andb_true_iff in Hw as [Hw1 Hw]. apply andb_true_iff in Hw as [Hw2 Hw3].
    destruct (String.eqb (nvalue k0) key); apply rmap_ok in H.
    + destruct H as (v' & Hfv & ->). cbn. now rewrite (Hf k0 v0 v'), He2.
    + destruct H as (r' & Hr & ->). cbn. now rewrite He1, (IH r').
Qed.

Lemma upd_key_forallb (P : node -> bool) key f l l' :
  forallb P l = true -> P (key_node key) = true ->
  (forall v v', In v l \/ v = zero_node -> f v = Ok v' -> P v' = true) ->
  upd_key key f l = Ok l' -> forallb P l' = true.
Proof.
  intros Hl Hkn. revert l' Hl. induction l as [| k0 | k0 v0 r IH] using pair_ind; intros l' Hl Hf H; cbn in H.
  - apply rmap_ok in H. destruct H as (v' & Hfv & ->). cbn. rewrite Hkn, (Hf zero_node v'); auto.
  - discriminate.
  - cbn in Hl. apply andb_true_iff in Hl as [H1 Hl]. apply andb_true_iff in Hl as [H2 H3].
    destruct (String.eqb (nvalue k0) key); apply rmap_ok in H.
    + destruct H as (v' & Hfv & ->). cbn. rewrite H1, H3, (Hf v0 v'); auto. left. right. now left.
    + destruct H as (r' & Hr & ->). cbn. rewrite H1, H2. cbn. apply IH; auto.
      intros v v' [Hin|Hz]; apply Hf; auto. left. right. now right.
Qed.

Lemma on_values_set_printable pr a p v root root' :
  set_params_ok pr = true -> p_lc_move pr = true -> p_key_lc pr = true ->
  wf root = true -> nkind root = KMap -> wf v = true -> printable root = true -> printable v = true ->
  on_values (yset pr (a :: p) v) root = Ok root' -> printable root' = true.
Proof.
  intros Hp Hm Hkl Hw Hk Hwv Hr Hv H. unfold on_values in H. apply rmap_ok in H. destruct H as (c' & Hu & ->).
  destruct (printable_parts _ Hr) as (Hlc & Hkeys & Hkids). unfold keys_lc_ok in Hkeys. rewrite Hk in Hkeys.
  pose proof (wf_content_all _ Hw) as Hall.
  apply printable_intro.
  - now rewrite lc_ok_with_content.
  - rewrite keys_lc_ok_with_content, Hk.
    eapply upd_key_entries_keep; [exact Hkeys|exact Hall| |exact Hu].
    intros k x x' Hwx Hx. eapply yset_below_key_ok; eauto.
  - rewrite with_content_content. eapply upd_key_forallb; [exact Hkids|reflexivity| |exact Hu].
    intros x x' [Hin| ->] Hx; eapply set_printable; try exact Hx; auto.
    + apply wf_wf_root. eapply forallb_In; eauto.
    + eapply forallb_In; eauto.
Qed.

Theorem env_set_printable pr p v root root' :
  set_params_ok pr = true -> p_lc_move pr = true -> p_key_lc pr = true -> wf_root root = true -> wf v = true ->
  printable root = true -> printable v = true ->
  env_set pr p v root = Ok root' -> printable root' = true.
Proof.
  intros Hp Hm Hkl Hw Hwv Hr Hv H. destruct p as [|a p]; [discriminate|]. unfold env_set in H.
  destruct (is_imports a); [exact (set_printable pr _ _ _ _ Hp Hm Hkl Hw Hwv Hr Hv H)|].
  destruct (yget [AKey values_key] root) eqn:Eg; try discriminate.
  - pose proof (yget_key_found_kind _ _ _ _ Eg) as Hk.
    destruct (wf_root_cases _ Hw) as [[Hz _]|Hwn]; [congruence|].
    exact (on_values_set_printable pr a p v root root' Hp Hm Hkl Hwn Hk Hwv Hr Hv H).
  - destruct (yset pr [AKey values_key] empty_map_node root) as [r1| |] eqn:E1; try discriminate.
    assert (Hr1 : printable r1 = true)
      by exact (set_printable pr [AKey values_key] empty_map_node root r1 Hp Hm Hkl Hw
                  (eq_refl : wf empty_map_node = true) Hr (eq_refl : printable empty_map_node = true) E1).
    assert (Hw1 : wf r1 = true) by exact (set_wf pr _ _ _ _ Hp Hw (eq_refl : wf empty_map_node = true) E1).
    destruct (get_set_empty pr [AKey values_key] empty_map_node root r1 Hp (eq_refl : ncontent empty_map_node = []) E1)
      as (m & Hm1 & _).
    exact (on_values_set_printable pr a p v r1 root' Hp Hm Hkl Hw1 (yget_key_found_kind _ _ _ _ Hm1) Hwv Hr1 Hv H).
Qed.

(* ---------------- env rm ---------------- *)
(* with the repair (Delete from the root of the definition) *)
Theorem env_rm_printable pr p root root' :
  p_key_lc pr = true -> p_rm_root pr = true -> wf_root root = true -> printable root = true ->
  env_rm pr p root = Ok root' -> printable root' = true.
Proof.
  intros Hkl Hrr Hw Hr H. destruct (env_rm_cases _ _ _ _ H) as [[_ ->]|[[_ Hd]|[_ Hv]]]; auto.
  - exact (delete_printable pr _ _ _ Hkl Hw Hr Hd).
  - unfold env_rm_values in Hv. rewrite Hrr in Hv.
    destruct (yget [AKey values_key] root); try discriminate; [|congruence].
    exact (delete_printable pr _ _ _ Hkl Hw Hr Hv).
Qed.

Definition op_printable (o : op) : Prop :=
  match o with OSet _ v => wf v = true /\ printable v = true | ORm _ => True end.

Definition printable_params_ok (pr : params) : bool := p_lc_move pr && p_key_lc pr && p_rm_root pr.

Theorem cli_run_printable pr ops t t' :
  set_params_ok pr = true -> printable_params_ok pr = true -> wf_root t = true -> printable t = true ->
  Forall op_printable ops -> run (cli_step pr) ops t = Some t' -> printable t' = true.
Proof.
  intros Hp Hpp. unfold printable_params_ok in Hpp.
  apply andb_true_iff in Hpp as [Hpp Hrr]. apply andb_true_iff in Hpp as [Hm Hkl].
  revert t. induction ops as [|o r IH]; intros t Hw Ht Hok H; cbn in H.
  - now inversion H; subst.
  - inversion Hok as [|? ? Ho Hrest]; subst. destruct (cli_step pr o t) eqn:E; try discriminate; eauto.
    destruct o as [p v|p]; cbn in E, Ho.
    + destruct Ho as [Hwv Hpv]. apply (IH a); auto.
      * apply wf_wf_root. exact (env_set_wf pr _ _ _ _ Hp Hw Hwv E).
      * exact (env_set_printable pr _ _ _ _ Hp Hm Hkl Hw Hwv Ht Hpv E).
    + apply (IH a); auto.
      * exact (env_rm_wf pr _ _ _ Hw E).
      * exact (env_rm_printable pr _ _ _ Hkl Hrr Hw Ht E).
Qed.

Theorem api_run_printable pr ops t t' :
  set_params_ok pr = true -> p_lc_move pr = true -> p_key_lc pr = true -> wf_root t = true -> printable t = true ->
  Forall op_printable ops -> run (api_step pr) ops t = Some t' -> printable t' = true.
Proof.
  intros Hp Hm Hkl. revert t. induction ops as [|o r IH]; intros t Hw Ht Hok H; cbn in H.
  - now inversion H; subst.
  - inversion Hok as [|? ? Ho Hrest]; subst. destruct (api_step pr o t) eqn:E; try discriminate; eauto.
    destruct o as [p v|p]; cbn in E, Ho.
    + destruct Ho as [Hwv Hpv]. apply (IH a); auto.
      * apply wf_wf_root. exact (set_wf pr _ _ _ _ Hp Hw Hwv E).
      * exact (set_printable pr _ _ _ _ Hp Hm Hkl Hw Hwv Ht Hpv E).
    + apply (IH a); auto.
      * exact (delete_wf pr _ _ _ Hw E).
      * exact (delete_printable pr _ _ _ Hkl Hw Ht E).
Qed.
