(* Proofs/BuiltinsValidate.v — the ONLY place where the statements about built-ins look inside Model/Eval.v's
   [validate]: its verdict on KNOWN values (top layer not unknown).  The branches of validate for unknown values are
   never unfolded, so a change there leaves these lemmas (and everything built on them) intact. *)
From Verif Require Import Base.Bytes Model.Chain Model.GoText Model.Envelope Model.Eval Proofs.BuiltinsKit.

(* a known string is accepted as a string *)
Lemma vok_string_known s sc t r : vok AccString (LScalar s false sc (SStr t) :: r) = true.
Proof. reflexivity. Qed.

Lemma validate_string_known s sc t r : validate AccString (LScalar s false sc (SStr t) :: r) = (true, 0).
Proof. reflexivity. Qed.

Definition known_str_top (c : chain) : Prop := exists s sc t r, c = LScalar s false sc (SStr t) :: r.

Lemma top_is_string_known c : known_str_top c -> top_is_string c = true.
Proof. intros (s & sc & t & r & ->). reflexivity. Qed.

(* a known array of known strings is accepted as an array of strings *)
Lemma validate_arrstring_known s sc elems r :
  (forall e, In e elems -> known_str_top e) -> validate AccArrString (LArr s false sc elems :: r) = (true, 0).
Proof.
  intro H. unfold validate. cbn [l_unk].
  assert (E : filter (fun e => negb (top_is_string e)) elems = []).
  { induction elems as [|e es IH]; [reflexivity|]. cbn [filter].
    rewrite (top_is_string_known e (H e (or_introl eq_refl))). cbn [negb].
    apply IH. intros e' He'. apply H. right. exact He'. }
  rewrite E. reflexivity.
Qed.

Lemma vok_arrstring_known s sc elems r :
  (forall e, In e elems -> known_str_top e) -> vok AccArrString (LArr s false sc elems :: r) = true.
Proof. intro H. unfold vok. rewrite (validate_arrstring_known s sc elems r H). reflexivity. Qed.

(* a provider without input schema accepts everything *)
Lemma vok_in_always c : vok (AccIn InAlways) c = true.
Proof. reflexivity. Qed.

(* ---- the converse on known values: what the typed check lets through ---- *)
Lemma vok_string_inv l r : l_unk l = false -> vok AccString (l :: r) = true ->
  exists s sc t, l = LScalar s false sc (SStr t).
Proof.
  intros Hu H. unfold vok, validate, top_is_string in H. rewrite Hu in H.
  destruct l as [s u sc [| | |t]|s u sc e|s u sc p]; try discriminate H. cbn [l_unk] in Hu. subst u. eauto.
Qed.

Lemma top_is_string_inv_known l r : l_unk l = false -> top_is_string (l :: r) = true ->
  exists s sc t, l = LScalar s false sc (SStr t).
Proof.
  intros Hu H. unfold top_is_string in H. rewrite Hu in H.
  destruct l as [s u sc [| | |t]|s u sc e|s u sc p]; try discriminate H. cbn [l_unk] in Hu. subst u. eauto.
Qed.

Lemma vok_arrstring_inv l r : l_unk l = false -> vok AccArrString (l :: r) = true ->
  exists s sc elems, l = LArr s false sc elems /\ forall e, In e elems -> top_is_string e = true.
Proof.
  intros Hu H. unfold vok, validate in H. rewrite Hu in H.
  destruct l as [s u sc x|s u sc elems|s u sc p]; try discriminate H. cbn [l_unk] in Hu. subst u.
  exists s, sc, elems. split; [reflexivity|].
  destruct (filter (fun e => negb (top_is_string e)) elems) as [|b bs] eqn:E; [|discriminate H].
  intros e He. destruct (top_is_string e) eqn:Et; [reflexivity|]. exfalso.
  assert (Hin : In e (filter (fun e => negb (top_is_string e)) elems)) by (apply filter_In; rewrite Et; split; auto).
  rewrite E in Hin. exact Hin.
Qed.
