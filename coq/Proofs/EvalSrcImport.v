(* Proofs/EvalSrcImport.v -- decides [eval_src_import_ok] (defined in Proofs/EvalSrc.v) on today's coq/Src/SrcEval.v.
   The [same_*] lemmas come first so that a failing build names the table and prints the entries that differ. *)
From Verif Require Import Base.Bytes Model.Chain Model.GoText Model.Eval Src.SrcEval Proofs.EvalSrc.

Lemma same_evaluate_import : table_diff ev_evaluate_import exp_evaluate_import = [].
Proof. vm_compute. reflexivity. Qed.
Lemma same_evaluate_imports : table_diff ev_evaluate_imports exp_evaluate_imports = [].
Proof. vm_compute. reflexivity. Qed.
Lemma same_new_eval_context : table_diff ev_new_eval_context exp_new_eval_context = [].
Proof. vm_compute. reflexivity. Qed.

Lemma eval_src_import_ok_true : eval_src_import_ok = true.
Proof. vm_compute. reflexivity. Qed.
