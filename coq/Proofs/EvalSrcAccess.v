(* Proofs/EvalSrcAccess.v -- decides [eval_src_access_ok] (defined in Proofs/EvalSrc.v) on today's coq/Src/SrcEval.v.
   The [same_*] lemmas come first so that a failing build names the table and prints the entries that differ. *)
From Verif Require Import Base.Bytes Model.Chain Model.GoText Model.Eval Src.SrcEval Proofs.EvalSrc.

Lemma same_property_access : table_diff ev_property_access exp_property_access = [].
Proof. vm_compute. reflexivity. Qed.
Lemma same_expr_access : table_diff ev_expr_access exp_expr_access = [].
Proof. vm_compute. reflexivity. Qed.
Lemma same_value_access : table_diff ev_value_access exp_value_access = [].
Proof. vm_compute. reflexivity. Qed.
Lemma same_unknown_access : table_diff ev_unknown_access exp_unknown_access = [].
Proof. vm_compute. reflexivity. Qed.
Lemma same_invalid_access : table_diff ev_invalid_access exp_invalid_access = [].
Proof. vm_compute. reflexivity. Qed.
Lemma same_array_index : table_diff ev_array_index exp_array_index = [].
Proof. vm_compute. reflexivity. Qed.
Lemma same_object_key : table_diff ev_object_key exp_object_key = [].
Proof. vm_compute. reflexivity. Qed.

Lemma eval_src_access_ok_true : eval_src_access_ok = true.
Proof. vm_compute. reflexivity. Qed.
