(* Proofs/NonInterferenceExamples.v — C03: flag soundness on a concrete program by computation, the witnesses
   that justify the design decisions of the relation, and a non-trivial instance of the two-run theorem. *)
From Verif Require Import Base.Bytes Model.Chain Model.GoText Model.Envelope Model.Eval Model.Redact.
From Verif Require Import Proofs.NonInterferenceRel Proofs.NonInterferenceOps Proofs.NonInterferenceTwins
     Proofs.NonInterferenceMono Proofs.NonInterferenceBuiltins Proofs.NonInterferenceEval Proofs.NonInterferenceMain.

(* ------------------------------------------------------------------------------------------------ *)
(* a program in which one secret flows along every taint edge                                        *)
(* ------------------------------------------------------------------------------------------------ *)
(* provider output: a composite flagged secret only at the top *)
Definition creds (pw user : string) : xval :=
  XObj true false [("pw", XScalar false false (SStr pw)); ("user", XScalar false false (SStr user))].

Definition W_demo (pw user : string) (plain : option string) : world :=
  {| w_envs := [("base", LoadOk {| ed_imports := []; ed_values := [("cfg", EOpen "p" (EObj []))] |})];
     w_provs := [("p", {| pv_in := InAlways; pv_out := ScAlways; pv_beh := PConst (creds pw user) |})];
     w_ctx := []; w_check := false; w_show := false; w_fault := None;
     w_decrypt := fun _ _ => plain |}.

Definition ref_s : path := [AName "s"].

Definition d_demo (with_fromjson : bool) (secret_text : string) : envdef :=
  {| ed_imports := [("base", true)];
     ed_values :=
       [("s", ESecretPlain secret_text);
        ("interp", EInterp [("pre-", Some ref_s); ("-post", None)]);            (* interpolation *)
        ("joined", EJoin (EStr ",") (EArr [EStr "a"; ESym ref_s]));              (* fn::join *)
        ("js", EToJSON (EObj [("k", ESym ref_s)]));                              (* fn::toJSON *)
        ("back", if with_fromjson then EFromJSON (ESym [AName "js"]) else ENull); (* ... -> fn::fromJSON *)
        ("b64", EToB64 (ESym ref_s));                                            (* fn::toBase64 *)
        ("unb64", EFromB64 (ESym [AName "b64"]));                                (* fn::fromBase64 *)
        ("str", EToString (EArr [ESym ref_s; ENum "1"]));                        (* fn::toString *)
        ("prop", ESym [AName "cfg"; AName "pw"]);             (* property access into a secret composite *)
        ("cfg", EObj [("extra", EStr "x")])] |}.              (* merging an object over a secret composite *)

Definition demo_value : xval :=
  XObj false false
    [("b64", XScalar true false (SStr "aHVudGVyMg=="));
     ("back", XObj true false [("k", XScalar true false (SStr "hunter2"))]);
     ("cfg", XObj false false
               [("extra", XScalar false false (SStr "x"));
                ("pw", XScalar true false (SStr "tiger"));
                ("user", XScalar true false (SStr "u"))]);
     ("interp", XScalar true false (SStr "pre-hunter2-post"));
     ("joined", XScalar true false (SStr "a,hunter2"));
     ("js", XScalar true false (SStr "{""k"":""hunter2""}"));
     ("prop", XScalar true false (SStr "tiger"));
     ("s", XScalar true false (SStr "hunter2"));
     ("str", XScalar true false (SStr """hunter2"",""1"""));
     ("unb64", XScalar true false (SStr "hunter2"))].

(* every node computed from the secret — and every node reached inside the secret composite — is flagged;
   the only unflagged leaves are the public literal "x" and the containers built by the program itself *)
Example flag_soundness_example :
  let o := run 40 (W_demo "tiger" "u" None) "main" (d_demo true "hunter2") in
  ob_errors o = false /\ ob_oof o = false /\ ob_value o = Some demo_value.
Proof. vm_compute. repeat split. Qed.

Example flag_soundness_redacted :
  x_redact_json demo_value =
  JObj [("b64", JStr "[secret]"); ("back", JStr "[secret]");
        ("cfg", JObj [("extra", JStr "x"); ("pw", JStr "[secret]"); ("user", JStr "[secret]")]);
        ("interp", JStr "[secret]"); ("joined", JStr "[secret]"); ("js", JStr "[secret]");
        ("prop", JStr "[secret]"); ("s", JStr "[secret]"); ("str", JStr "[secret]"); ("unb64", JStr "[secret]")]
  /\ scontains "hunter2" (json_print 10 (x_redact_json demo_value)) = false
  /\ scontains "tiger" (json_print 10 (x_redact_json demo_value)) = false
  /\ scontains "hunter2" (x_redact_string demo_value) = false
  /\ scontains "tiger" (x_redact_string demo_value) = false.
Proof. vm_compute. repeat split. Qed.

(* ------------------------------------------------------------------------------------------------ *)
(* the hypotheses of the two-run theorem are satisfiable on non-trivial data                          *)
(* ------------------------------------------------------------------------------------------------ *)
Lemma creds_lo pw1 u1 pw2 u2 : lo_equiv (creds pw1 u1) (creds pw2 u2).
Proof. unfold lo_equiv, creds. constructor. constructor; [split; [reflexivity|]|constructor; [split; [reflexivity|]|constructor]];
  simpl; constructor; simpl; discriminate. Qed.

Lemma W_demo_lo pw1 u1 pw2 u2 p1 p2 : W_lo (W_demo pw1 u1 (Some p1)) (W_demo pw2 u2 (Some p2)).
Proof.
  constructor; simpl; auto.
  - constructor; [|constructor]. split; [reflexivity|]. simpl. split; [reflexivity|]. simpl.
    constructor; [|constructor]. split; [reflexivity|]. simpl. constructor. constructor. constructor.
  - constructor; [|constructor]. split; [reflexivity|]. simpl. repeat split. apply creds_lo.
Qed.

Lemma d_demo_lo s1 s2 : env_lo (d_demo false s1) (d_demo false s2).
Proof.
  split; [reflexivity|]. simpl.
  repeat (constructor; [split; [reflexivity|]; simpl|]); try constructor;
    repeat first [ constructor | split; [reflexivity|] | progress simpl ].
Qed.

(* two runs: different static secret, different provider payloads, different decrypter *)
Example two_runs_instance :
  let o1 := run 40 (W_demo "tiger" "u" (Some "a")) "main" (d_demo false "hunter2") in
  let o2 := run 40 (W_demo "lion" "root" (Some "b")) "main" (d_demo false "correct horse") in
  ob_errors o1 = false /\ ob_oof o1 = false /\ ob_errors o2 = false /\ ob_oof o2 = false /\
  ob_value o1 <> ob_value o2 /\ ni_conclusion o1 o2.
Proof.
  cbv zeta.
  assert (A1 : ob_errors (run 40 (W_demo "tiger" "u" (Some "a")) "main" (d_demo false "hunter2")) = false) by (vm_compute; reflexivity).
  assert (A2 : ob_oof (run 40 (W_demo "tiger" "u" (Some "a")) "main" (d_demo false "hunter2")) = false) by (vm_compute; reflexivity).
  assert (A3 : ob_errors (run 40 (W_demo "lion" "root" (Some "b")) "main" (d_demo false "correct horse")) = false) by (vm_compute; reflexivity).
  assert (A4 : ob_oof (run 40 (W_demo "lion" "root" (Some "b")) "main" (d_demo false "correct horse")) = false) by (vm_compute; reflexivity).
  repeat apply conj; auto.
  - vm_compute. discriminate.
  - apply noninterference_partial; auto using W_demo_lo, d_demo_lo.
Qed.

(* ------------------------------------------------------------------------------------------------ *)
(* why the relation is what it is                                                                    *)
(* ------------------------------------------------------------------------------------------------ *)
(* (1) the shape below a secret node must agree: the keys of a secret provider object become visible when a
       public object is merged over it *)
Definition W_shape (key : string) : world :=
  {| w_envs := [("base", LoadOk {| ed_imports := []; ed_values := [("cfg", EOpen "p" (EObj []))] |})];
     w_provs := [("p", {| pv_in := InAlways; pv_out := ScAlways;
                          pv_beh := PConst (XObj true false [(key, XScalar false false (SStr "v"))]) |})];
     w_ctx := []; w_check := false; w_show := false; w_fault := None; w_decrypt := fun _ _ => None |}.

Definition d_merge : envdef :=
  {| ed_imports := [("base", true)]; ed_values := [("cfg", EObj [("extra", EStr "x")])] |}.

Example shape_below_secret_matters :
  let o1 := run 40 (W_shape "j") "main" d_merge in
  let o2 := run 40 (W_shape "k") "main" d_merge in
  ob_errors o1 = false /\ ob_oof o1 = false /\ ob_errors o2 = false /\ ob_oof o2 = false /\
  option_map x_redact_json (ob_value o1) =
    Some (JObj [("cfg", JObj [("extra", JStr "x"); ("j", JStr "[secret]")])]) /\
  option_map x_redact_json (ob_value o2) =
    Some (JObj [("cfg", JObj [("extra", JStr "x"); ("k", JStr "[secret]")])]).
Proof. vm_compute. repeat split. Qed.

(* (2) the same leak through fn::fromJSON of a secret document: its keys, and for "null" the whole value *)
Definition W_json (doc : string) : world :=
  {| w_envs := [("base", LoadOk {| ed_imports := []; ed_values := [("cfg", EFromJSON (ESecretPlain doc))] |})];
     w_provs := []; w_ctx := []; w_check := false; w_show := false; w_fault := None; w_decrypt := fun _ _ => None |}.

Example fromjson_keys_leak :
  let o1 := run 40 (W_json "{""j"":1}") "main" d_merge in
  let o2 := run 40 (W_json "{""k"":1}") "main" d_merge in
  ob_errors o1 = false /\ ob_oof o1 = false /\ ob_errors o2 = false /\ ob_oof o2 = false /\
  option_map x_redact_json (ob_value o1) =
    Some (JObj [("cfg", JObj [("extra", JStr "x"); ("j", JStr "[secret]")])]) /\
  option_map x_redact_json (ob_value o2) =
    Some (JObj [("cfg", JObj [("extra", JStr "x"); ("k", JStr "[secret]")])]).
Proof. vm_compute. repeat split. Qed.

(* FromJSON returns Value{} for nil: the secret flag is dropped — "every value computed from a secret is flagged"
   fails for exactly this value *)
Example fromjson_null_flag_refuted :
  let o := run 20 W_plain "main" (d_fromjson "null") in
  ob_errors o = false /\ ob_oof o = false /\
  ob_value o = Some (XObj false false [("a", XScalar false false SNull)]) /\
  option_map x_has_secret (ob_value o) = Some false.
Proof. vm_compute. repeat split. Qed.

(* the value-level lemma is NOT broken by the null case: j_lo relates null only to null, and then both sides
   are the same unflagged null; what breaks is the existence of a j_lo-related pair at all *)
Example json_null_vs_number_not_related : ~ j_lo true JNull (JNum "1").
Proof. intros H; inversion H. Qed.

(* (3) GetEnvironmentVariables looks at the members of `environmentVariables` without testing the flags of the
       object itself: for hand-made Values with a secret composite whose members are unflagged, lo_equiv is
       not enough — hence env_vars_redacted_lo_strict asks for the strict relation (which evaluation results
       satisfy, because unexport pushes the flag down) *)
Definition ev_val (s : string) : xval :=
  XObj false false [("environmentVariables", XObj true false [("A", XScalar false false (SStr s))])].

Example env_vars_lo_equiv_refuted :
  lo_equiv (ev_val "x") (ev_val "y") /\ env_vars_redacted (ev_val "x") <> env_vars_redacted (ev_val "y").
Proof.
  split.
  - unfold lo_equiv, ev_val. constructor. constructor; [split; [reflexivity|]|constructor]. simpl.
    constructor. constructor; [split; [reflexivity|]|constructor]. simpl. constructor. simpl. discriminate.
  - vm_compute. discriminate.
Qed.

(* after unexport (what the evaluator does with every provider output) the members are flagged *)
Example env_vars_after_unexport :
  option_map env_vars_redacted (export 10 (unexport 10 false (ev_val "x"))) = Some ["A=[secret]"].
Proof. vm_compute. reflexivity. Qed.

(* ------------------------------------------------------------------------------------------------ *)
(* the renderers of Model/Redact.v on a sample covering every case, with the byte-exact output of the Go  *)
(* functions (Value.ToJSON(true) through json.Marshal, GetEnvironmentVariables / GetTemporaryFiles with    *)
(* the redaction of prepare.go) obtained by running them on the same value                                 *)
(* ------------------------------------------------------------------------------------------------ *)
Definition sample : xval :=
  let sec s := XScalar true false s in let pub s := XScalar false false s in
  XObj false false
    [("arr", XArr false false [pub (SStr "a""b"); sec (SStr "z"); pub (SNum "12"); pub (SBool true); pub SNull;
                               XScalar false true SNull; XScalar true true SNull]);
     ("b64", sec (SStr "aHVudGVyMg=="));
     ("back", XObj true false [("k", sec (SStr "hunter2"))]);
     ("cfg", XObj false false [("extra", pub (SStr "x")); ("pw", sec (SStr "tiger")); ("user", sec (SStr "u"))]);
     ("environmentVariables",
      XObj false false [("A", pub (SStr "x")); ("B", sec (SStr "y")); ("C", pub (SNum "3")); ("D", pub (SBool false));
                        ("E", pub SNull); ("F", XScalar false true SNull); ("G", XScalar true true SNull);
                        ("H", XArr false false [pub (SStr "no")]); ("I", sec (SBool true))]);
     ("files", XObj true false [("K", pub (SStr "content")); ("L", sec (SStr "s3"))]);
     ("sarr", XArr true false [pub (SStr "q")]);
     ("uo", XObj false true [("k", pub (SStr "1"))])].

Example redact_sample_matches_go :
  json_print 10 (x_redact_json sample) =
  "{""arr"":[""a\""b"",""[secret]"",12,true,null,""[unknown]"",""[secret]""],""b64"":""[secret]"",""back"":""[secret]"",""cfg"":{""extra"":""x"",""pw"":""[secret]"",""user"":""[secret]""},""environmentVariables"":{""A"":""x"",""B"":""[secret]"",""C"":3,""D"":false,""E"":null,""F"":""[unknown]"",""G"":""[secret]"",""H"":[""no""],""I"":""[secret]""},""files"":""[secret]"",""sarr"":""[secret]"",""uo"":""[unknown]""}"
  /\ env_vars_redacted sample = ["A=x"; "B=[secret]"; "C=3"; "D=false"; "E="; "F=[unknown]"; "G=[secret]"; "I=[secret]"]
  /\ temp_files_redacted sample = ["K=content"; "L=[secret]"].
Proof. vm_compute. repeat split. Qed.
