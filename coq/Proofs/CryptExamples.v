(* Proofs/CryptExamples.v — concrete instances (non-vacuity examples of Properties/C04.v), by computation. *)
From Verif Require Import Base.Bytes Model.Envelope Model.YamlTree Model.Crypt Src.SrcEnvelope Src.SrcCrypt
     Proofs.CryptProofs Corr.CryptWire.

Definition ex_plain (p : string) : snode := SObj SynNone [((SynNone, crypt_fn_secret), SStr SynNone p)].

Definition secret_eqb (a b : string + string) : bool :=
  match a, b with
  | inl x, inl y | inr x, inr y => String.eqb x y
  | _, _ => false
  end.

(* encrypt `fn::secret: hunter2` with the toy cipher, decrypt the result: the plaintext is back, and the stored
   string does not contain it *)
Definition roundtrip_check (key : N) (pad : nat) (p : string) : bool :=
  match CryptProofs.enc_tree params crypt_fn_secret crypt_key_ciphertext crypt_new_key (toy_enc key pad) (ex_plain p) with
  | ROk s1 =>
      match CryptProofs.dec_tree params crypt_fn_secret crypt_key_ciphertext (toy_dec key pad) s1 with
      | ROk s2 =>
          list_eqb secret_eqb (secrets crypt_fn_secret crypt_key_ciphertext s2) [inl p]
          && match secrets crypt_fn_secret crypt_key_ciphertext s1 with
             | [inr c] => negb (scontains p c)
             | _ => false
             end
      | RErr _ => false
      end
  | RErr _ => false
  end.

Lemma roundtrip_example : roundtrip_check 90 2 "hunter2" = true.
Proof. vm_compute. reflexivity. Qed.

Lemma unescape_examples :
  unescape "a$$b" = Some "a$b" /\ has_dollar_escape "a$$b" = true /\ unescape "${x}" = None
  /\ unescape "$${x}" = Some "${x}" /\ unescape "a$b" = Some "a$b".
Proof. repeat split; reflexivity. Qed.
