(* Proofs/EvalSrcCombine.v -- decides [eval_src_combine_ok] (defined in Proofs/EvalSrc.v) on today's coq/Src/SrcEval.v.
   The [same_*] lemmas come first so that a failing build names the table and prints the entries that differ. *)
From Verif Require Import Base.Bytes Model.Chain Model.GoText Model.Eval Src.SrcEval Proofs.EvalSrc.

Lemma same_combine : table_diff ev_combine exp_combine = [].
Proof. vm_compute. reflexivity. Qed.

Lemma eval_src_combine_ok_true : eval_src_combine_ok = true.
Proof. vm_compute. reflexivity. Qed.
