(* Proofs/BuiltinsSpec.v — the documented functions of the built-ins on EXPORTED values ([spec_*]), and the link from
   the model's pure result functions ([*_post], BuiltinsMemo.v) to them:
     if the argument chains export to xv... and spec_B xv... = Some xa, then B_post of the chains exports to xa.
   Nothing here mentions the evaluator's state. *)
From Verif Require Import Base.Bytes Model.Chain Model.GoText Model.Envelope Model.Eval
  Proofs.EvalTotalBase Proofs.ChainAlgebraExport Proofs.RefSemMemo
  Proofs.BuiltinsKit Proofs.BuiltinsMemo Proofs.BuiltinsValidate.
From Coq Require Import Lia.

Lemma big_fuel_S : exists g, big_fuel = S g.
Proof. exists 4095%nat. reflexivity. Qed.
Lemma big_fuel_ge1 : (1 <= big_fuel)%nat.
Proof. destruct big_fuel_S as [g ->]. lia. Qed.
Lemma big_fuel_ge2 : (2 <= big_fuel)%nat.
Proof. unfold big_fuel. lia. Qed.

(* ------------------------------------------------------------------------------------------------ *)
(* 1. flags of exported values, without fuel                                                          *)
(* ------------------------------------------------------------------------------------------------ *)
Fixpoint xany (p : bool -> bool -> bool) (v : xval) : bool :=
  match v with
  | XScalar s u _ => p s u
  | XArr s u l => p s u || existsb (xany p) l
  | XObj s u m => p s u || existsb (fun kv => xany p (snd kv)) m
  end.

Lemma existsb_ext_in' {A} (f g : A -> bool) (l : list A) : (forall x, In x l -> f x = g x) -> existsb f l = existsb g l.
Proof.
  induction l as [|x r IH]; intro H; [reflexivity|]. cbn [existsb].
  rewrite (H x (or_introl eq_refl)), IH; [reflexivity|]. intros y Hy. apply H. right. exact Hy.
Qed.

Lemma x_any_xany p : forall f v, (x_depth v <= f)%nat -> x_any p f v = xany p v.
Proof.
  induction f as [|f IH]; intros v Hd; [destruct v; cbn [x_depth] in Hd; lia|].
  destruct v as [s u x|s u l|s u m]; cbn [x_any xany]; [reflexivity| |].
  - f_equal. apply existsb_ext_in'. intros x Hx. apply IH. pose proof (x_depth_arr s u l x Hx). lia.
  - f_equal. apply existsb_ext_in'. intros kv Hkv. apply IH. pose proof (x_depth_obj s u m kv Hkv). lia.
Qed.

Lemma xhu_xany v : x_has_unknown v = xany (fun _ u => u) v.
Proof. unfold x_has_unknown. apply x_any_xany. lia. Qed.
Lemma xhs_xany v : x_has_secret v = xany (fun s _ => s) v.
Proof. unfold x_has_secret. apply x_any_xany. lia. Qed.

Lemma xhu_scalar s u x : x_has_unknown (XScalar s u x) = u.
Proof. reflexivity. Qed.
Lemma xhs_scalar s u x : x_has_secret (XScalar s u x) = s.
Proof. reflexivity. Qed.

Lemma cu_of_export c x : export big_fuel c = Some x -> contains_unknowns c = x_has_unknown x.
Proof. intro H. unfold contains_unknowns, export_t. rewrite H. reflexivity. Qed.
(* inside the evaluator the merged view is [export_t]: the constant fuel first *)
Lemma et_of_export c x : export big_fuel c = Some x -> export_t c = Some x.
Proof. intro H. unfold export_t. rewrite H. reflexivity. Qed.
Lemma cs_of_export c x : export big_fuel c = Some x -> contains_secrets c = x_has_secret x.
Proof. intro H. unfold contains_secrets, export_t. rewrite H. reflexivity. Qed.

(* ------------------------------------------------------------------------------------------------ *)
(* 2. the specification functions                                                                     *)
(* ------------------------------------------------------------------------------------------------ *)
Definition x_str (v : xval) : option string :=
  match v with XScalar _ false (SStr t) => Some t | _ => None end.

(* fn::join: [delimiter, [s1, ..., sn]] = s1 ++ d ++ ... ++ sn; secret iff something in the arguments is *)
Definition spec_join (d vs : xval) : option xval :=
  match d, vs with
  | XScalar _ false (SStr dl), XArr _ false elems =>
      match mapM x_str elems with
      | Some strs => Some (XScalar (x_has_secret d || x_has_secret vs) false (SStr (sjoin dl strs)))
      | None => None
      end
  | _, _ => None
  end.

(* fn::toJSON v = the JSON text of v; defined when v has no unknown, is 7-bit (the domain on which Model/GoText.v is
   faithful) and not deeper than the model's export fuel *)
Definition spec_tojson (v : xval) : option xval :=
  if x_has_unknown v then None
  else if Nat.leb (x_depth v) big_fuel then
    let j := x_to_json (S (x_depth v)) v in
    if json_all_ascii (S (json_depth j)) j
    then Some (XScalar (x_has_secret v) false (SStr (json_print (S (json_depth j)) j)))
    else None
  else None.

(* fn::fromJSON s = the value of the JSON text s, every node secret iff s is; [x_of_single] is what a single-layer
   value looks like once merged: see export_unexport in BuiltinsJson.v *)
Notation x_of_single v := (export big_fuel (unexport (S (x_depth v)) false v)).

Definition spec_fromjson (v : xval) : option xval :=
  match v with
  | XScalar sec false (SStr s) =>
      match json_parse s with
      | JPOk j => x_of_single (json_to_x (S (json_depth j)) sec j)
      | _ => None
      end
  | _ => None
  end.

Definition spec_tob64 (v : xval) : option xval :=
  match v with XScalar sec false (SStr s) => Some (XScalar sec false (SStr (b64_encode s))) | _ => None end.

Definition spec_fromb64 (v : xval) : option xval :=
  match v with
  | XScalar sec false (SStr s) =>
      match b64_decode s with Some b => Some (XScalar sec false (SStr b)) | None => None end
  | _ => None
  end.

(* fn::toString on the exported value, for scalars only: the string form of a merged object shows own keys only
   (known finding C02-tostring), so on composites the statement is about the model's [to_string] on the chain *)
Definition spec_tostring_scalar (v : xval) : option xval :=
  match v with XScalar sec false sc => Some (XScalar sec false (SStr (scalar_text sc))) | _ => None end.

(* fn::open: the provider's answer (echo / constant) to known object inputs, outside check mode *)
Definition spec_open (W : world) (pname : string) (xin : xval) : option xval :=
  match alookup pname (w_provs W) with
  | Some p =>
      match pv_in p with
      | InAlways =>
          if w_check W || x_has_unknown xin || negb (Nat.leb (x_depth xin) big_fuel) then None
          else match xin with
               | XObj _ _ _ => match prov_out p xin with Some o => x_of_single o | None => None end
               | _ => None
               end
      | _ => None
      end
  | None => None
  end.

(* ------------------------------------------------------------------------------------------------ *)
(* 3. shapes of chains from shapes of exported values                                                *)
(* ------------------------------------------------------------------------------------------------ *)
Lemma export_scalar_inv' f c s u x : export f c = Some (XScalar s u x) ->
  c = [] \/ exists sch r, c = LScalar s u sch x :: r.
Proof.
  destruct f as [|f]; [discriminate|]. rewrite export_S.
  destruct c as [|[s0 u0 sc0 x0|s0 u0 sc0 e|s0 u0 sc0 p] r]; [left; reflexivity| | |].
  - intros [= <- <- <-]. right. eauto.
  - destruct (mapM _ e); discriminate.
  - match goal with |- match ?mm with _ => _ end = _ -> _ => destruct mm end; discriminate.
Qed.

Lemma export_known_scalar_inv f c s x : export f c = Some (XScalar s false x) ->
  exists sch r, c = LScalar s false sch x :: r.
Proof.
  intro H. destruct (export_scalar_inv' _ _ _ _ _ H) as [->|H']; [|exact H'].
  destruct f; discriminate H.
Qed.

Lemma export_arr_inv f c s u xs : export f c = Some (XArr s u xs) ->
  exists g sch elems r, f = S g /\ c = LArr s u sch elems :: r /\ mapM (export g) elems = Some xs.
Proof.
  destruct f as [|f]; [discriminate|]. rewrite export_S.
  destruct c as [|[s0 u0 sc0 x0|s0 u0 sc0 e|s0 u0 sc0 p] r]; try discriminate.
  - destruct (mapM (export f) e) as [l|] eqn:El; [|discriminate]. intros [= <- <- <-].
    exists f, sc0, e, r. repeat split. exact El.
  - match goal with |- match ?mm with _ => _ end = _ -> _ => destruct mm end; discriminate.
Qed.

Lemma export_scalar_top fe s u sch x r : fe <> 0%nat -> export fe (LScalar s u sch x :: r) = Some (XScalar s u x).
Proof. destruct fe; [contradiction|reflexivity]. Qed.

Lemma export_str_layer fe sec t b : fe <> 0%nat -> export fe ([str_layer sec false t] ++ b) = Some (XScalar sec false (SStr t)).
Proof. intro H. apply export_scalar_top, H. Qed.

Lemma to_string_known_scalar s sch x r : to_string (ts_need (LScalar s false sch x :: r)) (LScalar s false sch x :: r) = (scalar_text x, false, s).
Proof. reflexivity. Qed.

Lemma mapM_Forall2' {A B} (g : A -> option B) l : forall out, mapM g l = Some out -> Forall2 (fun a b => g a = Some b) l out.
Proof.
  induction l as [|x r IH]; intros out H; cbn [mapM] in H.
  - injection H as <-. constructor.
  - destruct (g x) as [y|] eqn:Eg; [|discriminate]. destruct (mapM g r) as [t|] eqn:Er; [|discriminate].
    injection H as <-. constructor; [exact Eg|apply IH; reflexivity].
Qed.

(* ------------------------------------------------------------------------------------------------ *)
(* 4. from the specification to the model's result functions                                         *)
(* ------------------------------------------------------------------------------------------------ *)
Definition is_str_result (X : chain) (xa : xval) : Prop :=
  exists sec t, X = [str_layer sec false t] /\ xa = XScalar sec false (SStr t).

Lemma str_result_export X xa b fe : is_str_result X xa -> fe <> 0%nat -> export fe (X ++ b) = Some xa.
Proof. intros (sec & t & -> & ->) H. apply export_str_layer, H. Qed.

Theorem tob64_fwd v xv xa :
  export big_fuel v = Some xv -> spec_tob64 xv = Some xa -> is_str_result (tob64_post v) xa.
Proof.
  intros Hx Hs. destruct xv as [sec [|] [| | |t]| |]; try discriminate Hs. injection Hs as <-.
  destruct (export_known_scalar_inv _ _ _ _ Hx) as (sch & r & ->).
  exists sec, (b64_encode t). split; [|reflexivity].
  unfold tob64_post, tob64_pure. rewrite vok_string_known. cbn [negb]. cbv zeta.
  rewrite (cu_of_export _ _ Hx), (cs_of_export _ _ Hx). reflexivity.
Qed.

Theorem fromb64_fwd v xv xa :
  export big_fuel v = Some xv -> spec_fromb64 xv = Some xa -> is_str_result (fromb64_post v) xa.
Proof.
  intros Hx Hs. destruct xv as [sec [|] [| | |t]| |]; try discriminate Hs. cbn [spec_fromb64] in Hs.
  destruct (b64_decode t) as [b|] eqn:Eb; [|discriminate Hs]. injection Hs as <-.
  destruct (export_known_scalar_inv _ _ _ _ Hx) as (sch & r & ->).
  exists sec, b. split; [|reflexivity].
  unfold fromb64_post, fromb64_pure. rewrite vok_string_known. cbn [negb]. cbv zeta.
  rewrite (cu_of_export _ _ Hx), (cs_of_export _ _ Hx), Eb. reflexivity.
Qed.

Theorem tostring_fwd v xv xa :
  export big_fuel v = Some xv -> spec_tostring_scalar xv = Some xa -> is_str_result (tostring_post v) xa.
Proof.
  intros Hx Hs. destruct xv as [sec [|] sc| |]; try discriminate Hs. injection Hs as <-.
  destruct (export_known_scalar_inv _ _ _ _ Hx) as (sch & r & ->).
  exists sec, (scalar_text sc). split; [|reflexivity].
  unfold tostring_post. rewrite to_string_known_scalar. reflexivity.
Qed.

Theorem tojson_fwd v xv xa :
  export big_fuel v = Some xv -> spec_tojson xv = Some xa -> is_str_result (tojson_post v) xa.
Proof.
  intros Hx Hs. unfold spec_tojson in Hs.
  destruct (x_has_unknown xv) eqn:Eu; [discriminate Hs|].
  destruct (Nat.leb (x_depth xv) big_fuel); [|discriminate Hs]. cbv zeta in Hs.
  destruct (json_all_ascii _ _) eqn:Ea; [|discriminate Hs]. injection Hs as <-.
  eexists _, _. split; [|reflexivity].
  unfold tojson_post. cbv zeta. rewrite (cu_of_export _ _ Hx), Eu, (cs_of_export _ _ Hx), Hx, Ea. reflexivity.
Qed.

Theorem fromjson_fwd v xv xa :
  export big_fuel v = Some xv -> spec_fromjson xv = Some xa -> export big_fuel (fromjson_post v) = Some xa.
Proof.
  intros Hx Hs. destruct xv as [sec [|] [| | |t]| |]; try discriminate Hs. cbn [spec_fromjson] in Hs.
  destruct (json_parse t) as [j| |] eqn:Ej; try discriminate Hs.
  destruct (export_known_scalar_inv _ _ _ _ Hx) as (sch & r & ->).
  unfold fromjson_post, fromjson_pure. rewrite vok_string_known. cbn [negb]. cbv zeta.
  rewrite (cu_of_export _ _ Hx), (cs_of_export _ _ Hx), xhu_scalar, xhs_scalar, Ej. exact Hs.
Qed.

Lemma xany_known_strs elems strs : mapM x_str elems = Some strs ->
  existsb (xany (fun _ u : bool => u)) elems = false.
Proof.
  revert strs. induction elems as [|x r IH]; intros strs H; [reflexivity|]. cbn [mapM] in H.
  destruct (x_str x) as [t|] eqn:Ex; [|discriminate]. destruct (mapM x_str r) as [ts|] eqn:Er; [|discriminate].
  cbn [existsb]. rewrite (IH ts eq_refl), orb_false_r.
  destruct x as [s [|] [| | |t0]| |]; try discriminate Ex. reflexivity.
Qed.

Theorem join_fwd dv vv xd xs xa :
  export big_fuel dv = Some xd -> export big_fuel vv = Some xs -> spec_join xd xs = Some xa ->
  is_str_result (join_post dv vv) xa.
Proof.
  intros Hd Hv Hs. unfold spec_join in Hs.
  destruct xd as [sd [|] [| | |dl]| |]; try discriminate Hs.
  destruct xs as [|sa [|] elems|]; try discriminate Hs.
  destruct (mapM x_str elems) as [strs|] eqn:Em; [|discriminate Hs]. injection Hs as <-.
  destruct (export_known_scalar_inv _ _ _ _ Hd) as (schd & rd & ->).
  destruct (export_arr_inv _ _ _ _ _ Hv) as (g & sch & cs & r & Hg & -> & Hcs).
  (* every element chain has a known string on top, and its text is the exported text *)
  assert (Hel : Forall2 (fun c t => exists se sce re, c = LScalar se false sce (SStr t) :: re) cs strs).
  { apply mapM_Forall2' in Hcs. apply mapM_Forall2' in Em. clear -Hcs Em.
    revert strs Em. induction Hcs as [|c x cs' xs' Hc _ IH]; intros strs Em; inversion Em; subst; constructor.
    - destruct x as [s [|] [| | |t0]| |]; try discriminate. match goal with H : x_str _ = Some _ |- _ => injection H as <- end.
      destruct (export_known_scalar_inv _ _ _ _ Hc) as (sce & re & ->). eauto.
    - apply IH. assumption. }
  assert (Hk : forall e, In e cs -> known_str_top e).
  { intros e He. clear -Hel He. induction Hel as [|c t cs' ts' (se & sce & re & ->) _ IH]; [destruct He|].
    destruct He as [<-|He]; [exists se, sce, t, re; reflexivity|apply IH, He]. }
  assert (Hstrs : map str_of cs = strs).
  { clear -Hel. induction Hel as [|c t cs' ts' (se & sce & re & ->) _ IH]; [reflexivity|]. cbn [map str_of]. rewrite IH. reflexivity. }
  eexists _, _. split; [|reflexivity].
  unfold join_post, join_pure. rewrite vok_string_known, (vok_arrstring_known sa sch cs r Hk). cbn [negb orb].
  unfold combine2. rewrite (cu_of_export _ _ Hd), (cu_of_export _ _ Hv), (cs_of_export _ _ Hd), (cs_of_export _ _ Hv).
  assert (Hu : x_has_unknown (XScalar sd false (SStr dl)) || x_has_unknown (XArr sa false elems) = false).
  { rewrite !xhu_xany. cbn [xany]. rewrite (xany_known_strs elems strs Em). reflexivity. }
  rewrite Hu. cbn [str_of strs_of]. rewrite Hstrs. reflexivity.
Qed.

(* the provider call *)
Theorem open_fwd W pname iv X xin xa :
  open_post W pname iv X -> export big_fuel iv = Some xin -> spec_open W pname xin = Some xa ->
  export big_fuel X = Some xa.
Proof.
  intros (p & Hal & HX) Hx Hs. unfold spec_open in Hs. rewrite Hal in Hs.
  destruct (pv_in p) eqn:Ein; [|discriminate Hs].
  destruct (w_check W) eqn:Ec; [discriminate Hs|]. cbn [orb] in Hs.
  destruct (x_has_unknown xin) eqn:Eu; [discriminate Hs|]. cbn [orb] in Hs.
  destruct (negb (Nat.leb (x_depth xin) big_fuel)); [discriminate Hs|].
  destruct xin as [| |s u m]; try discriminate Hs.
  destruct (prov_out p (XObj s u m)) as [o|] eqn:Eo; [|discriminate Hs].
  rewrite vok_in_always, (cu_of_export _ _ Hx), Eu in HX. cbn [negb orb] in HX.
  destruct HX as (s0 & u0 & m0 & o0 & Hx' & Ho' & ->). rewrite (et_of_export _ _ Hx) in Hx'. injection Hx' as <- <- <-.
  rewrite Eo in Ho'. injection Ho' as <-. exact Hs.
Qed.
