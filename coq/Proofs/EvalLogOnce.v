(* Proofs/EvalLogOnce.v — the memo discipline: each fn::open expression (identified by its id) is opened
   at most once.  Second instance of the generic induction of Proofs/EvalLogInd.v. *)
From Coq Require Import Lia ZifyN ZifyNat ZifyBool.
From Verif Require Import Base.Bytes Model.Chain Model.GoText Model.Envelope Model.Eval.
From Verif Require Import Proofs.EvalLogKit Proofs.EvalLogInd Proofs.EvalLog.

(* ------------------------------------------------------------------------------------------- *)
(** * 1. Ids with an [EvOpen] in the log; ids with a memo entry *)

Fixpoint open_ids (l : list ev) : list eid :=
  match l with
  | [] => []
  | EvOpen id _ _ _ _ :: r => id :: open_ids r
  | _ :: r => open_ids r
  end.

Lemma open_ids_In id l : In id (open_ids l) <-> exists p xin r c, In (EvOpen id p xin r c) l.
Proof.
  induction l as [|e l IH]; cbn.
  - split; [intros []|intros (? & ? & ? & ? & [])].
  - destruct e; cbn; rewrite ?IH.
    1,2,4: split; [intros (p & x & r & c & H); exists p, x, r, c; now right
                  |intros (p & x & r & c & [H|H]); [discriminate|exists p, x, r, c; exact H]].
    split.
    + intros [<-|(p & x & r & c & H)]; [exists prov, inputs, root, cur; now left|exists p, x, r, c; now right].
    + intros (p & x & r & c & [H|H]); [left; now inversion H|right; exists p, x, r, c; exact H].
Qed.

Lemma open_ids_not_open e l : is_open e = false -> open_ids (e :: l) = open_ids l.
Proof. destruct e; cbn; intros H; try reflexivity; discriminate. Qed.

Definition has (s : st) (id : eid) : Prop := memo_get id (memo s) <> None.

Lemma has_cons s id k v : memo_get id (memo s) <> None -> memo_get id ((k, v) :: memo s) <> None.
Proof. intros H. rewrite memo_get_cons. destruct (eid_eqb id k); [discriminate|exact H]. Qed.

Lemma has_self id v m : memo_get id ((id, v) :: m) <> None.
Proof. rewrite memo_get_cons, eid_eqb_refl. discriminate. Qed.

(* the state invariant: opened ids are pairwise distinct and all have a memo entry *)
Definition once_inv (s : st) : Prop :=
  NoDup (open_ids (log s)) /\ forall id, In id (open_ids (log s)) -> has s id.

(* the frame: memo entries are never removed, and an id that already had a memo entry gets no new EvOpen *)
Definition frame (g s : st) : Prop :=
  (forall id, has g id -> has s id) /\
  (forall id, has g id -> In id (open_ids (log s)) -> In id (open_ids (log g))).

Definition R1 (g s : st) : Prop := frame g s /\ (once_inv g -> once_inv s).

(* the same for [eval_repr] of expression [id] (whose entry is "evaluating"): [id] itself may be opened, once *)
Definition frame_x (id : eid) (g s : st) : Prop :=
  (forall id', has g id' -> has s id') /\
  (forall id', has g id' -> id' <> id -> In id' (open_ids (log s)) -> In id' (open_ids (log g))).

Definition T1 (id : eid) (g s : st) : Prop :=
  frame_x id g s /\ (once_inv g -> ~ In id (open_ids (log g)) -> once_inv s).

Lemma R1_refl s : R1 s s.
Proof. split; [split; auto|auto]. Qed.

Lemma R1_trans g s s' : R1 g s -> R1 s s' -> R1 g s'.
Proof.
  intros [[A1 B1] C1] [[A2 B2] C2]. split; [split|]; auto.
Qed.

(* operations that change neither memo nor the opened ids *)
Lemma R1_same g s s' : memo s' = memo s -> open_ids (log s') = open_ids (log s) -> R1 g s -> R1 g s'.
Proof.
  intros Hm Hl [[A B] C]. unfold R1, frame, once_inv, has in *. rewrite Hm, Hl. auto.
Qed.

Lemma T1_same id g s s' : memo s' = memo s -> open_ids (log s') = open_ids (log s) -> T1 id g s -> T1 id g s'.
Proof.
  intros Hm Hl [[A B] C]. unfold T1, frame_x, once_inv, has in *. rewrite Hm, Hl. auto.
Qed.

Lemma R1_event W g e s : is_open e = false -> R1 g s -> R1 g (snd (emit e (snd (call W s)))).
Proof. intros He. apply R1_same; [reflexivity|]. cbn. apply open_ids_not_open, He. Qed.

Lemma T1_of_R1 id s s' : R1 s s' -> T1 id s s'.
Proof. intros [[A B] C]. split; [split; auto|auto]. Qed.

Lemma T1_open W id s s1 p xin r c :
  has s id -> R1 s s1 -> T1 id s (snd (emit (EvOpen id p xin r c) (snd (call W s1)))).
Proof.
  intros Hhas [[A B] C]. split; [split|].
  - exact A.
  - intros id' H' Hne Hin. cbn in Hin. destruct Hin as [->|Hin]; [contradiction|]. exact (B id' H' Hin).
  - intros Hinv Hnot. destruct (C Hinv) as [ND Hall]. split; cbn.
    + constructor; [|exact ND]. intros Hin. apply Hnot. exact (B id Hhas Hin).
    + intros id' [<-|Hin]; [exact (A _ Hhas)|exact (Hall id' Hin)].
Qed.

Lemma R1_memo id g s0 :
  R1 g s0 -> memo_get id (memo s0) = None ->
  has (snd (memo_set id None s0)) id
  /\ forall s2 v, T1 id (snd (memo_set id None s0)) s2 -> R1 g (snd (memo_set id v s2)).
Proof.
  intros [[A B] C] Hnone. split; [apply has_self|].
  intros s2 v [[A2 B2] C2]. cbn [memo_set snd] in *.
  assert (forall id', has s0 id' -> id' <> id) as Hne by (intros id' H' ->; apply H'; exact Hnone).
  split; [split|].
  - intros id' H'. unfold has. cbn. apply has_cons. apply A2. unfold has. cbn. apply has_cons. exact (A id' H').
  - intros id' H' Hin. cbn in Hin. apply (B id' H').
    apply (B2 id'); [unfold has; cbn; apply has_cons; exact (A id' H')|exact (Hne id' (A id' H'))|exact Hin].
  - intros Hinv. destruct (C Hinv) as [ND Hall].
    assert (once_inv s2) as [ND2 Hall2].
    { apply C2.
      - split; [exact ND|]. intros id' Hin. unfold has. cbn. apply has_cons. exact (Hall id' Hin).
      - cbn. intros Hin. exact (Hall id Hin Hnone). }
    split; [exact ND2|]. intros id' Hin. unfold has. cbn. apply has_cons. exact (Hall2 id' Hin).
Qed.

(* ------------------------------------------------------------------------------------------- *)
(** * 2. The instance of the generic induction *)

Section Once.
Variable W : world.

Let R (_ : ectx) := R1.
Let T (_ : ectx) := T1.

Lemma once_hyps :
  (forall (E : ectx) s, R E s s) /\
  (forall (E : ectx) g n, preserves (R E g) (add_err n)) /\
  (forall (E : ectx) g, preserves (R E g) out_of_fuel) /\
  (forall (E : ectx) g e s, ev_ok W Id_any E e -> is_open e = false -> R E g s -> R E g (snd (emit e (snd (call W s))))) /\
  (forall (E : ectx) id s s', has s id -> R E s s' -> T E id s s') /\
  (forall (E : ectx) id s n, preserves (T E id s) (add_err n)) /\
  (forall (E : ectx) id s s1 p xin, has s id -> R E s s1 ->
     ev_ok W Id_any E (EvOpen id p xin (ec_root E) (ec_name E)) ->
     T E id s (snd (emit (EvOpen id p xin (ec_root E) (ec_name E)) (snd (call W s1))))) /\
  (forall (E : ectx) id g s0, R E g s0 -> memo_get id (memo s0) = None ->
     has (snd (memo_set id None s0)) id
     /\ forall s2 v, T E id (snd (memo_set id None s0)) s2 -> R E g (snd (memo_set id v s2))).
Proof.
  split; [|split; [|split; [|split; [|split; [|split; [|split]]]]]].
  - intros. apply R1_refl.
  - intros E g n s Hs. eapply R1_same; [| |exact Hs]; reflexivity.
  - intros E g s Hs. eapply R1_same; [| |exact Hs]; reflexivity.
  - intros E g e s _ He Hs. apply R1_event; assumption.
  - intros E id s s' _ H. apply T1_of_R1, H.
  - intros E id s n s' Hs. eapply T1_same; [| |exact Hs]; reflexivity.
  - intros E id s s1 p xin Hh Hr _. apply T1_open; assumption.
  - intros E id g s0 Hr Hn. exact (R1_memo id g s0 Hr Hn).
Qed.

Theorem eval_once : forall fuel,
  (forall E x xsec xbase id g, preserves (R1 g) (eval_expr W fuel E x xsec xbase id)) /\
  (forall E x xbase id s, has s id -> T1 id s (snd (eval_repr W fuel E x xbase id s))) /\
  (forall E x a id g, preserves (R1 g) (eval_typed W fuel E x a id)) /\
  (forall E p g, preserves (R1 g) (eval_access W fuel E p)) /\
  (forall E rx rsec rbase rid accs g, preserves (R1 g) (walk W fuel E rx rsec rbase rid accs)).
Proof.
  intros fuel.
  destruct once_hyps as (H1 & H2 & H3 & H4 & H5 & H6 & H7 & H8).
  destruct (eval_ind_pres W Id_any id_closed_any R H1 H2 H3 H4 (fun id s => has s id) T H5 H6 H7 H8 fuel)
    as (He & Hr & Ht & Ha & Hw).
  split; [|split; [|split; [|split]]].
  - intros. apply He. exact I.
  - intros. apply Hr; [exact I|assumption].
  - intros E x a id g s Hs. apply (Ht E x a id g I s Hs).
  - intros. apply Ha.
  - intros. apply Hw. exact I.
Qed.

Theorem eval_env_once : forall fuel root name d g, preserves (R1 g) (eval_env W fuel root name d).
Proof.
  destruct once_hyps as (H1 & H2 & H3 & H4 & H5 & H6 & H7 & H8).
  apply (eval_env_pres W Id_any id_closed_any R H1 H2 H3 H4 (fun id s => has s id) T H5 H6 H7 H8 (fun _ _ => R1)).
  - intros _ _ s. apply R1_refl.
  - intros _ _ g n s Hs. eapply R1_same; [| |exact Hs]; reflexivity.
  - intros _ _ g s Hs. eapply R1_same; [| |exact Hs]; reflexivity.
  - intros _ _ g n v s Hs. eapply R1_same; [| |exact Hs]; reflexivity.
  - intros _ _ g n s Hs. apply R1_event; [reflexivity|exact Hs].
  - intros _ _ E g s s' _ _ Ha Hb. exact (R1_trans _ _ _ Ha Hb).
  - intros _ _ n g s s' Ha Hb. eapply R1_trans; [|exact Hb]. apply R1_event; [reflexivity|exact Ha].
Qed.
End Once.

(* ------------------------------------------------------------------------------------------- *)
(** * 3. open_at_most_once *)

Lemma once_inv_st0 : once_inv st0.
Proof. split; [constructor|intros id []]. Qed.

(* from any state satisfying the invariant, for every function *)
Theorem once_inv_preserved W fuel :
  (forall E x xsec xbase id s, once_inv s -> once_inv (snd (eval_expr W fuel E x xsec xbase id s))) /\
  (forall E x xbase id s, has s id -> ~ In id (open_ids (log s)) ->
     once_inv s -> once_inv (snd (eval_repr W fuel E x xbase id s))) /\
  (forall E x a id s, once_inv s -> once_inv (snd (eval_typed W fuel E x a id s))) /\
  (forall E p s, once_inv s -> once_inv (snd (eval_access W fuel E p s))) /\
  (forall E rx rsec rbase rid accs s, once_inv s -> once_inv (snd (walk W fuel E rx rsec rbase rid accs s))) /\
  (forall root name d s, once_inv s -> once_inv (snd (eval_env W fuel root name d s))).
Proof.
  destruct (eval_once W fuel) as (He & Hr & Ht & Ha & Hw).
  split; [|split; [|split; [|split; [|split]]]].
  - intros E x xsec xbase id s Hi. exact (proj2 (He E x xsec xbase id s s (R1_refl s)) Hi).
  - intros E x xbase id s Hh Hn Hi. exact (proj2 (Hr E x xbase id s Hh) Hi Hn).
  - intros E x a id s Hi. exact (proj2 (Ht E x a id s s (R1_refl s)) Hi).
  - intros E p s Hi. exact (proj2 (Ha E p s s (R1_refl s)) Hi).
  - intros E rx rsec rbase rid accs s Hi. exact (proj2 (Hw E rx rsec rbase rid accs s s (R1_refl s)) Hi).
  - intros root name d s Hi. exact (proj2 (eval_env_once W fuel root name d s s (R1_refl s)) Hi).
Qed.

(* an expression whose id already has a memo entry is never opened (again) *)
Theorem memoized_not_opened W fuel root name d s id :
  has s id -> In id (open_ids (log (snd (eval_env W fuel root name d s)))) -> In id (open_ids (log s)).
Proof.
  intros Hh. exact (proj2 (proj1 (eval_env_once W fuel root name d s s (R1_refl s))) id Hh).
Qed.

Theorem open_at_most_once W fuel root name d :
  NoDup (open_ids (log (snd (eval_env W fuel root name d st0)))).
Proof.
  destruct (once_inv_preserved W fuel) as (_ & _ & _ & _ & _ & H).
  exact (proj1 (H root name d st0 once_inv_st0)).
Qed.

(* in terms of events: two EvOpen events at different positions of the log have different ids *)
Lemma NoDup_open_ids_events l :
  NoDup (open_ids l) ->
  forall i j id p1 x1 r1 c1 p2 x2 r2 c2,
    nth_error l i = Some (EvOpen id p1 x1 r1 c1) -> nth_error l j = Some (EvOpen id p2 x2 r2 c2) -> i = j.
Proof.
  induction l as [|e l IH]; intros ND i j id p1 x1 r1 c1 p2 x2 r2 c2 Hi Hj.
  - destruct i; discriminate.
  - assert (NoDup (open_ids l)) as ND'.
    { destruct e; cbn in ND; try exact ND. now inversion ND. }
    destruct i as [|i], j as [|j]; cbn in Hi, Hj.
    + reflexivity.
    + exfalso. inversion Hi; subst e. cbn in ND. inversion ND as [|? ? Hnot _]; subst.
      apply Hnot. apply open_ids_In. exists p2, x2, r2, c2. eapply nth_error_In, Hj.
    + exfalso. inversion Hj; subst e. cbn in ND. inversion ND as [|? ? Hnot _]; subst.
      apply Hnot. apply open_ids_In. exists p1, x1, r1, c1. eapply nth_error_In, Hi.
    + f_equal. eapply IH; eassumption.
Qed.

Theorem open_at_most_once_events W fuel root name d i j id p1 x1 r1 c1 p2 x2 r2 c2 :
  let l := log (snd (eval_env W fuel root name d st0)) in
  nth_error l i = Some (EvOpen id p1 x1 r1 c1) -> nth_error l j = Some (EvOpen id p2 x2 r2 c2) -> i = j.
Proof. cbv zeta. apply NoDup_open_ids_events, open_at_most_once. Qed.

(* about the observable log of [run] (oldest event first) *)
Lemma open_ids_app a b : open_ids (a ++ b) = open_ids a ++ open_ids b.
Proof. induction a as [|e a IH]; [reflexivity|]. destruct e; cbn; rewrite ?IH; reflexivity. Qed.

Lemma open_ids_rev l : open_ids (rev l) = rev (open_ids l).
Proof.
  induction l as [|e l IH]; [reflexivity|]. cbn [rev]. rewrite open_ids_app, IH.
  destruct e; cbn; rewrite ?app_nil_r; reflexivity.
Qed.

Theorem run_open_at_most_once fuel W name d : NoDup (open_ids (ob_log (run fuel W name d))).
Proof. rewrite run_log, open_ids_rev. apply NoDup_rev, open_at_most_once. Qed.
