(* Proofs/MemoRelSound.v — C10: an imported environment means the same everywhere (acyclic imports).
   [Sound n v]: v is the value of SOME evaluation of environment n that started from a state whose finished table entries
   are themselves sound, did not exhaust its fuel and met no import cycle.  Sound values are unique (by the two-run
   theorem of MemoRelEval and fuel monotonicity), every table entry a run leaves behind is sound, and opening an
   environment on its own is one such evaluation. *)
From Verif Require Import Base.Bytes Model.Chain Model.GoText Model.Envelope Model.Eval.
From Verif Require Import Proofs.ChainAlgebraEval Proofs.ChainAlgebraLink Proofs.MemoRelKit Proofs.MemoRelEval.
From Verif Require Proofs.EvalTotalBase Proofs.ChainAlgebraEnv.
Notation env_of := ChainAlgebraEnv.env_of.
From Coq Require Import Lia.
Local Open Scope nat_scope.

Definition done (v : chain) : imp_state := {| is_evaluating := false; is_value := Some v |}.
Notation failed_imp := ChainAlgebraEnv.failed_imp.

(* the fuel flag is never reset *)
Definition sticky {A} (m : M A) : Prop := forall s, oof s = true -> oof (snd (m s)) = true.

Lemma sticky_env W f r n d : sticky (eval_env W f r n d).
Proof. intros s. apply (EvalTotalBase.le_oof _ _ (EvalTotalBase.eval_env_mono W f r n d s)). Qed.

Lemma sticky_expr W f E x xsec xbase id : sticky (eval_expr W f E x xsec xbase id).
Proof. intros s. apply (EvalTotalBase.le_oof _ _ (EvalTotalBase.eval_expr_mono W f E x xsec xbase id s)). Qed.

Lemma sticky_imp_loop W (rec : string -> string -> envdef -> M chain) r :
  (forall r n d, sticky (rec r n d)) -> forall is base my, sticky (imp_loop W rec r is base my).
Proof.
  intros Hrec. induction is as [|[n merge] rest IH]; intros base my s Hs; [exact Hs|].
  rewrite imp_loop_cons. destruct (alookup n (imps s)) as [i|].
  - destruct (is_evaluating i); [apply IH; exact Hs|]. destruct (is_value i); apply IH; exact Hs.
  - cbv zeta. destruct (load_of W n s) as [| |d']; try (apply IH; exact Hs).
    destruct (rec r n d' _) as [v s2] eqn:E. apply IH. unfold set_imps. cbn [imps_set snd oof].
    change s2 with (snd (v, s2)). rewrite <- E. apply Hrec. exact Hs.
Qed.

Lemma MemoRelEnv_forallb_filter {A} (p q : A -> bool) l : forallb p l = true -> forallb p (filter q l) = true.
Proof.
  induction l as [|a r IH]; [reflexivity|]. cbn [forallb filter]. intro H. apply andb_true_iff in H.
  destruct H as [H1 H2]. destruct (q a); [cbn [forallb]; rewrite H1; auto|auto].
Qed.

Section SOUND.
Variable W : world.
Variable rank : string -> nat.
Hypothesis HF : w_fault W = None.
Hypothesis HR : forall n d im, env_of W n = Some d -> In im (ed_imports d) -> rank (fst im) < rank n.
Hypothesis HN : forall n d, env_of W n = Some d -> no_context_reference d.

(* ---------------- invariants of the states met during a run ---------------- *)
Definition I1 (s : st) : Prop := forall id, memo_get id (memo s) <> None -> alookup (fst id) (imps s) <> None.
Definition I2 (P : string -> chain -> Prop) (s : st) : Prop :=
  forall m i, alookup m (imps s) = Some i -> is_evaluating i = false ->
    (exists v, is_value i = Some v /\ P m v) \/ (env_of W m = None /\ is_value i = None).
Definition I3 (s : st) (r : nat) : Prop :=
  forall m i, alookup m (imps s) = Some i -> is_evaluating i = true -> r <= rank m.

Inductive Sound : string -> chain -> Prop :=
| Sound_intro n d f r s :
    env_of W n = Some d -> alookup n (imps s) = None -> I1 s -> I2 Sound s -> I3 s (S (rank n)) ->
    oof s = false -> oof (snd (eval_env W f r n d s)) = false ->
    Sound n (fst (eval_env W f r n d s)).

(* a fresh table entry: a sound value, or the failure mark of a name the loader does not serve *)
Definition new_entry (m : string) (s' : st) : Prop :=
  (exists v, alookup m (imps s') = Some (done v) /\ Sound m v)
  \/ (env_of W m = None /\ alookup m (imps s') = Some failed_imp).
Definition ext (s s' : st) : Prop :=
  (forall m, alookup m (imps s') = alookup m (imps s) \/ (alookup m (imps s) = None /\ new_entry m s'))
  /\ (forall id, memo_get id (memo s') <> None -> memo_get id (memo s) <> None \/ alookup (fst id) (imps s) = None).

Lemma ext_refl s : ext s s.
Proof. split; [intros m; now left|intros id H; now left]. Qed.

Lemma ext_trans s s' s'' : ext s s' -> ext s' s'' -> ext s s''.
Proof.
  intros [A1 A2] [B1 B2]. split.
  - intros m. destruct (B1 m) as [E|(E & N)].
    + rewrite E. destruct (A1 m) as [E2|(E2 & N2)]; [now left|right]. split; [exact E2|].
      destruct N2 as [(v & E' & Hv)|(Hd & E')]; [left; exists v|right]; (split; [congruence|assumption]) || (split; [assumption|congruence]).
    + right. destruct (A1 m) as [E2|(E2 & [(v2 & E2' & _)|(_ & E2')])]; try congruence. split; [congruence|exact N].
  - intros id H. destruct (B2 id H) as [H'|H'].
    + apply A2, H'.
    + right. destruct (A1 (fst id)) as [E|(E & _)]; congruence.
Qed.

Lemma ext_I2 s s' : ext s s' -> I2 Sound s -> I2 Sound s'.
Proof.
  intros [A1 _] H m i Hm Hi. destruct (A1 m) as [E|(E & [(v & E' & Hv)|(Hd & E')])].
  - apply (H m i); congruence.
  - rewrite E' in Hm. injection Hm as <-. left. exists v. split; [reflexivity|exact Hv].
  - rewrite E' in Hm. injection Hm as <-. right. split; [exact Hd|reflexivity].
Qed.

Lemma ext_I3 s s' r : ext s s' -> I3 s r -> I3 s' r.
Proof.
  intros [A1 _] H m i Hm Hi. destruct (A1 m) as [E|(E & [(v & E' & _)|(_ & E')])].
  - apply (H m i); congruence.
  - rewrite E' in Hm. injection Hm as <-. discriminate.
  - rewrite E' in Hm. injection Hm as <-. discriminate.
Qed.

Definition same_tables (s s' : st) : Prop := memo s' = memo s /\ imps s' = imps s.


Lemma same_tables_ext s s' : same_tables s s' -> ext s s'.
Proof. intros [Hm Hi]. split; [intros m; left; now rewrite Hi|intros id H; left; rewrite <- Hm; exact H]. Qed.

Lemma same_tables_I1 s s' : same_tables s s' -> I1 s -> I1 s'.
Proof. intros [Hm Hi] H id Hin. rewrite Hi. apply (H id). now rewrite <- Hm. Qed.

(* ---------------- what the import loop computes: a fold over sound values ---------------- *)
Inductive LoopVals : list (string * bool) -> chain -> list (string * chain) -> chain -> list (string * chain) -> Prop :=
| LV_nil (base : chain) (my : list (string * chain)) : LoopVals [] base my base my
| LV_skip (n : string) (merge : bool) rest (base : chain) (my : list (string * chain)) (b' : chain) (m' : list (string * chain)) :
    env_of W n = None -> LoopVals rest base my b' m' -> LoopVals ((n, merge) :: rest) base my b' m'
| LV_use (n : string) (merge : bool) rest (base : chain) (my : list (string * chain)) (v : chain) (b' : chain) (m' : list (string * chain)) :
    Sound n v -> LoopVals rest (if merge then v ++ base else base) (ainsert n v my) b' m' ->
    LoopVals ((n, merge) :: rest) base my b' m'.

Lemma Sound_env n v : Sound n v -> exists d, env_of W n = Some d.
Proof. intros H. destruct H. eauto. Qed.

Lemma LoopVals_det is base my b1 m1 b2 m2 :
  (forall im v v', In im is -> Sound (fst im) v -> Sound (fst im) v' -> v = v') ->
  LoopVals is base my b1 m1 -> LoopVals is base my b2 m2 -> b1 = b2 /\ m1 = m2.
Proof.
  intros HU H1. revert b2 m2. induction H1 as [base my|n merge rest base my b' m' Hn H1 IH|n merge rest base my v b' m' Hv H1 IH];
    intros b2 m2 H2; inversion H2; subst.
  - split; reflexivity.
  - apply IH; [|assumption]. intros im v v' Hin. apply HU. now right.
  - exfalso. match goal with H : Sound n _ |- _ => destruct (Sound_env _ _ H) as (d0 & Hd0) end. congruence.
  - exfalso. destruct (Sound_env _ _ Hv) as (d0 & Hd0). congruence.
  - match goal with H : Sound n ?w |- _ => assert (v = w) by (apply (HU (n, merge)); [now left|exact Hv|exact H]) end. subst.
    apply IH; [|assumption]. intros im w w' Hin. apply HU. now right.
Qed.

(* ---------------- the unary run lemma ---------------- *)
Definition env_post (name : string) (s s' : st) : Prop :=
  (forall m, m <> name ->
     alookup m (imps s') = alookup m (imps s) \/ (alookup m (imps s) = None /\ new_entry m s'))
  /\ alookup name (imps s') = Some {| is_evaluating := false; is_value := None |}
  /\ (forall id, memo_get id (memo s') <> None -> memo_get id (memo s) <> None \/ alookup (fst id) (imps s) = None)
  /\ I1 s'.

Definition root_of (root name : string) : string := if String.eqb root "" || String.eqb root "<yaml>" then name else root.

Definition env_spec (f : nat) : Prop :=
  forall r n d s,
    env_of W n = Some d -> alookup n (imps s) = None -> I1 s -> I2 Sound s -> I3 s (S (rank n)) ->
    oof s = false -> oof (snd (eval_env W f r n d s)) = false ->
    env_post n s (snd (eval_env W f r n d s))
    /\ exists f' base my sm,
         f = S f' /\ LoopVals (ed_imports d) [] [] base my
         /\ (forall p, memo_get (n, p) (memo sm) = None) /\ oof sm = false
         /\ eval_env W f r n d s
            = eval_expr W f' (env_ctx W (root_of r n) n d base my)
                        (EObj (ec_values (env_ctx W (root_of r n) n d base my))) false base (n, []) sm.

Lemma load_of_env n s : load_of W n s = match env_of W n with Some d => LoadOk d | None =>
                                           match alookup n (w_envs W) with Some LoadNoParse => LoadNoParse | _ => LoadFail end end.
Proof.
  unfold load_of, env_of. rewrite (call_nofault _ _ HF). destruct (alookup n (w_envs W)) as [[| |d]|]; reflexivity.
Qed.

Lemma loop_sound (f : nat) (r' : string) (rk : nat) :
  env_spec f ->
  forall is base my s,
    (forall im, In im is -> rank (fst im) < rk) ->
    I1 s -> I2 Sound s -> I3 s rk -> oof s = false ->
    oof (snd (imp_loop W (eval_env W f) r' is base my s)) = false ->
    exists b' m',
      fst (imp_loop W (eval_env W f) r' is base my s) = (b', m') /\ LoopVals is base my b' m'
      /\ ext s (snd (imp_loop W (eval_env W f) r' is base my s))
      /\ I1 (snd (imp_loop W (eval_env W f) r' is base my s)).
Proof.
  intros Hspec. induction is as [|[n merge] rest IH]; intros base my s Hr H1 H2 H3 Ho Hfin.
  - exists base, my. split; [reflexivity|]. split; [apply LV_nil|]. split; [apply ext_refl|exact H1].
  - assert (Hrn : rank n < rk) by (apply (Hr (n, merge)); now left).
    assert (Hr' : forall im, In im rest -> rank (fst im) < rk) by (intros im Him; apply Hr; now right).
    rewrite imp_loop_cons in *. destruct (alookup n (imps s)) as [i|] eqn:En.
    + destruct (is_evaluating i) eqn:Ev.
      * exfalso. pose proof (H3 n i En Ev). lia.
      * destruct (H2 n i En Ev) as [(v & Hv & Sv)|(Hd & Hv)]; rewrite Hv in *.
        -- destruct (IH _ _ s Hr' H1 H2 H3 Ho Hfin) as (b' & m' & E & LV & X & Y).
           exists b', m'. split; [exact E|]. split; [now apply LV_use with (v := v)|]. split; assumption.
        -- destruct (IH _ _ s Hr' H1 H2 H3 Ho Hfin) as (b' & m' & E & LV & X & Y).
           exists b', m'. split; [exact E|]. split; [now apply LV_skip|]. split; assumption.
    + cbv zeta in *. set (s1 := snd (emit (EvLoad n) (snd (call W s)))) in *.
      assert (T1 : same_tables s s1) by (split; reflexivity).
      assert (O1 : oof s1 = false) by exact Ho.
      rewrite load_of_env in *.
      destruct (env_of W n) as [d'|] eqn:Ed.
      * destruct (eval_env W f r' n d' s1) as [v s2] eqn:E2.
        assert (O2 : oof s2 = false).
        { destruct (oof s2) eqn:O; [|reflexivity]. exfalso.
          rewrite (sticky_imp_loop W (eval_env W f) r' (sticky_env W f)) in Hfin; [discriminate|exact O]. }
        assert (J3 : I3 s1 (S (rank n))) by (intros m i Hm Hi; pose proof (H3 m i Hm Hi); lia).
        assert (P := Hspec r' n d' s1 Ed En (same_tables_I1 _ _ T1 H1) (ext_I2 _ _ (same_tables_ext _ _ T1) H2) J3 O1).
        rewrite E2 in P. cbn [fst snd] in P. destruct (P O2) as ((Q1 & Q2 & Q3 & Q4) & _).
        assert (Sv : Sound n v).
        { change v with (fst (v, s2)). rewrite <- E2.
          apply (Sound_intro n d' f r' s1 Ed En (same_tables_I1 _ _ T1 H1) (ext_I2 _ _ (same_tables_ext _ _ T1) H2) J3 O1).
          rewrite E2. exact O2. }
        set (s3 := set_imps n {| is_evaluating := false; is_value := Some v |} s2) in *.
        assert (X3 : ext s s3).
        { split.
          - intros m. destruct (String.eqb m n) eqn:Emn.
            + apply String.eqb_eq in Emn. subst m. right. split; [exact En|]. left. exists v. split; [apply set_imps_lookup|exact Sv].
            + assert (Hne : m <> n) by now apply String.eqb_neq.
              assert (L3 : alookup m (imps s3) = alookup m (imps s2)).
              { unfold s3, set_imps, imps_set. cbn [snd imps alookup]. now rewrite Emn. }
              rewrite L3. destruct (Q1 m Hne) as [Q|(Q & N)]; [left; exact Q|right; split; [exact Q|]].
              unfold new_entry in *. rewrite L3. exact N.
          - intros id Hin. exact (Q3 id Hin). }
        assert (Y3 : I1 s3).
        { intros id Hin. unfold s3, set_imps, imps_set. cbn [snd imps alookup].
          destruct (String.eqb (fst id) n); [discriminate|]. exact (Q4 id Hin). }
        destruct (IH (if merge then v ++ base else base) (ainsert n v my) s3 Hr' Y3 (ext_I2 _ _ X3 H2) (ext_I3 _ _ _ X3 H3) O2 Hfin)
          as (b' & m' & E & LV & X & Y).
        exists b', m'. split; [exact E|]. split; [now apply LV_use with (v := v)|]. split; [exact (ext_trans _ _ _ X3 X)|exact Y].
      * set (sf := set_imps n failed_imp (snd (err s1))) in *.
        assert (X2 : ext s sf).
        { split; [|intros id Hin; left; exact Hin]. intros m. destruct (String.eqb m n) eqn:Emn.
          - apply String.eqb_eq in Emn. subst m. right. split; [exact En|]. right. split; [exact Ed|apply set_imps_lookup].
          - left. unfold sf, set_imps, imps_set. cbn [snd imps alookup]. now rewrite Emn. }
        assert (Y2 : I1 sf).
        { intros id Hin. unfold sf, set_imps, imps_set. cbn [snd imps alookup].
          destruct (String.eqb (fst id) n); [discriminate|]. exact (H1 id Hin). }
        assert (Hskip : exists b' m',
                  fst (imp_loop W (eval_env W f) r' rest base my sf) = (b', m') /\ LoopVals ((n, merge) :: rest) base my b' m'
                  /\ ext s (snd (imp_loop W (eval_env W f) r' rest base my sf))
                  /\ I1 (snd (imp_loop W (eval_env W f) r' rest base my sf))).
        { assert (Hfin' : oof (snd (imp_loop W (eval_env W f) r' rest base my sf)) = false)
            by (destruct (alookup n (w_envs W)) as [[| |?]|]; exact Hfin).
          destruct (IH base my sf Hr' Y2 (ext_I2 _ _ X2 H2) (ext_I3 _ _ _ X2 H3) Ho Hfin') as (b' & m' & E & LV & X & Y).
          exists b', m'. split; [exact E|]. split; [now apply LV_skip|]. split; [exact (ext_trans _ _ _ X2 X)|exact Y]. }
        destruct (alookup n (w_envs W)) as [[| |?]|]; exact Hskip.
Qed.

(* what evaluating the values of environment [name] does to the tables: only memo entries of that environment move
   (the diagonal of the two-run theorem) *)
Lemma expr_frame (f : nat) (E : ectx) (sb : st) :
  forallb (fun kv => no_ctx (snd kv)) (ec_values E) = true ->
  let fin := snd (eval_expr W f E (EObj (ec_values E)) false (ec_base E) (ec_name E, []) sb) in
  (forall id, fst id <> ec_name E -> memo_get id (memo fin) = memo_get id (memo sb))
  /\ (forall n, alookup n (imps fin) = alookup n (imps sb)).
Proof.
  intros Hnc fin.
  pose proof (proj1 (eval_two_runs W W (fun m => m = ec_name E) (fun _ => False) sb sb HF HF eq_refl eq_refl eq_refl
                       (fun _ _ _ => eq_refl) f)) as HP.
  assert (HE : E_sim (fun m => m = ec_name E) E E) by (constructor; auto).
  specialize (HP E E (EObj (ec_values E)) false (ec_base E) (ec_name E, []) HE eq_refl Hnc sb sb).
  destruct HP as [_ S].
  { apply srel_start. split; auto. }
  split.
  - intros id Hid. exact (sr_fm1 _ _ _ _ _ _ S id Hid).
  - intros n. apply (sr_fi1 _ _ _ _ _ _ S n). tauto.
Qed.

Theorem env_sound : forall f, env_spec f.
Proof.
  induction f as [|f IHf]; intros root name d s Hd Hn H1 H2 H3 Ho Hfin; [discriminate Hfin|].
  rewrite eval_env_S in *. cbv zeta in *. fold (root_of root name) in *. set (root' := root_of root name) in *.
  unfold bind at 1 in Hfin. unfold bind at 1. cbn [imps_set fst snd] in *.
  set (s0 := {| memo := memo s; imps := (name, {| is_evaluating := true; is_value := None |}) :: imps s;
                log := log s; nerr := nerr s; calls := calls s; oof := oof s |}) in *.
  assert (L0 : forall m, m <> name -> alookup m (imps s0) = alookup m (imps s)).
  { intros m Hm. cbn [s0 imps alookup]. apply String.eqb_neq in Hm. now rewrite Hm. }
  assert (N0 : alookup name (imps s0) = Some {| is_evaluating := true; is_value := None |}).
  { cbn [s0 imps alookup]. now rewrite String.eqb_refl. }
  unfold bind at 1 in Hfin. unfold bind at 1.
  destruct (imp_loop W (eval_env W f) root' (ed_imports d) [] [] s0) as [[base my] sL] eqn:EL.
  unfold bind at 1 in Hfin. unfold bind at 1. cbn [imps_set fst snd] in *.
  unfold bind at 1 in Hfin. unfold bind at 1. cbn [add_err fst snd memo imps log nerr calls oof] in *.
  set (sb := {| memo := memo sL; imps := (name, {| is_evaluating := false; is_value := None |}) :: imps sL;
                log := log sL; nerr := (nerr sL + N.of_nat (length (filter (fun kv => reserved (fst kv)) (ed_values d))))%N;
                calls := calls sL; oof := oof sL |}) in *.
  set (E := env_ctx W root' name d base my) in *.
  assert (OL : oof sL = false).
  { apply Bool.not_true_is_false. intros O.
    rewrite (sticky_expr W f E (EObj (ec_values E)) false base (name, []) sb O) in Hfin. discriminate. }
  destruct (loop_sound f root' (rank name) IHf (ed_imports d) [] [] s0) as (b' & m' & EF & LV & [XL1 XL2] & YL).
  - intros im Him. exact (HR name d im Hd Him).
  - intros id Hin. cbn [s0 imps alookup]. destruct (String.eqb (fst id) name); [discriminate|]. exact (H1 id Hin).
  - intros n i Hni Hi. destruct (String.eqb n name) eqn:En.
    + apply String.eqb_eq in En. subst n. rewrite N0 in Hni. injection Hni as <-. discriminate.
    + apply String.eqb_neq in En. rewrite (L0 n En) in Hni. exact (H2 n i Hni Hi).
  - intros n i Hni Hi. destruct (String.eqb n name) eqn:En.
    + apply String.eqb_eq in En. subst n. lia.
    + apply String.eqb_neq in En. rewrite (L0 n En) in Hni. pose proof (H3 n i Hni Hi). lia.
  - exact Ho.
  - rewrite EL. exact OL.
  - rewrite EL in *. cbn [fst snd] in *. injection EF as <- <-.
    assert (Hnc : forallb (fun kv => no_ctx (snd kv)) (ec_values E) = true).
    { cbn [E env_ctx ec_values]. apply MemoRelEnv_forallb_filter. exact (HN name d Hd). }
    destruct (expr_frame f E sb Hnc) as [Fm Fi].
    change (ec_base E) with base in Fm, Fi. change (ec_name E) with name in Fm, Fi.
    set (fin := snd (eval_expr W f E (EObj (ec_values E)) false base (name, []) sb)) in *.
    assert (Lb : forall m, m <> name -> alookup m (imps sb) = alookup m (imps sL)).
    { intros m Hm. cbn [sb imps alookup]. apply String.eqb_neq in Hm. now rewrite Hm. }
    split.
    + unfold env_post. split; [|split; [|split]].
      * intros m Hm. rewrite Fi, (Lb m Hm). destruct (XL1 m) as [Em|(Em & N)].
        -- left. rewrite Em. now apply L0.
        -- right. rewrite (L0 m Hm) in Em. split; [exact Em|]. unfold new_entry in *. rewrite Fi, (Lb m Hm). exact N.
      * rewrite Fi. cbn [sb imps alookup]. now rewrite String.eqb_refl.
      * intros id Hin. destruct (String.eqb (fst id) name) eqn:Eid.
        -- apply String.eqb_eq in Eid. right. now rewrite Eid.
        -- apply String.eqb_neq in Eid. rewrite (Fm id Eid) in Hin. cbn [sb memo] in Hin.
           destruct (XL2 id Hin) as [Hs|Hs]; [left; exact Hs|right; now rewrite <- (L0 _ Eid)].
      * intros id Hin. rewrite Fi. destruct (String.eqb (fst id) name) eqn:Eid.
        -- apply String.eqb_eq in Eid. rewrite Eid. cbn [sb imps alookup]. rewrite String.eqb_refl. discriminate.
        -- apply String.eqb_neq in Eid. rewrite (Fm id Eid) in Hin. cbn [sb memo] in Hin.
           rewrite (Lb _ Eid). exact (YL id Hin).
    + exists f, base, my, sb. split; [reflexivity|]. split; [exact LV|]. split; [|split; [exact OL|]].
      2:{ unfold bind. cbn [imps_set fst snd]. fold s0. rewrite EL. reflexivity. }
      intros p. cbn [sb memo]. destruct (memo_get (name, p) (memo sL)) eqn:Em; [|reflexivity]. exfalso.
      destruct (XL2 (name, p)) as [Hs|Hs]; [rewrite Em; discriminate| |].
      * cbn [s0 memo] in Hs. apply (H1 _ Hs). exact Hn.
      * cbn [fst] in Hs. rewrite N0 in Hs. discriminate.
Qed.

(* ---------------- sound values are unique ---------------- *)
Lemma Sound_unique_rank : forall k n, rank n < k -> forall v v', Sound n v -> Sound n v' -> v = v'.
Proof.
  induction k as [|k IH]; intros n Hk v v' Hv Hv'; [lia|].
  destruct Hv as [n d f1 r1 s1 Hd Hn1 A1 A2 A3 O1 F1]. destruct Hv' as [n d' f2 r2 s2 Hd' Hn2 B1 B2 B3 O2 F2].
  assert (d' = d) by congruence. subst d'.
  set (M := Nat.max f1 f2).
  assert (E1 : eval_env W M r1 n d s1 = eval_env W f1 r1 n d s1)
    by (apply EvalTotalBase.fuel_monotone_env; [lia|exact O1|exact F1]).
  assert (E2 : eval_env W M r2 n d s2 = eval_env W f2 r2 n d s2)
    by (apply EvalTotalBase.fuel_monotone_env; [lia|exact O2|exact F2]).
  rewrite <- E1, <- E2. rewrite <- E1 in F1. rewrite <- E2 in F2.
  destruct (env_sound M r1 n d s1 Hd Hn1 A1 A2 A3 O1 F1) as (_ & f' & base & my & sm1 & EM & LV1 & Fr1 & _ & Q1).
  destruct (env_sound M r2 n d s2 Hd Hn2 B1 B2 B3 O2 F2) as (_ & f'' & base' & my' & sm2 & EM' & LV2 & Fr2 & _ & Q2).
  assert (f'' = f') by lia. subst f''.
  destruct (LoopVals_det (ed_imports d) [] [] base my base' my') as [-> ->]; [|exact LV1|exact LV2|].
  { intros im w w' Him. apply IH. pose proof (HR n d im Hd Him). lia. }
  rewrite Q1, Q2.
  pose proof (proj1 (eval_two_runs W W (fun m => m = n) (fun _ => False) sm1 sm2 HF HF eq_refl eq_refl eq_refl
                       (fun _ _ _ => eq_refl) f')) as HP.
  assert (HE : E_sim (fun m => m = n) (env_ctx W (root_of r1 n) n d base' my') (env_ctx W (root_of r2 n) n d base' my')).
  { constructor; cbn [env_ctx ec_name ec_values ec_base ec_imports]; auto.
    apply MemoRelEnv_forallb_filter. exact (HN n d Hd). }
  assert (Hx : no_ctx (EObj (ec_values (env_ctx W (root_of r1 n) n d base' my'))) = true).
  { cbn [no_ctx env_ctx ec_values]. apply MemoRelEnv_forallb_filter. exact (HN n d Hd). }
  assert (Ev : forall r0, ec_values (env_ctx W r0 n d base' my') = filter (fun kv => negb (reserved (fst kv))) (ed_values d))
    by reflexivity.
  rewrite !Ev in *.
  destruct (HP _ _ (EObj (filter (fun kv => negb (reserved (fst kv))) (ed_values d))) false base' (n, []) HE eq_refl Hx sm1 sm2) as [E _].
  - apply srel_start. split; [|intros m []].
    intros [m p] Hm. cbn [fst] in Hm. subst m. now rewrite Fr1, Fr2.
  - exact E.
Qed.

Theorem Sound_unique n v v' : Sound n v -> Sound n v' -> v = v'.
Proof. apply (Sound_unique_rank (S (rank n))). lia. Qed.

(* ---------------- consequences ---------------- *)
Lemma inv_st0 : I1 st0 /\ I2 Sound st0 /\ (forall r, I3 st0 r).
Proof.
  split; [intros id H; now elim H|]. split; [intros m i H; discriminate H|intros r m i H; discriminate H].
Qed.

(* opening an environment on its own is a sound evaluation *)
Lemma standalone_sound (fuel : nat) (root X : string) (dX : envdef) :
  env_of W X = Some dX -> oof (snd (eval_env W fuel root X dX st0)) = false ->
  Sound X (fst (eval_env W fuel root X dX st0)).
Proof.
  intros Hd Ho. destruct inv_st0 as (A1 & A2 & A3). apply Sound_intro; auto.
Qed.

(* every table entry a run from the initial state leaves behind is sound *)
Lemma table_sound (fuel : nat) (root R : string) (dR : envdef) (X : string) (i : imp_state) :
  env_of W R = Some dR -> X <> R -> oof (snd (eval_env W fuel root R dR st0)) = false ->
  alookup X (imps (snd (eval_env W fuel root R dR st0))) = Some i ->
  (exists v, i = done v /\ Sound X v) \/ (env_of W X = None /\ i = failed_imp).
Proof.
  intros Hd Hne Ho Hi. destruct inv_st0 as (A1 & A2 & A3).
  destruct (env_sound fuel root R dR st0 Hd eq_refl A1 A2 (A3 _) eq_refl Ho) as ((Q1 & _) & _).
  destruct (Q1 X Hne) as [Q|(_ & [(v & Q & Sv)|(Hx & Q)])].
  - rewrite Q in Hi. discriminate.
  - rewrite Q in Hi. injection Hi as <-. left. exists v. split; [reflexivity|exact Sv].
  - rewrite Q in Hi. injection Hi as <-. right. split; [exact Hx|reflexivity].
Qed.

Theorem imported_same_everywhere (fuel fuel' : nat) (root root' R X : string) (dR dX : envdef) (i : imp_state) :
  env_of W R = Some dR -> env_of W X = Some dX -> X <> R ->
  oof (snd (eval_env W fuel root R dR st0)) = false -> oof (snd (eval_env W fuel' root' X dX st0)) = false ->
  alookup X (imps (snd (eval_env W fuel root R dR st0))) = Some i ->
  is_value i = Some (fst (eval_env W fuel' root' X dX st0)).
Proof.
  intros HdR HdX Hne Ho Ho' Hi.
  destruct (table_sound fuel root R dR X i HdR Hne Ho Hi) as [(v & -> & Sv)|(Hx & _)]; [|congruence].
  cbn [done is_value]. f_equal. apply (Sound_unique X); [exact Sv|now apply standalone_sound].
Qed.

(* the same from ANY admissible incoming state, e.g. in the middle of another run *)
Theorem sound_state_independent (f f' : nat) (r r' X : string) (d : envdef) (s s' : st) :
  env_of W X = Some d ->
  alookup X (imps s) = None -> I1 s -> I2 Sound s -> I3 s (S (rank X)) -> oof s = false ->
  alookup X (imps s') = None -> I1 s' -> I2 Sound s' -> I3 s' (S (rank X)) -> oof s' = false ->
  oof (snd (eval_env W f r X d s)) = false -> oof (snd (eval_env W f' r' X d s')) = false ->
  fst (eval_env W f r X d s) = fst (eval_env W f' r' X d s').
Proof. intros. apply (Sound_unique X); apply Sound_intro; assumption. Qed.
End SOUND.
